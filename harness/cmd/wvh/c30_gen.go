package main

import (
	"fmt"
	"math/rand"
	"regexp"
	"strconv"
	"strings"
	"time"

	"github.com/pion/webrtc/v4"
)

// ---------------------------------------------------------------------------------------------
// bases: descriptions produced by real PeerConnections, normalised so that op lines are reproducible

type c30Base struct {
	name string
	typ  string // offer | answer
	mode int    // local configuration the description fits (answers: the offerer's mode)
	sdp  string
}

var (
	c30ReUfrag = regexp.MustCompile(`a=ice-ufrag:\S+`)
	c30RePwd   = regexp.MustCompile(`a=ice-pwd:\S+`)
	c30ReFP    = regexp.MustCompile(`a=fingerprint:\S+ \S+`)
	c30ReOrig  = regexp.MustCompile(`(?m)^o=- \d+ \d+ `)
	c30ReSsrc  = regexp.MustCompile(`\b\d{6,10}\b`)
	c30ReCand  = regexp.MustCompile(`(?m)^a=candidate:.*\r?\n`)
)

// c30Normalise replaces the random parts of a generated description by fixed values.
func c30Normalise(s string) string {
	s = c30ReUfrag.ReplaceAllString(s, "a=ice-ufrag:pionufrag")
	s = c30RePwd.ReplaceAllString(s, "a=ice-pwd:pionpasswordpionpasswordpionpass")
	s = c30ReFP.ReplaceAllString(s, c30FP)
	s = c30ReOrig.ReplaceAllString(s, "o=- 7215775240449105457 1700000000 ")
	n := 0
	s = c30ReCand.ReplaceAllStringFunc(s, func(string) string {
		n++
		if n > 2 {
			return ""
		}

		return fmt.Sprintf("a=candidate:1 %d udp 2130706431 127.0.0.1 50010 typ host\r\n", n)
	})
	ids := map[string]int{}
	s = c30ReSsrc.ReplaceAllStringFunc(s, func(m string) string {
		if m == "2130706431" || m == "1700000000" {
			return m
		}
		if _, ok := ids[m]; !ok {
			ids[m] = 7001 + len(ids)
		}

		return strconv.Itoa(ids[m])
	})

	return s
}

func c30WaitGather(pc *webrtc.PeerConnection, fn func() error) error {
	g := webrtc.GatheringCompletePromise(pc)
	if err := fn(); err != nil {
		return err
	}
	select {
	case <-g:
	case <-time.After(5 * time.Second):
	}

	return nil
}

// c30PionBases generates offers and answers with real PeerConnections under the three semantics.
func c30PionBases() []c30Base {
	out := []c30Base{}
	for sem := 0; sem < 3; sem++ {
		for _, mode := range []int{c30ModeTracks | c30ModeData, c30ModeTracks, c30ModeData} {
			a, err := c30NewPC(sem, mode)
			if err != nil {
				continue
			}
			b, err := c30NewPC(sem, mode)
			if err != nil {
				_ = a.Close()

				continue
			}
			func() {
				defer a.Close() //nolint:errcheck
				defer b.Close() //nolint:errcheck
				offer, err := a.CreateOffer(nil)
				if err != nil {
					return
				}
				if c30WaitGather(a, func() error { return a.SetLocalDescription(offer) }) != nil {
					return
				}
				o := a.LocalDescription().SDP
				out = append(out, c30Base{fmt.Sprintf("pion-offer-sem%d-mode%d", sem, mode), "offer", mode, c30Normalise(o)})
				if b.SetRemoteDescription(*a.LocalDescription()) != nil {
					return
				}
				ans, err := b.CreateAnswer(nil)
				if err != nil {
					return
				}
				if c30WaitGather(b, func() error { return b.SetLocalDescription(ans) }) != nil {
					return
				}
				out = append(out, c30Base{
					fmt.Sprintf("pion-answer-sem%d-mode%d", sem, mode), "answer", mode,
					c30Normalise(b.LocalDescription().SDP),
				})
			}()
		}
	}

	return out
}

func c30BrowserBases() []c30Base {
	return []c30Base{
		{"chrome-unified", "offer", 0, c30ChromeUnified},
		{"chrome-simulcast", "offer", 0, c30ChromeSimulcast},
		{"chrome-planb", "offer", 0, c30ChromePlanB},
		{"firefox", "offer", 0, c30Firefox},
		{"planb-simulcast", "offer", 0, c30PlanBSimulcast},
	}
}

// ---------------------------------------------------------------------------------------------
// the mutator (line level, grammar aware)

var c30Numbers = []string{
	"0", "-1", "1", "255", "256", "65535", "65536", "2147483648", "4294967295", "4294967296",
	"18446744073709551615", "18446744073709551616", "99999999999999999999999999", "", "+5", "0x10", "1e3", " ",
}

var c30WeirdLines = []string{
	"a=ssrc:", "a=ssrc: ", "a=ssrc:abc", "a=ssrc:1", "a=ssrc:1 ", "a=ssrc:1 msid:", "a=ssrc:1 msid:a", "a=ssrc:1 msid:a b",
	"a=ssrc:1 msid:a b c", "a=ssrc:4294967296 msid:a b", "a=ssrc:-1 cname:x", "a=ssrc:0 msid:s t", "a=ssrc:1  msid:a b",
	"a=ssrc-group:", "a=ssrc-group: ", "a=ssrc-group:FID", "a=ssrc-group:FID ", "a=ssrc-group:FID 1", "a=ssrc-group:FID 1 2",
	"a=ssrc-group:FID 1 2 3", "a=ssrc-group:FID x y", "a=ssrc-group:FID 1 y", "a=ssrc-group:FID 1 1", "a=ssrc-group:FID 2 1",
	"a=ssrc-group:FEC-FR 1 2", "a=ssrc-group:FEC-FR 1", "a=ssrc-group:FEC-FR a b", "a=ssrc-group:FEC-FR 1 1",
	"a=ssrc-group:SIM 1 2 3", "a=ssrc-group:FID 4294967296 1", "a=ssrc-group:FID 1 4294967296",
	"a=msid:", "a=msid: ", "a=msid:a", "a=msid:a b", "a=msid:a b c", "a=msid:- t", "a=msid:  ", "a=msid",
	"a=rid:", "a=rid: ", "a=rid:q", "a=rid:q send", "a=rid:h send", "a=rid:f recv", "a=rid:q send pt=96", "a=rid:~q send", "a=rid",
	"a=simulcast:", "a=simulcast: ", "a=simulcast:send", "a=simulcast:send ", "a=simulcast:send q;h", "a=simulcast:send ~q;~h",
	"a=simulcast:send ;;", "a=simulcast:send ~", "a=simulcast:send q;h recv f", "a=simulcast: send q", "a=simulcast:~q",
	"a=simulcast:send q,h;f", "a=simulcast",
	"a=mid:", "a=mid: ", "a=mid:audio", "a=mid:video", "a=mid:data", "a=mid:VIDEO", "a=mid:0", "a=mid:1", "a=mid:2", "a=mid",
	"a=mid:" + strings.Repeat("m", 300),
	"a=sendrecv", "a=sendonly", "a=recvonly", "a=inactive", "a=sendrecv:x",
	"a=candidate:", "a=candidate: ", "a=candidate:1", "a=candidate:1 1 udp 1 127.0.0.1 1 typ host",
	"a=candidate:1 1 udp 1 127.0.0.1 1 typ", "a=candidate:1 1 udp 1 127.0.0.1 1 typ foo", "a=candidate:1 1 xyz 1 127.0.0.1 1 typ host",
	"a=candidate:1 1 udp 1 127.0.0.1 65536 typ host", "a=candidate:1 1 udp 1 127.0.0.1 -1 typ host",
	"a=candidate:1 1 udp 99999999999 127.0.0.1 1 typ host", "a=candidate:1 1 udp 1 not-an-ip 1 typ host",
	"a=candidate:1 1 udp 1 abcdef.local 1 typ host", "a=candidate:1 1 udp 1 ::1 1 typ host", "a=candidate:1 1 tcp 1 127.0.0.1 9 typ host tcptype active",
	"a=candidate:1 1 tcp 1 127.0.0.1 9 typ host tcptype", "a=candidate:1 1 udp 1 1.2.3.4 5 typ srflx raddr 0.0.0.0 rport 0",
	"a=candidate:1 1 udp 1 1.2.3.4 5 typ srflx raddr", "a=candidate:1 1 udp 1 1.2.3.4 5 typ relay raddr 1.1.1.1 rport 99999",
	"a=candidate:1 1 udp 1 1.2.3.4 5 typ host ufrag", "a=candidate:1 1 udp 1 1.2.3.4 5 typ host generation",
	"a=candidate:1 256 udp 1 1.2.3.4 5 typ host", "a=candidate:1 0 udp 1 1.2.3.4 5 typ host", "a=end-of-candidates",
	"a=group:BUNDLE", "a=group:BUNDLE ", "a=group:BUNDLE  0", "a=group:BUNDLEx", "a=group:BUNDLE nope", "a=group:LS 0 1", "a=group:",
	"a=group:BUNDLE 0 0", "a=group:BUNDLE 1", "a=group:BUNDLE audio", "a=group:xBUNDLE 0", "a=group",
	"a=fingerprint:", "a=fingerprint: ", "a=fingerprint:sha-256", "a=fingerprint:sha-256 ", "a=fingerprint:sha-256 AA BB",
	"a=fingerprint:sha-256 zz", "a=fingerprint:md5 00", "a=fingerprint: AA", "a=fingerprint",
	"a=ice-ufrag:", "a=ice-pwd:", "a=ice-ufrag: ", "a=ice-ufrag:x", "a=ice-pwd:y", "a=ice-lite", "a=ice-lite:1", "a=ice-options:",
	"a=ice-options:trickle renomination", "a=ice-options: trickle",
	"a=setup:", "a=setup:active", "a=setup:passive", "a=setup:actpass", "a=setup:holdconn", "a=setup:foo",
	"a=extmap:", "a=extmap: ", "a=extmap:0", "a=extmap:1", "a=extmap:1 ", "a=extmap:abc uri:x", "a=extmap:1/sendonly uri:x",
	"a=extmap:1/bogus uri:x", "a=extmap:99999999999999999999 uri:x", "a=extmap:-1 uri:x", "a=extmap:256 uri:x", "a=extmap:15 uri:x",
	"a=extmap:1 :", "a=extmap:1 %zz", "a=extmap:1 urn:ietf:params:rtp-hdrext:sdes:mid", "a=extmap:2 urn:ietf:params:rtp-hdrext:sdes:mid",
	"a=extmap:1 urn:ietf:params:rtp-hdrext:sdes:rtp-stream-id", "a=extmap-allow-mixed", "a=extmap:1 http://[::1", "a=extmap:4 urn:x y z",
	"a=rtpmap:", "a=rtpmap: ", "a=rtpmap:96", "a=rtpmap:96 ", "a=rtpmap:96 VP8", "a=rtpmap:96 VP8/", "a=rtpmap:96 VP8/abc",
	"a=rtpmap:96 /90000", "a=rtpmap:96 VP8/90000/", "a=rtpmap:96 VP8/90000/x/y", "a=rtpmap:abc VP8/90000", "a=rtpmap:256 VP8/90000",
	"a=rtpmap:-1 VP8/90000", "a=rtpmap:96 VP8/99999999999", "a=rtpmap:111 opus/48000/65536", "a=rtpmap:111 opus/48000/-2",
	"a=rtpmap:96 rtx/90000", "a=rtpmap:0 VP8/90000", "a=rtpmap:96 opus/48000/2", "a=rtpmap:111 VP8/90000",
	"a=fmtp:", "a=fmtp: ", "a=fmtp:96", "a=fmtp:96 ", "a=fmtp:abc x=1", "a=fmtp:97 apt=", "a=fmtp:97 apt=999", "a=fmtp:97 apt=97",
	"a=fmtp:97 apt=-1", "a=fmtp:97 apt=abc", "a=fmtp:97 apt=96;apt=98", "a=fmtp:96 apt=97", "a=fmtp:97 APT=96", "a=fmtp:96 ;;;=;",
	"a=fmtp:96 profile-level-id=zz", "a=fmtp:102 profile-level-id=", "a=fmtp:102 packetization-mode=99999999999",
	"a=rtcp-fb:", "a=rtcp-fb: ", "a=rtcp-fb:96", "a=rtcp-fb:96 ", "a=rtcp-fb:* nack", "a=rtcp-fb:96 nack pli extra", "a=rtcp-fb:abc nack",
	"a=rtcp-fb:96  nack", "a=rtcp-fb:256 nack",
	"a=sctp-port:", "a=sctp-port:0", "a=sctp-port:99999", "a=sctp-port:abc", "a=sctpmap:5000 webrtc-datachannel 1024", "a=sctpmap:",
	"a=max-message-size:", "a=max-message-size:0", "a=max-message-size:1", "a=max-message-size:4294967295", "a=max-message-size:4294967296",
	"a=max-message-size:-1", "a=sctp-init:", "a=sctp-init:!!!!", "a=sctp-init:AAAA", "a=sctp-init:AQAAAA==",
	"a=bundle-only", "a=rtcp-mux", "a=rtcp-rsize", "a=rtcp:9 IN IP4 0.0.0.0", "a=rtcp:", "a=msid-semantic:", "a=msid-semantic: WMS *",
	"a=identity:x", "a=", "a", "a=:", "a=:x", "a= :x", "a=x:", "=", "x=1", "", " ", "\t", "a=mid:0\ra=mid:1",
	"c=IN IP4", "c=", "c=IN IP6 ::", "c=IN IP4 0.0.0.0/127/2", "b=AS:0", "b=AS:-1", "b=:", "b=TIAS:99999999999999999999", "i=", "k=prompt",
	"t=0 0", "t=", "t=a b", "s=", "s= ", "v=0", "v=1", "v=", "o=", "o=- 0 0 IN IP4", "o=- a b IN IP4 0.0.0.0", "o=- 99999999999999999999 1 IN IP4 0.0.0.0",
	"r=0 0 0", "z=0 0", "u=http://x", "e=x", "p=1",
	"m=", "m=audio", "m=audio 9", "m=audio 9 UDP/TLS/RTP/SAVPF", "m=audio 9 UDP/TLS/RTP/SAVPF 111", "m=video 9 UDP/TLS/RTP/SAVPF 96 97",
	"m=video 0 UDP/TLS/RTP/SAVPF 96", "m=video 9 RTP/AVP 96", "m=video 9 UDP/TLS/RTP/SAVPF abc", "m=video 9 UDP/TLS/RTP/SAVPF 256",
	"m=video 9 UDP/TLS/RTP/SAVPF -1", "m=video 9 UDP/TLS/RTP/SAVPF 96 96 96", "m=video 9 UDP/TLS/RTP/SAVPF 0", "m=video 99999 UDP/TLS/RTP/SAVPF 96",
	"m=video 9/2 UDP/TLS/RTP/SAVPF 96", "m=video 9/x UDP/TLS/RTP/SAVPF 96", "m=text 9 UDP/TLS/RTP/SAVPF 96", "m=message 9 TCP/MSRP *",
	"m=image 9 udptl t38", "m=foo 9 UDP/TLS/RTP/SAVPF 96", "m=VIDEO 9 UDP/TLS/RTP/SAVPF 96", "m=Audio 9 UDP/TLS/RTP/SAVPF 111",
	"m=application 9 UDP/DTLS/SCTP webrtc-datachannel", "m=application 0 UDP/DTLS/SCTP webrtc-datachannel", "m=application 9 DTLS/SCTP 5000",
	"m=application 9 UDP/DTLS/SCTP", "m=application 9 UDP/DTLS/SCTP 1 2 3", "m=application 9 UDP/TLS/RTP/SAVPF 96",
}

var c30MediaNames = []string{"audio", "video", "application", "text", "message", "image", "foo", "VIDEO", "Audio", "data", ""}

func c30IsNum(s string) bool {
	if s == "" {
		return false
	}
	for _, c := range s {
		if c < '0' || c > '9' {
			return false
		}
	}

	return true
}

var c30NumRe = regexp.MustCompile(`\d+`)

// c30Mutate applies n grammar-aware mutations to the lines of an SDP; returns the text and the mutation kinds.
func c30Mutate(r *rand.Rand, sdp string, n int) (string, []string) {
	lines := strings.Split(strings.TrimRight(strings.ReplaceAll(sdp, "\r\n", "\n"), "\n"), "\n")
	kinds := []string{}
	pick := func() int { return r.Intn(len(lines)) }
	mIdx := func() []int {
		out := []int{}
		for i, l := range lines {
			if strings.HasPrefix(l, "m=") {
				out = append(out, i)
			}
		}

		return out
	}
	insertAt := func(i int, l ...string) {
		lines = append(lines[:i], append(append([]string{}, l...), lines[i:]...)...)
	}
	// a random position inside a random media section (or anywhere when there is none)
	inSection := func() int {
		ms := mIdx()
		if len(ms) == 0 {
			return r.Intn(len(lines) + 1)
		}
		k := r.Intn(len(ms))
		lo := ms[k] + 1
		hi := len(lines)
		if k+1 < len(ms) {
			hi = ms[k+1]
		}

		return lo + r.Intn(hi-lo+1)
	}
	for it := 0; it < n; it++ {
		if len(lines) == 0 {
			lines = []string{"v=0"}
		}
		switch k := r.Intn(32); k {
		case 0:
			kinds = append(kinds, "drop")
			i := pick()
			lines = append(lines[:i], lines[i+1:]...)
		case 1:
			kinds = append(kinds, "dup")
			i := pick()
			insertAt(i, lines[i])
		case 2:
			kinds = append(kinds, "truncate")
			i := pick()
			if len(lines[i]) > 0 {
				lines[i] = lines[i][:r.Intn(len(lines[i]))]
			}
		case 3:
			kinds = append(kinds, "swap")
			i, j := pick(), pick()
			lines[i], lines[j] = lines[j], lines[i]
		case 4, 5, 6:
			kinds = append(kinds, "number")
			// rewrite one number of one line
			for try := 0; try < 8; try++ {
				i := pick()
				locs := c30NumRe.FindAllStringIndex(lines[i], -1)
				if len(locs) == 0 {
					continue
				}
				loc := locs[r.Intn(len(locs))]
				lines[i] = lines[i][:loc[0]] + c30Numbers[r.Intn(len(c30Numbers))] + lines[i][loc[1]:]

				break
			}
		case 7:
			kinds = append(kinds, "empty-token")
			i := pick()
			f := strings.Split(lines[i], " ")
			if len(f) > 1 {
				f[1+r.Intn(len(f)-1)] = ""
				lines[i] = strings.Join(f, " ")
			} else if j := strings.Index(lines[i], ":"); j >= 0 {
				lines[i] = lines[i][:j+1]
			}
		case 8, 9, 10:
			kinds = append(kinds, "weird-line")
			at := inSection()
			if ms := mIdx(); r.Intn(4) == 0 && len(ms) > 0 { // session level
				at = r.Intn(ms[0] + 1)
			}
			insertAt(at, c30WeirdLines[r.Intn(len(c30WeirdLines))])
		case 11, 12:
			// replace an existing line of the same attribute by a weird one (or insert it when there is none)
			kinds = append(kinds, "same-key")
			w := c30WeirdLines[r.Intn(len(c30WeirdLines))]
			key := w
			if j := strings.IndexAny(w, ": "); j >= 0 {
				key = w[:j]
			}
			same := []int{}
			for i, l := range lines {
				if l == key || strings.HasPrefix(l, key+":") || strings.HasPrefix(l, key+" ") {
					same = append(same, i)
				}
			}
			if len(same) > 0 && len(key) > 1 {
				lines[same[r.Intn(len(same))]] = w
			} else {
				insertAt(inSection(), w)
			}
		case 27, 28:
			// copy an attribute line to the other level (media → session or session → media), sometimes altered
			kinds = append(kinds, "hoist")
			ms := mIdx()
			if len(ms) > 0 {
				var src, dst int
				if r.Intn(3) != 0 && ms[0] < len(lines)-1 {
					src = ms[0] + 1 + r.Intn(len(lines)-ms[0]-1)
					dst = r.Intn(ms[0] + 1)
				} else {
					src = r.Intn(ms[0] + 1)
					dst = inSection()
				}
				l := lines[src]
				if strings.HasPrefix(l, "a=") {
					if j := strings.Index(l, ":"); j >= 0 && r.Intn(2) == 0 {
						switch r.Intn(3) {
						case 0:
							l = l[:j+1] + "x" + l[j+1:]
						case 1:
							l = l[:j+1] + c30Numbers[r.Intn(len(c30Numbers))]
						default:
							l = l[:j+1]
						}
					}
					insertAt(dst, l)
				}
			}
		case 29, 30:
			// msid forms (0/1/2/3 tokens, empty, trailing space), usually with the a=ssrc / a=rid lines stripped:
			// the undeclared-SSRC path reads a=msid only then
			kinds = append(kinds, "msid-forms")
			forms := []string{"a=msid:", "a=msid: ", "a=msid:s", "a=msid:s ", "a=msid:s t", "a=msid:s t u", "a=msid: t", "a=msid:s  t", "a=msid"}
			strip := r.Intn(4) != 0
			out := lines[:0]
			seen := false
			for _, l := range lines {
				if strip && (strings.HasPrefix(l, "a=ssrc") || strings.HasPrefix(l, "a=rid") || strings.HasPrefix(l, "a=simulcast")) {
					continue
				}
				if strings.HasPrefix(l, "a=msid:") {
					seen = true
					l = forms[r.Intn(len(forms))]
				}
				out = append(out, l)
			}
			lines = out
			if !seen {
				insertAt(inSection(), forms[r.Intn(len(forms))])
			}
		case 31:
			// keep a single media section (handleIncomingSSRC's shortcut applies to such descriptions only)
			kinds = append(kinds, "single-section")
			ms := mIdx()
			if len(ms) > 1 {
				k := r.Intn(len(ms))
				hi := len(lines)
				if k+1 < len(ms) {
					hi = ms[k+1]
				}
				sec := append([]string{}, lines[ms[k]:hi]...)
				lines = append(append([]string{}, lines[:ms[0]]...), sec...)
			}
		case 24, 25:
			// token level: duplicate / append / drop a token of one line
			kinds = append(kinds, "token")
			i := pick()
			f := strings.Split(lines[i], " ")
			switch r.Intn(4) {
			case 0:
				f = append(f, f[len(f)-1])
			case 1:
				f = append(f, []string{"x", "0", "", "1 2"}[r.Intn(4)])
			case 2:
				if len(f) > 1 {
					f = f[:len(f)-1]
				}
			default:
				if len(f) > 2 {
					k := 1 + r.Intn(len(f)-1)
					f = append(f[:k], f[k+1:]...)
				}
			}
			lines[i] = strings.Join(f, " ")
		case 13:
			kinds = append(kinds, "replace-line")
			lines[pick()] = c30WeirdLines[r.Intn(len(c30WeirdLines))]
		case 14:
			kinds = append(kinds, "mid")
			// duplicate / Plan-B / missing mids
			mids := []int{}
			for i, l := range lines {
				if strings.HasPrefix(l, "a=mid:") {
					mids = append(mids, i)
				}
			}
			if len(mids) > 0 {
				i := mids[r.Intn(len(mids))]
				switch r.Intn(4) {
				case 0:
					lines[i] = lines[mids[r.Intn(len(mids))]]
				case 1:
					lines[i] = "a=mid:" + []string{"audio", "video", "data", "Audio", "VIDEO"}[r.Intn(5)]
				case 2:
					lines = append(lines[:i], lines[i+1:]...)
				default:
					lines[i] = "a=mid:" + c30Numbers[r.Intn(len(c30Numbers))]
				}
			}
		case 15:
			kinds = append(kinds, "media-name")
			ms := mIdx()
			if len(ms) > 0 {
				i := ms[r.Intn(len(ms))]
				f := strings.SplitN(lines[i][2:], " ", 2)
				rest := ""
				if len(f) > 1 {
					rest = " " + f[1]
				}
				lines[i] = "m=" + c30MediaNames[r.Intn(len(c30MediaNames))] + rest
			}
		case 16:
			kinds = append(kinds, "planb-multi-ssrc")
			at := inSection()
			nsrc := 1 + r.Intn(4)
			add := []string{}
			for s := 0; s < nsrc; s++ {
				base := 9000 + 10*r.Intn(5)
				st, tr := fmt.Sprintf("st%d", r.Intn(3)), fmt.Sprintf("tr%d", r.Intn(4))
				if r.Intn(2) == 0 {
					add = append(add, fmt.Sprintf("a=ssrc-group:FID %d %d", base, base+1))
				}
				if r.Intn(4) == 0 {
					add = append(add, fmt.Sprintf("a=ssrc-group:FEC-FR %d %d", base, base+2))
				}
				add = append(add, fmt.Sprintf("a=ssrc:%d cname:c", base), fmt.Sprintf("a=ssrc:%d msid:%s %s", base, st, tr))
				if r.Intn(2) == 0 {
					add = append(add, fmt.Sprintf("a=ssrc:%d msid:%s %s", base+1, st, tr))
				}
				if r.Intn(3) == 0 { // group after the sources it names
					add = append(add, fmt.Sprintf("a=ssrc-group:FID %d %d", base, base+1))
				}
			}
			insertAt(at, add...)
		case 17:
			kinds = append(kinds, "simulcast")
			at := inSection()
			add := []string{}
			if r.Intn(2) == 0 {
				add = append(add, "a=msid:sims simt")
			}
			for _, rid := range []string{"q", "h", "f"}[:1+r.Intn(3)] {
				add = append(add, "a=rid:"+rid+" "+[]string{"send", "recv", "", "send pt=96"}[r.Intn(4)])
			}
			add = append(add, "a=simulcast:"+[]string{"send q;h;f", "send q;~h", "recv q", "send ~q;~h;~f", "send", ""}[r.Intn(6)])
			insertAt(at, add...)
		case 18:
			kinds = append(kinds, "strip-ssrc")
			out := lines[:0]
			for _, l := range lines {
				if !strings.HasPrefix(l, "a=ssrc") {
					out = append(out, l)
				}
			}
			lines = out
		case 19:
			kinds = append(kinds, "formats")
			ms := mIdx()
			if len(ms) > 0 {
				i := ms[r.Intn(len(ms))]
				f := strings.Fields(lines[i])
				if len(f) > 3 {
					switch r.Intn(5) {
					case 0:
						f = f[:3]
					case 1:
						f = append(f, f[3])
					case 2:
						f[3+r.Intn(len(f)-3)] = c30Numbers[r.Intn(len(c30Numbers))]
					case 3:
						f = append(f, "0")
					default:
						f = append(f[:3], "0")
					}
					lines[i] = strings.Join(f, " ")
				}
			}
		case 20:
			kinds = append(kinds, "direction")
			for i, l := range lines {
				if l == "a=sendrecv" || l == "a=sendonly" || l == "a=recvonly" || l == "a=inactive" {
					if r.Intn(2) == 0 {
						lines[i] = []string{"a=sendrecv", "a=sendonly", "a=recvonly", "a=inactive", "a=x"}[r.Intn(5)]
					}
				}
			}
		case 21:
			kinds = append(kinds, "dup-section")
			ms := mIdx()
			if len(ms) > 0 {
				k := r.Intn(len(ms))
				hi := len(lines)
				if k+1 < len(ms) {
					hi = ms[k+1]
				}
				sec := append([]string{}, lines[ms[k]:hi]...)
				lines = append(lines, sec...)
			}
		case 22:
			kinds = append(kinds, "drop-section-or-session")
			ms := mIdx()
			if len(ms) > 0 {
				if r.Intn(3) == 0 {
					lines = lines[ms[0]:] // no session part
				} else {
					k := r.Intn(len(ms))
					hi := len(lines)
					if k+1 < len(ms) {
						hi = ms[k+1]
					}
					lines = append(lines[:ms[k]], lines[hi:]...)
				}
			}
		default:
			kinds = append(kinds, "bytes")
			i := pick()
			b := []byte(lines[i])
			if len(b) > 0 {
				switch r.Intn(3) {
				case 0:
					b[r.Intn(len(b))] = byte(r.Intn(256))
				case 1:
					p := r.Intn(len(b))
					b = append(b[:p], append([]byte{byte(r.Intn(256))}, b[p:]...)...)
				default:
					p := r.Intn(len(b))
					b = append(b[:p], b[p+1:]...)
				}
				lines[i] = string(b)
			}
		}
	}
	eol := "\r\n"
	if r.Intn(12) == 0 {
		eol = "\n"
	}
	text := strings.Join(lines, eol)
	if r.Intn(15) != 0 {
		text += eol
	}

	return text, kinds
}

// candidate strings for AddICECandidate
var c30Candidates = []string{
	"candidate:1 1 udp 2130706431 127.0.0.1 50020 typ host",
	"candidate:2 1 udp 1694498815 1.2.3.4 50021 typ srflx raddr 0.0.0.0 rport 0",
	"candidate:3 1 udp 41885439 5.6.7.8 50022 typ relay raddr 1.2.3.4 rport 50021",
	"candidate:4 1 tcp 1518280447 127.0.0.1 9 typ host tcptype active",
	"candidate:5 1 tcp 1518214911 127.0.0.1 50023 typ host tcptype passive",
	"candidate:6 1 udp 2130706431 ::1 50024 typ host",
	"candidate:7 1 udp 2130706431 aabbccdd-1122-3344-5566-77889900aabb.local 50025 typ host",
	"candidate:8 1 udp 2130706431 127.0.0.1 50026 typ host generation 0 ufrag pionufrag network-id 1 network-cost 10",
	"candidate:9 1 udp 2130706431 127.0.0.1 50027 typ host ufrag otherufrag",
	"candidate:10 2 udp 2130706430 127.0.0.1 50028 typ host",
	"candidate:11 1 udp 1845501695 9.9.9.9 50029 typ prflx raddr 10.0.0.1 rport 5000",
	"1 1 udp 2130706431 127.0.0.1 50030 typ host",
	"", "candidate:", "candidate: ", "candidate", "candidate:candidate:1 1 udp 1 127.0.0.1 1 typ host",
	"candidate:1 1 udp 2130706431 127.0.0.1 50020 typ", "candidate:1 1 udp 2130706431 127.0.0.1 50020 typ foo",
	"candidate:1 1 xyz 2130706431 127.0.0.1 50020 typ host", "candidate:1 1 udp 2130706431 127.0.0.1 50020",
	"candidate:1 1 udp", "candidate:1", "candidate:1 1 udp 2130706431 not-an-address 50020 typ host",
	"candidate:1 1 udp 2130706431 127.0.0.1 50020 typ host ufrag", "candidate:1 1 udp 2130706431 127.0.0.1 50020 typ host  ",
	"candidate:1 1 tcp 1 127.0.0.1 9 typ host tcptype", "candidate:1 1 tcp 1 127.0.0.1 9 typ host tcptype bogus",
	"candidate:1 1 udp 1 1.2.3.4 5 typ srflx raddr", "candidate:1 1 udp 1 1.2.3.4 5 typ srflx raddr 1.1.1.1",
	"candidate:1 1 udp 1 1.2.3.4 5 typ srflx raddr 1.1.1.1 rport", "candidate:1 1 udp 1 1.2.3.4 5 typ srflx raddr 1.1.1.1 rport x",
	"candidate:1 1 udp 1 1.2.3.4 5 typ relay", "candidate:" + strings.Repeat("9", 400) + " 1 udp 1 1.2.3.4 5 typ host",
	"candidate:1 1 udp 1 1.2.3.4 5 typ host " + strings.Repeat("k v ", 200),
	"a=candidate:1 1 udp 1 1.2.3.4 5 typ host", "candidate:1 1 UDP 1 1.2.3.4 5 TYP HOST", "candidate:1\t1\tudp\t1\t1.2.3.4\t5\ttyp\thost",
	"candidate:1 1 udp 1 [::1] 5 typ host", "candidate:1 1 udp 1 fe80::1%eth0 5 typ host", "candidate:1 1 udp 1 0.0.0.0 0 typ host",
	"candidate:1 1 udp 1 255.255.255.255 65535 typ host", "candidate:1 1 ssltcp 1 1.2.3.4 5 typ host",
}

func c30MutCandidate(r *rand.Rand) string {
	c := c30Candidates[r.Intn(len(c30Candidates))]
	for n := r.Intn(3); n > 0; n-- {
		f := strings.Split(c, " ")
		switch r.Intn(5) {
		case 0:
			if locs := c30NumRe.FindAllStringIndex(c, -1); len(locs) > 0 {
				loc := locs[r.Intn(len(locs))]
				c = c[:loc[0]] + c30Numbers[r.Intn(len(c30Numbers))] + c[loc[1]:]
			}
		case 1:
			if len(f) > 1 {
				i := r.Intn(len(f))
				c = strings.Join(append(f[:i], f[i+1:]...), " ")
			}
		case 2:
			if len(f) > 1 {
				i := r.Intn(len(f))
				f[i] = ""
				c = strings.Join(f, " ")
			}
		case 3:
			if len(c) > 0 {
				c = c[:r.Intn(len(c))]
			}
		default:
			if len(f) > 1 {
				i, j := r.Intn(len(f)), r.Intn(len(f))
				f[i], f[j] = f[j], f[i]
				c = strings.Join(f, " ")
			}
		}
	}

	return c
}

// RTP packets
func c30RTPPacket(r *rand.Rand) []byte {
	pts := []byte{96, 97, 111, 0, 8, 127, 45, 102, 120}
	b := []byte{0x80, pts[r.Intn(len(pts))], byte(r.Intn(256)), byte(r.Intn(256)), 0, 0, 0, 1, 0, 0, 0x12, 0x34}
	if r.Intn(2) == 0 {
		b[1] |= 0x80
	}
	cc := 0
	if r.Intn(4) == 0 {
		cc = r.Intn(16)
		b[0] |= byte(cc)
		for i := 0; i < cc; i++ {
			b = append(b, 0, 0, 0, byte(i))
		}
	}
	if r.Intn(2) == 0 { // header extension
		b[0] |= 0x10
		if r.Intn(3) != 0 { // one-byte
			ext := []byte{}
			for n := r.Intn(4); n >= 0; n-- {
				id := 1 + r.Intn(14)
				l := 1 + r.Intn(8)
				ext = append(ext, byte(id<<4|(l-1)))
				for i := 0; i < l; i++ {
					ext = append(ext, byte('a'+r.Intn(26)))
				}
			}
			for len(ext)%4 != 0 {
				ext = append(ext, 0)
			}
			b = append(b, 0xBE, 0xDE, byte(len(ext)/4>>8), byte(len(ext)/4))
			b = append(b, ext...)
		} else { // two-byte
			ext := []byte{}
			for n := r.Intn(3); n >= 0; n-- {
				l := r.Intn(6)
				ext = append(ext, byte(1+r.Intn(20)), byte(l))
				for i := 0; i < l; i++ {
					ext = append(ext, byte('a'+r.Intn(26)))
				}
			}
			for len(ext)%4 != 0 {
				ext = append(ext, 0)
			}
			b = append(b, 0x10, 0x00, byte(len(ext)/4>>8), byte(len(ext)/4))
			b = append(b, ext...)
		}
	}
	pl := r.Intn(24)
	for i := 0; i < pl; i++ {
		b = append(b, byte(r.Intn(256)))
	}
	if r.Intn(5) == 0 {
		b[0] |= 0x20
		b = append(b, byte(r.Intn(8)))
	}
	// malformed stream
	switch r.Intn(8) {
	case 0:
		b = b[:r.Intn(len(b)+1)]
	case 1:
		b[r.Intn(len(b))] = byte(r.Intn(256))
	case 2:
		b[0] = byte(r.Intn(256))
	case 3:
		if len(b) > 16 {
			b[14], b[15] = 0xff, 0xff
		}
	}

	return b
}

// ---------------------------------------------------------------------------------------------

func c30Gen(c *Ctx) {
	r := c.Rng
	bases := append(c30BrowserBases(), c30PionBasesInWorker()...)
	modes := []int{
		0, c30ModeTracks, c30ModeTracks | c30ModeData, c30ModeData, c30ModeAudioOnl, c30ModeVideoOnl | c30ModeTracks,
		c30ModeAudioOnl | c30ModeVideoOnl, c30ModeTracks | c30ModeReoffer, c30ModeNoSettle, c30ModeLite, c30ModeTracks | c30ModeData | c30ModeNoSettle,
		c30ModeNoAnswer, c30ModeNoAnswer | c30ModeTracks,
	}
	emit := func(sem, mode int, cands []string, steps ...string) {
		sb := strings.Builder{}
		fmt.Fprintf(&sb, "s %d %d %d", sem, mode, len(cands))
		for _, cd := range cands {
			sb.WriteString(" " + hx([]byte(cd)))
		}
		for i := 0; i+1 < len(steps); i += 2 {
			sb.WriteString(" " + steps[i] + " " + hx([]byte(steps[i+1])))
		}
		c.Emit("%s", sb.String())
	}
	// 1. every base unmutated under every semantics (the mostly-valid anchor), with valid candidates
	for _, b := range bases {
		for sem := 0; sem < 3; sem++ {
			mode := b.mode
			emit(sem, mode, c30Candidates[:3], b.typ, b.sdp)
			emit(sem, mode|c30ModeAudioOnl, nil, b.typ, b.sdp)
		}
	}
	// 2. mutated descriptions
	n := c.N(2400, 16000)
	for i := 0; i < n; i++ {
		b := bases[r.Intn(len(bases))]
		sem := r.Intn(3)
		mode := modes[r.Intn(len(modes))]
		if b.typ == "answer" {
			mode = b.mode | (mode & (c30ModeNoSettle | c30ModeLite | c30ModeReoffer | c30ModeNoAnswer))
		}
		nm := 1
		if r.Intn(10) >= 3 {
			nm = 1 + r.Intn(4)
		}
		if r.Intn(40) == 0 {
			nm = 8 + r.Intn(20)
		}
		text, _ := c30Mutate(r, b.sdp, nm)
		cands := []string{}
		for k := r.Intn(4); k > 0; k-- {
			cands = append(cands, c30MutCandidate(r))
		}
		typ := b.typ
		switch r.Intn(40) {
		case 0:
			typ = "pranswer"
		case 1:
			typ = "rollback"
		case 2:
			typ = map[string]string{"offer": "answer", "answer": "offer"}[typ]
		}
		switch {
		case b.typ == "offer" && mode&c30ModeNoAnswer != 0:
			// have-remote-offer, then a second remote description (rollback, pranswer, answer or offer again)
			emit(sem, mode, cands, "offer", b.sdp, []string{"rollback", "rollback", "offer", "answer", "pranswer"}[r.Intn(5)], text)
		case b.typ == "offer" && r.Intn(8) == 0:
			// renegotiation: the pristine offer first, then the mutated one
			emit(sem, mode, cands, "offer", b.sdp, typ, text)
		case b.typ == "answer" && r.Intn(10) == 0:
			emit(sem, mode, cands, "pranswer", text, "answer", b.sdp)
		default:
			emit(sem, mode, cands, typ, text)
		}
	}
	// 3. candidate strings against a connection with a valid remote description
	pion := bases[0]
	if len(bases) > len(c30BrowserBases()) {
		pion = bases[len(c30BrowserBases())]
	}
	for i := 0; i < c.N(150, 2000); i++ {
		cands := []string{}
		for k := 4 + r.Intn(8); k > 0; k-- {
			cands = append(cands, c30MutCandidate(r))
		}
		emit(r.Intn(3), pion.mode, cands, pion.typ, pion.sdp)
	}
	// 4. RTP packets into the packet-inspecting helpers
	for i := 0; i < c.N(1500, 20000); i++ {
		c.Emit("rp %d %d %d %s", r.Intn(16), r.Intn(16), r.Intn(16), hx(c30RTPPacket(r)))
	}
	c30GenHelpers(c, bases)
	c30GenProbes(c, bases)
	c30GenPairs(c)
}
