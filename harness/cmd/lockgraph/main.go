// lockgraph — extracts the lock-acquisition order of package webrtc from /repo's current source
// (go/ast + go/types, no build) and emits it as a Lean file (property C40).
//
// For every function it walks the body in source order keeping the set of locks that may be held;
// a lock is identified by (owner struct type, field) — e.g. PeerConnection.mu — or by the variable
// for free-standing mutexes. An edge H → L is recorded when L is acquired (directly, or somewhere
// inside a statically resolved callee of the same package) while H is held. Function literals started
// with `go` or stored as callbacks are separate roots (they run on another goroutine / later).
//
//	lockgraph -repo /repo -lean out.lean -json out.json
package main

import (
	"encoding/json"
	"flag"
	"fmt"
	"go/ast"
	"go/parser"
	"go/token"
	"go/types"
	"os"
	"path/filepath"
	"sort"
	"strings"
)

const modulePath = "github.com/pion/webrtc/v4"

type fakeImporter struct {
	cache map[string]*types.Package
	repo  string
	fset  *token.FileSet
	info  *types.Info
	// files of the module's packages that were loaded from source, in load order
	loaded []*loadedPkg
	busy   map[string]bool
}

type loadedPkg struct {
	path  string
	name  string
	files []*ast.File
}

// goFiles parses the non-test, non-js, non-verif files of dir.
func goFiles(fset *token.FileSet, dir string) []*ast.File {
	files := []*ast.File{}
	matches, _ := filepath.Glob(filepath.Join(dir, "*.go"))
	sort.Strings(matches)
	for _, m := range matches {
		base := filepath.Base(m)
		if strings.HasSuffix(base, "_test.go") || strings.HasSuffix(base, "_js.go") || strings.HasPrefix(base, "verif_") ||
			base == "js_utils.go" {
			continue
		}
		f, err := parser.ParseFile(fset, m, nil, parser.SkipObjectResolution)
		if err != nil {
			fmt.Fprintln(os.Stderr, err)
			os.Exit(2)
		}
		// honour //go:build js files
		skip := false
		for _, cg := range f.Comments {
			if cg.Pos() > f.Package {
				break
			}
			for _, c := range cg.List {
				if strings.HasPrefix(c.Text, "//go:build") && strings.Contains(c.Text, "js") && !strings.Contains(c.Text, "!js") {
					skip = true
				}
			}
		}
		if !skip {
			files = append(files, f)
		}
	}

	return files
}

// load type-checks one package of the module from source (its own imports of the module recurse
// through Import), so that calls across package boundaries resolve to the analysed declarations.
func (f *fakeImporter) load(path string) *types.Package {
	dir := filepath.Join(f.repo, strings.TrimPrefix(strings.TrimPrefix(path, modulePath), "/"))
	files := goFiles(f.fset, dir)
	if len(files) == 0 {
		return nil
	}
	f.busy[path] = true
	conf := types.Config{Importer: f, Error: func(error) {}}
	pkg, _ := conf.Check(path, f.fset, files, f.info)
	delete(f.busy, path)
	if pkg == nil {
		return nil
	}
	f.cache[path] = pkg
	f.loaded = append(f.loaded, &loadedPkg{path: path, name: pkg.Name(), files: files})

	return pkg
}

func (f *fakeImporter) Import(path string) (*types.Package, error) {
	if p, ok := f.cache[path]; ok {
		return p, nil
	}
	if path == "sync" {
		p := fakeSync()
		f.cache[path] = p

		return p, nil
	}
	if (path == modulePath || strings.HasPrefix(path, modulePath+"/")) && !f.busy[path] {
		if p := f.load(path); p != nil {
			return p, nil
		}
	}
	name := path[strings.LastIndex(path, "/")+1:]
	if strings.HasPrefix(name, "v") && len(name) <= 3 { // …/v4
		parts := strings.Split(path, "/")
		name = parts[len(parts)-2]
	}
	p := types.NewPackage(path, name)
	p.MarkComplete()
	f.cache[path] = p

	return p, nil
}

// fakeSync declares just what the analysis needs from package sync (Mutex, RWMutex and their lock
// methods); every other import is an empty package — the type checker's errors are ignored, only
// package-local struct types, fields and static callees have to resolve.
func fakeSync() *types.Package {
	p := types.NewPackage("sync", "sync")
	for _, tn := range []string{"Mutex", "RWMutex", "WaitGroup", "Once", "Map", "Pool", "Cond"} {
		obj := types.NewTypeName(token.NoPos, p, tn, nil)
		named := types.NewNamed(obj, types.NewStruct(nil, nil), nil)
		p.Scope().Insert(obj)
		if tn == "Mutex" || tn == "RWMutex" {
			ms := []string{"Lock", "Unlock", "TryLock"}
			if tn == "RWMutex" {
				ms = append(ms, "RLock", "RUnlock")
			}
			for _, m := range ms {
				recv := types.NewVar(token.NoPos, p, "m", types.NewPointer(named))
				sig := types.NewSignatureType(recv, nil, nil, nil, nil, false)
				named.AddMethod(types.NewFunc(token.NoPos, p, m, sig))
			}
		}
	}
	p.MarkComplete()

	return p
}

type edge struct{ From, To, Where string }

type analyzer struct {
	fset  *token.FileSet
	info  *types.Info
	funcs map[*types.Func]*ast.FuncDecl
	// acquires[f] = locks f may acquire (transitively)
	acquires map[*types.Func]map[string]bool
	edges    map[[2]string]string
	lits     []*ast.FuncLit // function literals analysed as separate roots
	rw       map[string]bool
}

func deref(t types.Type) types.Type {
	for {
		p, ok := t.(*types.Pointer)
		if !ok {
			return t
		}
		t = p.Elem()
	}
}

// typeName names a struct type: bare for package webrtc, pkg.Type for the module's other packages.
func typeName(n *types.Named) string {
	o := n.Obj()
	if o.Pkg() == nil || o.Pkg().Path() == modulePath {
		return o.Name()
	}

	return o.Pkg().Name() + "." + o.Name()
}

func isMutex(t types.Type) bool {
	n, ok := deref(t).(*types.Named)
	if !ok {
		return false
	}
	o := n.Obj()

	return o.Pkg() != nil && o.Pkg().Path() == "sync" && (o.Name() == "Mutex" || o.Name() == "RWMutex")
}

// lockCall classifies `X.Lock()` etc. and names the lock.
func (a *analyzer) lockCall(call *ast.CallExpr) (name, op string, ok bool) {
	sel, isSel := call.Fun.(*ast.SelectorExpr)
	if !isSel {
		return "", "", false
	}
	switch sel.Sel.Name {
	case "Lock", "RLock", "Unlock", "RUnlock":
	default:
		return "", "", false
	}
	tv, has := a.info.Types[sel.X]
	if !has || !isMutex(tv.Type) {
		return "", "", false
	}
	op = sel.Sel.Name
	switch x := sel.X.(type) {
	case *ast.SelectorExpr: // owner.field
		if otv, ok2 := a.info.Types[x.X]; ok2 {
			if n, ok3 := deref(otv.Type).(*types.Named); ok3 {
				return typeName(n) + "." + x.Sel.Name, op, true
			}
		}

		return "?." + x.Sel.Name, op, true
	case *ast.Ident:
		if obj := a.info.ObjectOf(x); obj != nil {
			if obj.Parent() == obj.Pkg().Scope() {
				return "var." + x.Name, op, true
			}

			return fmt.Sprintf("local.%s@%s", x.Name, a.fset.Position(obj.Pos())), op, true
		}
	}

	return "", "", false
}

func (a *analyzer) callee(call *ast.CallExpr) *types.Func {
	var id *ast.Ident
	switch f := call.Fun.(type) {
	case *ast.Ident:
		id = f
	case *ast.SelectorExpr:
		id = f.Sel
	default:
		return nil
	}
	fn, ok := a.info.Uses[id].(*types.Func)
	if !ok {
		return nil
	}
	if _, has := a.funcs[fn]; !has {
		return nil
	}

	return fn
}

type held map[string]bool

func (h held) clone() held {
	c := held{}
	for k := range h {
		c[k] = true
	}

	return c
}

func terminates(b *ast.BlockStmt) bool {
	if b == nil || len(b.List) == 0 {
		return false
	}
	switch s := b.List[len(b.List)-1].(type) {
	case *ast.ReturnStmt:
		return true
	case *ast.BranchStmt:
		return s.Tok == token.CONTINUE || s.Tok == token.BREAK || s.Tok == token.GOTO
	case *ast.ExprStmt:
		if c, ok := s.X.(*ast.CallExpr); ok {
			if id, ok := c.Fun.(*ast.Ident); ok && id.Name == "panic" {
				return true
			}
		}
	}

	return false
}

// walk processes statements in order; record is called for every acquisition (lock name, held set).
type visitor struct {
	a        *analyzer
	fnName   string
	deferred [][]string // per function-literal scope: locks released by deferred unlocks at scope end
	acquire  func(lock string, h held, pos token.Pos)
	call     func(fn *types.Func, h held, pos token.Pos)
}

func (v *visitor) exprs(n ast.Node, h held) {
	if n == nil {
		return
	}
	ast.Inspect(n, func(x ast.Node) bool {
		switch e := x.(type) {
		case *ast.FuncLit:
			v.a.lits = append(v.a.lits, e) // separate root

			return false
		case *ast.CallExpr:
			if name, op, ok := v.a.lockCall(e); ok {
				switch op {
				case "Lock", "RLock":
					v.acquire(name, h, e.Pos())
					h[name] = true
				default:
					delete(h, name)
				}

				return true
			}
			// immediately invoked literal: inline
			if lit, ok := e.Fun.(*ast.FuncLit); ok {
				for _, arg := range e.Args {
					v.exprs(arg, h)
				}
				v.scoped(lit.Body, h)

				return false
			}
			if fn := v.a.callee(e); fn != nil {
				v.call(fn, h, e.Pos())
			}
		}

		return true
	})
}

// scoped runs a function body whose deferred unlocks take effect at its end.
func (v *visitor) scoped(b *ast.BlockStmt, h held) {
	v.deferred = append(v.deferred, nil)
	v.block(b, h)
	top := v.deferred[len(v.deferred)-1]
	v.deferred = v.deferred[:len(v.deferred)-1]
	for _, l := range top {
		delete(h, l)
	}
}

func (v *visitor) block(b *ast.BlockStmt, h held) {
	if b == nil {
		return
	}
	for _, s := range b.List {
		v.stmt(s, h)
	}
}

func (v *visitor) branch(b *ast.BlockStmt, h held) held {
	c := h.clone()
	v.block(b, c)
	if terminates(b) {
		return nil
	}

	return c
}

func merge(h held, bs ...held) {
	// may-hold after the statement: union of the fall-through branches (if any), else unchanged
	any := false
	u := held{}
	for _, b := range bs {
		if b != nil {
			any = true
			for k := range b {
				u[k] = true
			}
		}
	}
	if !any {
		return
	}
	for k := range h {
		delete(h, k)
	}
	for k := range u {
		h[k] = true
	}
}

func (v *visitor) stmt(s ast.Stmt, h held) {
	switch st := s.(type) {
	case *ast.BlockStmt:
		v.block(st, h)
	case *ast.IfStmt:
		if st.Init != nil {
			v.stmt(st.Init, h)
		}
		v.exprs(st.Cond, h)
		thenH := v.branch(st.Body, h)
		var elseH held
		switch e := st.Else.(type) {
		case *ast.BlockStmt:
			elseH = v.branch(e, h)
		case *ast.IfStmt:
			c := h.clone()
			v.stmt(e, c)
			elseH = c
		default:
			elseH = h.clone()
		}
		merge(h, thenH, elseH)
	case *ast.ForStmt:
		if st.Init != nil {
			v.stmt(st.Init, h)
		}
		v.exprs(st.Cond, h)
		c := v.branch(st.Body, h)
		if st.Post != nil {
			v.stmt(st.Post, h)
		}
		merge(h, c, h.clone())
	case *ast.RangeStmt:
		v.exprs(st.X, h)
		c := v.branch(st.Body, h)
		merge(h, c, h.clone())
	case *ast.SwitchStmt:
		if st.Init != nil {
			v.stmt(st.Init, h)
		}
		v.exprs(st.Tag, h)
		outs := []held{h.clone()}
		for _, cc := range st.Body.List {
			cl := cc.(*ast.CaseClause)
			for _, e := range cl.List {
				v.exprs(e, h)
			}
			outs = append(outs, v.branch(&ast.BlockStmt{List: cl.Body}, h))
		}
		merge(h, outs...)
	case *ast.TypeSwitchStmt:
		outs := []held{h.clone()}
		for _, cc := range st.Body.List {
			cl := cc.(*ast.CaseClause)
			outs = append(outs, v.branch(&ast.BlockStmt{List: cl.Body}, h))
		}
		merge(h, outs...)
	case *ast.SelectStmt:
		outs := []held{}
		for _, cc := range st.Body.List {
			cl := cc.(*ast.CommClause)
			c := h.clone()
			if cl.Comm != nil {
				v.stmt(cl.Comm, c)
			}
			v.block(&ast.BlockStmt{List: cl.Body}, c)
			if !terminates(&ast.BlockStmt{List: cl.Body}) {
				outs = append(outs, c)
			}
		}
		merge(h, outs...)
	case *ast.DeferStmt:
		// defer X.Unlock(): the lock stays held to the end of the function (nothing to do);
		// defer func(){…}(): the body runs at exit with whatever is held then — approximated by now.
		if name, op, ok := v.a.lockCall(st.Call); ok && (op == "Unlock" || op == "RUnlock") {
			if n := len(v.deferred); n > 0 {
				v.deferred[n-1] = append(v.deferred[n-1], name)
			}

			return
		}
		if lit, ok := st.Call.Fun.(*ast.FuncLit); ok {
			c := h.clone()
			v.scoped(lit.Body, c)

			return
		}
		v.exprs(st.Call, h.clone())
	case *ast.GoStmt:
		if lit, ok := st.Call.Fun.(*ast.FuncLit); ok {
			v.a.lits = append(v.a.lits, lit)
			for _, arg := range st.Call.Args {
				v.exprs(arg, h)
			}

			return
		}
		// go f(x): f runs on a new goroutine with nothing held; arguments are evaluated here
		for _, arg := range st.Call.Args {
			v.exprs(arg, h)
		}
		// (the callee is a root of its own: every declared function is analysed with nothing held)
	case *ast.LabeledStmt:
		v.stmt(st.Stmt, h)
	default:
		v.exprs(s, h)
	}
}

func main() {
	repo := flag.String("repo", "/repo", "repository root")
	leanOut := flag.String("lean", "", "Lean output file")
	jsonOut := flag.String("json", "", "JSON output file")
	flag.Parse()
	repoFlag = repo

	fset := token.NewFileSet()
	info := &types.Info{Types: map[ast.Expr]types.TypeAndValue{}, Uses: map[*ast.Ident]types.Object{}, Defs: map[*ast.Ident]types.Object{},
		Selections: map[*ast.SelectorExpr]*types.Selection{}}
	imp := &fakeImporter{cache: map[string]*types.Package{}, repo: *repo, fset: fset, info: info, busy: map[string]bool{}}
	_, _ = imp.Import(modulePath)
	// the module's other packages (internal/mux, pkg/media/…): those the root does not import are roots too
	for _, top := range []string{"internal", "pkg"} {
		_ = filepath.Walk(filepath.Join(*repo, top), func(p string, fi os.FileInfo, err error) error {
			if err == nil && fi.IsDir() {
				rel, _ := filepath.Rel(*repo, p)
				_, _ = imp.Import(modulePath + "/" + filepath.ToSlash(rel))
			}

			return nil
		})
	}
	files := []*ast.File{}
	pkgList := []string{}
	for _, lp := range imp.loaded {
		files = append(files, lp.files...)
		pkgList = append(pkgList, strings.TrimPrefix(strings.TrimPrefix(lp.path, modulePath), "/"))
	}
	sort.Strings(pkgList)

	a := &analyzer{fset: fset, info: info, funcs: map[*types.Func]*ast.FuncDecl{}, acquires: map[*types.Func]map[string]bool{},
		edges: map[[2]string]string{}, rw: map[string]bool{}}
	for _, f := range files {
		for _, d := range f.Decls {
			if fd, ok := d.(*ast.FuncDecl); ok && fd.Body != nil {
				if fn, ok := info.Defs[fd.Name].(*types.Func); ok {
					a.funcs[fn] = fd
				}
			}
		}
	}
	// pass 1: direct acquisitions + call edges, fixpoint for acquires*
	direct := map[*types.Func]map[string]bool{}
	calls := map[*types.Func]map[*types.Func]bool{}
	for fn, fd := range a.funcs {
		direct[fn] = map[string]bool{}
		calls[fn] = map[*types.Func]bool{}
		v := &visitor{a: a, fnName: fn.FullName(),
			acquire: func(l string, _ held, _ token.Pos) { direct[fn][l] = true },
			call:    func(c *types.Func, _ held, _ token.Pos) { calls[fn][c] = true }}
		v.scoped(fd.Body, held{})
	}
	a.lits = nil
	for fn := range a.funcs {
		a.acquires[fn] = map[string]bool{}
		for l := range direct[fn] {
			a.acquires[fn][l] = true
		}
	}
	for changed := true; changed; {
		changed = false
		for fn := range a.funcs {
			for c := range calls[fn] {
				for l := range a.acquires[c] {
					if !a.acquires[fn][l] {
						a.acquires[fn][l] = true
						changed = true
					}
				}
			}
		}
	}
	// pass 2: edges
	addEdge := func(h held, l string, where string) {
		for k := range h {
			key := [2]string{k, l}
			if _, ok := a.edges[key]; !ok {
				a.edges[key] = where
			}
		}
	}
	analyse := func(name string, body *ast.BlockStmt) {
		v := &visitor{a: a, fnName: name}
		v.acquire = func(l string, h held, pos token.Pos) {
			addEdge(h, l, fmt.Sprintf("%s (%s)", name, fset.Position(pos)))
		}
		v.call = func(c *types.Func, h held, pos token.Pos) {
			if len(h) == 0 {
				return
			}
			for l := range a.acquires[c] {
				addEdge(h, l, fmt.Sprintf("%s → %s (%s)", name, c.Name(), fset.Position(pos)))
			}
		}
		v.scoped(body, held{})
	}
	fns := []*types.Func{}
	for fn := range a.funcs {
		fns = append(fns, fn)
	}
	sort.Slice(fns, func(i, j int) bool { return fns[i].FullName() < fns[j].FullName() })
	for _, fn := range fns {
		analyse(fn.FullName(), a.funcs[fn].Body)
	}
	for i := 0; i < len(a.lits); i++ { // literals discovered on the way are roots with nothing held
		lit := a.lits[i]
		analyse(fmt.Sprintf("func literal at %s", fset.Position(lit.Pos())), lit.Body)
	}

	// output
	nodes := map[string]bool{}
	es := []edge{}
	for k, w := range a.edges {
		nodes[k[0]] = true
		nodes[k[1]] = true
		rel, _ := filepath.Rel(*repo, w)
		_ = rel
		es = append(es, edge{k[0], k[1], strings.ReplaceAll(w, *repo+"/", "")})
	}
	for _, m := range direct {
		for l := range m {
			nodes[l] = true
		}
	}
	names := []string{}
	for n := range nodes {
		names = append(names, n)
	}
	sort.Strings(names)
	sort.Slice(es, func(i, j int) bool {
		if es[i].From != es[j].From {
			return es[i].From < es[j].From
		}

		return es[i].To < es[j].To
	})
	idx := map[string]int{}
	for i, n := range names {
		idx[n] = i
	}
	// a rank witnessing acyclicity (Kahn); nodes on a cycle keep rank 0 and the Lean check fails
	indeg := make([]int, len(names))
	adj := make([][]int, len(names))
	for _, e := range es {
		if e.From == e.To {
			continue
		}
		adj[idx[e.From]] = append(adj[idx[e.From]], idx[e.To])
		indeg[idx[e.To]]++
	}
	rank := make([]int, len(names))
	queue := []int{}
	for i := range names {
		if indeg[i] == 0 {
			queue = append(queue, i)
		}
	}
	r := 1
	for len(queue) > 0 {
		n := queue[0]
		queue = queue[1:]
		rank[n] = r
		r++
		for _, m := range adj[n] {
			indeg[m]--
			if indeg[m] == 0 {
				queue = append(queue, m)
			}
		}
	}
	// lock discipline: access table, specification, violations
	accs, owners := runGuards(a, files)
	specs := guardSpecs()
	bad := guardViolations(accs, specs)
	specMiss := []string{} // a specified field that is never accessed is a typo in the specification
	for _, sp := range specs {
		hit := false
		for _, ac := range accs {
			if ac.Type == sp.Type && ac.Field == sp.Field {
				hit = true
			}
		}
		if !hit {
			specMiss = append(specMiss, sp.Type+"."+sp.Field)
		}
	}
	if *jsonOut != "" {
		b, _ := json.MarshalIndent(map[string]any{"locks": names, "edges": es, "rank": rank, "functions": len(a.funcs), "packages": pkgList,
			"guard_owners": owners, "accesses": accs, "guard_spec": specs, "guard_violations": bad, "guard_spec_unused": specMiss}, "", " ")
		_ = os.WriteFile(*jsonOut, b, 0o644)
	}
	if *leanOut != "" {
		sb := strings.Builder{}
		sb.WriteString("/- GENERATED by harness/cmd/lockgraph from /repo's current source on every run of bin/check C40. Do not edit. -/\n")
		sb.WriteString("namespace WebrtcVerif.Generated.LockGraph\n\n")
		sb.WriteString("def lockNames : List String := [")
		for i, n := range names {
			if i > 0 {
				sb.WriteString(", ")
			}
			fmt.Fprintf(&sb, "%q", n)
		}
		sb.WriteString("]\n\n/-- (held, acquired) pairs: lock `acquired` is taken while `held` is held -/\ndef edges : List (Nat × Nat) := [")
		for i, e := range es {
			if i > 0 {
				sb.WriteString(", ")
			}
			fmt.Fprintf(&sb, "(%d, %d)", idx[e.From], idx[e.To])
		}
		sb.WriteString("]\n\n/-- candidate rank (topological numbering computed by the extractor; checked, not trusted) -/\ndef rank : List Nat := [")
		for i, x := range rank {
			if i > 0 {
				sb.WriteString(", ")
			}
			fmt.Fprintf(&sb, "%d", x)
		}
		sb.WriteString("]\n\n")
		writeGuardsLean(&sb, accs, owners, specs)
		sb.WriteString("end WebrtcVerif.Generated.LockGraph\n")
		_ = os.WriteFile(*leanOut, []byte(sb.String()), 0o644)
	}
	for _, e := range es {
		fmt.Printf("%s -> %s   [%s]\n", e.From, e.To, e.Where)
	}
	for _, b := range bad {
		fmt.Printf("UNGUARDED %s.%s kind=%s in %s (%s) held=%v\n", b.Type, b.Field, b.Kind, b.Func, b.Pos, b.Held)
	}
}

func leanStrList(sb *strings.Builder, xs []string) {
	sb.WriteString("[")
	for i, x := range xs {
		if i > 0 {
			sb.WriteString(", ")
		}
		fmt.Fprintf(sb, "%q", x)
	}
	sb.WriteString("]")
}

func leanNatList(sb *strings.Builder, xs []int) {
	sb.WriteString("[")
	for i, x := range xs {
		if i > 0 {
			sb.WriteString(", ")
		}
		fmt.Fprintf(sb, "%d", x)
	}
	sb.WriteString("]")
}

// writeGuardsLean emits the access table and the specification. Fields and guard relations are numbered
// (index into fieldNames / guardNames) so that the Lean check is arithmetic on small numbers.
func writeGuardsLean(sb *strings.Builder, accs []*access, owners []string, specs []guardSpec) {
	kindID := map[string]int{"r": 0, "w": 1, "c": 2}
	fieldIdx, guardIdx := map[string]int{}, map[string]int{}
	fields, guards := []string{}, []string{}
	fid := func(s string) int {
		if i, ok := fieldIdx[s]; ok {
			return i
		}
		fieldIdx[s] = len(fields)
		fields = append(fields, s)

		return len(fields) - 1
	}
	gid := func(s string) int {
		if i, ok := guardIdx[s]; ok {
			return i
		}
		guardIdx[s] = len(guards)
		guards = append(guards, s)

		return len(guards) - 1
	}
	type row struct {
		f, k  int
		fresh bool
		held  []int
		site  string
	}
	rows := []row{}
	for _, sp := range specs { // the specification's names first, so their numbers do not move with the code
		fid(sp.Type + "." + sp.Field)
		for _, g := range sp.AnyOf {
			gid(g)
		}
	}
	specTypes := map[string]bool{}
	for _, sp := range specs {
		specTypes[sp.Type] = true
	}
	others := []row{} // accesses to structs the specification says nothing about: data only
	for _, a := range accs {
		r := row{f: fid(a.Type + "." + a.Field), k: kindID[a.Kind], fresh: a.Fresh, site: a.Func + " @ " + a.Pos}
		for _, h := range a.Held {
			r.held = append(r.held, gid(h))
		}
		if specTypes[a.Type] {
			rows = append(rows, r)
		} else {
			others = append(others, r)
		}
	}
	sb.WriteString("/-- struct types that own a sync.Mutex / sync.RWMutex field -/\ndef guardOwners : List String := ")
	leanStrList(sb, owners)
	sb.WriteString("\n\n/-- `Type.field` names; a field id is an index into this list -/\ndef fieldNames : List String := ")
	leanStrList(sb, fields)
	sb.WriteString("\n\n/-- guard relations `self:<lock>/<mode>`, `via <path>:<lock>/<mode>`, `other:<lock>/<mode>`; a guard id is an index into this list -/\ndef guardNames : List String := ")
	leanStrList(sb, guards)
	table := func(name, doc string, rs []row) {
		sb.WriteString("\n\n/-- " + doc + " -/\ndef " + name + " : List (Nat × Nat × Bool × List Nat) := [")
		for i, r := range rs {
			if i > 0 {
				sb.WriteString(",\n  ")
			}
			fmt.Fprintf(sb, "(%d, %d, %v, ", r.f, r.k, r.fresh)
			leanNatList(sb, r.held)
			sb.WriteString(")")
		}
		sb.WriteString("]\n\n/-- where each row of `" + name + "` is: `function @ file:line` (same order) -/\ndef " + name + "Sites : List String := [")
		for i, r := range rs {
			if i > 0 {
				sb.WriteString(",\n  ")
			}
			fmt.Fprintf(sb, "%q", r.site)
		}
		sb.WriteString("]")
	}
	table("accesses", "every syntactic access, in every function of the analysed packages, to a field of the struct types the\n"+
		"    specification names (ALL their fields, listed or not): (field id, kind 0 = read / 1 = write / 2 = method call on the\n"+
		"    field's value or on a local copy of it, base object created in this function and not yet shared, guard ids that\n"+
		"    MUST be held at the access)", rows)
	table("otherAccesses", "the same table for the remaining mutex-owning structs (PeerConnection, RTPSender, …): data for the reader,\n"+
		"    no theorem speaks about it", others)
	sb.WriteString("\n\n/-- the guarded-field specification: (field id, kind, guard ids of which one must be held) -/\ndef guardSpec : List (Nat × Nat × List Nat) := [")
	for i, sp := range specs {
		if i > 0 {
			sb.WriteString(", ")
		}
		ids := []int{}
		for _, g := range sp.AnyOf {
			ids = append(ids, gid(g))
		}
		fmt.Fprintf(sb, "(%d, %d, ", fid(sp.Type+"."+sp.Field), kindID[sp.Kind])
		leanNatList(sb, ids)
		sb.WriteString(")")
	}
	sb.WriteString("]\n\n/-- the same specification in words (pinned by C40_guard_spec_pinned) -/\ndef guardSpecText : List (String × Nat × List String) := [")
	for i, sp := range specs {
		if i > 0 {
			sb.WriteString(",\n  ")
		}
		fmt.Fprintf(sb, "(%q, %d, ", sp.Type+"."+sp.Field, kindID[sp.Kind])
		leanStrList(sb, sp.AnyOf)
		sb.WriteString(")")
	}
	sb.WriteString("]\n\n")
}
