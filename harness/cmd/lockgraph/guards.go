// guards.go — the lock-discipline half of the extractor (property C40).
//
// For every struct type of the module that owns a sync.Mutex / sync.RWMutex field it records every
// syntactic access to one of the struct's fields, in every function of the analysed packages:
//
//	(owner type, field, kind, function, locks that MUST be held there)
//
// kind: r = the field is read; w = the field is assigned, inc/decremented, an element or sub-field of it
// is assigned, or its address is taken; c = a method is called on the field's value — directly
// (`x.f.M()`) or through a local variable that was loaded from the field in the same function
// (`v := x.f; …; v.M()`): the object behind the field is used. Element reads / writes and `range` through a
// local copy of a slice or map field (`bs := x.f; for … range bs`) count as reads / writes of the field.
//
// "Must be held" is a forward must-analysis over the function body (intersection at joins, loops
// iterated to a fixpoint, break/continue/return flow followed, `defer mu.Unlock()` and deferred closures
// executed at the function's exits in LIFO order). A held lock is remembered together with the expression
// it was taken on (`s.mu.Lock()` → base "s"), and only counts for an access whose base expression is the
// same (`s.remainder` → "self:…") or of which it is a sub-object (`s.rtpTrack.mu` for `s.packetizer` →
// "via rtpTrack:…"); assigning to the base variable forgets the lock. Unexported functions and methods
// that never escape as values and are not callable through an interface of the module inherit the
// intersection of what is held at all their static call sites (receiver and argument names translated) —
// the "caller must hold mu" helpers; everything else starts with nothing held. A call to a function that
// (transitively) unlocks a lock it did not take itself drops that lock in the caller.
package main

import (
	"fmt"
	"go/ast"
	"go/token"
	"go/types"
	"sort"
	"strings"
)

// ---------------------------------------------------------------------------------------------
// the guarded-field specification (emitted into the Lean file and pinned there by a theorem)

type guardSpec struct {
	Type, Field, Kind string
	AnyOf             []string
}

func rw(t, f, lock string) []guardSpec { // RWMutex-guarded field: reads under R or W, writes under W
	return []guardSpec{
		{t, f, "r", []string{"self:" + lock + "/R", "self:" + lock + "/W"}},
		{t, f, "w", []string{"self:" + lock + "/W"}},
	}
}

func mx(t, f, lock string) []guardSpec { // Mutex-guarded field, including calls on its value
	g := []string{"self:" + lock + "/W"}

	return []guardSpec{{t, f, "r", g}, {t, f, "w", g}, {t, f, "c", g}}
}

func guardSpecs() []guardSpec {
	out := []guardSpec{}
	add := func(gs ...[]guardSpec) {
		for _, g := range gs {
			out = append(out, g...)
		}
	}
	// TrackLocalStaticRTP: the binding list
	add(rw("TrackLocalStaticRTP", "bindings", "TrackLocalStaticRTP.mu"))
	// TrackLocalStaticSample: the packetizer/sequencer/clockRate triple is published under the RTP track's
	// lock; the packetizer and sequencer OBJECTS and the tick remainder are used under the sample mutex
	via := []string{"via rtpTrack:TrackLocalStaticRTP.mu/R", "via rtpTrack:TrackLocalStaticRTP.mu/W"}
	viaW := []string{"via rtpTrack:TrackLocalStaticRTP.mu/W"}
	for _, f := range []string{"packetizer", "sequencer", "clockRate"} {
		out = append(out, guardSpec{"TrackLocalStaticSample", f, "r", via}, guardSpec{"TrackLocalStaticSample", f, "w", viaW})
	}
	own := []string{"self:TrackLocalStaticSample.mu/W"}
	out = append(out,
		guardSpec{"TrackLocalStaticSample", "packetizer", "c", own},
		guardSpec{"TrackLocalStaticSample", "sequencer", "c", own},
		guardSpec{"TrackLocalStaticSample", "remainder", "r", own},
		guardSpec{"TrackLocalStaticSample", "remainder", "w", own})
	// operations: the queue, the worker marker and the closed flag
	add(mx("operations", "ops", "operations.mu"), mx("operations", "busyCh", "operations.mu"), mx("operations", "isClosed", "operations.mu"))
	// DataChannel: handlers, their Once cells, the underlying channel and the close/detach flags
	for _, f := range []string{"onMessageHandler", "onOpenHandler", "openHandlerOnce", "onDialHandler", "dialHandlerOnce",
		"onCloseHandler", "closeHandlerOnce", "onBufferedAmountLow", "onErrorHandler",
		"isGracefulClosed", "detachCalled", "bufferedAmountLowThreshold"} {
		// not listed: dataChannel and sctpTransport — written once under mu before the atomic readyState
		// becomes Open and read without mu behind a ReadyState() test (ordering through the atomic, which
		// this rule does not see)
		add(rw("DataChannel", f, "DataChannel.mu"))
	}
	// TrackRemote: the peeked-packet queue and the negotiated identity of the track
	// (not listed: rid — written only while the track is built, read by the receiver without the lock)
	for _, f := range []string{"peekedPackets", "payloadType", "codec", "kind", "ssrc", "rtxSsrc", "id", "streamID"} {
		add(rw("TrackRemote", f, "TrackRemote.mu"))
	}
	// ICETransport: the gatherer reference (StartContext may assign it)
	add(rw("ICETransport", "gatherer", "ICETransport.lock"))
	// internal/mux: the endpoint table and the pending-packet buffer
	add(mx("mux.Mux", "endpoints", "mux.Mux.lock"), mx("mux.Mux", "pendingPackets", "mux.Mux.lock"))

	return out
}

// ---------------------------------------------------------------------------------------------
// must-held state

type mlock struct {
	base, name, mode string
	local            bool // acquired in the function being walked (not inherited from its callers)
}

type mset struct {
	dead bool
	m    map[string]mlock
}

func newSet() *mset  { return &mset{m: map[string]mlock{}} }
func deadSet() *mset { return &mset{dead: true, m: map[string]mlock{}} }

func (s *mset) clone() *mset {
	c := &mset{dead: s.dead, m: make(map[string]mlock, len(s.m))}
	for k, v := range s.m {
		c.m[k] = v
	}

	return c
}

func (s *mset) set(o *mset) { s.dead, s.m = o.dead, o.m }

// meet = what holds on both paths (a dead path does not count)
func meet(a, b *mset) *mset {
	if a.dead {
		return b.clone()
	}
	if b.dead {
		return a.clone()
	}
	r := newSet()
	for k, x := range a.m {
		if y, ok := b.m[k]; ok {
			if y.mode == "R" {
				x.mode = "R"
			}
			x.local = x.local && y.local
			r.m[k] = x
		}
	}

	return r
}

func (s *mset) equal(o *mset) bool {
	if s.dead != o.dead || len(s.m) != len(o.m) {
		return false
	}
	for k, v := range s.m {
		if w, ok := o.m[k]; !ok || w != v {
			return false
		}
	}

	return true
}

func (s *mset) dropName(name string) {
	for k, v := range s.m {
		if v.name == name {
			delete(s.m, k)
		}
	}
}

func (s *mset) dropBaseRoot(root string) {
	for k, v := range s.m {
		if v.base == root || strings.HasPrefix(v.base, root+".") {
			delete(s.m, k)
		}
	}
}

// ---------------------------------------------------------------------------------------------
// accesses

type access struct {
	Type, Field, Kind, Func, Pos string
	Held                         []string
	Fresh                        bool // the base is an object created in this very function and not yet shared
}

type taint struct{ typ, field, base string }

type gfunc struct {
	name   string
	decl   *ast.FuncDecl // nil for literals
	obj    *types.Func
	params []string // receiver first, then parameters ("" where unnamed)
}

type ganalysis struct {
	a        *analyzer
	owners   map[*types.Named]bool // struct types with a mutex field
	funcs    []*gfunc
	byObj    map[*types.Func]*gfunc
	entry    map[*types.Func]*mset // nil entry = ⊤ (not yet known)
	inherit  map[*types.Func]bool  // functions whose entry is computed from their call sites
	releases map[*types.Func]map[string]bool
	// results of the current round
	accesses map[string]*access      // by position+kind+field
	sites    map[*types.Func][]*mset // call-site states, translated to the callee's names
	lits     []*ast.FuncLit          // literals that run later / elsewhere: roots with nothing held
	litSeen  map[*ast.FuncLit]bool
}

func structOf(t types.Type) (*types.Named, *types.Struct) {
	n, ok := deref(t).(*types.Named)
	if !ok {
		return nil, nil
	}
	st, ok := n.Underlying().(*types.Struct)
	if !ok {
		return nil, nil
	}

	return n, st
}

func exprStr(e ast.Expr) string {
	switch x := e.(type) {
	case *ast.Ident:
		return x.Name
	case *ast.SelectorExpr:
		if b := exprStr(x.X); b != "" {
			return b + "." + x.Sel.Name
		}
	case *ast.ParenExpr:
		return exprStr(x.X)
	case *ast.StarExpr:
		return exprStr(x.X)
	}

	return ""
}

func rootIdent(e ast.Expr) *ast.Ident {
	for {
		switch x := e.(type) {
		case *ast.Ident:
			return x
		case *ast.SelectorExpr:
			e = x.X
		case *ast.ParenExpr:
			e = x.X
		case *ast.StarExpr:
			e = x.X
		case *ast.IndexExpr:
			e = x.X
		default:
			return nil
		}
	}
}

// walker for one function body (or literal body)
type gwalk struct {
	g       *ganalysis
	fn      string
	record  bool
	taints  map[types.Object]taint
	fresh   map[types.Object]bool
	release map[string]bool // lock names this body unlocks without having taken them
	// control-flow targets
	frames []*gframe
	exits  []*mset          // states at return statements
	defers []func(st *mset) // run at exit in reverse order
}

type gframe struct {
	label     string
	isLoop    bool
	breaks    []*mset
	continues []*mset
}

func (w *gwalk) guardStrings(st *mset, base string) []string {
	out := []string{}
	for _, l := range st.m {
		switch {
		case l.base == base:
			out = append(out, "self:"+l.name+"/"+l.mode)
		case base != "" && strings.HasPrefix(l.base, base+"."):
			out = append(out, "via "+l.base[len(base)+1:]+":"+l.name+"/"+l.mode)
		default:
			out = append(out, "other:"+l.name+"/"+l.mode)
		}
	}
	sort.Strings(out)

	return out
}

func (w *gwalk) emit(typ, field, kind, base string, fresh bool, pos token.Pos, st *mset) {
	if !w.record || st.dead {
		return
	}
	p := w.g.a.fset.Position(pos)
	key := fmt.Sprintf("%s:%d:%d|%s|%s.%s", p.Filename, p.Line, p.Column, kind, typ, field)
	held := w.guardStrings(st, base)
	if old, ok := w.g.accesses[key]; ok { // seen on an earlier loop iteration: keep what holds on all
		keep := []string{}
		for _, h := range old.Held {
			for _, h2 := range held {
				if h == h2 {
					keep = append(keep, h)
				}
			}
		}
		old.Held = keep

		return
	}
	w.g.accesses[key] = &access{Type: typ, Field: field, Kind: kind, Func: w.fn,
		Pos: fmt.Sprintf("%s:%d", strings.TrimPrefix(p.Filename, *repoFlag+"/"), p.Line), Held: held, Fresh: fresh}
}

// fieldOf reports whether sel is `x.f` with f a field of a mutex-owning struct of the module.
func (w *gwalk) fieldOf(sel *ast.SelectorExpr) (typ, field, base string, fresh, ok bool) {
	s, has := w.g.a.info.Selections[sel]
	if !has || s.Kind() != types.FieldVal {
		return "", "", "", false, false
	}
	tv, has := w.g.a.info.Types[sel.X]
	if !has {
		return "", "", "", false, false
	}
	n, _ := structOf(tv.Type)
	if n == nil || !w.g.owners[n] || len(s.Index()) != 1 {
		return "", "", "", false, false
	}
	if v, isVar := s.Obj().(*types.Var); isVar && isMutex(v.Type()) {
		return "", "", "", false, false
	}
	if id := rootIdent(sel.X); id != nil {
		if obj := w.g.a.info.ObjectOf(id); obj != nil && w.fresh[obj] {
			fresh = true
		}
	}

	return typeName(n), sel.Sel.Name, exprStr(sel.X), fresh, true
}

// container reports whether e is a local variable that holds a copy of a slice / map / array-pointer
// field (`bs := s.bindings`): the elements it reaches are still the field's.
func (w *gwalk) container(e ast.Expr) (taint, bool) {
	id, ok := e.(*ast.Ident)
	if !ok {
		return taint{}, false
	}
	obj := w.g.a.info.ObjectOf(id)
	if obj == nil {
		return taint{}, false
	}
	t, tainted := w.taints[obj]
	if !tainted {
		return taint{}, false
	}
	switch u := obj.Type().Underlying().(type) {
	case *types.Slice, *types.Map:
		return t, true
	case *types.Pointer:
		if _, isArr := u.Elem().Underlying().(*types.Array); isArr {
			return t, true
		}
	}

	return taint{}, false
}

// expr walks an expression in evaluation order; reads of fields are recorded.
func (w *gwalk) expr(e ast.Node, st *mset) {
	if e == nil {
		return
	}
	switch x := e.(type) {
	case *ast.FuncLit:
		if !w.g.litSeen[x] {
			w.g.litSeen[x] = true
			w.g.lits = append(w.g.lits, x)
		}

		return
	case *ast.SelectorExpr:
		w.expr(x.X, st)
		if typ, field, base, fresh, ok := w.fieldOf(x); ok {
			w.emit(typ, field, "r", base, fresh, x.Pos(), st)
		}

		return
	case *ast.IndexExpr:
		if t, ok := w.container(x.X); ok { // an element read through a local copy of the slice/map header
			w.emit(t.typ, t.field, "r", t.base, false, x.Pos(), st)
		}
		w.expr(x.X, st)
		w.expr(x.Index, st)

		return
	case *ast.UnaryExpr:
		if x.Op == token.AND {
			w.lhs(x.X, st) // address taken: counts as a write

			return
		}
		w.expr(x.X, st)

		return
	case *ast.CallExpr:
		w.call(x, st)

		return
	}
	// generic traversal of the children, in source order
	ast.Inspect(e, func(n ast.Node) bool {
		if n == e || n == nil {
			return true
		}
		if ex, ok := n.(ast.Expr); ok {
			w.expr(ex, st)

			return false
		}

		return true
	})
}

// lhs records the write performed by an assignment target (or address-of operand).
func (w *gwalk) lhs(e ast.Expr, st *mset) {
	switch x := e.(type) {
	case *ast.ParenExpr:
		w.lhs(x.X, st)
	case *ast.Ident:
		if obj := w.g.a.info.ObjectOf(x); obj != nil {
			delete(w.taints, obj)
			delete(w.fresh, obj)
		}
		st.dropBaseRoot(x.Name)
	case *ast.SelectorExpr:
		if typ, field, base, fresh, ok := w.fieldOf(x); ok {
			w.expr(x.X, st)
			w.emit(typ, field, "w", base, fresh, x.Pos(), st)

			return
		}
		w.lhs(x.X, st) // a sub-field of a struct-valued field: a write of the outer field
	case *ast.IndexExpr:
		w.expr(x.Index, st)
		if t, ok := w.container(x.X); ok {
			w.emit(t.typ, t.field, "w", t.base, false, x.Pos(), st)

			return
		}
		w.lhs(x.X, st) // element write: a write of the container field
	case *ast.StarExpr:
		w.expr(x.X, st)
	default:
		w.expr(e, st)
	}
}

func (w *gwalk) call(c *ast.CallExpr, st *mset) {
	a := w.g.a
	// lock operations
	if name, op, ok := a.lockCall(c); ok {
		sel := c.Fun.(*ast.SelectorExpr) //nolint:forcetypeassert
		base := ""
		if inner, isSel := sel.X.(*ast.SelectorExpr); isSel {
			w.expr(inner.X, st)
			base = exprStr(inner.X)
		}
		key := base + "|" + name
		switch op {
		case "Lock":
			st.m[key] = mlock{base: base, name: name, mode: "W", local: true}
		case "RLock":
			st.m[key] = mlock{base: base, name: name, mode: "R", local: true}
		default:
			if l, held := st.m[key]; held && l.local {
				delete(st.m, key)
			} else {
				// unlocking something this body did not take (or holds under another name)
				w.release[name] = true
				st.dropName(name)
			}
		}

		return
	}
	// immediately invoked literal
	if lit, ok := c.Fun.(*ast.FuncLit); ok {
		for _, arg := range c.Args {
			w.expr(arg, st)
		}
		st.set(w.inline(lit.Body, st))

		return
	}
	// receiver / function expression
	var recv ast.Expr
	switch f := c.Fun.(type) {
	case *ast.SelectorExpr:
		recv = f.X
		// a method called on a field's value, or on a local loaded from a field: use of the object
		if fs, isSel := f.X.(*ast.SelectorExpr); isSel {
			if typ, field, base, fresh, ok := w.fieldOf(fs); ok {
				w.expr(fs.X, st)
				w.emit(typ, field, "r", base, fresh, fs.Pos(), st)
				w.emit(typ, field, "c", base, fresh, c.Pos(), st)
				recv = nil
			}
		} else if id, isID := f.X.(*ast.Ident); isID {
			if obj := a.info.ObjectOf(id); obj != nil {
				if t, tainted := w.taints[obj]; tainted {
					w.emit(t.typ, t.field, "c", t.base, false, c.Pos(), st)
				}
			}
		}
		if recv != nil {
			w.expr(recv, st)
		}
	case *ast.Ident:
	default:
		w.expr(c.Fun, st)
	}
	for _, arg := range c.Args {
		w.expr(arg, st)
	}
	if fn := a.callee(c); fn != nil {
		if gf := w.g.byObj[fn]; gf != nil && w.record {
			// what the callee may rely on, in its own names
			actual := []string{}
			if sel, ok := c.Fun.(*ast.SelectorExpr); ok && gf.decl != nil && gf.decl.Recv != nil {
				actual = append(actual, exprStr(sel.X))
			}
			for _, arg := range c.Args {
				actual = append(actual, exprStr(arg))
			}
			tr := newSet()
			for _, l := range st.m {
				if l.base == "" {
					if strings.HasPrefix(l.name, "var.") {
						tr.m["|"+l.name] = mlock{name: l.name, mode: l.mode}
					}

					continue
				}
				for i, act := range actual {
					if i >= len(gf.params) || act == "" || gf.params[i] == "" {
						continue
					}
					if l.base == act || strings.HasPrefix(l.base, act+".") {
						nb := gf.params[i] + l.base[len(act):]
						tr.m[nb+"|"+l.name] = mlock{base: nb, name: l.name, mode: l.mode}

						break
					}
				}
			}
			if st.dead {
				tr = deadSet()
			}
			w.g.sites[fn] = append(w.g.sites[fn], tr)
		}
		for name := range w.g.releases[fn] {
			// the callee unlocks `name` without having taken it: if that was a lock taken here it is gone
			// now; if not, this body releases a lock of ITS callers in turn
			mine := false
			for _, l := range st.m {
				if l.name == name && l.local {
					mine = true
				}
			}
			if !mine {
				w.release[name] = true
			}
			st.dropName(name)
		}
	}
}

// inline analyses a literal's body that runs right here; returns the state after it.
func (w *gwalk) inline(body *ast.BlockStmt, st *mset) *mset {
	sub := &gwalk{g: w.g, fn: w.fn, record: w.record, taints: w.taints, fresh: w.fresh, release: w.release}

	return sub.body(body, st)
}

// body runs a function body from entry state st and returns the state after all its exits and defers.
func (w *gwalk) body(b *ast.BlockStmt, entry *mset) *mset {
	st := entry.clone()
	w.block(b.List, st)
	out := st
	for _, e := range w.exits {
		out = meet(out, e)
	}
	if st.dead && len(w.exits) == 0 {
		out = deadSet()
	}
	for i := len(w.defers) - 1; i >= 0; i-- {
		w.defers[i](out)
	}

	return out
}

func (w *gwalk) block(list []ast.Stmt, st *mset) {
	for _, s := range list {
		w.stmt(s, st, "")
	}
}

func (w *gwalk) findFrame(label string, wantLoop bool) *gframe {
	for i := len(w.frames) - 1; i >= 0; i-- {
		f := w.frames[i]
		if label != "" {
			if f.label == label {
				return f
			}

			continue
		}
		if !wantLoop || f.isLoop {
			return f
		}
	}

	return nil
}

func (w *gwalk) loop(label string, st *mset, head func(st *mset), bodyStmts *ast.BlockStmt, post ast.Stmt, condExit bool) {
	// state at the loop head = entry ∧ every state that comes back (end of body, continue); iterate
	headSt := st.clone()
	var after *mset
	for iter := 0; iter < 12; iter++ {
		fr := &gframe{label: label, isLoop: true}
		w.frames = append(w.frames, fr)
		cur := headSt.clone()
		head(cur) // condition / range expression
		exit := cur.clone()
		w.block(bodyStmts.List, cur)
		for _, c := range fr.continues {
			cur = meet(cur, c)
		}
		if post != nil {
			w.stmt(post, cur, "")
		}
		w.frames = w.frames[:len(w.frames)-1]
		after = exit
		if !condExit { // for { … }: left only through break
			after = deadSet()
		}
		for _, b := range fr.breaks {
			after = meet2x(after, b)
		}
		next := meet(headSt, cur)
		if next.equal(headSt) {
			break
		}
		headSt = next
	}
	st.set(after)
}

func (w *gwalk) stmt(s ast.Stmt, st *mset, label string) { //nolint:gocyclo,cyclop
	if s == nil {
		return
	}
	switch x := s.(type) {
	case *ast.BlockStmt:
		w.block(x.List, st)
	case *ast.LabeledStmt:
		w.stmt(x.Stmt, st, x.Label.Name)
	case *ast.ExprStmt:
		w.expr(x.X, st)
		if c, ok := x.X.(*ast.CallExpr); ok {
			if id, ok := c.Fun.(*ast.Ident); ok && id.Name == "panic" {
				st.set(deadSet())
			}
		}
	case *ast.SendStmt:
		w.expr(x.Chan, st)
		w.expr(x.Value, st)
	case *ast.IncDecStmt:
		w.expr(x.X, st)
		w.lhs(x.X, st)
	case *ast.AssignStmt:
		for _, r := range x.Rhs {
			w.expr(r, st)
		}
		if x.Tok != token.ASSIGN && x.Tok != token.DEFINE { // op=
			for _, l := range x.Lhs {
				w.expr(l, st)
			}
		}
		for _, l := range x.Lhs {
			w.lhs(l, st)
		}
		// v := x.f  /  v := &T{…}
		if len(x.Lhs) == len(x.Rhs) {
			for i, l := range x.Lhs {
				id, ok := l.(*ast.Ident)
				if !ok {
					continue
				}
				obj := w.g.a.info.ObjectOf(id)
				if obj == nil {
					continue
				}
				r := x.Rhs[i]
				if sel, ok := r.(*ast.SelectorExpr); ok {
					if typ, field, base, _, ok := w.fieldOf(sel); ok {
						w.taints[obj] = taint{typ, field, base}
					}
				}
				if isFreshObject(r) {
					w.fresh[obj] = true
				}
			}
		}
	case *ast.DeclStmt:
		if gd, ok := x.Decl.(*ast.GenDecl); ok {
			for _, sp := range gd.Specs {
				if vs, ok := sp.(*ast.ValueSpec); ok {
					for _, v := range vs.Values {
						w.expr(v, st)
					}
					for i, id := range vs.Names {
						obj := w.g.a.info.ObjectOf(id)
						if obj == nil {
							continue
						}
						if i < len(vs.Values) && isFreshObject(vs.Values[i]) {
							w.fresh[obj] = true
						}
						if len(vs.Values) == 0 {
							if _, st2 := structOf(obj.Type()); st2 != nil {
								if _, isPtr := obj.Type().(*types.Pointer); !isPtr {
									w.fresh[obj] = true // var x T
								}
							}
						}
					}
				}
			}
		}
	case *ast.ReturnStmt:
		for _, r := range x.Results {
			w.expr(r, st)
		}
		if !st.dead {
			w.exits = append(w.exits, st.clone())
		}
		st.set(deadSet())
	case *ast.BranchStmt:
		lbl := ""
		if x.Label != nil {
			lbl = x.Label.Name
		}
		switch x.Tok {
		case token.BREAK:
			if f := w.findFrame(lbl, false); f != nil && !st.dead {
				f.breaks = append(f.breaks, st.clone())
			}
			st.set(deadSet())
		case token.CONTINUE:
			if f := w.findFrame(lbl, true); f != nil && !st.dead {
				f.continues = append(f.continues, st.clone())
			}
			st.set(deadSet())
		case token.GOTO:
			st.m = map[string]mlock{} // not followed: nothing is assumed held afterwards
		}
	case *ast.IfStmt:
		w.stmt(x.Init, st, "")
		w.expr(x.Cond, st)
		thenSt := st.clone()
		w.block(x.Body.List, thenSt)
		elseSt := st.clone()
		if x.Else != nil {
			w.stmt(x.Else, elseSt, "")
		}
		st.set(meet2(thenSt, elseSt))
	case *ast.ForStmt:
		w.stmt(x.Init, st, "")
		w.loop(label, st, func(s *mset) {
			if x.Cond != nil {
				w.expr(x.Cond, s)
			}
		}, x.Body, x.Post, x.Cond != nil)
	case *ast.RangeStmt:
		w.expr(x.X, st)
		if t, ok := w.container(x.X); ok { // iterating over a local copy of the slice/map header reads the elements
			w.emit(t.typ, t.field, "r", t.base, false, x.X.Pos(), st)
		}
		w.loop(label, st, func(s *mset) {
			if x.Tok == token.ASSIGN {
				if x.Key != nil {
					w.lhs(x.Key, s)
				}
				if x.Value != nil {
					w.lhs(x.Value, s)
				}
			}
		}, x.Body, nil, true)
	case *ast.SwitchStmt:
		w.stmt(x.Init, st, "")
		w.expr(x.Tag, st)
		w.cases(label, x.Body, st, func(cc ast.Stmt, s *mset) []ast.Stmt {
			cl := cc.(*ast.CaseClause) //nolint:forcetypeassert
			for _, e := range cl.List {
				w.expr(e, s)
			}

			return cl.Body
		}, func(cc ast.Stmt) bool { return cc.(*ast.CaseClause).List == nil }) //nolint:forcetypeassert
	case *ast.TypeSwitchStmt:
		w.stmt(x.Init, st, "")
		w.stmt(x.Assign, st, "")
		w.cases(label, x.Body, st, func(cc ast.Stmt, _ *mset) []ast.Stmt {
			return cc.(*ast.CaseClause).Body //nolint:forcetypeassert
		}, func(cc ast.Stmt) bool { return cc.(*ast.CaseClause).List == nil }) //nolint:forcetypeassert
	case *ast.SelectStmt:
		w.cases(label, x.Body, st, func(cc ast.Stmt, s *mset) []ast.Stmt {
			cl := cc.(*ast.CommClause) //nolint:forcetypeassert
			w.stmt(cl.Comm, s, "")

			return cl.Body
		}, func(ast.Stmt) bool { return true }) // a select always takes one of its clauses
	case *ast.DeferStmt:
		if name, op, ok := w.g.a.lockCall(x.Call); ok && (op == "Unlock" || op == "RUnlock") {
			sel := x.Call.Fun.(*ast.SelectorExpr) //nolint:forcetypeassert
			base := ""
			if inner, isSel := sel.X.(*ast.SelectorExpr); isSel {
				base = exprStr(inner.X)
			}
			key := base + "|" + name
			w.defers = append(w.defers, func(out *mset) {
				if l, held := out.m[key]; held && l.local {
					delete(out.m, key)
				} else {
					w.release[name] = true
					out.dropName(name)
				}
			})

			return
		}
		for _, arg := range x.Call.Args {
			w.expr(arg, st)
		}
		if lit, ok := x.Call.Fun.(*ast.FuncLit); ok {
			w.defers = append(w.defers, func(out *mset) {
				if !out.dead {
					out.set(w.inline(lit.Body, out))
				}
			})

			return
		}
		call := x.Call
		w.defers = append(w.defers, func(out *mset) {
			if !out.dead {
				w.call(call, out)
			}
		})
	case *ast.GoStmt:
		for _, arg := range x.Call.Args {
			w.expr(arg, st)
		}
		switch f := x.Call.Fun.(type) {
		case *ast.FuncLit:
			w.expr(f, st)
		case *ast.SelectorExpr:
			w.expr(f.X, st)
		}
	default:
		w.expr(s, st)
	}
}

func meet2(a, b *mset) *mset {
	if a.dead && b.dead {
		return deadSet()
	}

	return meet(a, b)
}

func (w *gwalk) cases(label string, body *ast.BlockStmt, st *mset, open func(cc ast.Stmt, s *mset) []ast.Stmt, isDefault func(ast.Stmt) bool) {
	fr := &gframe{label: label}
	w.frames = append(w.frames, fr)
	out := deadSet()
	hasDefault := false
	for _, cc := range body.List {
		if isDefault(cc) {
			hasDefault = true
		}
		s := st.clone()
		stmts := open(cc, s)
		w.block(stmts, s)
		out = meet2x(out, s)
	}
	if !hasDefault {
		out = meet2x(out, st) // no clause taken
	}
	for _, b := range fr.breaks {
		out = meet2x(out, b)
	}
	w.frames = w.frames[:len(w.frames)-1]
	st.set(out)
}

func meet2x(acc, s *mset) *mset {
	if acc.dead {
		return s.clone()
	}
	if s.dead {
		return acc
	}

	return meet(acc, s)
}

func isFreshObject(e ast.Expr) bool {
	switch x := e.(type) {
	case *ast.UnaryExpr:
		if x.Op == token.AND {
			_, ok := x.X.(*ast.CompositeLit)

			return ok
		}
	case *ast.CompositeLit:
		return true
	case *ast.CallExpr:
		if id, ok := x.Fun.(*ast.Ident); ok && id.Name == "new" {
			return true
		}
	}

	return false
}

// ---------------------------------------------------------------------------------------------
// driver

var repoFlag *string //nolint:gochecknoglobals

func paramNames(fd *ast.FuncDecl) []string {
	out := []string{}
	if fd.Recv != nil {
		n := ""
		if len(fd.Recv.List) > 0 && len(fd.Recv.List[0].Names) > 0 {
			n = fd.Recv.List[0].Names[0].Name
		}
		out = append(out, n)
	}
	for _, f := range fd.Type.Params.List {
		if len(f.Names) == 0 {
			out = append(out, "")
		}
		for _, id := range f.Names {
			out = append(out, id.Name)
		}
	}

	return out
}

func runGuards(a *analyzer, files []*ast.File) (accs []*access, owners []string) {
	g := &ganalysis{a: a, owners: map[*types.Named]bool{}, byObj: map[*types.Func]*gfunc{}, entry: map[*types.Func]*mset{},
		inherit: map[*types.Func]bool{}, releases: map[*types.Func]map[string]bool{}, litSeen: map[*ast.FuncLit]bool{}}
	// owners: named struct types with a mutex field
	for _, obj := range a.info.Defs {
		tn, ok := obj.(*types.TypeName)
		if !ok {
			continue
		}
		n, st := structOf(tn.Type())
		if n == nil || n.Obj() != tn {
			continue
		}
		for i := 0; i < st.NumFields(); i++ {
			if isMutex(st.Field(i).Type()) {
				if _, isPtr := st.Field(i).Type().(*types.Pointer); !isPtr {
					g.owners[n] = true
				}
			}
		}
	}
	for n := range g.owners {
		owners = append(owners, typeName(n))
	}
	sort.Strings(owners)

	// functions; which of them may inherit what their callers hold
	ifaceMethods := map[string]bool{}
	for _, obj := range a.info.Defs {
		if tn, ok := obj.(*types.TypeName); ok {
			if it, ok := tn.Type().Underlying().(*types.Interface); ok {
				for i := 0; i < it.NumMethods(); i++ {
					ifaceMethods[it.Method(i).Name()] = true
				}
			}
		}
	}
	fns := []*types.Func{}
	for fn := range a.funcs {
		fns = append(fns, fn)
	}
	sort.Slice(fns, func(i, j int) bool { return fns[i].FullName() < fns[j].FullName() })
	for _, fn := range fns {
		fd := a.funcs[fn]
		gf := &gfunc{name: shortFunc(fn), decl: fd, obj: fn, params: paramNames(fd)}
		g.funcs = append(g.funcs, gf)
		g.byObj[fn] = gf
		g.inherit[fn] = !fn.Exported() && !(fd.Recv != nil && ifaceMethods[fn.Name()])
	}
	// a function used as a value (callback, method value) or started with `go` does not inherit anything
	var scan func(n ast.Node)
	scan = func(n ast.Node) {
		ast.Inspect(n, func(m ast.Node) bool {
			switch x := m.(type) {
			case *ast.CallExpr:
				switch fun := x.Fun.(type) {
				case *ast.SelectorExpr:
					scan(fun.X)
				case *ast.Ident:
				default:
					scan(x.Fun)
				}
				for _, arg := range x.Args {
					scan(arg)
				}

				return false
			case *ast.GoStmt:
				if fn := a.callee(x.Call); fn != nil {
					g.inherit[fn] = false
				}
			case *ast.Ident, *ast.SelectorExpr:
				markEscapes(g, m)
			}

			return true
		})
	}
	for _, f := range files {
		scan(f)
	}

	round := func(record bool) {
		g.accesses = map[string]*access{}
		g.sites = map[*types.Func][]*mset{}
		g.lits = nil
		g.litSeen = map[*ast.FuncLit]bool{}
		for _, gf := range g.funcs {
			entry := newSet()
			if g.inherit[gf.obj] {
				e, known := g.entry[gf.obj]
				if !known {
					continue // ⊤: not reached from an analysed caller yet
				}
				entry = e
			}
			w := &gwalk{g: g, fn: gf.name, record: record, taints: map[types.Object]taint{}, fresh: map[types.Object]bool{}, release: map[string]bool{}}
			w.body(gf.decl.Body, entry)
			if len(w.release) > 0 {
				if g.releases[gf.obj] == nil {
					g.releases[gf.obj] = map[string]bool{}
				}
				for n := range w.release {
					g.releases[gf.obj][n] = true
				}
			}
		}
		for i := 0; i < len(g.lits); i++ {
			lit := g.lits[i]
			w := &gwalk{g: g, fn: fmt.Sprintf("func literal at %s", shortPos(a.fset.Position(lit.Pos()))), record: record,
				taints: map[types.Object]taint{}, fresh: map[types.Object]bool{}, release: map[string]bool{}}
			w.body(lit.Body, newSet())
		}
	}
	// rounds: entries (from call sites) shrink and release sets grow until nothing changes
	relCount := func() int {
		n := 0
		for _, m := range g.releases {
			n += len(m)
		}

		return n
	}
	for iter := 0; iter < 60; iter++ {
		before := relCount()
		round(true)
		changed := relCount() != before
		// entries from call sites
		for _, gf := range g.funcs {
			if !g.inherit[gf.obj] {
				continue
			}
			sites := g.sites[gf.obj]
			if len(sites) == 0 {
				continue
			}
			e := deadSet()
			for _, s := range sites {
				e = meet2x(e, s)
			}
			if e.dead {
				continue
			}
			for k, l := range e.m { // inherited, not local
				l.local = false
				e.m[k] = l
			}
			if old, ok := g.entry[gf.obj]; !ok || !old.equal(e) {
				g.entry[gf.obj] = e
				changed = true
			}
		}
		if !changed {
			break
		}
	}
	// functions never reached from an analysed caller (dead code or only called dynamically): nothing held
	for _, gf := range g.funcs {
		if g.inherit[gf.obj] {
			if _, ok := g.entry[gf.obj]; !ok {
				g.inherit[gf.obj] = false
			}
		}
	}
	round(true)

	for _, acc := range g.accesses {
		accs = append(accs, acc)
	}
	sort.Slice(accs, func(i, j int) bool {
		x, y := accs[i], accs[j]
		if x.Type != y.Type {
			return x.Type < y.Type
		}
		if x.Field != y.Field {
			return x.Field < y.Field
		}
		if x.Pos != y.Pos {
			return x.Pos < y.Pos
		}

		return x.Kind < y.Kind
	})

	return accs, owners
}

// markEscapes: an identifier or selector that denotes one of the analysed functions outside call position.
func markEscapes(g *ganalysis, n ast.Node) {
	var id *ast.Ident
	switch x := n.(type) {
	case *ast.Ident:
		id = x
	case *ast.SelectorExpr:
		id = x.Sel
	default:
		return
	}
	if fn, ok := g.a.info.Uses[id].(*types.Func); ok {
		if _, has := g.a.funcs[fn]; has {
			g.inherit[fn] = false
		}
	}
}

func shortPos(p token.Position) string {
	return fmt.Sprintf("%s:%d", strings.TrimPrefix(p.Filename, *repoFlag+"/"), p.Line)
}

func shortFunc(fn *types.Func) string {
	s := fn.FullName()
	s = strings.ReplaceAll(s, modulePath+"/", "")
	s = strings.ReplaceAll(s, modulePath+".", "")
	s = strings.ReplaceAll(s, modulePath, "webrtc")

	return s
}

// guardViolations evaluates the specification on the access table (the same rule the Lean theorem checks).
func guardViolations(accs []*access, specs []guardSpec) []*access {
	bad := []*access{}
	for _, a := range accs {
		if a.Fresh {
			continue
		}
		for _, s := range specs {
			if s.Type != a.Type || s.Field != a.Field || s.Kind != a.Kind {
				continue
			}
			ok := false
			for _, want := range s.AnyOf {
				for _, h := range a.Held {
					if h == want {
						ok = true
					}
				}
			}
			if !ok {
				bad = append(bad, a)
			}
		}
	}

	return bad
}
