module verifharness

go 1.24.0

require (
	github.com/pion/ice/v4 v4.4.0
	github.com/pion/interceptor v0.1.47
	github.com/pion/logging v0.2.4
	github.com/pion/rtcp v1.2.17
	github.com/pion/rtp v1.10.5
	github.com/pion/sdp/v3 v3.0.19
	github.com/pion/webrtc/v4 v4.0.0
)

require (
	github.com/google/uuid v1.6.0 // indirect
	github.com/pion/datachannel v1.6.2 // indirect
	github.com/pion/dtls/v3 v3.1.5 // indirect
	github.com/pion/mdns/v2 v2.1.0 // indirect
	github.com/pion/randutil v0.1.0 // indirect
	github.com/pion/sctp v1.11.1 // indirect
	github.com/pion/srtp/v3 v3.0.13 // indirect
	github.com/pion/stun/v3 v3.1.7 // indirect
	github.com/pion/transport/v4 v4.1.0 // indirect
	github.com/pion/turn/v5 v5.0.13 // indirect
	github.com/wlynxg/anet v0.0.5 // indirect
	golang.org/x/crypto v0.48.0 // indirect
	golang.org/x/net v0.50.0 // indirect
	golang.org/x/sys v0.41.0 // indirect
	golang.org/x/time v0.14.0 // indirect
)

replace github.com/pion/webrtc/v4 => /repo
