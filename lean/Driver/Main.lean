import WebrtcVerif.Base.Wire
import WebrtcVerif.Drv.C16
import WebrtcVerif.Drv.C10
import WebrtcVerif.Drv.C37
import WebrtcVerif.Drv.C09
import WebrtcVerif.Drv.C07
import WebrtcVerif.Drv.C06
import WebrtcVerif.Drv.C30
import WebrtcVerif.Drv.C08
import WebrtcVerif.Drv.C03
import WebrtcVerif.Drv.C02
import WebrtcVerif.Drv.C01
import WebrtcVerif.Drv.C04
import WebrtcVerif.Drv.C21
import WebrtcVerif.Drv.C11
import WebrtcVerif.Drv.C33
import WebrtcVerif.Drv.C31
import WebrtcVerif.Drv.C12
import WebrtcVerif.Drv.C20
import WebrtcVerif.Drv.C27
import WebrtcVerif.Drv.C25
import WebrtcVerif.Drv.C18
import WebrtcVerif.Drv.C24
import WebrtcVerif.Drv.C26
import WebrtcVerif.Drv.C15
import WebrtcVerif.Drv.C32
import WebrtcVerif.Drv.C35
import WebrtcVerif.Drv.C17
import WebrtcVerif.Drv.C29
import WebrtcVerif.Drv.C28
import WebrtcVerif.Drv.C38
import WebrtcVerif.Drv.C34
import WebrtcVerif.Drv.C39
import WebrtcVerif.Drv.C14
import WebrtcVerif.Drv.C13
import WebrtcVerif.Drv.C05
import WebrtcVerif.Drv.C19
import WebrtcVerif.Drv.C22
import WebrtcVerif.Drv.C23
import WebrtcVerif.Drv.C36
import WebrtcVerif.Drv.C40
/-!
  wvdriver — line-protocol driver.
    wvdriver run    : stdin lines `<Cxx> <op…>`            → one model output line each
    wvdriver judge  : stdin lines `<Cxx> <op…> => <out…>`   → `ok` | `violated <key>…` | `bad-judge`
-/
open WebrtcVerif

def runLine (toks : List String) : String :=
  match toks with
  | "C05" :: rest => Drv.C05.run rest
  | "C19" :: rest => Drv.C19.run rest
  | "C22" :: rest => Drv.C22.run rest
  | "C23" :: rest => Drv.C23.run rest
  | "C36" :: rest => Drv.C36.run rest
  | "C40" :: rest => Drv.C40.run rest
  | "C13" :: rest => Drv.C13.run rest
  | "C14" :: rest => Drv.C14.run rest
  | "C39" :: rest => Drv.C39.run rest
  | "C34" :: rest => Drv.C34.run rest
  | "C38" :: rest => Drv.C38.run rest
  | "C28" :: rest => Drv.C28.run rest
  | "C29" :: rest => Drv.C29.run rest
  | "C17" :: rest => Drv.C17.run rest
  | "C35" :: rest => Drv.C35.run rest
  | "C32" :: rest => Drv.C32.run rest
  | "C15" :: rest => Drv.C15.run rest
  | "C26" :: rest => Drv.C26.run rest
  | "C24" :: rest => Drv.C24.run rest
  | "C18" :: rest => Drv.C18.run rest
  | "C25" :: rest => Drv.C25.run rest
  | "C27" :: rest => Drv.C27.run rest
  | "C20" :: rest => Drv.C20.run rest
  | "C12" :: rest => Drv.C12.run rest
  | "C31" :: rest => Drv.C31.run rest
  | "C33" :: rest => Drv.C33.run rest
  | "C11" :: rest => Drv.C11.run rest
  | "C21" :: rest => Drv.C21.run rest
  | "C04" :: rest => Drv.C04.run rest
  | "C01" :: rest => Drv.C01.run rest
  | "C02" :: rest => Drv.C02.run rest
  | "C03" :: rest => Drv.C03.run rest
  | "C08" :: rest => Drv.C08.run rest
  | "C30" :: rest => Drv.C30.run rest
  | "C06" :: rest => Drv.C06.run rest
  | "C07" :: rest => Drv.C07.run rest
  | "C09" :: rest => Drv.C09.run rest
  | "C37" :: rest => Drv.C37.run rest
  | "C10" :: rest => Drv.C10.run rest
  | "C16" :: rest => Drv.C16.run rest
  | _ => "bad-op"

def judgeLine (toks : List String) : String :=
  let op := toks.takeWhile (· ≠ "=>")
  let out := (toks.dropWhile (· ≠ "=>")).drop 1
  match op with
  | "C05" :: rest => Drv.C05.judge rest out
  | "C19" :: rest => Drv.C19.judge rest out
  | "C22" :: rest => Drv.C22.judge rest out
  | "C23" :: rest => Drv.C23.judge rest out
  | "C36" :: rest => Drv.C36.judge rest out
  | "C40" :: rest => Drv.C40.judge rest out
  | "C13" :: rest => Drv.C13.judge rest out
  | "C14" :: rest => Drv.C14.judge rest out
  | "C39" :: rest => Drv.C39.judge rest out
  | "C34" :: rest => Drv.C34.judge rest out
  | "C38" :: rest => Drv.C38.judge rest out
  | "C28" :: rest => Drv.C28.judge rest out
  | "C29" :: rest => Drv.C29.judge rest out
  | "C17" :: rest => Drv.C17.judge rest out
  | "C35" :: rest => Drv.C35.judge rest out
  | "C32" :: rest => Drv.C32.judge rest out
  | "C15" :: rest => Drv.C15.judge rest out
  | "C26" :: rest => Drv.C26.judge rest out
  | "C24" :: rest => Drv.C24.judge rest out
  | "C18" :: rest => Drv.C18.judge rest out
  | "C25" :: rest => Drv.C25.judge rest out
  | "C27" :: rest => Drv.C27.judge rest out
  | "C20" :: rest => Drv.C20.judge rest out
  | "C12" :: rest => Drv.C12.judge rest out
  | "C31" :: rest => Drv.C31.judge rest out
  | "C33" :: rest => Drv.C33.judge rest out
  | "C11" :: rest => Drv.C11.judge rest out
  | "C21" :: rest => Drv.C21.judge rest out
  | "C04" :: rest => Drv.C04.judge rest out
  | "C01" :: rest => Drv.C01.judge rest out
  | "C02" :: rest => Drv.C02.judge rest out
  | "C03" :: rest => Drv.C03.judge rest out
  | "C08" :: rest => Drv.C08.judge rest out
  | "C30" :: rest => Drv.C30.judge rest out
  | "C06" :: rest => Drv.C06.judge rest out
  | "C07" :: rest => Drv.C07.judge rest out
  | "C09" :: rest => Drv.C09.judge rest out
  | "C37" :: rest => Drv.C37.judge rest out
  | "C10" :: rest => Drv.C10.judge rest out
  | "C16" :: rest => Drv.C16.judge rest out
  | _ => "bad-judge"

partial def loop (h : IO.FS.Stream) (out : IO.FS.Stream) (f : List String → String) : IO Unit := do
  let line ← h.getLine
  if line.isEmpty then return ()
  out.putStrLn (f (Wire.tokens (line.trimAsciiEnd.toString)))
  loop h out f

def main (args : List String) : IO UInt32 := do
  let stdin ← IO.getStdin
  let stdout ← IO.getStdout
  match args with
  | ["run"] => loop stdin stdout runLine; return 0
  | ["judge"] => loop stdin stdout judgeLine; return 0
  | _ => IO.eprintln "usage: wvdriver run|judge"; return 2
