import WebrtcVerif.Base.Wire
import WebrtcVerif.Model.Close
/-! Driver handler for C21 (Close / GracefulClose of a real PeerConnection under a controlled schedule).

  op:   run <point> <closers> u=<ice,…|-> sched <name>…
        point    p0 fresh (one local track) · p1 after SetLocalDescription(offer) · p1r answerer after
                 SetRemoteDescription(offer): transports started, ICE checking · p2 both descriptions set, ICE checking · p3 connected, data
                 channel open and sending · p4 as p3, and the data channel's OnMessage handler is parked inside
                 the application's code (its read loop goroutine is busy) until thread H0 releases it
        closers  word over {C,G}: harness thread T<i> calls Close (C) or GracefulClose (G)
        u=       harness thread U<j> delivers ICE connection state <ice> (raw value) the way the ICE
                 agent's notifier does (onICEConnectionStateChange; updateConnectionState)
        sched    thread names released one segment (= up to the next verifYield) at a time; afterwards all
                 threads are drained round-robin (H0 only when nothing else can run)
        H0 (p4 only) lets the parked handler return
  out:  <name:result>… / <drain name:result>… | <name:fin>… | ret r<i>=<sig>[/<conn>/<busy>]… | sig <s> conn <c>
        | h <n> <state>… | api <name>=<class>… | after <s> <c> | ops <0|1> | gor <n|->

  The simulator maps every released segment to core `Close.step` actions and never changes the core state
  in any other way, so every simulated run is a `Reachable` run of the proved transition system.
-/
namespace WebrtcVerif.Drv.C21
open WebrtcVerif WebrtcVerif.Close
open WebrtcVerif.ConnState (Ice Dtls Pc aggregate)

structure Prog where
  point : String
  gs : List Bool
  ups : List Nat
  sched : List String

def parseUps (s : String) : Option (List Nat) :=
  if s == "-" then some [] else
  (s.splitOn ",").mapM (fun t => if t.length == 1 then t.toNat?.bind (fun v => if v ≤ 8 then some v else none) else none)

def validName (n : String) : Bool :=
  match n.toList with
  | [k, d] => (k == 'T' || k == 'U' || k == 'H') && d.isDigit
  | _ => false

def parseProg (args : List String) : Option Prog :=
  match args with
  | "run" :: point :: closers :: u :: "sched" :: sched =>
    if !(["p0", "p1", "p1r", "p2", "p3", "p4"].contains point) then none else
    let cs := closers.toList
    if cs.length < 1 || cs.length > 4 || !cs.all (fun c => c == 'C' || c == 'G') then none else
    if !u.startsWith "u=" then none else
    match parseUps (u.drop 2).toString with
    | none => none
    | some ups =>
      if ups.length > 4 then none else
      if !sched.all validName then none else
      some { point, gs := cs.map (· == 'G'), ups, sched }
  | _ => none

def pointConn (p : String) : Pc :=
  if p == "p2" || p == "p1r" then .connecting else if p == "p3" || p == "p4" then .connected else .new
def pointDtls (p : String) : Dtls := if p == "p3" || p == "p4" then .connected else .new
def pointHasRemote (p : String) : Bool := p == "p1r" || p == "p2" || p == "p3" || p == "p4"
/-- the read loop goroutines of the data channels open at the point -/
def pointLoops (p : String) : List LPc := if p == "p3" then [.reading] else if p == "p4" then [.handler] else []

structure Sim where
  core : St
  prog : Prog
  ufin : List Bool            -- per U thread: finished
  rets : List String          -- per T thread: what it observed when its call returned
  hfin : Bool := false        -- H0 has run

def act (sim : Sim) (a : Action) : Sim :=
  match step sim.core a with
  | some c => { sim with core := c }
  | none => sim

def acts (sim : Sim) (as : List Action) : Sim := as.foldl act sim

def pcOf (sim : Sim) (i : Nat) : Option CPc := sim.core.closers[i]?.map (·.pc)
def roleOf (sim : Sim) (i : Nat) : Role := (sim.core.closers[i]?.map (·.role)).getD .none

/-- the thread's call returned: record what it sees -/
def finishT (sim : Sim) (i : Nat) : String × Sim :=
  let g := (sim.prog.gs[i]?).getD false
  let busy := sim.core.loops.any (· == .handler)
  let o := s!"r{i}={Wire.boolTok sim.core.sigClosed}" ++
    (if g then s!"/{sim.core.conn.toNat}/{Wire.boolTok busy}" else "")
  ("fin", { sim with rets := sim.rets.set i o })

def hasLoop (sim : Sim) : Bool := !sim.core.loops.isEmpty
def loopBusy (sim : Sim) : Bool := sim.core.loops.any (· == .handler)
/-- the association is stopped: the read loops that are back in ReadDataChannel end -/
def endLoops (sim : Sim) : Sim :=
  acts sim ((List.range sim.core.loops.length).map (fun l => Action.lExit l))

/-- one segment of closer thread `i` -/
def stepT (sim : Sim) (i : Nat) : String × Sim :=
  let g := (sim.prog.gs[i]?).getD false
  match pcOf sim i with
  | none => ("skip", sim)
  | some .returned => ("skip", sim)
  | some .idle => ("close.cs1", act sim (.cstep i))
  | some .cs1 =>
      let sim := act sim (.cstep i)
      match roleOf sim i with
      | .early => finishT sim i
      | .waiter => ("close.gwait", sim)
      | .tailer => ("close.cwait", sim)
      | _ => ("close.sig", act sim (.cstep i))               -- signalingState.Set(closed)
  | some .gWait =>
      if sim.core.gracefulDone then ("close.gwoke", act sim (.cstep i)) else ("blocked", sim)
  | some .gWoke => finishT (act sim (.cstep i)) i
  | some .cWait =>
      if sim.core.closeDone then ("close.cwoke", act sim (.cstep i)) else ("blocked", sim)
  | some .cWoke =>
      if hasLoop sim then ("dc.close.wait", acts sim (List.replicate 2 (.cstep i)))  -- ICE graceful stop, ops close; at `<-readLoopActive`
      else finishT (acts sim (List.replicate 4 (.cstep i))) i      -- tail, joins (none), close(gracefulDone)
  | some .tJoin =>
      if loopBusy sim then ("blocked", sim) else ("dc.close.woke", act (endLoops sim) (.cstep i))
  | some .dG => finishT (act sim (.cstep i)) i                     -- (tailer) close(gracefulDone)
  | some .bMedia => ("ucs.computed", acts sim (List.replicate 6 (.cstep i)))  -- … up to the snapshot in updateConnectionState
  | some (.ucs _) => ("close.ucs", act sim (.cstep i))
  | some .bGraceful =>
      if g && hasLoop sim then ("dc.close.wait", act sim (.cstep i))   -- graceful ops up to `<-readLoopActive`
      else
        -- graceful ops, joins (none), interceptor close, then the deferred close(isGracefulCloseDone) if registered
        let sim := acts sim (List.replicate 3 (.cstep i))
        let sim := if pcOf sim i == some .dG then act sim (.cstep i) else sim
        ("close.d1", sim)
  | some .bJoin =>
      if loopBusy sim then ("blocked", sim) else ("dc.close.woke", act (endLoops sim) (.cstep i))
  | some .bFinish =>
      let sim := act sim (.cstep i)
      let sim := if pcOf sim i == some .dG then act sim (.cstep i) else sim
      ("close.d1", sim)
  | some .dC => finishT (act sim (.cstep i)) i
  | some _ => ("skip", sim)      -- (not a parking point)

/-- one segment of callback thread `j` -/
def stepU (sim : Sim) (j : Nat) : String × Sim :=
  match sim.prog.ups[j]?, sim.core.updaters[j]? with
  | some raw, some upc =>
    if (sim.ufin[j]?).getD true then ("skip", sim) else
    match upc with
    | .idle =>
        if raw < 1 || raw > 7 then ("fin", { sim with ufin := sim.ufin.set j true })   -- unhandled ICE state: no update
        else ("ucs.computed", act sim (.uCompute j (Ice.ofRaw raw) (pointDtls sim.prog.point)))
    | .computed _ => ("fin", { act sim (.uStore j) with ufin := sim.ufin.set j true })
    | .done => ("skip", sim)
  | _, _ => ("skip", sim)

def parseName (n : String) : Option (Bool × Nat) :=
  match n.toList with
  | 'T' :: r => (String.ofList r).toNat?.map (fun k => (true, k))
  | 'U' :: r => (String.ofList r).toNat?.map (fun k => (false, k))
  | _ => none

/-- H0: the application's handler returns (p4 only) -/
def stepH (sim : Sim) : String × Sim :=
  if sim.prog.point != "p4" || sim.hfin then ("skip", sim)
  else ("fin", { act sim (.lReturn 0) with hfin := true })

def stepName (sim : Sim) (n : String) : String × Sim :=
  if n == "H0" then stepH sim else
  match parseName n with
  | some (true, i) => stepT sim i
  | some (false, j) => stepU sim j
  | none => ("skip", sim)

def allNames (sim : Sim) : List String :=
  (List.range sim.prog.gs.length).map (fun i => s!"T{i}") ++ (List.range sim.prog.ups.length).map (fun j => s!"U{j}")
    ++ (if sim.prog.point == "p4" then ["H0"] else [])

def isFinished (sim : Sim) (n : String) : Bool :=
  if n == "H0" then sim.prog.point != "p4" || sim.hfin else
  match parseName n with
  | some (true, i) => pcOf sim i == some .returned
  | some (false, j) => (sim.ufin[j]?).getD true
  | none => true

def drainPass (sim : Sim) : Sim × List String × Bool :=
  ((allNames sim).filter (· != "H0")).foldl (fun (acc : Sim × List String × Bool) n =>
    let (sim, ev, prog) := acc
    if isFinished sim n then acc
    else
      let (r, sim') := stepName sim n
      (sim', ev ++ [s!"{n}:{r}"], prog || (r != "blocked" && r != "skip"))) (sim, [], false)

def drain : Nat → Sim → List String → Sim × List String
  | 0, sim, ev => (sim, ev)
  | fuel + 1, sim, ev =>
    if (allNames sim).all (isFinished sim) then (sim, ev) else
    let (sim1, ev1, prog1) := drainPass sim
    if prog1 then drain fuel sim1 (ev ++ ev1)
    else if !isFinished sim1 "H0" then
      -- the application's handler returns only when nothing else can run any more
      let (r, sim2) := stepH sim1
      let ev2 := ev ++ ev1 ++ [s!"H0:{r}"]
      if r != "skip" then drain fuel sim2 ev2 else (sim2, ev2)
    else (sim1, ev ++ ev1)

def apiName : Api → String
  | .createOffer => "createOffer" | .createAnswer => "createAnswer" | .setLocalDescription => "setLocal"
  | .setRemoteDescription => "setRemote" | .addTrack => "addTrack" | .removeTrack => "removeTrack"
  | .addTransceiverFromKind => "addTransceiverFromKind" | .addTransceiverFromTrack => "addTransceiverFromTrack"
  | .createDataChannel => "createDataChannel" | .setConfiguration => "setConfiguration"

def outClass : ApiOut → String
  | .invalidStateClosed => "IS:closed" | .invalidStateNoRemote => "IS:noremote"
  | .identityNotImplemented => "other" | .proceeds => "ok"

def run (args : List String) : String :=
  match parseProg args with
  | none => "bad-op"
  | some p =>
    let sim0 : Sim := { core := init p.gs p.ups.length (pointConn p.point) (pointLoops p.point), prog := p,
                        ufin := p.ups.map (fun _ => false), rets := p.gs.map (fun _ => "") }
    let (sim1, ev1) := p.sched.foldl (fun (acc : Sim × List String) n =>
      let (r, s') := stepName acc.1 n
      (s', acc.2 ++ [s!"{n}:{r}"])) (sim0, [])
    let (sim2, ev2) := drain 40 sim1 []
    let names := allNames sim2
    let allFin := names.all (isFinished sim2)
    let states := names.map (fun n => if isFinished sim2 n then s!"{n}:fin" else s!"{n}:stuck")
    let evs := String.intercalate " " (ev1 ++ ["/"] ++ ev2)
    if !allFin then s!"{evs} | {String.intercalate " " states} | hung" else
    -- every mutating API afterwards, through the core `api` action
    let env : ApiEnv := { hasRemoteDescription := pointHasRemote p.point }
    let sim3 := acts sim2 (Api.all.map (fun a => .api a env))
    let apis := (sim3.core.apiLog.map (fun (a, o) => s!"{apiName a}={outClass o}"))
    let c := sim2.core
    let c3 := sim3.core
    let h := toString c3.notified.length :: c3.notified.map (fun x => toString x.toNat)
    let gor := if p.gs.contains true then "0" else "-"
    String.intercalate " " ([evs, "|"] ++ states ++ ["|", "ret"] ++ sim2.rets
      ++ ["|", "sig", Wire.boolTok c.sigClosed, "conn", toString c.conn.toNat, "|", "h"] ++ h
      ++ ["|", "api"] ++ apis ++ ["|", "after", Wire.boolTok c3.sigClosed, toString c3.conn.toNat,
          "|", "ops", Wire.boolTok (c3.opsCloses > 0), "|", "gor", gor])

/-! ### judge — the property on an observed run (uses the op line and the observed output only) -/

def splitBar (l : List String) : List (List String) :=
  l.foldr (fun t acc => if t == "|" then [] :: acc else match acc with | h :: tl => (t :: h) :: tl | [] => [[t]]) [[]]

/-- once `6` (closed) has been reported, only `6` follows -/
def closedStays : List String → Bool
  | [] => true
  | x :: rest => if x == "6" then rest.all (· == "6") else closedStays rest

def judge (args out : List String) : String :=
  match parseProg args with
  | none => if out == ["bad-op"] then "ok" else "violated malformed-op-accepted"
  | some p =>
    match splitBar out with
    | [["timeout"]] => "violated run-timed-out"
    | [["panic", _]] => "violated panic"
    | [_, _, ["hung"]] => "violated closer-never-returns"
    | [_evs, states, "ret" :: rets, ["sig", sig, "conn", conn], "h" :: n :: hs, "api" :: apis, ["after", sig2, conn2], ["ops", ops], ["gor", gor]] =>
      let nT := p.gs.length
      if n.toNat? != some hs.length then "bad-judge" else
      if rets.length != nT || apis.length != 10 then "bad-judge" else
      -- all calls return
      if !((List.range nT).all (fun i => states.contains s!"T{i}:fin")) then "violated closer-never-returns" else
      -- the handler never reports a non-closed state after closed
      if !closedStays hs then "violated state-after-closed" else
      -- the state is then final: signaling closed, connection closed
      if sig != "1" then "violated signaling-not-closed" else
      if conn != "6" then "violated connection-state-not-closed" else
      -- a GracefulClose must not return while a data-channel read loop goroutine is still busy
      let busyBad := (List.range nT).any (fun i =>
        (p.gs[i]?).getD false && (match ((rets[i]?).getD "").splitOn "/" with | [_, _, b] => b != "0" | _ => false))
      if busyBad then "violated graceful-returned-while-readloop-busy" else
      -- a returned GracefulClose means everything is done
      let gBad := (List.range nT).any (fun i =>
        (p.gs[i]?).getD false && (rets[i]?).getD "" != s!"r{i}=1/6/0")
      if gBad then "violated graceful-close-returned-before-closed" else
      -- every mutating API afterwards returns an InvalidStateError
      match apis.find? (fun a => match a.splitOn "=" with | [_, cls] => !cls.startsWith "IS" | _ => true) with
      | some a => s!"violated api-accepted-after-close:{(a.splitOn "=").headD "?"}"
      | none =>
      if sig2 != "1" || conn2 != "6" then "violated state-changed-after-close" else
      -- the graceful tail (operations queue closed) ran iff some call asked for it
      if ops != Wire.boolTok (p.gs.contains true) then "violated graceful-tail-not-as-requested" else
      -- runtime observation: no goroutine of the connection is left after a GracefulClose returned
      if p.gs.contains true && gor != "0" then "violated goroutine-left-after-graceful-close" else
      "ok"
    | _ => "bad-judge"

end WebrtcVerif.Drv.C21
