import WebrtcVerif.Base.Wire
import WebrtcVerif.Model.Directions
/-! Driver handler for C08.

  op:   `h <step>*` — one history on two PeerConnections A and B (a fresh pair per line).  Steps:
          `P.at.<k>`        AddTrack(kind k ∈ a|v) on P
          `P.rt.<i>`        RemoveTrack(GetTransceivers()[i].Sender())   (skip when there is no such sender)
          `P.ak.<k>.<d>`    AddTransceiverFromKind(k, direction d ∈ s|o|r|i)
          `P.st.<i>`        GetTransceivers()[i].Stop()
          `P.ss.<i>`        GetTransceivers()[i].SetSender(new sender, new track)   (direct, no isSendAllowed)
          `P.of`            CreateOffer + SetLocalDescription             (skip unless stable and ≥ 1 transceiver)
          `P.ro.<spec>`     SetRemoteDescription(the other peer's latest offer, direction attributes rewritten)
          `P.ca`            CreateAnswer
          `P.la`            SetLocalDescription(P's latest created answer)
          `P.ra.<spec>`     SetRemoteDescription(the other peer's latest created answer, rewritten)
        spec: one character per m-section, `k` keep, `s|o|r|i` replace, `x` remove the direction attribute;
        sections beyond the spec are kept (`P.ro.` = unmodified).
  out:  per step four tokens `<status> <secsA> <secsB> <transceivers of P>`, steps separated by `|`:
          status  ok | err | skip
          secsA   of: the offer created; ro/ra: the description delivered; ca: RemoteDescription() (the offer answered)
          secsB   ca: the answer created
          sections `mid:kind:dir,…`   transceivers `mid/kind/dir/currentDirection/currentRemoteDirection/T|-,…`
  `hold <step>*` runs the same world on the model of the code BEFORE the two fix commits (`adjustOld`,
  `noNarrow`); the harness never emits it, it only serves to search witnesses of the repaired defects.
-/
namespace WebrtcVerif.Drv.C08
open WebrtcVerif WebrtcVerif.Directions

def dirCh : Dir → String
  | .sendrecv => "s" | .sendonly => "o" | .recvonly => "r" | .inactive => "i"

def dirOf : String → Option Dir
  | "s" => some .sendrecv | "o" => some .sendonly | "r" => some .recvonly | "i" => some .inactive
  | _ => none

def optDirCh (c : String) : Option Dir → String
  | none => c
  | some d => dirCh d

def kindCh : Kind → String
  | .audio => "a" | .video => "v"

def kindOf : String → Option Kind
  | "a" => some .audio | "v" => some .video | _ => none

def showSecs (secs : List Sec) : String :=
  if secs.isEmpty then "-" else
  String.intercalate "," (secs.map fun s => s!"{s.mid}:{kindCh s.kind}:{optDirCh "x" s.dir}")

def showTr (t : Tr) : String :=
  let m := match t.mid with | some m => toString m | none => "-"
  s!"{m}/{kindCh t.kind}/{dirCh t.dir}/{optDirCh "-" t.cur}/{optDirCh "-" t.curRemote}/{if t.sender then "T" else "-"}"

def showTrs (ts : List Tr) : String :=
  if ts.isEmpty then "-" else String.intercalate "," (ts.map showTr)

/-- rewrite the direction attributes of a description by a spec -/
def rewrite : List Sec → List Char → List Sec
  | [], _ => []
  | secs, [] => secs
  | s :: rest, c :: cs =>
    let s' : Sec := match c with
      | 's' => { s with dir := some .sendrecv }
      | 'o' => { s with dir := some .sendonly }
      | 'r' => { s with dir := some .recvonly }
      | 'i' => { s with dir := some .inactive }
      | 'x' => { s with dir := none }
      | _ => s
    s' :: rewrite rest cs

structure World where
  a : Pc := {}
  b : Pc := {}
  offerA : Option (List Sec) := none
  offerB : Option (List Sec) := none
  answerA : Option (List Sec) := none
  answerB : Option (List Sec) := none

def World.pc (w : World) (p : Bool) : Pc := if p then w.a else w.b
def World.setPc (w : World) (p : Bool) (s : Pc) : World := if p then { w with a := s } else { w with b := s }
def World.offer (w : World) (p : Bool) : Option (List Sec) := if p then w.offerA else w.offerB
def World.answer (w : World) (p : Bool) : Option (List Sec) := if p then w.answerA else w.answerB

def seg (status secsA secsB : String) (s : Pc) : String :=
  s!"{status} {secsA} {secsB} {showTrs s.trs}"

def resStatus : Res → String
  | .ok => "ok" | .err => "err" | .desc _ => "ok"

/-- one step of the two-peer world; `none` = malformed step -/
def stepWorld (adj nar : Dir → Dir → Dir) (w : World) (tok : String) : Option (World × String) :=
  match tok.splitOn "." with
  | pn :: verb :: args =>
    if pn ≠ "A" ∧ pn ≠ "B" then none else
    let p := pn == "A"
    let s := w.pc p
    let simple (op : Op) : Option (World × String) :=
      let r := stepWith adj nar s op
      some (w.setPc p r.1, seg (resStatus r.2) "-" "-" r.1)
    match verb, args with
    | "at", [k] => (kindOf k).bind fun k => simple (.addTrack k)
    | "rt", [i] => i.toNat?.bind fun i =>
        match s.trs[i]? with
        | some t => if t.sender then simple (.removeTrack i) else some (w, seg "skip" "-" "-" s)
        | none => some (w, seg "skip" "-" "-" s)
    | "ak", [k, d] => (kindOf k).bind fun k => (dirOf d).bind fun d => simple (.addTransceiver k d)
    | "st", [i] => i.toNat?.bind fun i =>
        match s.trs[i]? with
        | some _ => simple (.stop i)
        | none => some (w, seg "skip" "-" "-" s)
    | "ss", [i] => i.toNat?.bind fun i =>
        match s.trs[i]? with
        | some _ => simple (.setSender i)
        | none => some (w, seg "skip" "-" "-" s)
    | "of", [] =>
        if s.sig ≠ .stable ∨ s.trs.isEmpty then some (w, seg "skip" "-" "-" s) else
        let r := stepWith adj nar s .localOffer
        match r.2 with
        | .desc secs =>
          let w := w.setPc p r.1
          some (if p then { w with offerA := some secs } else { w with offerB := some secs },
                seg "ok" (showSecs secs) "-" r.1)
        | _ => some (w.setPc p r.1, seg "err" "-" "-" r.1)
    | "ro", [spec] =>
        match w.offer (!p) with
        | none => some (w, seg "skip" "-" "-" s)
        | some off =>
          let d := rewrite off spec.toList
          let r := stepWith adj nar s (.remoteOffer d)
          some (w.setPc p r.1, seg (resStatus r.2) (showSecs d) "-" r.1)
    | "ca", [] =>
        let r := stepWith adj nar s .createAnswer
        match r.2 with
        | .desc ans =>
          let w := w.setPc p r.1
          some (if p then { w with answerA := some ans } else { w with answerB := some ans },
                seg "ok" (showSecs ((s.remoteDesc).getD [])) (showSecs ans) r.1)
        | _ => some (w.setPc p r.1, seg "err" "-" "-" r.1)
    | "la", [] =>
        match w.answer p with
        | none => some (w, seg "skip" "-" "-" s)
        | some _ => simple .setLocalAnswer
    | "ra", [spec] =>
        match w.answer (!p) with
        | none => some (w, seg "skip" "-" "-" s)
        | some ans =>
          let d := rewrite ans spec.toList
          let r := stepWith adj nar s (.remoteAnswer d)
          some (w.setPc p r.1, seg (resStatus r.2) (showSecs d) "-" r.1)
    | _, _ => none
  | _ => none

def runSteps (adj nar : Dir → Dir → Dir) : World → List String → Option (List String)
  | _, [] => some []
  | w, t :: rest =>
    match stepWorld adj nar w t with
    | none => none
    | some (w', out) => (runSteps adj nar w' rest).map (out :: ·)

def run (args : List String) : String :=
  match args with
  | "h" :: steps =>
    match runSteps adjust narrow {} steps with
    | some outs => String.intercalate " | " outs
    | none => "bad-op"
  -- the model BEFORE the fix (never emitted by the harness; used to search witnesses of the repaired defect)
  | "hold" :: steps =>
    match runSteps adjustOld noNarrow {} steps with
    | some outs => String.intercalate " | " outs
    | none => "bad-op"
  | _ => "bad-op"

/-! ### judge: the property on the observed output, written from RFC 3264 §6.1 without the model -/

/-- `mid:kind:dir` → (mid, dir); dir `x` = no direction attribute, `j` = rejected section (port 0) -/
def parseSec (s : String) : Option (String × String) :=
  match s.splitOn ":" with
  | [m, _, d] => some (m, d)
  | _ => none

def parseSecs (s : String) : Option (List (String × String)) :=
  if s == "-" then some [] else (s.splitOn ",").mapM parseSec

/-- the answer may send only if the offer receives, and may receive only if the offer sends -/
def sendsCh (d : String) : Bool := d == "s" || d == "o"
def recvsCh (d : String) : Bool := d == "s" || d == "r"

def legalCh (off ans : String) : Bool :=
  -- no direction attribute = sendrecv (RFC 3264 §5.1)
  let off := if off == "x" then "s" else off
  let ans := if ans == "x" then "s" else ans
  (!sendsCh ans || recvsCh off) && (!recvsCh ans || sendsCh off)

def judgeAnswer (off ans : List (String × String)) : Option String :=
  ans.findSome? fun (m, d) =>
    if d == "j" then none else
    match off.find? (·.1 == m) with
    | none => none            -- no corresponding offered section: C07's subject, not C08's
    | some (_, od) =>
      if od == "j" then none
      else if legalCh od d then none
      else some s!"illegal-answer-direction:{od}-{d}"

def splitSegs (out : List String) : List (List String) :=
  let rec go (cur : List String) (acc : List (List String)) : List String → List (List String)
    | [] => (cur.reverse :: acc).reverse
    | "|" :: rest => go [] (cur.reverse :: acc) rest
    | t :: rest => go (t :: cur) acc rest
  go [] [] out

def judgeSteps : List String → List (List String) → String
  | [], [] => "ok"
  | st :: steps, sg :: segs =>
    match sg with
    | [status, sa, sb, _] =>
      if (st.splitOn ".").drop 1 |>.head? |>.getD "" |> (· == "ca") then
        if status == "ok" then
          match parseSecs sa, parseSecs sb with
          | some off, some ans =>
            match judgeAnswer off ans with
            | some key => s!"violated {key}"
            | none => judgeSteps steps segs
          | _, _ => "bad-judge"
        else judgeSteps steps segs
      else judgeSteps steps segs
    | _ => "bad-judge"
  | _, _ => "bad-judge"

def judge (args out : List String) : String :=
  match args with
  | "h" :: steps =>
    if steps.isEmpty then (if out.isEmpty then "ok" else "bad-judge")
    else judgeSteps steps (splitSegs out)
  | _ => "bad-judge"

end WebrtcVerif.Drv.C08
