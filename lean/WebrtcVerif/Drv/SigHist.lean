import WebrtcVerif.Base.Wire
import WebrtcVerif.Model.Signaling
/-! Shared driver code for C01 / C02 / C03: negotiation histories on a pair of PeerConnections.

  op    h <cfg> <step>…
  step  <P>co | <P>ca | <P>cl | <P>sl:<ty>:<ref>[:<mu>] | <P>sr:<ty>:<ref>[:<mu>]      P ∈ {A, B}
  ty    o p a r u x          ref  mo ma po pa mo2 po2 e g
  out   one token per step: <err>/<sig>/<pendL>/<pendR>/<curL>/<curR>/<LocalDescription>/<RemoteDescription>/<events>
        or `noref` when the reference does not resolve.
  (see harness/cmd/wvh/sighist.go for the executor on the real code)
-/
namespace WebrtcVerif.Drv.SigHist
open WebrtcVerif WebrtcVerif.Signaling

/-! ### mutations of a pion-generated SDP text and what the checks find in the result -/

def mutNames : List String :=
  ["none", "attr", "nomid", "nomidlast", "noufrag", "nopwd", "nofp", "badfp", "cand", "candok",
   "trunc", "badport", "noorigin", "badfmt", "badapt"]

def mutIdx (m : String) : Option Nat :=
  if m == "" then some 0 else
  match mutNames.findIdx? (· == m) with
  | some i => some i
  | none => none

/-- How a pion-generated description looks: BUNDLE group naming the first section's mid, ICE credentials
    at media level, one session-level fingerprint.  Hence removing the mids also hides the credentials
    (the bundle master section is no longer found). -/
def mutFlags (m : String) : Flags :=
  match m with
  | "nomid" | "nomidlast" => { midOk := false, ufragOk := false }
  | "noufrag" => { ufragOk := false }
  | "nopwd" => { pwdOk := false }
  | "nofp" => { fpPresent := false }
  | "badfp" => { fpWellFormed := false }
  | "cand" => { candOk := false }
  | "trunc" | "badport" | "noorigin" => { parses := false }
  | "badfmt" | "badapt" => { engineOk := false }
  | _ => {}

/-- the empty text is accepted by pion/sdp (a description without media sections and without credentials) -/
def emptyFlags : Flags := { ufragOk := false, pwdOk := false, fpPresent := false }
def garbageFlags : Flags := { parses := false }

/-! ### parsing op lines -/

inductive Ref | mo | ma | po | pa | mo2 | po2 | e | g
  deriving DecidableEq, Repr

inductive Kind
  | co | ca | cl
  | set (side : Side) (ty : Ty) (tyLetter : String) (ref : Ref) (mu : String)
  deriving Repr

structure Step where
  peerB : Bool
  kind : Kind
  deriving Repr

def parseTy : String → Option Ty
  | "o" => some .offer | "p" => some .pranswer | "a" => some .answer | "r" => some .rollback
  | "u" => some .unknown | "x" => some .unknown
  | _ => none

def parseRef : String → Option Ref
  | "mo" => some .mo | "ma" => some .ma | "po" => some .po | "pa" => some .pa
  | "mo2" => some .mo2 | "po2" => some .po2 | "e" => some .e | "g" => some .g
  | _ => none

def parseStep (tok : String) : Option Step := do
  let cs := tok.toList
  let (peerB, rest) ← match cs with
    | 'A' :: r => some (false, String.ofList r)
    | 'B' :: r => some (true, String.ofList r)
    | _ => none
  match rest.splitOn ":" with
  | ["co"] => pure { peerB, kind := .co }
  | ["ca"] => pure { peerB, kind := .ca }
  | ["cl"] => pure { peerB, kind := .cl }
  | verb :: ty :: ref :: more =>
    let side ← if verb == "sl" then some Side.loc else if verb == "sr" then some Side.rem else none
    let t ← parseTy ty
    let r ← parseRef ref
    let m ← match more with
      | [] => some "none"
      | [m] => if (mutIdx m).isSome then some m else none
      | _ => none
    if (r == .e || r == .g) && m != "none" then none
    else pure { peerB, kind := .set side t ty r m }
  | _ => none

def parseHist (args : List String) : Option (String × List Step) :=
  match args with
  | "h" :: cfg :: steps =>
    if ["d", "m", "t", "v"].contains cfg then (steps.mapM parseStep).map (cfg, ·) else none
  | _ => none

/-! ### naming -/

def sigName : Sig → String
  | .stable => "st" | .haveLocalOffer => "hlo" | .haveRemoteOffer => "hro"
  | .haveLocalPranswer => "hlp" | .haveRemotePranswer => "hrp" | .closed => "cl" | .unknown => "unk"

def sigOfName : String → Option Sig
  | "st" => some .stable | "hlo" => some .haveLocalOffer | "hro" => some .haveRemoteOffer
  | "hlp" => some .haveLocalPranswer | "hrp" => some .haveRemotePranswer | "cl" => some .closed
  | "unk" => some .unknown
  | _ => none

def txtName : Txt → String
  | .empty => "e"
  | .garbage => "g"
  | .made k m => if m == 0 then toString k else s!"{k}~{mutNames.getD m "?"}"

/-- nth-from-last element of a list of creation indices (1 = last) -/
def nthBack (l : List Nat) (back : Nat) : Option Nat :=
  if l.length < back then none else l[l.length - back]?

/-- resolve a reference for the acting peer (`mine`) and the other one (`theirs`): lists of creation
    indices of (offers, answers) -/
def resolveRef (mineO mineA theirsO theirsA : List Nat) : Ref → Option (Option Nat)
  | .mo => (nthBack mineO 1).map some
  | .ma => (nthBack mineA 1).map some
  | .po => (nthBack theirsO 1).map some
  | .pa => (nthBack theirsA 1).map some
  | .mo2 => (nthBack mineO 2).map some
  | .po2 => (nthBack theirsO 2).map some
  | .e => some none
  | .g => some none

/-! ### running the model -/

structure Peer where
  neg : Neg := {}
  offers : List Nat := []
  answers : List Nat := []

structure World where
  a : Peer := {}
  b : Peer := {}
  made : Nat := 0

def errName : Err → String
  | .closed => "closed" | .type => "type" | .oper => "oper" | .emptysdp => "emptysdp" | .parse => "parse"
  | .mismatchOffer => "mismatch-offer" | .mismatchAnswer => "mismatch-answer"
  | .norollback => "norollback" | .transition => "transition"
  | .nomid => "nomid" | .cand => "cand" | .noufrag => "noufrag" | .nopwd => "nopwd"
  | .nofp => "nofp" | .badfp => "badfp" | .engine => "codec" | .remotePost => "other" | .localPost => "other"
  | .noremote => "noremote" | .wrongstate => "wrongstate"

def tyLetter : Ty → String
  | .offer => "o" | .pranswer => "p" | .answer => "a" | .rollback => "r" | .unknown => "u"

/-- a stored description is printed with the letter of its Go `Type` field -/
def descName (letterOfUnknown : String) : Option Desc → String
  | none => "-"
  | some d => (if d.ty == .unknown then letterOfUnknown else tyLetter d.ty) ++ txtName d.txt

def showRes (r : Res) : String :=
  let s := r.st
  let ev := if r.events.isEmpty then "-" else String.intercalate "+" (r.events.map sigName)
  let e := match r.err with | none => "ok" | some e => errName e
  String.intercalate "/" [e, sigName s.sig, descName "u" s.pendL, descName "u" s.pendR, descName "u" s.curL,
    descName "u" s.curR, descName "u" s.localDescription, descName "u" s.remoteDescription, ev]

def descOf (ty : Ty) (ref : Ref) (k : Option Nat) (mu : String) : Desc :=
  match ref, k with
  | .e, _ => { ty, txt := .empty, f := emptyFlags }
  | .g, _ => { ty, txt := .garbage, f := garbageFlags }
  | _, some k => { ty, txt := .made k ((mutIdx mu).getD 0), f := mutFlags mu }
  | _, none => { ty, txt := .garbage, f := garbageFlags }

def stepWorld (w : World) (st : Step) : World × String :=
  let (p, q) := if st.peerB then (w.b, w.a) else (w.a, w.b)
  let put (w : World) (p : Peer) : World := if st.peerB then { w with b := p } else { w with a := p }
  match st.kind with
  | .co =>
    let r := createOffer p.neg (w.made + 1)
    if r.err.isNone then
      (put { w with made := w.made + 1 } { p with neg := r.st, offers := p.offers ++ [w.made + 1] }, showRes r)
    else (put w { p with neg := r.st }, showRes r)
  | .ca =>
    let r := createAnswer p.neg (w.made + 1)
    if r.err.isNone then
      (put { w with made := w.made + 1 } { p with neg := r.st, answers := p.answers ++ [w.made + 1] }, showRes r)
    else (put w { p with neg := r.st }, showRes r)
  | .cl =>
    let r := close p.neg
    (put w { p with neg := r.st }, showRes r)
  | .set side ty _ ref mu =>
    match resolveRef p.offers p.answers q.offers q.answers ref with
    | none => (w, "noref")
    | some k =>
      let d := descOf ty ref k mu
      let r := match side with | .loc => setLocal p.neg d | .rem => setRemote p.neg d
      (put w { p with neg := r.st }, showRes r)

def runHist (steps : List Step) : String :=
  let (_, outs) := steps.foldl (fun (acc : World × List String) st =>
    let (w, o) := stepWorld acc.1 st
    (w, o :: acc.2)) ({}, [])
  if outs.isEmpty then "-" else String.intercalate " " outs.reverse

def run (args : List String) : String :=
  match parseHist args with
  | some (_, steps) => runHist steps
  | none => "bad-op"

/-! ### reading observed outputs (for the judges): nothing below uses the model's transition functions -/

structure Obs where
  err : String
  sig : String
  pl : String
  pr : String
  cl : String
  cr : String
  ld : String
  rd : String
  ev : String
  deriving DecidableEq, Repr

def Obs.initial : Obs := { err := "ok", sig := "st", pl := "-", pr := "-", cl := "-", cr := "-", ld := "-", rd := "-", ev := "-" }

def parseObs (tok : String) : Option Obs :=
  match tok.splitOn "/" with
  | [err, sig, pl, pr, cl, cr, ld, rd, ev] =>
    if (sigOfName sig).isSome then some { err, sig, pl, pr, cl, cr, ld, rd, ev } else none
  | _ => none

/-- same negotiation state (signaling state + the four descriptions) -/
def Obs.sameState (a b : Obs) : Bool :=
  a.sig == b.sig && a.pl == b.pl && a.pr == b.pr && a.cl == b.cl && a.cr == b.cr

/-- what the judge knows about one peer from the outputs seen so far -/
structure JPeer where
  prev : Obs := Obs.initial
  offers : List Nat := []
  answers : List Nat := []
  closed : Bool := false
  /-- current descriptions when the peer was last seen stable -/
  stableCl : String := "-"
  stableCr : String := "-"
  /-- name of the offer that opened the exchange in progress (set when an offer is applied successfully) -/
  exchOffer : Option String := none

structure JWorld where
  a : JPeer := {}
  b : JPeer := {}
  made : Nat := 0

/-- one judged step: the op, the peer's knowledge before it, the observation after it, and the name the
    applied description must be identified by (for set steps whose reference resolves) -/
structure View where
  step : Step
  before : JPeer
  now : Obs
  applied : Option String

/-- the name under which the description applied by a set step is identified.  For SetLocal with an empty
    text JSEP 5.4 substitutes the last created offer / answer of that peer. -/
def appliedName (p q : JPeer) (side : Side) (ty : Ty) (letter : String) (ref : Ref) (mu : String) : Option String :=
  match resolveRef p.offers p.answers q.offers q.answers ref with
  | none => none
  | some k =>
    let base := match ref, k with
      | .e, _ =>
        if side == .loc then
          match ty with
          | .offer => (match nthBack p.offers 1 with | some k => toString k | none => "e")
          | .answer | .pranswer => (match nthBack p.answers 1 with | some k => toString k | none => "e")
          | _ => "e"
        else "e"
      | .g, _ => "g"
      | _, some k => if mu == "none" then toString k else s!"{k}~{mu}"
      | _, none => "?"
    some (letter ++ base)

/-- Walk a history with its observed outputs; `none` when the output does not have the expected shape. -/
def views (steps : List Step) (out : List String) : Option (List View) :=
  let rec go (steps : List Step) (out : List String) (w : JWorld) (acc : List View) : Option (List View) :=
    match steps, out with
    | [], [] => some acc.reverse
    | st :: steps, tok :: out =>
      let (p, q) := if st.peerB then (w.b, w.a) else (w.a, w.b)
      let put (w : JWorld) (p : JPeer) : JWorld := if st.peerB then { w with b := p } else { w with a := p }
      let applied := match st.kind with
        | .set side ty letter ref mu => appliedName p q side ty letter ref mu
        | _ => none
      if tok == "noref" then
        match st.kind with
        | .set .. => if applied.isNone then go steps out w acc else none
        | _ => none
      else
        match parseObs tok with
        | none => none
        | some o =>
          match st.kind, applied with
          | .set .., none => none   -- the implementation executed a step whose reference cannot resolve
          | _, _ =>
          let v : View := { step := st, before := p, now := o, applied }
          let okCreate := o.err == "ok"
          let (w, p) := match st.kind with
            | .co => if okCreate then ({ w with made := w.made + 1 }, { p with offers := p.offers ++ [w.made + 1] }) else (w, p)
            | .ca => if okCreate then ({ w with made := w.made + 1 }, { p with answers := p.answers ++ [w.made + 1] }) else (w, p)
            | .cl => (w, { p with closed := true })
            | .set _ ty _ _ _ =>
              if o.err == "ok" && ty == Ty.offer then (w, { p with exchOffer := applied }) else (w, p)
          let p := { p with prev := o }
          let p := if o.sig == "st" then { p with stableCl := o.cl, stableCr := o.cr, exchOffer := none } else p
          go steps out (put w p) (v :: acc)
    | _, _ => none
  if steps.isEmpty && out == ["-"] then some [] else go steps out {} []

/-- first non-`ok` verdict -/
def firstBad (vs : List View) (f : View → String) : String :=
  match (vs.map f).find? (· != "ok") with
  | some v => v
  | none => "ok"

end WebrtcVerif.Drv.SigHist
