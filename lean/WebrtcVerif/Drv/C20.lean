import WebrtcVerif.Base.Wire
import WebrtcVerif.Model.DcState
/-! Driver handler for C20 (DataChannel readyState under a controlled schedule).

  op:   run det=<0|1> oh=<0|1> ch=<0|1> <thread spec>… sched <name>…
        det: DetachDataChannels; oh / ch: an OnOpen / OnClose handler is registered before the run
        thread specs (harness threads T0, T1, … in this order):
          O:<-|r|n|rn>   handleOpen(dc, isRemote = r, isAlreadyNegotiated = n)        (at most one)
          C              DataChannel.Close()
          G              DataChannel.GracefulClose()
          P              PeerConnection.Close() of the connection the channel is registered with
          R              the remote peer closes the channel (resets its outgoing stream)   (at most one)
          A              the remote aborts the association                                (at most one)
          K              the remote sends DATA_CHANNEL_ACK                                (at most one)
          S:<n>          n × Send, one per segment
          LO / LC        OnOpen(f) / OnClose(f) called during the run (only with oh=0 / ch=0; at most one each)
        sched: thread names (T<i>, W0 = the read loop) to release one segment at a time; afterwards every
        thread is drained in a fixed order.
  out:  <name:result:state>… / <drain name:result:state>… | <log: s:<state>:<ok|err> r:<ok|fail> a:… k:…>…
        | final <state> open <n> close <n> | <name:fin|blocked|parked>…
        state = cn | op | cg | cd: the changes of ReadyState() during the step (sampled after every
        setReadyState call and at its end) joined by '>'; without a change, its value.

  The simulator below maps every released segment to core `DcState.step` actions — it never changes the
  core state in any other way, so every simulated run is a `Reachable` run of the proved transition system.
-/
namespace WebrtcVerif.Drv.C20
open WebrtcVerif WebrtcVerif.DcState

inductive TKind
  | opener | closer (graceful : Bool) | pc | remoteClose | remoteAbort | remoteAck | sender (n : Nat)
  | regOpen | regClose
  deriving Repr, DecidableEq

/-- what a harness thread does next -/
inductive TPc
  | start                 -- parked at `begin`
  | openGap
  | closeGap (c : Nat)
  | closeWait (c : Nat)   -- parked at dc.close.wait (or blocked inside the wait)
  | closeWoke (c : Nat)
  | sending (left : Nat)
  | fin
  deriving Repr, DecidableEq

structure Sim where
  cfg : Cfg
  core : St
  kinds : List TKind
  tpcs : List TPc
  tblocked : List Bool
  cidx : List Nat            -- per thread: index among closers / pc closers
  wblocked : Bool := false   -- the read loop is flagged blocked by the scheduler
  log : List String := []
  trail : List RS := []      -- readyState after every action of the current segment
  deriving Repr

def act (sim : Sim) (a : Action) : Sim :=
  match step sim.cfg sim.core a with
  | some c => { sim with core := c, trail := sim.trail ++ [c.rs] }
  | none => sim

def enabled (sim : Sim) (a : Action) : Bool := (step sim.cfg sim.core a).isSome

def setT (sim : Sim) (i : Nat) (pc : TPc) (bl : Bool := false) : Sim :=
  { sim with tpcs := sim.tpcs.set i pc, tblocked := sim.tblocked.set i bl }

/-- the unobserved goroutines (`go handler()`, `go once.Do(…)`) run at once -/
def freeRun : Nat → Sim → Sim
  | 0, sim => sim
  | fuel + 1, sim =>
    if enabled sim .runOnOpen then freeRun fuel (act sim .runOnOpen)
    else if enabled sim .fireOpen then freeRun fuel (act sim .fireOpen)
    else if enabled sim .fireClose then freeRun fuel (act sim .fireClose)
    else sim

/-- a read loop sitting inside its read reacts at once: it consumes a queued acknowledgement, and a
    failing read makes it park at dc.read.err -/
def readerReact (sim : Sim) : Sim :=
  match sim.core.reader with
  | some .inRead =>
    let sim := if enabled sim .readAck then act sim .readAck else sim
    let sim := if enabled sim .readFail then act sim .readFail else sim
    sim
  | _ => sim

def settle (sim : Sim) : Sim := freeRun 16 (readerReact sim)

def stName : RS → String
  | .connecting => "cn" | .open => "op" | .closing => "cg" | .closed => "cd"

def resName : SendRes → String
  | .ok => "ok" | _ => "err"

def addLog (sim : Sim) (e : String) : Sim := { sim with log := sim.log ++ [e] }

def afterCloseSeg (sim : Sim) (i c : Nat) : String × Sim :=
  match sim.core.closers[c]? with
  | some .waiting => ("dc.close.wait", setT sim i (.closeWait c))
  | _ => ("fin", setT sim i .fin)

/-- one `Send` -/
def sendSeg (sim : Sim) (i n : Nat) : String × Sim :=
  let e := s!"s:{stName sim.core.rs}:{resName (sendResult sim.core)}"
  let sim := addLog (act sim .send) e
  if n == 0 then ("fin", setT sim i .fin) else ("send", setT sim i (.sending n))

/-- one segment of harness thread `i` (not blocked) -/
def segT (sim : Sim) (i : Nat) (k : TKind) (c : Nat) : TPc → String × Sim
  | .fin => ("skip", sim)
  | .start =>
    match k with
    | .opener =>
      let sim := act sim .open1
      if sim.core.opener == .early then ("fin", setT (act sim .openEarly) i .fin)
      else ("dc.open.gap", setT sim i .openGap)
    | .closer g =>
      let sim := act (act sim (.closeBegin c g)) (.closeTest c)
      match sim.core.closers[c]? with
      | some (.gap _ _) => ("dc.close.gap", setT sim i (.closeGap c))
      | _ => afterCloseSeg sim i c
    | .pc =>
      let sim := act (act (act sim (.pcBegin c)) (.pcSet c)) (.pcStop c)
      ("fin", setT sim i .fin)
    | .remoteClose =>
      let ok := enabled sim .remoteClose
      ("fin", setT (addLog (act sim .remoteClose) (if ok then "r:ok" else "r:fail")) i .fin)
    | .remoteAbort =>
      let ok := enabled sim .remoteAbort
      ("fin", setT (addLog (act sim .remoteAbort) (if ok then "a:ok" else "a:fail")) i .fin)
    | .remoteAck =>
      let ok := enabled sim .remoteAck
      ("fin", setT (addLog (act sim .remoteAck) (if ok then "k:ok" else "k:fail")) i .fin)
    | .sender n => sendSeg sim i (n - 1)
    | .regOpen => ("fin", setT (act (act sim .regOpen1) .regOpen2) i .fin)
    | .regClose => ("fin", setT (act (act sim .regClose1) .regClose2) i .fin)
  | .sending 0 => ("fin", setT sim i .fin)
  | .sending (n + 1) => sendSeg sim i n
  | .openGap =>
    let sim := act (act (act sim .open2) .open3) .open4
    let sim := if sim.core.opener == .late then act sim .open5 else sim
    ("fin", setT sim i .fin)
  | .closeGap c => afterCloseSeg (act sim (.closeSet c)) i c
  | .closeWait c =>
    if enabled sim (.closeWake c) then ("dc.close.woke", setT (act sim (.closeWake c)) i (.closeWoke c))
    else ("blocked", setT sim i (.closeWait c) true)
  | .closeWoke _ => ("fin", setT sim i .fin)

def stepT (sim : Sim) (i : Nat) : String × Sim :=
  match sim.tpcs[i]?, sim.kinds[i]? with
  | some pc, some k =>
    let c := (sim.cidx[i]?).getD 0
    if (sim.tblocked[i]?).getD false then
      match pc with
      | .closeWait c =>
        if enabled sim (.closeWake c) then ("fin", setT (act sim (.closeWake c)) i .fin) else ("skip", sim)
      | _ => ("skip", sim)
    else segT sim i k c pc
  | _, _ => ("skip", sim)

/-- `Step` on the read loop W0 -/
def stepW (sim : Sim) : String × Sim :=
  match sim.core.reader with
  | none => ("skip", sim)
  | some .done => ("skip", sim)
  | some .atWait =>
    let sim := readerReact (act sim .readEnter)
    if sim.core.reader == some .failed then ("dc.read.err", sim) else ("blocked", { sim with wblocked := true })
  | some .inRead => ("skip", sim)          -- still inside its read (flagged blocked)
  | some .failed => ("fin", { act sim .readSet with wblocked := false })

def parseName (n : String) : Option (Bool × Nat) :=
  match n.toList with
  | 'T' :: r => (String.ofList r).toNat?.map (fun k => (true, k))
  | 'W' :: r => (String.ofList r).toNat?.map (fun k => (false, k))
  | _ => none

def collapse : List RS → List RS
  | a :: b :: rest => if a == b then collapse (b :: rest) else a :: collapse (b :: rest)
  | l => l

def stepName (sim : Sim) (n : String) : String × Sim :=
  let before := sim.core.rs
  let sim := { sim with trail := [] }
  let (r, sim) := match parseName n with
    | some (true, i) => stepT sim i
    | some (false, 0) => stepW sim
    | _ => ("skip", sim)
  let sim := settle sim
  -- the changes of readyState during the segment; when there is none, its value
  let changes := (collapse (before :: sim.trail ++ [sim.core.rs])).drop 1
  let seen := String.intercalate ">" ((if changes.isEmpty then [sim.core.rs] else changes).map stName)
  (s!"{n}:{r}:{seen}", sim)

def allNames (sim : Sim) : List String :=
  (List.range sim.tpcs.length).map (fun i => s!"T{i}") ++ (if sim.core.reader.isSome then ["W0"] else [])

def isFinished (sim : Sim) (n : String) : Bool :=
  match parseName n with
  | some (true, i) => sim.tpcs[i]? == some TPc.fin
  | some (false, 0) => sim.core.reader == some .done
  | _ => true

def isBlocked (sim : Sim) (n : String) : Bool :=
  match parseName n with
  | some (true, i) => (sim.tblocked[i]?).getD false
  | some (false, 0) => sim.wblocked
  | _ => false

def isSkip (e : String) : Bool := (e.splitOn ":")[1]? == some "skip"

/-- one pass of the drain over a snapshot of names -/
def drainPass (sim : Sim) (names : List String) (onlyBlocked : Bool) : Sim × List String × Bool :=
  names.foldl (fun (acc : Sim × List String × Bool) n =>
    let (sim, ev, prog) := acc
    if isFinished sim n then acc
    else if onlyBlocked then
      if isBlocked sim n then
        let (e, sim') := stepName sim n
        (sim', ev ++ [e], prog || !isSkip e)
      else acc
    else if isBlocked sim n then acc
    else
      let (e, sim') := stepName sim n
      (sim', ev ++ [e], true)) (sim, [], false)

def drain : Nat → Sim → List String → Sim × List String
  | 0, sim, ev => (sim, ev)
  | fuel + 1, sim, ev =>
    if ev.length ≥ 400 then (sim, ev) else
    let (sim1, ev1, prog1) := drainPass sim (allNames sim) false
    if prog1 then drain fuel sim1 (ev ++ ev1)
    else
      let (sim2, ev2, prog2) := drainPass sim1 (allNames sim1) true
      if prog2 then drain fuel sim2 (ev ++ ev1 ++ ev2) else (sim2, ev ++ ev1 ++ ev2)

/-! ### parsing -/

structure Prog where
  detach : Bool
  openH : Bool
  closeH : Bool
  specs : List String
  sched : List String

def flagTok (k t : String) : Option Bool :=
  if t == k ++ "=0" then some false else if t == k ++ "=1" then some true else none

def parseKind (s : String) : Option TKind :=
  match s with
  | "O:-" | "O:r" | "O:n" | "O:rn" => some .opener
  | "C" => some (.closer false)
  | "G" => some (.closer true)
  | "P" => some .pc
  | "R" => some .remoteClose
  | "A" => some .remoteAbort
  | "K" => some .remoteAck
  | "LO" => some .regOpen
  | "LC" => some .regClose
  | _ =>
    match s.toList with
    | 'S' :: ':' :: r =>
      match (String.ofList r).toNat? with
      | some n => if 1 ≤ n && n ≤ 9 then some (.sender n) else none
      | none => none
    | _ => none

def parseProg (args : List String) : Option Prog :=
  match args with
  | d :: o :: c :: rest => do
    let detach ← flagTok "det" d
    let openH ← flagTok "oh" o
    let closeH ← flagTok "ch" c
    let specs := rest.takeWhile (· ≠ "sched")
    let sched := (rest.dropWhile (· ≠ "sched")).drop 1
    let kinds ← specs.mapM parseKind
    let cnt (p : TKind → Bool) := (kinds.filter p).length
    if cnt (· == .opener) > 1 || cnt (· == .remoteClose) > 1 || cnt (· == .remoteAbort) > 1
        || cnt (· == .remoteAck) > 1 || specs.isEmpty || specs.length > 10
        || cnt (· == .regOpen) > (if openH then 0 else 1) || cnt (· == .regClose) > (if closeH then 0 else 1) then none
    else pure { detach, openH, closeH, specs, sched }
  | _ => none

def isCloser : TKind → Bool
  | .closer _ => true
  | _ => false

def initSim (p : Prog) : Option Sim := do
  let kinds ← p.specs.mapM parseKind
  let immediate := p.specs.any (fun s => s == "O:r" || s == "O:n" || s == "O:rn")
  -- index of each thread among the threads of its kind (closers, pc closers)
  let cidx := (List.range kinds.length).map (fun i =>
    let k := kinds[i]?.getD .pc
    ((kinds.take i).filter (fun k' => if isCloser k then isCloser k' else k' == k)).length)
  let nc := (kinds.filter isCloser).length
  let np := (kinds.filter (· == .pc)).length
  pure { cfg := { detach := p.detach, immediate, openH := p.openH, closeH := p.closeH }, core := DcState.init nc np,
         kinds, tpcs := kinds.map (fun _ => .start), tblocked := kinds.map (fun _ => false), cidx }

def stateOf (sim : Sim) (n : String) : String :=
  if isFinished sim n then s!"{n}:fin" else if isBlocked sim n then s!"{n}:blocked" else s!"{n}:parked"

def run (args : List String) : String :=
  match args with
  | "run" :: rest =>
    match parseProg rest with
    | none => "bad-op"
    | some p =>
      match initSim p with
      | none => "bad-op"
      | some sim0 =>
        let (sim1, ev1) := p.sched.foldl (fun (acc : Sim × List String) n =>
          let (e, s') := stepName acc.1 n
          (s', acc.2 ++ [e])) (sim0, [])
        let (sim2, ev2) := drain 200 sim1 []
        String.intercalate " " (ev1 ++ ["/"] ++ ev2 ++ ["|"] ++ sim2.log
          ++ ["|", "final", stName sim2.core.rs, "open", toString sim2.core.openFired, "close", toString sim2.core.closeFired, "|"]
          ++ (allNames sim2).map (stateOf sim2))
  | _ => "bad-op"

/-! ### judge — the property on an observed run (uses the program and the observed output only) -/

def splitBar (l : List String) : List (List String) :=
  l.foldr (fun t acc => if t == "|" then [] :: acc else match acc with | h :: tl => (t :: h) :: tl | [] => [[t]]) [[]]

def rankOf (s : String) : Option Nat :=
  match s with
  | "cn" => some 0 | "op" => some 1 | "cg" => some 2 | "cd" => some 3 | _ => none

def regressKey (a b : String) : String :=
  match a, b with
  | "cd", "cg" => "closing-after-closed"
  | "cd", "op" => "open-after-closed"
  | "cg", "op" => "open-after-closing"
  | _, _ => s!"state-regressed-{a}-{b}"

/-- first backward move in the sampled sequence -/
def firstRegress : List String → Option (String × String)
  | a :: b :: rest =>
    match rankOf a, rankOf b with
    | some x, some y => if y < x then some (a, b) else firstRegress (b :: rest)
    | _, _ => some (a, b)
  | _ => none

def judge (args out : List String) : String :=
  match args with
  | "run" :: rest =>
    match parseProg rest, splitBar out with
    | some p, [evs, log, fin, states] =>
      match fin with
      | ["final", fst, "open", o, "close", c] =>
        match o.toNat?, c.toNat? with
        | some nOpen, some nClose =>
          let evs := evs.filter (· ≠ "/")
          let fields := evs.filterMap (fun e => (e.splitOn ":")[2]?)
          let samples := fields.flatMap (·.splitOn ">")
          if fields.length != evs.length || (rankOf fst).isNone then "bad-judge" else
          -- J1: the sampled readyState sequence (from connecting) only moves forward
          match firstRegress ("cn" :: samples ++ [fst]) with
          | some (a, b) => s!"violated {regressKey a b}"
          | none =>
          -- J2: handlers at most once per registration (one registration each, before or during the run)
          let regO := p.openH || p.specs.contains "LO"
          let regC := p.closeH || p.specs.contains "LC"
          if nOpen > (if regO then 1 else 0) then "violated onopen-ran-more-than-once" else
          if nClose > (if regC then 1 else 0) then "violated onclose-ran-more-than-once" else
          -- J3: Send on a channel that is not open returns an error
          if log.any (fun e => match e.splitOn ":" with
              | ["s", st, res] => st != "op" && res == "ok"
              | _ => false) then "violated send-succeeded-when-not-open" else
          if log.any (fun e => match e.splitOn ":" with
              | ["s", _, res] => res == "panic"
              | _ => false) then "violated send-panicked" else
          -- J4: Close was called, the transport is gone, everything has returned ⇒ closed
          let has (pre : String) := p.specs.any (·.startsWith pre)
          let allFin := states.all (·.endsWith ":fin")
          let closeCalled := has "C" || has "G"
          let transportGone := has "R" || has "A" || has "P"
          let attached := has "O:" || has "P"       -- the channel had the transport, or its connection was closed
          if !p.detach && allFin && closeCalled && transportGone && attached && fst != "cd" then
            "violated not-closed-after-close-and-transport-gone"
          else "ok"
        | _, _ => "bad-judge"
      | _ => "bad-judge"
    | none, _ => if out == ["bad-op"] then "ok" else "bad-judge"   -- malformed op line, refused
    | _, _ => "bad-judge"
  | _ => if out == ["bad-op"] then "ok" else "bad-judge"

end WebrtcVerif.Drv.C20
