import WebrtcVerif.Base.Wire
import WebrtcVerif.Model.MediaPath
/-! Driver handler for C23 (media end to end; see harness/cmd/wvh/c23.go).
  op:  media <offerer A|B> <dc 0|1> <ntracks> {<mime-hex> <streamID-hex> <trackID-hex> <sender A|B>}* <npackets> <seed>
  out: per track `trk <i> ssrc=<ok|bad> pt=<ok|bad> codec=<ok|bad> sid=<ok|bad> id=<ok|bad> payload=<ok|bad> hdr=<ok|bad> delivered=<ok|none>`
       or `inconclusive <why>`.
  The model's prediction for a negotiated, connected pair is the theorem C23_end_to_end_partial: every field ok. -/
namespace WebrtcVerif.Drv.C23
open WebrtcVerif

def fields : List String := ["ssrc", "pt", "codec", "sid", "id", "payload", "hdr", "delivered"]

def run (args : List String) : String :=
  match args with
  | "media" :: _ :: _ :: n :: _ =>
    match n.toNat? with
    | some n => String.intercalate " " ((List.range n).map (fun i =>
        s!"trk {i} ssrc=ok pt=ok codec=ok sid=ok id=ok payload=ok hdr=ok delivered=ok"))
    | none => "bad-op"
  | _ => "bad-op"

def keyOf : String → String
  | "ssrc" => "wrong-ssrc"
  | "pt" => "wrong-payload-type"
  | "codec" => "wrong-remote-codec"
  | "sid" => "wrong-stream-id"
  | "id" => "wrong-track-id"
  | "payload" => "payload-altered"
  | "hdr" => "header-field-altered"
  | "delivered" => "media-not-delivered"
  | _ => "unknown"

def judge (args out : List String) : String :=
  match args, out with
  | _, "inconclusive" :: _ => "ok"
  | "media" :: _, _ =>
    match out.find? (fun t => match t.splitOn "=" with
        | [k, v] => fields.contains k && v != "ok"
        | _ => false) with
    | some t => s!"violated {keyOf ((t.splitOn "=").headD "")} {t}"
    | none => if out.head? == some "trk" then "ok" else "bad-judge"
  | _, _ => "bad-judge"

end WebrtcVerif.Drv.C23
