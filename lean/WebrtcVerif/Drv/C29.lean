import WebrtcVerif.Base.Wire
import WebrtcVerif.Model.StaticRtp
/-! Driver handler for C29 (TrackLocalStaticRTP fan-out).
  op:   `h <codec4> <nops> <op>*`
        codec4 = `<mimeHex> <clockRate> <channels> <fmtpHex>`
        op     = `B <idHex> <ssrc> <ssrcRtx> <fail> <ncodecs> {<codec4> <pt>}*`   bind a fresh context; its writer
                                                                                  handle is the ordinal of the B op
               | `U <idHex>`                                                      unbind by id
               | `W <pkt>` | `V <pkt>`                                            WriteRTP(&pkt) | Write(pkt.Marshal())
        pkt    = `<ver> <pad> <ext> <marker> <pt> <seq> <ts> <ssrc> <csrcs> <extProfile> <exts> <hdrPad> <pktPad> <payloadHex>`
                 csrcs = `c1,c2,…` | `-` ; exts = `id:hex,id:hex,…` | `-`
  out:  one segment per op, separated by `|`:
        `B ok <pt>` | `B err` | `U ok` | `U err`
        `W <ok|err> <n> {<writer> <hdr12> <payloadHex>}^n C <pkt>`  deliveries sorted by writer (stable); `C` = the
                                                                    caller's packet as read back after the call
        hdr12 = the first 12 tokens of pkt (…, <hdrPad>)
-/
namespace WebrtcVerif.Drv.C29
open WebrtcVerif WebrtcVerif.StaticRtp

def txt (s : String) : Option Str := (Wire.textOfHex s).map String.toList

def parseCsrc (s : String) : Option (List Nat) :=
  if s == "-" then some [] else (s.splitOn ",").mapM String.toNat?

def parseExts (s : String) : Option (List Ext) :=
  if s == "-" then some [] else
  (s.splitOn ",").mapM (fun e => match e.splitOn ":" with
    | [i, h] => do let i ← i.toNat?; let b ← Wire.bytesOfHex h; pure ({ id := i, payload := b } : Ext)
    | _ => none)

def parseHdr12 : List String → Option Header
  | [v, pad, ext, mk, pt, seq, ts, ssrc, cs, ep, exts, hpad] => do
    let v ← v.toNat?; let pad ← Wire.tokBool pad; let ext ← Wire.tokBool ext; let mk ← Wire.tokBool mk
    let pt ← pt.toNat?; let seq ← seq.toNat?; let ts ← ts.toNat?; let ssrc ← ssrc.toNat?
    let cs ← parseCsrc cs; let ep ← ep.toNat?; let exts ← parseExts exts; let hpad ← hpad.toNat?
    pure { version := v, padding := pad, ext := ext, marker := mk, pt, seq, ts, ssrc, csrc := cs,
           extProfile := ep, exts, paddingSize := hpad }
  | _ => none

def parsePkt (ts : List String) : Option Packet :=
  match ts.drop 12 with
  | [ppad, pl] => do
    let h ← parseHdr12 (ts.take 12)
    let ppad ← ppad.toNat?
    let pl ← Wire.bytesOfHex pl
    pure { hdr := h, payload := pl, paddingSize := ppad }
  | _ => none

def showCsrc (cs : List Nat) : String := if cs.isEmpty then "-" else String.intercalate "," (cs.map toString)
def showExts (es : List Ext) : String :=
  if es.isEmpty then "-" else String.intercalate "," (es.map (fun e => s!"{e.id}:{Wire.hexOfBytes e.payload}"))

def showHdr12 (h : Header) : List String :=
  [toString h.version, Wire.boolTok h.padding, Wire.boolTok h.ext, Wire.boolTok h.marker, toString h.pt,
   toString h.seq, toString h.ts, toString h.ssrc, showCsrc h.csrc, toString h.extProfile, showExts h.exts,
   toString h.paddingSize]

def showPkt (p : Packet) : List String := showHdr12 p.hdr ++ [toString p.paddingSize, Wire.hexOfBytes p.payload]

def parseCodec4 (m r c f : String) (pt : Nat) : Option Codec := do
  let m ← txt m; let r ← r.toNat?; let c ← c.toNat?; let f ← txt f
  pure { mime := m, clockRate := r, channels := c, fmtp := f, pt }

def parseCodecs : Nat → List String → Option (List Codec × List String)
  | 0, rest => some ([], rest)
  | n + 1, m :: r :: c :: f :: pt :: rest => do
    let pt ← pt.toNat?
    let cd ← parseCodec4 m r c f pt
    let (tl, rest') ← parseCodecs n rest
    pure (cd :: tl, rest')
  | _, _ => none

/-- a parsed op; `fail` = the context's writer returns an error from WriteRTP -/
inductive POp
  | bind (c : Ctx) (fail : Bool)
  | unbind (id : Str)
  | write (p : Packet) (viaBytes : Bool)

def parseOps : Nat → Nat → List String → Option (List POp)
  | 0, _, [] => some []
  | n + 1, w, "B" :: id :: ssrc :: rtx :: fail :: nc :: rest => do
    let id ← txt id; let ssrc ← ssrc.toNat?; let rtx ← rtx.toNat?; let fail ← Wire.tokBool fail
    let nc ← nc.toNat?
    let (cs, rest') ← parseCodecs nc rest
    let tl ← parseOps n (w + 1) rest'
    pure (.bind { id, ssrc, ssrcRTX := rtx, codecs := cs, writer := w } fail :: tl)
  | n + 1, w, "U" :: id :: rest => do
    let id ← txt id
    let tl ← parseOps n w rest
    pure (.unbind id :: tl)
  | n + 1, w, "W" :: rest => do
    let p ← parsePkt (rest.take 14)
    let tl ← parseOps n w (rest.drop 14)
    pure (.write p false :: tl)
  | n + 1, w, "V" :: rest => do
    let p ← parsePkt (rest.take 14)
    let tl ← parseOps n w (rest.drop 14)
    pure (.write p true :: tl)
  | _, _, _ => none

def parseHistory (args : List String) : Option (Codec × List POp) :=
  match args with
  | "h" :: m :: r :: c :: f :: n :: rest => do
    let cd ← parseCodec4 m r c f 0
    let n ← n.toNat?
    let ops ← parseOps n 0 rest
    pure (cd, ops)
  | _ => none

/-- stable insertion sort of deliveries by writer handle -/
def insertD (d : Delivery) : List Delivery → List Delivery
  | [] => [d]
  | x :: xs => if d.writer < x.writer then d :: x :: xs else x :: insertD d xs
def sortD (ds : List Delivery) : List Delivery := ds.foldr insertD []

def showWrite (failing : List Nat) (ds : List Delivery) (after : Packet) : List String :=
  let err := ds.any (fun d => failing.contains d.writer)
  let ds := sortD ds
  ["W", if err then "err" else "ok", toString ds.length]
    ++ (ds.map (fun d => toString d.writer :: showHdr12 d.hdr ++ [Wire.hexOfBytes d.payload])).flatten
    ++ ["C"] ++ showPkt after

def runOps : Track → List Nat → List POp → List (List String)
  | _, _, [] => []
  | t, failing, .bind c fail :: rest =>
    let r := StaticRtp.bind t c
    let seg := match r.2 with | some cd => ["B", "ok", toString cd.pt] | none => ["B", "err"]
    seg :: runOps r.1 (if fail then c.writer :: failing else failing) rest
  | t, failing, .unbind id :: rest =>
    let r := unbind t id
    ["U", if r.2 then "ok" else "err"] :: runOps r.1 failing rest
  | t, failing, .write p _ :: rest =>
    let r := writeRTP t p
    showWrite failing r.deliveries r.callerAfter :: runOps r.track failing rest

def run (args : List String) : String :=
  match parseHistory args with
  | none => "bad-op"
  | some (cd, ops) => String.intercalate " | " ((runOps { codec := cd } [] ops).map (String.intercalate " "))

/-! ### judge: the property evaluated on an observed output, without `bind`/`unbind`/`writeRTP` -/

def splitSegs : List String → List (List String)
  | [] => [[]]
  | t :: ts =>
    if t == "|" then [] :: splitSegs ts
    else match splitSegs ts with
      | [] => [[t]]
      | h :: tl => (t :: h) :: tl

/-- what the judge knows about a writer: its context and the payload type `Bind` returned -/
structure WInfo where
  ctx : Ctx
  pt : Nat

def parseDeliveries : Nat → List String → Option (List Delivery × List String)
  | 0, rest => some ([], rest)
  | n + 1, w :: rest => do
    let w ← w.toNat?
    let h ← parseHdr12 (rest.take 12)
    match rest.drop 12 with
    | pl :: rest' => do
      let pl ← Wire.bytesOfHex pl
      let (tl, rest'') ← parseDeliveries n rest'
      pure ({ writer := w, hdr := h, payload := pl } :: tl, rest'')
    | [] => none
  | _, _ => none

def insertN (a : Nat) : List Nat → List Nat
  | [] => [a]
  | x :: xs => if a ≤ x then a :: x :: xs else x :: insertN a xs
def sortN (l : List Nat) : List Nat := l.foldr insertN []

def dedup (l : List (List Nat)) : List (List Nat) :=
  l.foldr (fun x acc => if acc.contains x then acc else x :: acc) []

/-- remove the first occurrence -/
def removeOne (a : Nat) : List Nat → List Nat
  | [] => []
  | x :: xs => if x == a then xs else x :: removeOne a xs

def hasDup : List Nat → Bool
  | [] => false
  | x :: xs => xs.contains x || hasDup xs

/-- header fields other than SSRC, payload type and padding length -/
def sameOtherFields (a b : Header) : Bool :=
  a.version == b.version && a.padding == b.padding && a.ext == b.ext && a.marker == b.marker
    && a.seq == b.seq && a.ts == b.ts && a.csrc == b.csrc && a.extProfile == b.extProfile && a.exts == b.exts

/-- Judge state: `cands` = every set of writers (sorted list) that may be "currently bound" given the
    history so far — more than one only while ids repeat and an `Unbind` could have removed either. -/
def judgeOps (track : Codec) : List POp → List (List String) → List WInfo → List (List Nat) → List Nat → String
  | [], [], _, _, _ => "ok"
  | .bind c _ :: ops, seg :: segs, ws, cands, ever =>
    match seg with
    | ["B", "ok", pt] =>
      match pt.toNat? with
      | none => "bad-judge"
      | some pt =>
        -- the negotiated payload type is one the context offered for the track's codec
        if !(c.codecs.any (fun cd => cd.pt == pt && eqFold cd.mime track.mime)) then
          "violated negotiated-payload-type-not-offered"
        else judgeOps track ops segs (ws ++ [{ ctx := c, pt }]) (cands.map (fun s => sortN (c.writer :: s)))
               (c.writer :: ever)
    | ["B", "err"] => judgeOps track ops segs (ws ++ [{ ctx := c, pt := 0 }]) cands ever
    | _ => "bad-judge"
  | .unbind id :: ops, seg :: segs, ws, cands, ever =>
    match seg with
    | ["U", "ok"] =>
      let next := cands.flatMap (fun s =>
        (s.filter (fun w => match ws[w]? with | some i => i.ctx.id == id | none => false)).map (fun w => removeOne w s))
      judgeOps track ops segs ws (if next.isEmpty then cands else dedup next) ever
    | ["U", "err"] =>
      -- Unbind is how a binding gets removed: it may only fail when no current binding carries the id
      if !cands.isEmpty && cands.all (fun s => s.any (fun w => match ws[w]? with | some i => i.ctx.id == id | none => false))
      then "violated unbind-failed-while-bound"
      else judgeOps track ops segs ws cands ever
    | _ => "bad-judge"
  | .write p _ :: ops, seg :: segs, ws, cands, ever =>
    match seg with
    | "W" :: _res :: n :: rest =>
      match n.toNat?.bind (fun n => parseDeliveries n rest) with
      | some (ds, "C" :: callerToks) =>
        match parsePkt callerToks with
        | none => "bad-judge"
        | some after =>
          let got := sortN (ds.map (·.writer))
          let fits := cands.filter (· == got)
          if fits.isEmpty then
            let union := cands.flatten
            match got.find? (fun w => !union.contains w) with
            | some w => if ever.contains w then "violated delivery-after-unbind" else "violated delivery-to-unbound-writer"
            | none =>
              if hasDup got && !(cands.any hasDup) then "violated duplicate-delivery"
              else if cands.all (fun s => s.any (fun w => !got.contains w)) then "violated missing-delivery"
              else "violated delivery-set-mismatch"
          else
            let bad := ds.findSome? (fun d =>
              match ws[d.writer]? with
              | none => some "delivery-to-unbound-writer"
              | some i =>
                if d.hdr.ssrc != i.ctx.ssrc then some "wrong-ssrc"
                else if d.hdr.pt != i.pt then some "wrong-payload-type"
                else if d.payload != p.payload then some "payload-changed"
                else if !sameOtherFields d.hdr p.hdr then some "header-field-changed"
                else if d.hdr.paddingSize != p.effPadding then some "padding-size-lost"
                else none)
            match bad with
            | some k => "violated " ++ k
            | none =>
              if after != p then "violated caller-packet-modified"
              else judgeOps track ops segs ws fits ever
      | _ => "bad-judge"
    | _ => "bad-judge"
  | _, _, _, _, _ => "bad-judge"

def judge (args out : List String) : String :=
  match parseHistory args with
  | none => "bad-judge"
  | some (cd, ops) => judgeOps cd ops (if ops.isEmpty then [] else splitSegs out) [] [[]] []

end WebrtcVerif.Drv.C29
