import WebrtcVerif.Base.Wire
import WebrtcVerif.Model.NegNeeded
/-! Driver handler for C04 (negotiationneeded).

  op:   h <tok>…     one sequential history on the pair (a, b); tokens `<side>:<verb>[:<arg>…]`
          at:<trk>  AddTrack (trk = v0..v3 | a0..a3)      rt:<k>  RemoveTrack of the k-th sender handed out
          tr:<v|a>:<sr|so|ro|in>  AddTransceiverFromKind   dc      CreateDataChannel
          co / ca   CreateOffer / CreateAnswer             slo / sla  SetLocalDescription(own last offer / answer)
          sro / sra SetRemoteDescription(peer's last offer / answer)      cl  Close
          slp / srp the same with the last answer applied as a provisional answer (type pranswer)
          slr / srr SetLocalDescription / SetRemoteDescription with type rollback
  out:  per op `<res> <A> <B>` with res 0 nil / 1 error / 2 error after the state was committed / - skipped and
        `<sig><I|B><n|-><c|->:<count>` per side, then `fa <state…> fb <state…>` (signaling state inside each
        handler invocation).  A blocked side prints `?` for [[NegotiationNeeded]] and the count of its last
        drained observation (whether the negotiationNeededOp started by setDescription runs before the API call
        enqueues the blocking operation is a race; the totals after the drain do not depend on it).

  `run` plays the history on `NegNeeded.World` using only `World.step` (call, tail, then `work` on both sides
  until neither can move), so every simulated run is a `WReach` run of the transition system the theorems are
  about.  `judge` evaluates the property on an observed output without using the model.
-/
namespace WebrtcVerif.Drv.C04
open WebrtcVerif WebrtcVerif.NegNeeded

def parseSide (s : String) : Option Side :=
  if s == "a" then some .a else if s == "b" then some .b else none

def parseTrack (s : String) : Option (Kind × Nat) :=
  match s.toList with
  | ['v', d] => if '0' ≤ d ∧ d ≤ '9' then some (.video, d.toNat - 48) else none
  | ['a', d] => if '0' ≤ d ∧ d ≤ '9' then some (.audio, 10 + (d.toNat - 48)) else none
  | _ => none

def parseDir (s : String) : Option Dir :=
  if s == "sr" then some .sendrecv else if s == "so" then some .sendonly
  else if s == "ro" then some .recvonly else if s == "in" then some .inactive else none

def parseKind (s : String) : Option Kind :=
  if s == "v" then some .video else if s == "a" then some .audio else none

def parseOp (tok : String) : Option (Side × WApi) :=
  match tok.splitOn ":" with
  | [s, "at", t] => do let s ← parseSide s; let (k, n) ← parseTrack t; pure (s, .addTrack k n)
  | [s, "rt", k] => do let s ← parseSide s; let k ← k.toNat?; pure (s, .removeTrack k)
  | [s, "tr", k, d] => do let s ← parseSide s; let k ← parseKind k; let d ← parseDir d; pure (s, .addTransceiver k d)
  | [s, "dc"] => do let s ← parseSide s; pure (s, .createDataChannel)
  | [s, "co"] => do let s ← parseSide s; pure (s, .createOffer)
  | [s, "ca"] => do let s ← parseSide s; pure (s, .createAnswer)
  | [s, "slo"] => do let s ← parseSide s; pure (s, .setLocalOffer)
  | [s, "sla"] => do let s ← parseSide s; pure (s, .setLocalAnswer)
  | [s, "sro"] => do let s ← parseSide s; pure (s, .setRemoteOffer)
  | [s, "sra"] => do let s ← parseSide s; pure (s, .setRemoteAnswer)
  | [s, "slp"] => do let s ← parseSide s; pure (s, .setLocalPranswer)
  | [s, "srp"] => do let s ← parseSide s; pure (s, .setRemotePranswer)
  | [s, "slr"] => do let s ← parseSide s; pure (s, .rollbackLocal)
  | [s, "srr"] => do let s ← parseSide s; pure (s, .rollbackRemote)
  | [s, "cl"] => do let s ← parseSide s; pure (s, .close)
  | _ => none

def sigLetter : Sig → String
  | .stable => "s" | .haveLocalOffer => "l" | .haveRemoteOffer => "r"
  | .haveLocalPranswer => "p" | .haveRemotePranswer => "q" | .closed => "c"

def idle (pc : PC) : Bool := pc.queue.isEmpty && pc.running.isNone

/-- a blocked side: [[NegotiationNeeded]] unreported, count of the last drained observation (`drained`) -/
def report (pc : PC) (drained : Nat) : String :=
  if idle pc then
    sigLetter pc.sig ++ "I" ++ (if pc.isNN then "n" else "-") ++ (if check pc then "c" else "-") ++ ":"
      ++ toString pc.fired.length
  else sigLetter pc.sig ++ "B?" ++ (if check pc then "c" else "-") ++ ":" ++ toString drained

def resTok : Res → String
  | .ok => "0" | .err => "1" | .errLate => "2"

/-- one API call of the history: `call`, then `tail` if one is pending, then drain both queues -/
def playOp (w : World) (s : Side) (op : WApi) : World × String :=
  match op.toApi (w.get s) (w.get s.other) with
  | none => (w, "-")
  | some a =>
    let r1 := (api (w.get s) a).2
    match w.step (.call s op) with
    | none => (w, "?")
    | some w1 =>
      match (w1.get s).tail with
      | none => (w1.drain 64, resTok r1)
      | some t =>
        let r2 := (runTail (w1.get s) t).2
        match w1.step (.tail s) with
        | none => (w1, "?")
        | some w2 => (w2.drain 64, resTok r2)

def fireTok (f : FireRec) : String :=
  if f.closed && f.sig != .closed then "x" else sigLetter f.sig

/-- `da`, `db`: handler invocations at the last drained observation of each side -/
def playAll : World → List (Side × WApi) → Nat → Nat → List String → World × Nat × Nat × List String
  | w, [], da, db, acc => (w, da, db, acc)
  | w, (s, op) :: rest, da, db, acc =>
    let (w', r) := playOp w s op
    let da := if idle w'.a then w'.a.fired.length else da
    let db := if idle w'.b then w'.b.fired.length else db
    playAll w' rest da db (acc ++ [r, report w'.a da, report w'.b db])

def run (args : List String) : String :=
  match args with
  | "h" :: toks =>
    match toks.mapM parseOp with
    | none => "bad-op"
    | some ops =>
      let (w, da, db, out) := playAll {} ops 0 0 []
      String.intercalate " "
        (out ++ ["fa"] ++ (w.a.fired.take da).map fireTok ++ ["fb"] ++ (w.b.fired.take db).map fireTok)
  | _ => "bad-op"

/-! ### judge: the property on an observed output -/

structure Obs where
  sig : Char
  idle : Bool
  isNN : Bool
  needed : Bool
  count : Nat
  deriving Repr

def parseObs (tok : String) : Option Obs :=
  match tok.splitOn ":" with
  | [st, n] =>
    match st.toList, n.toNat? with
    | [sg, i, f, c], some n => some { sig := sg, idle := i == 'I', isNN := f == 'n', needed := c == 'c', count := n }
    | _, _ => none
  | _ => none

/-- per-side walk over the history -/
structure JSt where
  prev : Nat := 0              -- handler invocations so far
  since : Nat := 0             -- … since the last completed exchange (successful SetLocal/SetRemote(answer) here)
  cleared : Bool := false      -- [[NegotiationNeeded]] was seen false after the last fire, without an exchange
  rolled : Bool := false       -- a rollback brought this side back to stable after the last fire, without an exchange
  touched : Bool := false      -- something that can require negotiation has happened on this side
  closed : Bool := false
  usedTracks : List String := []
  pending : Bool := false      -- a change that requires renegotiation awaits its first stable+drained point
  verdict : Option String := none
  noted : Option String := none  -- a second fire whose cause is one of the two recorded ones: the walk goes on

def sideOf (tok : String) : String := (tok.splitOn ":").headD ""
def verbOf (tok : String) : String := ((tok.splitOn ":").drop 1).headD ""
def argOf (tok : String) (i : Nat) : String := ((tok.splitOn ":").drop (2 + i)).headD ""

/-- `anyDc`: a data channel was created before on either side -/
def walk (me : String) (anyDc : Bool) (j : JSt) (op res : String) (o : Obs) : JSt :=
  if j.verdict.isSome then j else
  let mine := sideOf op == me
  let verb := verbOf op
  let okRes := res == "0"
  let committed := res == "0" || res == "2"
  -- a completed exchange on this side
  let exchange := mine && committed && (verb == "sla" || verb == "sra") && o.sig == 's'
  let since0 := if exchange then 0 else j.since
  let cleared0 := if exchange then false else j.cleared
  -- a rollback into stable on this side: not a completed exchange (the counter goes on), but remembered as the cause
  let rollback := mine && okRes && (verb == "slr" || verb == "srr") && o.sig == 's'
  let rolled0 := if exchange then false else (j.rolled || rollback)
  let delta := o.count - j.prev
  if o.count < j.prev then { j with verdict := some "violated handler-count-decreased" } else
  let j := { j with prev := o.count }
  -- once per needed negotiation
  let since1 := since0 + delta
  if since1 > 1 && !(delta == 1 && (cleared0 || rolled0)) then
    { j with verdict := some "violated second-fire-without-exchange" }
  else
  -- a second fire with a recorded cause (need withdrawn and renewed / rollback into stable) is noted; the walk
  -- continues from it so that anything else wrong later in the history is still seen
  let noted := if since1 > 1 && j.noted.isNone then
      some (if cleared0 then "violated second-fire:need-withdrawn-then-renewed" else "violated second-fire:after-rollback")
    else j.noted
  let j := { j with noted := noted }
  let since1 := if since1 > 1 then 1 else since1
  let cleared1 := if delta > 0 then false else (cleared0 || (since1 == 1 && !o.isNN && !rolled0))
  let rolled1 := if delta > 0 then false else rolled0
  let closed := j.closed || (mine && verb == "cl")
  -- changes that require renegotiation (property text): a new track, a transceiver, the first data channel
  let change := mine && okRes &&
    ((verb == "at" && !j.usedTracks.contains (argOf op 0)) || (verb == "tr") || (verb == "dc" && !anyDc))
  -- … unless this side re-describes itself or removes the track again before it is next stable and drained
  -- (SetRemoteDescription(pranswer) takes the offer path: its m-section loop re-adjusts transceiver directions,
  -- which can undo the effect of an AddTrack that re-used a transceiver)
  let cancel := mine && (verb == "co" || verb == "ca" || verb == "rt" || verb == "srp")
  let pending := (j.pending && !cancel) || change
  let used := if mine && verb == "at" then argOf op 0 :: j.usedTracks else j.usedTracks
  let touched := j.touched || (mine && committed && (verb == "at" || verb == "tr" || verb == "dc" || verb == "sla" || verb == "sra"))
  let j := { j with since := since1, cleared := cleared1, rolled := rolled1, closed := closed, usedTracks := used,
                    touched := touched }
  if closed then { j with pending := false }
  else if o.sig == 's' && o.idle then
    if pending && since1 == 0 then { j with verdict := some "violated needed-not-fired" }
    else if touched && o.needed && !(o.isNN && since1 ≥ 1) then
      { j with verdict := some "violated check-true-but-not-signalled", pending := false }
    else { j with pending := false }
  else { j with pending := pending }

/-- (a violation that ends the walk, a noted second fire with a recorded cause) -/
def judgeSide (me : String) (ops : List String) (res : List String) (obs : List Obs) : Option String × Option String :=
  let rec go (ops res : List String) (obs : List Obs) (anyDc : Bool) (j : JSt) : Option String × Option String :=
    match ops, res, obs with
    | op :: ops, r :: res, o :: obs =>
      let j := walk me anyDc j op r o
      go ops res obs (anyDc || verbOf op == "dc") j
    | _, _, _ => (j.verdict, j.noted)
  go ops res obs false {}

def splitTriples : List String → Option (List String × List String × List String)
  | [] => some ([], [], [])
  | r :: a :: b :: rest => (splitTriples rest).map fun (rs, as, bs) => (r :: rs, a :: as, b :: bs)
  | _ => none

def judge (args out : List String) : String :=
  match args with
  | "h" :: ops =>
    if out.headD "" == "inconclusive" then "ok" else
    let body := out.takeWhile (· ≠ "fa")
    let tailA := ((out.dropWhile (· ≠ "fa")).drop 1).takeWhile (· ≠ "fb")
    let tailB := (out.dropWhile (· ≠ "fb")).drop 1
    if !out.contains "fa" || !out.contains "fb" then "bad-judge" else
    match splitTriples body with
    | none => "bad-judge"
    | some (rs, as, bs) =>
      if rs.length != ops.length then "bad-judge" else
      match as.mapM parseObs, bs.mapM parseObs with
      | some oa, some ob =>
        -- the handler only ever runs in stable state on an open connection
        if (tailA ++ tailB).any (· == "x") then "violated fired-while-closed"
        else if (tailA ++ tailB).any (· == "c") then "violated fired-while-closed"
        else if (tailA ++ tailB).any (· != "s") then "violated fired-not-stable"
        else if tailA.length != (oa.getLast?.map (·.count)).getD 0 || tailB.length != (ob.getLast?.map (·.count)).getD 0
          then "bad-judge"
        else
          let (ha, na) := judgeSide "a" ops rs oa
          let (hb, nb) := judgeSide "b" ops rs ob
          match ha, hb, na, nb with
          | some v, _, _, _ => v ++ " side=a"
          | none, some v, _, _ => v ++ " side=b"
          | none, none, some v, _ => v ++ " side=a"
          | none, none, none, some v => v ++ " side=b"
          | none, none, none, none => "ok"
      | _, _ => "bad-judge"
  | _ => "bad-judge"

end WebrtcVerif.Drv.C04
