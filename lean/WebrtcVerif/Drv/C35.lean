import WebrtcVerif.Base.Wire
import WebrtcVerif.Model.H26xWriter
import WebrtcVerif.Spec.H26xPacket
/-! Driver handler for C35 (h264writer / h265writer).
  op:      <h264|h265> <tag> <n> <payloadHex>{n}
             the RTP payloads handed to `WriteRTP` in order (`-` = empty payload); `tag` describes how the
             generator made them (histogram only, ignored here)
  output:  s:<one of - w e per packet> W <len> <fnv64> R <k> {<len> <fnv64>}{k} <eof|notbitstream>
             per-packet outcome (nothing / wrote / error), the bytes written, and the units the matching
             reader (SEI inclusion on) returns for them
-/
namespace WebrtcVerif.Drv.C35
open WebrtcVerif WebrtcVerif.Bytes WebrtcVerif.H26xWriter

def parseOp (args : List String) : Option (Bool × List Bs) :=
  match args with
  | codec :: _tag :: n :: rest => do
      let is265 ← if codec == "h265" then some true else if codec == "h264" then some false else none
      let n ← n.toNat?
      if rest.length ≠ n then none
      let ps ← rest.mapM Wire.bytesOfHex
      pure (is265, ps)
  | _ => none

def showHash (bs : Bs) : String := s!"{bs.length} {(fnv64 bs).toNat}"

def resChar : Res → Char
  | .skip => '-' | .wrote _ => 'w' | .err => 'e'

def showOut (rs : List Res) : String :=
  let file := written rs
  let (nals, e) := readBack file
  let endTok := match e with | .eof => "eof" | .notBitstream => "notbitstream"
  String.intercalate " " (["s:" ++ String.ofList (rs.map resChar), "W", showHash file, "R", toString nals.length]
    ++ nals.map showHash ++ [endTok])

def run (args : List String) : String :=
  match parseOp args with
  | none => "bad-op"
  | some (false, ps) => showOut (runWith writeRTP264 {} ps).2
  | some (true, ps) => showOut (runWith writeRTP265 {} ps).2

/-! ### judge: the property evaluated on the observed reader output

  Written from the property text and the RFC payload formats (`Spec/H26xPacket.lean`), without the writer
  model: decode the payloads to the NAL units they carry; if that is a loss-free packetisation of
  well-formed NAL units, the reader must have returned exactly the units from the first key frame on. -/
open WebrtcVerif.H26xPacket

inductive Form | single | agg | fu
  deriving DecidableEq

/-- per carried unit: (group index, position in group, form, length of the group's first payload) -/
structure Where where
  grp : Nat
  pos : Nat
  form : Form
  firstLen : Nat

def whereOf (groups : List (List Bs × Form × Nat)) : List Where :=
  (groups.zipIdx.map (fun (g, gi) =>
    (List.range g.1.length).map (fun k => ({ grp := gi, pos := k, form := g.2.1, firstLen := g.2.2 } : Where)))).flatten

def groups264 (plan : List G264) : List (List Bs × Form × Nat) :=
  plan.map (fun g =>
    (g.nals, (match g with | .single _ => Form.single | .stapA _ _ => .agg | .fuA _ _ => .fu),
      (g.encode.head?.map List.length).getD 0))

def groups265 (plan : List G265) : List (List Bs × Form × Nat) :=
  plan.map (fun g =>
    (g.nals, (match g with | .single _ => Form.single | .ap _ _ _ => .agg | .fu _ _ _ => .fu),
      (g.encode.head?.map List.length).getD 0))

/-- observed reader part of the output: signatures (length, hash) and end token -/
def parseObserved (out : List String) : Option (List (Nat × Nat) × String) :=
  match out.dropWhile (· ≠ "R") with
  | "R" :: k :: rest => do
      let k ← k.toNat?
      if rest.length ≠ 2 * k + 1 then none
      let nums ← (rest.take (2 * k)).mapM String.toNat?
      let rec pairs : List Nat → List (Nat × Nat)
        | a :: b' :: tl => (a, b') :: pairs tl
        | _ => []
      pure (pairs nums, rest.getLast?.getD "")
  | _ => none

def sig (n : Bs) : Nat × Nat := (n.length, (fnv64 n).toNat)

/-- name the cause of a mismatch (the verdict itself never depends on this) -/
def diagnose (is265 : Bool) (nals : List Bs) (ws : List Where) (key : Bs → Bool)
    (nExp : Nat) (obs : List (Nat × Nat)) (endTok : String) : String :=
  let c := if is265 then "h265" else "h264"
  let total := nals.length
  if endTok ≠ "eof" ∨ obs.length > total ∨ obs ≠ (nals.drop (total - obs.length)).map sig then s!"{c}-output-mismatch"
  else
    let startObs := total - obs.length
    let startExp := total - nExp
    if startObs > startExp then
      -- the first key frame was not taken as one
      match ws[startExp]?, nals[startExp]? with
      | some w, some n =>
        if is265 then (if w.form == Form.fu then "h265-fu-type-bits" else "h265-keyframe-missed")
        else if w.firstLen < 4 then "h264-short-packet-not-keyframe"
        else if ntype264 (n.headD 0) == 5 then "h264-idr-not-keyframe"
        else if w.form == Form.agg && w.pos > 0 then "h264-stap-sps-not-first"
        else if w.form == Form.fu then "h264-fua-sps-not-keyframe"
        else "h264-keyframe-missed"
      | _, _ => s!"{c}-output-mismatch"
    else
      -- something before the first key frame was written
      match ws[startObs]? with
      | some w =>
        let sameGroup := match ws[startExp]? with | some we => we.grp == w.grp | none => false
        if sameGroup && w.pos == 0 && w.form == Form.agg && ((nals.drop startObs).take (startExp - startObs)).all (fun n => !key n) then
          (if is265 then "h265-ap-prefix" else "h264-stap-prefix")
        else if is265 then
          -- the shifted FU type makes non-key fragments look like key frames: at the start fragment (the
          -- whole unit is written) or at the end fragment (the units after it are written)
          let prevIsFu := match startObs with
            | 0 => false
            | k + 1 => match ws[k]? with | some wp => wp.form == Form.fu | none => false
          if w.pos == 0 && (w.form == Form.fu || prevIsFu) then "h265-fu-type-bits" else "h265-false-keyframe"
        else "h264-false-keyframe"
      | none =>
        -- nothing should have been written at all, and what was written starts after the last unit
        s!"{c}-output-mismatch"

def judgeWith (is265 : Bool) (nals : List Bs) (groups : List (List Bs × Form × Nat)) (key : Bs → Bool)
    (out : List String) : String :=
  if !nals.all wf then "ok"          -- Annex-B cannot carry such units unambiguously: outside the property
  else
    match parseObserved out with
    | none => "bad-judge"
    | some (obs, endTok) =>
      let expected := nals.dropWhile (fun n => !key n)
      if obs == expected.map sig && endTok == "eof" then "ok"
      else "violated " ++ diagnose is265 nals (whereOf groups) key expected.length obs endTok

def judge (args out : List String) : String :=
  match parseOp args with
  | none => "bad-judge"
  | some (false, ps) =>
    match decode264 ps with
    | none => "ok"                   -- not a loss-free packetisation of NAL units: outside the property
    | some plan => if plan.all G264.valid then judgeWith false (nals264 plan) (groups264 plan) key264 out else "ok"
  | some (true, ps) =>
    match decode265 ps with
    | none => "ok"
    | some plan => if plan.all G265.valid then judgeWith true (nals265 plan) (groups265 plan) key265 out else "ok"

end WebrtcVerif.Drv.C35
