import WebrtcVerif.Base.Wire
import WebrtcVerif.Base.Bytes
import WebrtcVerif.Model.Codec
/-! Driver handler for C15 (codec negotiation of the MediaEngine).

  op:   upd <multi> <nA> codec* <nV> codec* <nD> { <nS> { <mediaHex> <bad> <nC> codec* }* }*
  codec := <pt> <mimeHex> <clock> <channels> <fmtpHex> <nFb> { <typeHex> <paramHex> }*
           (local codecs carry the full mime type, remote codecs the rtpmap encoding name only — the
            media name and "/" are prepended, as codecsFromMediaDescription does)
  bad = 1: the section lists a payload type without rtpmap (codecsFromMediaDescription fails)

  out:  E <nD> <ok|apt|dup|sdp>*  NA <flag> <n> codec*  NV <flag> <n> codec*
        KA <n> <hash>  KV <n> <hash>  P <n> { <pt> <a|v> <hash> }*
        (hash = FNV-1a 64 of the codec's / codec list's token text)
-/
namespace WebrtcVerif.Drv.C15
open WebrtcVerif WebrtcVerif.Codec

/-! ### token parser -/

abbrev P := StateT (List String) Option

def tok : P String := fun s => match s with | [] => none | t :: r => some (t, r)
def pNat : P Nat := do let t ← tok; match t.toNat? with | some n => pure n | none => failure
def pStr : P Str := do let t ← tok; match Wire.textOfHex t with | some s => pure s.toList | none => failure
def pLit (l : String) : P Unit := do let t ← tok; if t == l then pure () else failure

def rep {α} (p : P α) : Nat → P (List α)
  | 0 => pure []
  | n + 1 => do let x ← p; let xs ← rep p n; pure (x :: xs)

def pMany {α} (p : P α) : P (List α) := do let n ← pNat; if n > 100000 then failure else rep p n

def pFb : P Feedback := do let t ← pStr; let p ← pStr; pure { typ := t, param := p }

def pCodec (pre : Str) : P CodecP := do
  let pt ← pNat; let mime ← pStr; let clock ← pNat; let ch ← pNat; let fmtp ← pStr
  let fb ← pMany pFb
  pure { pt, mime := pre ++ mime, clock, channels := ch, fmtp, fb }

def pSection : P Section := do
  let media ← pStr; let bad ← pNat
  let cs ← pMany (pCodec (media ++ ['/']))
  pure { media, codecs := if bad != 0 then none else some cs }

structure Op where
  multi : Bool
  audio : List CodecP
  video : List CodecP
  descs : List (List Section)

def pOp : P Op := do
  pLit "upd"
  let multi ← pNat
  let audio ← pMany (pCodec []); let video ← pMany (pCodec [])
  let descs ← pMany (pMany pSection)
  pure { multi := multi != 0, audio, video, descs }

def parseAll {α} (p : P α) (toks : List String) : Option α :=
  match p toks with
  | some (x, []) => some x
  | _ => none

/-! ### printing -/

def hexStr (s : Str) : String := Wire.hexOfText (String.ofList s)

def showCodec (c : CodecP) : List String :=
  [toString c.pt, hexStr c.mime, toString c.clock, toString c.channels, hexStr c.fmtp, toString c.fb.length]
    ++ (c.fb.map (fun f => [hexStr f.typ, hexStr f.param])).flatten

def hashToks (ts : List String) : String :=
  toString (Bytes.fnv64 (String.intercalate " " ts).toUTF8.toList).toNat

def codecHash (c : CodecP) : String := hashToks (showCodec c)
def listHash (cs : List CodecP) : String := hashToks ((cs.map showCodec).flatten)

def showErr : Option Err → String
  | none => "ok" | some .apt => "apt" | some .dup => "dup" | some .sdp => "sdp"

def showKind : Kind → String
  | .audio => "a" | .video => "v" | .other => "?"

/-- the engine after `RegisterCodec` of every listed codec, in order, errors ignored -/
def registerAll (op : Op) : Engine :=
  let e : Engine := { multi := op.multi }
  let e := op.audio.foldl (fun e c => (e.register .audio c).1) e
  op.video.foldl (fun e c => (e.register .video c).1) e

def lookups (e : Engine) : List String :=
  let hits := (List.range 256).filterMap (fun pt =>
    match e.codecByPayload pt with
    | some (c, k) => some [toString pt, showKind k, codecHash c]
    | none => none)
  toString hits.length :: hits.flatten

def showList (cs : List CodecP) : List String := toString cs.length :: (cs.map showCodec).flatten

/-- auxiliary ops (not part of property C15; they tie `filterUnattachedRTX` / `RTPTransceiver.getCodecs`
    of the shared model to the code for C10/C16):
      flt <n> codec*                → R <n> codec* V <n> codec*   (result; the caller's slice afterwards)
      tgc <nE> codec* <nP> codec*   → R <n> codec* E <n> codec*   (result; the engine's slice afterwards) -/
def runAux (args : List String) : Option String :=
  match args with
  | "flt" :: rest =>
    (parseAll (pMany (pCodec [])) rest).map (fun cs =>
      String.intercalate " " (["R"] ++ showList (filterUnattachedRTX cs) ++ ["V"] ++ showList cs))
  | "tgc" :: rest =>
    (parseAll (do let e ← pMany (pCodec []); let p ← pMany (pCodec []); pure (e, p)) rest).map (fun (eng, prefs) =>
      String.intercalate " " (["R"] ++ showList (transceiverGetCodecs eng prefs)
        ++ ["E"] ++ showList eng))
  | _ => none

def run (args : List String) : String :=
  match args.head? with
  | some "flt" | some "tgc" => (runAux args).getD "bad-op"
  | _ =>
  match parseAll pOp args with
  | none => "bad-op"
  | some op =>
    let (e, errs) := updateMany (registerAll op) op.descs
    String.intercalate " " (
      ["E", toString errs.length] ++ errs.map showErr
      ++ ["NA", Wire.boolTok e.negAudio] ++ showList e.negAudioCodecs
      ++ ["NV", Wire.boolTok e.negVideo] ++ showList e.negVideoCodecs
      ++ ["KA", toString (e.codecsByKind .audio).length, listHash (e.codecsByKind .audio)]
      ++ ["KV", toString (e.codecsByKind .video).length, listHash (e.codecsByKind .video)]
      ++ ["P"] ++ lookups e)

/-! ### judge: the property evaluated on an observed output -/

structure Obs where
  errs : List String
  fA : Bool
  nA : List CodecP
  fV : Bool
  nV : List CodecP
  kA : Nat × String
  kV : Nat × String
  look : List (Nat × String × String)

def pFlag : P Bool := do let t ← tok; match Wire.tokBool t with | some b => pure b | none => failure

def pObs : P Obs := do
  pLit "E"; let errs ← pMany tok
  pLit "NA"; let fA ← pFlag; let nA ← pMany (pCodec [])
  pLit "NV"; let fV ← pFlag; let nV ← pMany (pCodec [])
  pLit "KA"; let ka ← pNat; let kah ← tok
  pLit "KV"; let kv ← pNat; let kvh ← tok
  pLit "P"
  let look ← pMany (do let pt ← pNat; let k ← tok; let h ← tok; pure (pt, k, h))
  pure { errs, fA, nA, fV, nV, kA := (ka, kah), kV := (kv, kvh), look }

def hasApt (r : CodecP) : Bool := (r.parse.params.get "apt".toList).isSome

/-- `r` with the payload type named by its apt parameter replaced by `pt` (the code's textual rewrite) -/
def withApt (r : CodecP) (pt : Nat) : CodecP :=
  match (r.parse.params.get "apt".toList).bind parseUint8 with
  | some v => { r with fmtp := replaceFirst ("apt=".toList ++ showNat v) ("apt=".toList ++ showNat pt) r.fmtp }
  | none => r

/-- "matched (exactly or partially) by a locally registered codec": directly, or — for a codec that
    refers to a primary through apt — after the apt reference has been translated to some local payload type -/
def matchesLocal (locals : List CodecP) (r l : CodecP) : Bool :=
  exactPred r l || partialPred r l ||
    (hasApt r && locals.any (fun l2 => exactPred (withApt r l2.pt) l || partialPred (withApt r l2.pt) l))

def sameOffer (c r : CodecP) : Bool :=
  c.pt == r.pt && c.mime == r.mime && c.clock == r.clock && c.channels == r.channels && c.fmtp == r.fmtp

def fbMem (f : Feedback) (l : List Feedback) : Bool := l.any (fun g => g.typ == f.typ && g.param == f.param)

/-- `c` is the intersection of `a` and `b`, as sets -/
def isIntersection (c a b : List Feedback) : Bool :=
  c.all (fun f => fbMem f a && fbMem f b) && a.all (fun f => !fbMem f b || fbMem f c)

/-- all remote codecs offered for a kind, over every description and section -/
def offered (op : Op) (k : Kind) : List CodecP :=
  (op.descs.flatten.filter (fun s => kindOf s.media == k)).flatMap (fun s => s.codecs.getD [])

def judgeKind (op : Op) (locals : List CodecP) (k : Kind) (neg : List CodecP) (allOk : Bool) : Option String :=
  let offers := offered op k
  -- every negotiated codec: offered, matched, feedback intersected
  let perCodec := neg.findSome? (fun c =>
    let cands := offers.filter (sameOffer c)
    if cands.isEmpty then some "not-offered"
    else
      let pairs := cands.flatMap (fun r => (locals.filter (matchesLocal locals r)).map (fun l => (r, l)))
      if pairs.isEmpty then some "not-matched-locally"
      else if pairs.any (fun (r, l) => isIntersection c.fb l.fb r.fb) then none
      else some "feedback-not-intersection")
  match perCodec with
  | some v => some v
  | none =>
    -- exact over partial: decidable from the op alone when the kind has exactly one section
    match op.descs.flatten.filter (fun s => kindOf s.media == k) with
    | [s] =>
      match s.codecs with
      | none => none
      | some rs =>
        let plain := rs.filter (fun r => !hasApt r)
        let isExact := fun (r : CodecP) => locals.any (exactPred r)
        let isPartial := fun (r : CodecP) => locals.any (partialPred r)
        let anyExact := plain.any isExact
        if anyExact && neg.any (fun c => !hasApt c && !(rs.filter (sameOffer c)).any isExact) then
          some "partial-used-despite-exact"
        else if allOk && anyExact && plain.any (fun r => isExact r && !neg.any (fun c => c.pt == r.pt)) then
          some "matched-codec-not-negotiated"
        else if allOk && !anyExact && plain.any (fun r => isPartial r && !neg.any (fun c => c.pt == r.pt)) then
          some "matched-codec-not-negotiated"
        else none
    | _ => none

def judge (args out : List String) : String :=
  match args.head? with
  | some "flt" | some "tgc" => if (runAux args).isSome && out.head? == some "R" then "ok" else "bad-judge"
  | _ =>
  match parseAll pOp args, parseAll pObs out with
  | some op, some o =>
    let e0 := registerAll op
    let allOk := o.errs.all (· == "ok")
    match judgeKind op e0.audio .audio o.nA allOk with
    | some v => "violated " ++ v ++ " audio"
    | none =>
    match judgeKind op e0.video .video o.nV allOk with
    | some v => "violated " ++ v ++ " video"
    | none =>
      -- a kind counts as negotiated when the engine says so or when it holds negotiated codecs
      let nA := o.fA || !o.nA.isEmpty
      let nV := o.fV || !o.nV.isEmpty
      -- codecs used for a kind (getCodecsByKind): the negotiated set once the kind is negotiated
      if (nA && o.kA != (o.nA.length, listHash o.nA)) || (nV && o.kV != (o.nV.length, listHash o.nV)) then
        "violated kind-codecs-not-negotiated"
      else
        -- payload type resolution: a payload type in a negotiated set resolves to that set's codec;
        -- anything else is either unresolved or a registered codec with that payload type
        let negHits := fun (pt : Nat) =>
          ((if nV then findByPt o.nV pt else none).map (fun c => ("v", codecHash c))).toList
            ++ ((if nA then findByPt o.nA pt else none).map (fun c => ("a", codecHash c))).toList
        let bad := (List.range 256).findSome? (fun pt =>
          let got := (o.look.find? (fun x => x.1 == pt)).map (fun x => (x.2.1, x.2.2))
          match negHits pt with
          | _ :: _ =>
            if (negHits pt).any (fun h => got == some h) then none else some "lookup-not-negotiated-first"
          | [] =>
            match got with
            | none => none
            | some (k, h) =>
              let regs := if k == "v" then e0.video else if k == "a" then e0.audio else []
              if regs.any (fun c => c.pt == pt && codecHash c == h) then none else some "lookup-unknown-codec")
        match bad with
        | some v => "violated " ++ v
        | none => if o.look.all (fun x => x.1 < 256) then "ok" else "bad-judge"
  | _, _ => "bad-judge"

end WebrtcVerif.Drv.C15
