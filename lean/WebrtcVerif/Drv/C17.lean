import WebrtcVerif.Base.Wire
import WebrtcVerif.Model.Fmtp
/-! Driver handler for C17 (internal/fmtp Parse / Match).
  All text travels as hex of its UTF-8 bytes (`-` = empty).
  ops:
    pair <mimeA> <clkA> <chA> <lineA> <mimeB> <clkB> <chB> <lineB> <nA> <mimeA'>*nA <nB> <mimeB'>*nB
        → <ab> <ba> <aa> <bb> {<a'b> <ba'>}*nA {<ab'> <b'a>}*nB <implA> <implB>
          xy = Parse(x).Match(Parse(y)) as 0/1; a' = A with its mime type replaced by mimeA' (same for b');
          implX = Parse(x).MimeType() (tells which FMTP implementation was selected)
    params <line>           → <n> {<key> <value>}*n          (the parsed map, sorted by key)
    get <mime> <line> <key> → <found> <value>                (Parse(mime,0,0,line).Parameter(key))
    clk <mime> <a> <b>      → <ClockRateEqual(mime,a,b)> <ClockRateEqual(mime,b,a)>
    chn <mime> <a> <b>      → <ChannelsEqual(mime,a,b)> <ChannelsEqual(mime,b,a)>
    defaults                → <n> {<mime> <clock> <channels> <line> <self-match>}*n   (RegisterDefaultCodecs)
-/
namespace WebrtcVerif.Drv.C17
open WebrtcVerif WebrtcVerif.Fmtp

def text (s : String) : Option Str := (Wire.textOfHex s).map String.toList
def hexOf (s : Str) : String := Wire.hexOfText (String.ofList s)

def takeTexts : Nat → List String → Option (List Str × List String)
  | 0, rest => some ([], rest)
  | n + 1, t :: rest => do
      let s ← text t
      let (tl, r) ← takeTexts n rest
      pure (s :: tl, r)
  | _, _ => none

structure PairOp where
  a : Codec
  b : Codec
  varsA : List Str
  varsB : List Str

def parseCodec (m c h l : String) : Option Codec := do
  let m ← text m
  let c ← c.toNat?
  let h ← h.toNat?
  let l ← text l
  if c < 4294967296 ∧ h < 65536 then pure { mime := m, clockRate := c, channels := h, line := l } else none

def parsePair (args : List String) : Option PairOp :=
  match args with
  | mA :: cA :: hA :: lA :: mB :: cB :: hB :: lB :: nA :: rest => do
      let a ← parseCodec mA cA hA lA
      let b ← parseCodec mB cB hB lB
      let nA ← nA.toNat?
      let (va, rest) ← takeTexts nA rest
      match rest with
      | nB :: rest =>
        let nB ← nB.toNat?
        let (vb, rest) ← takeTexts nB rest
        if rest.isEmpty then pure { a, b, varsA := va, varsB := vb } else none
      | [] => none
  | _ => none

def bt (x : Bool) : String := if x then "1" else "0"

/-- bytewise order of the UTF-8 encodings = lexicographic order of the code points -/
def ltStr : Str → Str → Bool
  | [], [] => false
  | [], _ :: _ => true
  | _ :: _, [] => false
  | a :: as, b :: bs => a.toNat < b.toNat || (a == b && ltStr as bs)

def insertSorted (e : Str × Str) : List (Str × Str) → List (Str × Str)
  | [] => [e]
  | x :: xs => if ltStr e.1 x.1 then e :: x :: xs else x :: insertSorted e xs

/-- the Go map as sorted key/value pairs (first hit of each key = the last assignment) -/
def canonParams (p : Params) : List (Str × Str) :=
  let dedup := p.foldl (fun acc e => if acc.any (·.1 == e.1) then acc else acc ++ [e]) []
  dedup.foldl (fun acc e => insertSorted e acc) []

def run (args : List String) : String :=
  match args with
  | "pair" :: rest =>
    match parsePair rest with
    | none => "bad-op"
    | some op =>
      let m (x y : Codec) := bt (matchFmtp x y)
      let a := op.a; let b := op.b
      let va := op.varsA.map (fun v => let a' := { a with mime := v }; [m a' b, m b a'])
      let vb := op.varsB.map (fun v => let b' := { b with mime := v }; [m a b', m b' a])
      String.intercalate " " ([m a b, m b a, m a a, m b b] ++ va.flatten ++ vb.flatten
        ++ [hexOf a.parsed.mimeType, hexOf b.parsed.mimeType])
  | ["params", line] =>
    match text line with
    | none => "bad-op"
    | some l =>
      let ps := canonParams (parseParameters l)
      String.intercalate " " (toString ps.length :: (ps.map fun e => [hexOf e.1, hexOf e.2]).flatten)
  | ["get", mime, line, key] =>
    match text mime, text line, text key with
    | some m, some l, some k =>
      match (parse m 0 0 l).parameter k with
      | some v => s!"1 {hexOf v}"
      | none => "0 -"
    | _, _, _ => "bad-op"
  | ["clk", mime, x, y] =>
    match text mime, x.toNat?, y.toNat? with
    | some m, some x, some y =>
      if x < 4294967296 ∧ y < 4294967296 then s!"{bt (clockRateEqual m x y)} {bt (clockRateEqual m y x)}" else "bad-op"
    | _, _, _ => "bad-op"
  | ["chn", mime, x, y] =>
    match text mime, x.toNat?, y.toNat? with
    | some m, some x, some y =>
      if x < 65536 ∧ y < 65536 then s!"{bt (channelsEqual m x y)} {bt (channelsEqual m y x)}" else "bad-op"
    | _, _, _ => "bad-op"
  | ["defaults"] =>
    String.intercalate " " (toString defaultCodecs.length ::
      (defaultCodecs.map fun c => [hexOf c.mime, toString c.clockRate, toString c.channels, hexOf c.line,
        bt (matchFmtp c c)]).flatten)
  | _ => "bad-op"

/-! ### judge — the property evaluated on observed outputs; uses none of the model's matching functions.
  "letter case" is defined here, independently of the model's folding tables. -/

def isAsciiLetter (c : Char) : Bool := (65 ≤ c.toNat && c.toNat ≤ 90) || (97 ≤ c.toNat && c.toNat ≤ 122)

/-- the same ASCII letter in either case, or the same character -/
def sameLetterAscii (c d : Char) : Bool :=
  c == d || (isAsciiLetter c && isAsciiLetter d && (c.toNat + 32 == d.toNat || d.toNat + 32 == c.toNat))

/-- Unicode case pairs that involve an ASCII letter: ſ (U+017F) is a lower-case form of S, the Kelvin sign
    (U+212A) an upper-case form of k. -/
def sameLetterUnicode (c d : Char) : Bool :=
  let cls (x : Char) : Nat :=
    if x.toNat == 0x17F || x == 's' || x == 'S' then 1 else if x.toNat == 0x212A || x == 'k' || x == 'K' then 2 else 0
  sameLetterAscii c d || (cls c != 0 && cls c == cls d)

def variantBy (rel : Char → Char → Bool) : Str → Str → Bool
  | [], [] => true
  | a :: as, b :: bs => rel a b && variantBy rel as bs
  | _, _ => false

def hasLongS (s : Str) : Bool := s.any (·.toNat == 0x17F)

/-- walk the `{x y}` pairs of the output that belong to the variants of one side -/
def judgeVariants (base other : Str) (ab : String) : List Str → List String → Option String
  | [], _ => none
  | v :: vs, x :: y :: rest =>
    let longS := hasLongS base || hasLongS other || hasLongS v
    if x != y then
      some (if longS then "violated unicode-fold-asymmetry variant-order" else "violated asymmetric variant-order")
    else if variantBy sameLetterAscii base v && x != ab then
      some (if longS then "violated unicode-fold-asymmetry ascii-recasing" else "violated mime-case-sensitive")
    else if variantBy sameLetterUnicode base v && x != ab then
      some (if longS then "violated unicode-fold-asymmetry unicode-recasing" else "violated mime-case-sensitive-unicode")
    else judgeVariants base other ab vs rest
  | _ :: _, _ => some "bad-judge"

def is01 (s : String) : Bool := s == "0" || s == "1"

def judgeDefaults : Nat → List String → String
  | 0, [] => "ok"
  | n + 1, _ :: _ :: _ :: _ :: self :: rest =>
    if self == "1" then judgeDefaults n rest
    else if self == "0" then "violated default-codec-does-not-match-itself"
    else "bad-judge"
  | _, _ => "bad-judge"

def judge (args out : List String) : String :=
  match args with
  | "pair" :: rest =>
    match parsePair rest with
    | none => "bad-judge"
    | some op =>
      if out.length != 4 + 2 * op.varsA.length + 2 * op.varsB.length + 2 then "bad-judge"
      else if !((out.take (out.length - 2)).all is01) then "bad-judge"
      else
      match out with
      | ab :: ba :: _aa :: _bb :: tl =>
        let longS := hasLongS op.a.mime || hasLongS op.b.mime
        if ab != ba then
          (if longS then "violated unicode-fold-asymmetry" else "violated asymmetric")
        else
          match judgeVariants op.a.mime op.b.mime ab op.varsA tl with
          | some v => v
          | none =>
            match judgeVariants op.b.mime op.a.mime ab op.varsB (tl.drop (2 * op.varsA.length)) with
            | some v => v
            | none => "ok"
      | _ => "bad-judge"
  | ["params", _] =>
    -- no clause of the property speaks about the parsed map itself: correspondence only
    match out with
    | n :: kv => if n.toNat? == some (kv.length / 2) && kv.length % 2 == 0 then "ok" else "bad-judge"
    | _ => "bad-judge"
  | ["get", _, _, _] =>
    -- correspondence only
    match out with
    | [f, _] => if is01 f then "ok" else "bad-judge"
    | _ => "bad-judge"
  | ["clk", _, _, _] =>
    match out with
    | [x, y] => if !(is01 x && is01 y) then "bad-judge" else if x == y then "ok" else "violated asymmetric-clock-rate-equal"
    | _ => "bad-judge"
  | ["chn", _, _, _] =>
    match out with
    | [x, y] => if !(is01 x && is01 y) then "bad-judge" else if x == y then "ok" else "violated asymmetric-channels-equal"
    | _ => "bad-judge"
  | ["defaults"] =>
    match out with
    | n :: rest =>
      match n.toNat? with
      | some n => if n == 0 then "violated no-default-codecs" else judgeDefaults n rest
      | none => "bad-judge"
    | _ => "bad-judge"
  | _ => "bad-judge"

end WebrtcVerif.Drv.C17
