import WebrtcVerif.Base.Wire
import WebrtcVerif.Model.OfferSdp
/-! Driver handler for C12 (line protocol documented in harness/cmd/wvh/c12.go).

  `run`   replays the history on the model and prints results + one snapshot per successful offer;
  `judge` evaluates the three clauses of the property on the implementation's own output: it only uses
          the op line (engine flags, AlwaysNegotiateDataChannels, which calls were data-channel creations),
          the implementation's result tokens, its `GetTransceivers()` print-out and its abstracted SDP. -/
namespace WebrtcVerif.Drv.C12
open WebrtcVerif WebrtcVerif.OfferSdp

/-! ### texts as naturals: "-" ↦ 0, hex h ↦ value of the hex numeral "1h" (injective) -/

def hexNat (cs : List Char) (acc : Nat) : Option Nat :=
  match cs with
  | [] => some acc
  | c :: rest => match Wire.hexVal c with
    | some v => hexNat rest (acc * 16 + v)
    | none => none

def textNat (h : String) : Option Nat :=
  if h == "-" then some 0
  else if h.length % 2 != 0 || h.isEmpty then none
  else hexNat h.toList 1

def natHexDigits : Nat → Nat → List Char → List Char
  | 0, _, acc => acc
  | fuel + 1, n, acc => if n == 0 then acc else natHexDigits fuel (n / 16) (Wire.hexDigit (n % 16) :: acc)

/-- hex text without the "-" convention (empty text ↦ "") -/
def textHexRaw (n : Nat) : String :=
  if n == 0 then "" else String.ofList ((natHexDigits (n + 1) n []).drop 1)

def textHex (n : Nat) : String := if n == 0 then "-" else textHexRaw n

def hexOfString (s : String) : String := String.join (s.toUTF8.toList.map Wire.hexOfByte)

/-! ### op line → model ops -/

def kindOf : String → Option Kind
  | "a" => some .audio | "v" => some .video | "u" => some .unknown | _ => none

def dirOf : String → Option (Option Dir)
  | "sr" => some (some .sendrecv) | "so" => some (some .sendonly) | "ro" => some (some .recvonly)
  | "in" => some (some .inactive) | "df" => some none | _ => none

def trackOf (k s t r : String) : Option Track := do
  let k ← kindOf k
  let s ← textNat s
  let t ← textNat t
  let r ← textNat r
  pure { kind := k, stream := .user s, id := .user t, rid := r }

def opOf (tok : String) : Option Op :=
  match tok.splitOn "," with
  | ["at", k, s, t, r] => (trackOf k s t r).map .addTrack
  | ["ak", k, d] => do let k ← kindOf k; let d ← dirOf d; pure (.addKind k d 0)
  | ["ak", k, d, n] => do
    let k ← kindOf k; let d ← dirOf d; let n ← n.toNat?
    if n ≥ 4294967296 then none else pure (.addKind k d n)
  | ["af", k, s, t, r, d] => do let tr ← trackOf k s t r; let d ← dirOf d; pure (.addFromTrack tr d 0)
  | ["af", k, s, t, r, d, n] => do
    let tr ← trackOf k s t r; let d ← dirOf d; let n ← n.toNat?
    if n ≥ 4294967296 then none else pure (.addFromTrack tr d n)
  | ["ae", i, k, s, t, r] => do let i ← i.toNat?; let tr ← trackOf k s t r; pure (.addEncoding i tr)
  | ["rm", i] => i.toNat?.map .removeTrack
  | ["rp", i, "nil"] => i.toNat?.map (.replaceTrack · none)
  | ["rp", i, k, s, t, r] => do let i ← i.toNat?; let tr ← trackOf k s t r; pure (.replaceTrack i (some tr))
  | ["st", i] => i.toNat?.map .stop
  | ["dc", "0"] => some (.dataChannel false)
  | ["dc", "1"] => some (.dataChannel false)
  | ["dc", "2"] => some (.dataChannel false)
  | ["dc", "3"] => some (.dataChannel true)
  | ["of"] => some .offer
  | ["sl"] => some .setLocal
  | _ => none

def engineOf (s : String) : Option Engine :=
  match s.toList.map (fun c => if c == '1' then some true else if c == '0' then some false else none) with
  | [some a, some b, some c, some d, some e, some f] =>
    some { aCodecs := a, vCodecs := b, aRtx := c, vRtx := d, aFec := e, vFec := f }
  | _ => none

/-! ### printing (canonical names in order of first appearance) -/

structure Names where
  ssrcs : List Nat := []
  rands : List Nat := []

def idxOf (x : Nat) : List Nat → Nat → Option Nat
  | [], _ => none
  | y :: ys, i => if x == y then some i else idxOf x ys (i + 1)

def Names.ssrc (nm : Names) (v : Nat) : Names × String :=
  if v == 0 then (nm, "0") else
  if v < 4294967296 then (nm, s!"c{v}") else
  match idxOf v nm.ssrcs 0 with
  | some i => (nm, s!"n{i}")
  | none => ({ nm with ssrcs := nm.ssrcs ++ [v] }, s!"n{nm.ssrcs.length}")

def Names.ssrcRO (nm : Names) (v : Nat) : String :=
  if v == 0 then "zero" else
  if v < 4294967296 then s!"c{v}" else
  match idxOf v nm.ssrcs 0 with
  | some i => s!"n{i}"
  | none => "unk"

/-- identifier as text (for hex printing) -/
def Names.ident (nm : Names) : Ident → Names × String
  | .user n => (nm, textHex n)
  | .rand k =>
    match idxOf k nm.rands 0 with
    | some i => (nm, hexOfString s!"R{i}")
    | none => ({ nm with rands := nm.rands ++ [k] }, hexOfString s!"R{nm.rands.length}")

def Names.identRO (nm : Names) : Ident → String
  | .user n => textHexRaw n
  | .rand k =>
    match idxOf k nm.rands 0 with
    | some i => hexOfString s!"R{i}"
    | none => hexOfString "R?"

def kindTok : Kind → String
  | .audio => "a" | .video => "v" | .unknown => "u"

def kindMedia : Kind → String
  | .audio => "audio" | .video => "video" | .unknown => "Unknown"

def dirTok : Dir → String
  | .sendrecv => "sendrecv" | .sendonly => "sendonly" | .recvonly => "recvonly" | .inactive => "inactive"

def midTok : Option Int → String
  | none => "-"
  | some m => toString m

def listTok (xs : List String) : String := if xs.isEmpty then "-" else String.intercalate "/" xs

def showEncs (nm : Names) : List EncParams → Names × List String
  | [] => (nm, [])
  | p :: ps =>
    let (nm, a) := nm.ssrc p.ssrc
    let (nm, b) := nm.ssrc p.rtx
    let (nm, c) := nm.ssrc p.fec
    let (nm, rest) := showEncs nm ps
    (nm, s!"{textHex p.rid}~{a}~{b}~{c}" :: rest)

def showTransceivers (nm : Names) : List Transceiver → Names × List String
  | [] => (nm, [])
  | t :: ts =>
    let (nm, snd) :=
      match t.sender with
      | none => (nm, "-")
      | some sd =>
        let (nm, trk) :=
          match sd.track with
          | none => (nm, "-")
          | some tr =>
            let (nm, a) := nm.ident tr.stream
            let (nm, b) := nm.ident tr.id
            (nm, s!"{a}~{b}~{textHex tr.rid}")
        let (nm, encs) := showEncs nm sd.params
        (nm, String.intercalate "/" (trk :: encs))
    let (nm, rest) := showTransceivers nm ts
    (nm, s!"{midTok t.mid},{kindTok t.kind},{dirTok t.dir},{snd}" :: rest)

def msidHex (nm : Names) (s t : Ident) : String := nm.identRO s ++ "20" ++ nm.identRO t

/-- group the sources by name in order of first appearance, as the harness does -/
def groupSources : List (String × String) → List (String × List String) → List (String × List String)
  | [], acc => acc
  | (n, m) :: rest, acc =>
    if acc.any (·.1 == n) then groupSources rest (acc.map fun (k, ms) => if k == n then (k, ms ++ [m]) else (k, ms))
    else groupSources rest (acc ++ [(n, [m])])

def semTok : Sem → String
  | .fid => "FID" | .fecfr => "FEC-FR"

def showSection (nm : Names) (sec : Section) : String :=
  if sec.rejected then s!"{kindMedia sec.kind},{midTok sec.mid},0,-,-,-,-,-,-" else
  let msids := sec.msids.map fun (s, t) => msidHex nm s t
  let srcs := (groupSources (sec.sources.map fun x => (nm.ssrcRO x.ssrc, msidHex nm x.stream x.track)) []).map
    fun (n, ms) => String.intercalate "~" (n :: ms)
  let groups := sec.groups.map fun (sem, a, b) => s!"{semTok sem}~{nm.ssrcRO a}~{nm.ssrcRO b}"
  let rids := sec.rids.map fun r => s!"{textHexRaw r}~send"
  let sim := match sec.simulcast with
    | none => "-"
    | some rs => hexOfString "send " ++ String.intercalate "3b" (rs.map textHexRaw)
  String.intercalate "," [kindMedia sec.kind, midTok sec.mid, "9", listTok (sec.dirs.map dirTok), listTok msids,
    listTok srcs, listTok groups, listTok rids, sim]

def showSnap (nm : Names) (s : St) (o : Offer) : Names × String :=
  let (nm, ts) := showTransceivers nm s.trs
  let secs := o.media.map (showSection nm) ++
    (match o.app with | some m => [s!"application,{m},9,sendrecv,-,-,-,-,-"] | none => [])
  (nm, String.intercalate " " (["|", "T"] ++ ts ++ ["S"] ++ secs))

def errTok : Err → String
  | .nocodec => "nocodec" | .dirunsup => "dirunsup" | .ridnil => "ridnil" | .stopped => "stopped"
  | .nobase => "nobase" | .mismatch => "mismatch" | .ridcollision => "ridcollision" | .kind => "kind"
  | .envelope => "envelope" | .invalidstate => "invalidstate" | .sendernocodec => "sendernocodec"
  | .retries => "retries" | .dcboth => "dcboth" | .sigstate => "sigstate"

def resTok : Res → String
  | .ok => "ok" | .skip => "skip" | .err e => "e:" ++ errTok e

/-- replay the tokens; unparsable tokens are skipped like the harness does -/
def replay (s : St) (nm : Names) : List String → List String → List String → List String × List String
  | [], res, snaps => (res.reverse, snaps.reverse)
  | tok :: rest, res, snaps =>
    match opOf tok with
    | none => replay s nm rest ("skip" :: res) snaps
    | some .offer =>
      match createOffer s with
      | (s', .ok o) =>
        let (nm', snap) := showSnap nm s' o
        replay s' nm' rest ("ok" :: res) (snap :: snaps)
      | (s', .error e) => replay s' nm rest (("e:" ++ errTok e) :: res) snaps
    | some op =>
      let r := step s op
      replay r.1 nm rest (resTok r.2 :: res) snaps

def run (args : List String) : String :=
  match args with
  | "h" :: eng :: always :: ops =>
    match engineOf eng, Wire.tokBool always with
    | some e, some a =>
      let (res, snaps) := replay (init e a) {} ops [] []
      String.intercalate " " (res ++ snaps)
    | _, _ => "bad-op"
  | _ => "bad-op"

/-! ### judge: the property on an observed output -/

structure EncObs where
  rid : String
  ssrc : String
  rtx : String
  fec : String

structure TrObs where
  mid : String
  kind : String
  dir : String
  hasSender : Bool
  /-- hex stream id, hex track id of `Sender().Track()` -/
  track : Option (String × String)
  encs : List EncObs

structure SecObs where
  media : String
  mid : String
  port : String
  dirs : List String
  msids : List String
  /-- (name, msids announced for the source) -/
  sources : List (String × List String)
  groups : List String
  rids : List String
  sim : String

def unlist (s : String) : List String := if s == "-" then [] else s.splitOn "/"

def parseEnc (s : String) : Option EncObs :=
  match s.splitOn "~" with
  | [r, a, b, c] => some { rid := r, ssrc := a, rtx := b, fec := c }
  | _ => none

def parseTr (s : String) : Option TrObs :=
  match s.splitOn "," with
  | [mid, kind, dir, snd] =>
    if snd == "-" then some { mid, kind, dir, hasSender := false, track := none, encs := [] } else
    match snd.splitOn "/" with
    | trk :: encs => do
      let encs ← encs.mapM parseEnc
      let track ← (if trk == "-" then some none else
        match trk.splitOn "~" with
        | [a, b, _] => some (some (a, b))
        | _ => none)
      pure { mid, kind, dir, hasSender := true, track, encs }
    | [] => none
  | _ => none

def parseSec (s : String) : Option SecObs :=
  match s.splitOn "," with
  | [media, mid, port, dirs, msids, srcs, groups, rids, sim] =>
    let sources := (unlist srcs).map fun x =>
      match x.splitOn "~" with
      | n :: ms => (n, ms)
      | [] => ("", [])
    some { media, mid, port, dirs := unlist dirs, msids := unlist msids, sources, groups := unlist groups,
           rids := unlist rids, sim }
  | _ => none

/-- split `T … S …` -/
def parseSnap (toks : List String) : Option (List TrObs × List SecObs) :=
  match toks with
  | "T" :: rest =>
    let ts := rest.takeWhile (· ≠ "S")
    let ss := (rest.dropWhile (· ≠ "S")).drop 1
    do
      let ts ← ts.mapM parseTr
      let ss ← ss.mapM parseSec
      pure (ts, ss)
  | _ => none

def splitSnaps : List String → List String → List (List String) → List (List String)
  | [], cur, acc => (acc ++ [cur])
  | "|" :: rest, cur, acc => splitSnaps rest [] (acc ++ [cur])
  | t :: rest, cur, acc => splitSnaps rest (cur ++ [t]) acc

def hexPlain (h : String) : String := if h == "-" then "" else h

def sameSet (a b : List String) : Bool := a.all (b.contains ·) && b.all (a.contains ·)

def firstSome : List (Option String) → Option String
  | [] => none
  | some k :: _ => some k
  | none :: rest => firstSome rest

/-- clause 2 for one transceiver and its section; `rtxOn` / `fecOn`: the engine has such a codec for the kind -/
def judgeAnnounce (t : TrObs) (sec : SecObs) (rtxOn fecOn : Bool) : Option String :=
  let announcesNothing := sec.msids.isEmpty && sec.sources.isEmpty && sec.groups.isEmpty
  match t.track with
  | none => if announcesNothing then none else some "announces-absent-track"
  | some (s, tr) =>
    let sending := t.dir == "sendrecv" || t.dir == "sendonly"
    if !sending && announcesNothing then none else
    let want := hexPlain s ++ "20" ++ hexPlain tr
    let nz := fun (x : String) => x != "0"
    let ssrcs := (t.encs.flatMap fun e => [e.ssrc, e.rtx, e.fec]).filter nz
    let groups := (t.encs.filter (nz ·.rtx)).map (fun e => s!"FID~{e.ssrc}~{e.rtx}") ++
                  (t.encs.filter (nz ·.fec)).map (fun e => s!"FEC-FR~{e.ssrc}~{e.fec}")
    if sec.msids.isEmpty then some "msid-missing"
    else if !sec.msids.all (· == want) then some "wrong-msid"
    else if t.encs.isEmpty || t.encs.any (fun e => !nz e.ssrc) then some "sender-without-ssrc"
    else if !sameSet (sec.sources.map (·.1)) ssrcs then some "ssrc-mismatch"
    else if !sec.sources.all (fun x => x.2.all (· == want)) then some "wrong-source-msid"
    else if t.encs.any (fun e => rtxOn && !nz e.rtx) then some "rtx-missing-while-enabled"
    else if t.encs.any (fun e => fecOn && !nz e.fec) then some "fec-missing-while-enabled"
    else if t.encs.any (fun e => !rtxOn && nz e.rtx) then some "rtx-announced-while-disabled"
    else if t.encs.any (fun e => !fecOn && nz e.fec) then some "fec-announced-while-disabled"
    else if !sameSet sec.groups groups then some "ssrc-group-mismatch"
    else none

def kindName : String → String
  | "a" => "audio" | "v" => "video" | k => k

/-- the three clauses on one snapshot -/
def judgeSnap (eng : Engine) (needApp : Bool) (ts : List TrObs) (ss : List SecObs) : Option String :=
  let media := ss.filter (·.media != "application")
  let apps := ss.filter (·.media == "application")
  -- clause 1: one m-section per transceiver, with its mid, kind and direction
  let c1 : Option String :=
    if media.length != ts.length then some "section-count" else
    firstSome (ts.map fun t =>
      if t.mid == "-" then some "transceiver-without-mid" else
      match ss.filter (·.mid == t.mid) with
      | [] => some "no-section-for-transceiver"
      | [sec] =>
        if sec.media != kindName t.kind then some "wrong-kind"
        else if sec.dirs != [t.dir] then some "wrong-direction"
        else none
      | _ => some "duplicate-mid")
  -- clause 2: sending tracks
  let c2 : Option String :=
    firstSome (ts.map fun t =>
      match ss.filter (·.mid == t.mid) with
      | [sec] =>
        let k := t.kind
        let rtxOn := (k == "a" && eng.rtx .audio) || (k == "v" && eng.rtx .video)
        let fecOn := (k == "a" && eng.fec .audio) || (k == "v" && eng.fec .video)
        judgeAnnounce t sec rtxOn fecOn
      | _ => none)
  -- clause 3: application section
  let c3 : Option String :=
    if apps.length > 1 then some "duplicate-application-section"
    else if needApp && apps.isEmpty then some "application-section-missing"
    else if !needApp && !apps.isEmpty then some "application-section-unexpected"
    else none
  firstSome [c1, c2, c3]

/-- walk ops with the implementation's results -/
def judgeWalk (eng : Engine) (always : Bool) : List String → List String → List (List String) → Bool → String
  | [], [], [], _ => "ok"
  | [], _, _, _ => "bad-judge"
  | _ :: _, [], _, _ => "bad-judge"
  | op :: ops, r :: rs, snaps, dc =>
    if op == "of" && r == "ok" then
      match snaps with
      | [] => "bad-judge"
      | sn :: snaps' =>
        match parseSnap sn with
        | none => "bad-judge"
        | some (ts, ss) =>
          match judgeSnap eng (always || dc) ts ss with
          | some key => "violated " ++ key
          | none => judgeWalk eng always ops rs snaps' dc
    else
      let dc' := dc || (op.startsWith "dc," && r == "ok")
      judgeWalk eng always ops rs snaps dc'

def judge (args out : List String) : String :=
  match args with
  | "h" :: eng :: always :: ops =>
    match engineOf eng, Wire.tokBool always with
    | some e, some a =>
      match splitSnaps out [] [] with
      | res :: snaps => if res.length != ops.length then "bad-judge" else judgeWalk e a ops res snaps false
      | [] => "bad-judge"
    | _, _ => if out == ["bad-op"] then "ok" else "bad-judge"
  | _ => if out == ["bad-op"] then "ok" else "bad-judge"

end WebrtcVerif.Drv.C12
