import WebrtcVerif.Base.Wire
import WebrtcVerif.Model.ConnState
/-! Driver handler for C22.
  ops:  `agg <closed> <ice> <dtls>`                      → `<pc>`
        `seq <prev> (<closed> <ice> <dtls>)*`            → `<final> n <notified…>`
        `live <variant> <n>`                             → `observed` (judge-only: the implementation prints
            `observed A <closed> <ice> <dtls> <conn> <k> <notified…> | B …`, the settled state of each side of
            a real loopback pair; the model does not predict which states a live pair settles in)
  all values are the raw Go ints. -/
namespace WebrtcVerif.Drv.C22
open WebrtcVerif WebrtcVerif.ConnState

def triples : List Nat → Option (List (Bool × Ice × Dtls))
  | [] => some []
  | c :: i :: d :: rest => do
      let tl ← triples rest
      pure ((c != 0, Ice.ofRaw i, Dtls.ofRaw d) :: tl)
  | _ => none

def showSt (s : St) : String :=
  String.intercalate " " (toString s.state.toNat :: toString s.notified.length :: s.notified.map (toString ·.toNat))

/-- the scenarios of `c22Live` (harness/cmd/wvh/c22.go) -/
def liveVariants : List String :=
  ["ok", "badans", "badoff", "badboth", "closeA", "closeB", "closeAB", "earlyA", "midA", "earlyB",
   "noanswer", "halfanswer", "closenew", "lossB", "faillossB", "peercloseA", "staleice"]

/-- One side of a live observation: `<name> <closed> <ice> <dtls> <conn> <k> <notified…>`.
    `stalled`: the scenario held one update between computing the aggregate and taking the lock (variant
    `staleice`); an aggregate mismatch there is the stale-snapshot cause and gets its own key. -/
def judgeSide (stalled : Bool) : List String → String
  | _name :: rest =>
    match Wire.natList rest with
    | some (c :: i :: d :: conn :: k :: notes) =>
      if k != notes.length || c > 1 then "bad-judge" else
      match liveVerdict (c != 0) (Ice.ofRaw i) (Dtls.ofRaw d)
              (Pc.ofRaw conn) (notes.map Pc.ofRaw) with
      | none => "ok"
      | some key =>
        if stalled && key == "not-w3c-aggregate-live" then "violated not-w3c-aggregate-stalled-update"
        else "violated " ++ key
    | _ => "bad-judge"
  | [] => "bad-judge"

def splitBar (l : List String) : List (List String) :=
  l.foldr (fun t acc => if t == "|" then [] :: acc else match acc with
    | h :: r => (t :: h) :: r
    | [] => [[t]]) [[]]

def run (args : List String) : String :=
  match args with
  | ["live", v, n] => if liveVariants.contains v && n.toNat?.isSome then "observed" else "bad-op"
  | ["agg", c, i, d] =>
    match Wire.natList [c, i, d] with
    | some [c, i, d] => toString (aggregate (c != 0) (Ice.ofRaw i) (Dtls.ofRaw d)).toNat
    | _ => "bad-op"
  | "seq" :: prev :: rest =>
    match prev.toNat?, (Wire.natList rest).bind triples with
    | some p, some ts => showSt (ConnState.run { state := Pc.ofRaw p } ts)
    | _, _ => "bad-op"
  | _ => "bad-op"

/-- Property verdict on an *observed* output (the implementation's), independent of `aggregate`:
    uses only the W3C precedence list `w3c` and `noRepeat`. -/
def judge (args out : List String) : String :=
  match args with
  | ["live", v, n] =>
    if !(liveVariants.contains v && n.toNat?.isSome) then "bad-judge" else
    match out with
    | "observed" :: rest =>
      let sides := splitBar rest
      if sides.length != 2 then "bad-judge" else
      let vs := sides.map (judgeSide (v == "staleice"))
      match vs.find? (· != "ok") with
      | none => "ok"
      | some v =>
        -- name the side in the verdict: `violated <key> <side>`
        match vs.zip sides |>.find? (·.1 != "ok") with
        | some (_, name :: _) => v ++ " " ++ name
        | _ => v
    | _ => "bad-judge"
  | ["agg", c, i, d] =>
    match Wire.natList [c, i, d], Wire.natList out with
    | some [c, i, d], some [o] =>
      let ice := Ice.ofRaw i; let dtls := Dtls.ofRaw d
      if ice.named && dtls.named then
        if w3c (c != 0) ice dtls == some (Pc.ofRaw o) && o != 0 then "ok" else "violated not-w3c-aggregate"
      else "ok"   -- raw value 0 is not a W3C state; the property does not constrain it
    | _, _ => "bad-judge"
  | "seq" :: prev :: rest =>
    match prev.toNat?, (Wire.natList rest).bind triples, Wire.natList out with
    | some p, some ts, some (fin :: n :: notes) =>
      if n != notes.length then "bad-judge" else
      let notes' := notes.map Pc.ofRaw
      -- the handler never sees a repeated value, nor the initial value first
      if !noRepeat (Pc.ofRaw p :: notes') then "violated notified-without-change"
      else
        -- the final state is the W3C aggregate of the last named input (if any)
        match ts.getLast? with
        | some (c, i, d) =>
          if i.named && d.named then
            if w3c c i d == some (Pc.ofRaw fin) then
              -- and the last notification (if any) equals the final state
              match notes'.getLast? with
              | some l => if l == Pc.ofRaw fin then "ok" else "violated last-notification-not-current-state"
              | none => if fin == p then "ok" else "violated change-without-notification"
            else "violated not-w3c-aggregate"
          else "ok"
        | none => if fin == p && notes.isEmpty then "ok" else "violated change-without-update"
    | _, _, _ => "bad-judge"
  | _ => "bad-judge"

end WebrtcVerif.Drv.C22
