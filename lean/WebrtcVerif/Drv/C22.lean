import WebrtcVerif.Base.Wire
import WebrtcVerif.Model.ConnState
/-! Driver handler for C22.
  ops:  `agg <closed> <ice> <dtls>`                      → `<pc>`
        `seq <prev> (<closed> <ice> <dtls>)*`            → `<final> n <notified…>`
  all values are the raw Go ints. -/
namespace WebrtcVerif.Drv.C22
open WebrtcVerif WebrtcVerif.ConnState

def triples : List Nat → Option (List (Bool × Ice × Dtls))
  | [] => some []
  | c :: i :: d :: rest => do
      let tl ← triples rest
      pure ((c != 0, Ice.ofRaw i, Dtls.ofRaw d) :: tl)
  | _ => none

def showSt (s : St) : String :=
  String.intercalate " " (toString s.state.toNat :: toString s.notified.length :: s.notified.map (toString ·.toNat))

def run (args : List String) : String :=
  match args with
  | ["agg", c, i, d] =>
    match Wire.natList [c, i, d] with
    | some [c, i, d] => toString (aggregate (c != 0) (Ice.ofRaw i) (Dtls.ofRaw d)).toNat
    | _ => "bad-op"
  | "seq" :: prev :: rest =>
    match prev.toNat?, (Wire.natList rest).bind triples with
    | some p, some ts => showSt (ConnState.run { state := Pc.ofRaw p } ts)
    | _, _ => "bad-op"
  | _ => "bad-op"

/-- Property verdict on an *observed* output (the implementation's), independent of `aggregate`:
    uses only the W3C precedence list `w3c` and `noRepeat`. -/
def judge (args out : List String) : String :=
  match args with
  | ["agg", c, i, d] =>
    match Wire.natList [c, i, d], Wire.natList out with
    | some [c, i, d], some [o] =>
      let ice := Ice.ofRaw i; let dtls := Dtls.ofRaw d
      if ice.named && dtls.named then
        if w3c (c != 0) ice dtls == some (Pc.ofRaw o) && o != 0 then "ok" else "violated not-w3c-aggregate"
      else "ok"   -- raw value 0 is not a W3C state; the property does not constrain it
    | _, _ => "bad-judge"
  | "seq" :: prev :: rest =>
    match prev.toNat?, (Wire.natList rest).bind triples, Wire.natList out with
    | some p, some ts, some (fin :: n :: notes) =>
      if n != notes.length then "bad-judge" else
      let notes' := notes.map Pc.ofRaw
      -- the handler never sees a repeated value, nor the initial value first
      if !noRepeat (Pc.ofRaw p :: notes') then "violated notified-without-change"
      else
        -- the final state is the W3C aggregate of the last named input (if any)
        match ts.getLast? with
        | some (c, i, d) =>
          if i.named && d.named then
            if w3c c i d == some (Pc.ofRaw fin) then
              -- and the last notification (if any) equals the final state
              match notes'.getLast? with
              | some l => if l == Pc.ofRaw fin then "ok" else "violated last-notification-not-current-state"
              | none => if fin == p then "ok" else "violated change-without-notification"
            else "violated not-w3c-aggregate"
          else "ok"
        | none => if fin == p && notes.isEmpty then "ok" else "violated change-without-update"
    | _, _, _ => "bad-judge"
  | _ => "bad-judge"

end WebrtcVerif.Drv.C22
