import WebrtcVerif.Base.Wire
import WebrtcVerif.Model.Roles
/-! Driver handler for C13 (complementary ICE and DTLS roles).
  ops (see harness/cmd/wvh/c13.go):
    ans  <olite> <alite> <acfg> <offer-setups>   → <answer-setup> lite=<b> ice=<r> dtls=<r> args=<ice>/<remote>
    pair <olite> <alite> <ocfg> <acfg>           → <offer-setup> <answer-setup> o=<ice>/<dtls> a=<ice>/<dtls>
    off  <olite> <alite> <ocfg> <answer-setups>  → ice=<r> dtls=<r> args=<ice>/<remote>
    conn <olite> <alite> <ocfg> <acfg> <offer-setup> → <answer-setup> o=<ice>/<dtls> a=<ice>/<dtls> connected|stuck|failed
    fn role <remote> <configured> <ice> | fn conn <d> | fn sdp <setups|nil> | fn set <calls>
  setups: sections separated by ',', attributes of a section by '+', '-' = none.
  cfg / calls: u (no call) c s (accepted) a z x (refused values auto, 0, 9). -/
namespace WebrtcVerif.Drv.C13
open WebrtcVerif WebrtcVerif.Roles

def setupOfTok (s : String) : SetupVal :=
  if s == "active" then .active else if s == "passive" then .passive
  else if s == "actpass" then .actpass else if s == "holdconn" then .holdconn else .other

def parseSpec (s : String) : Sections :=
  (s.splitOn ",").map fun sec => if sec == "-" then [] else (sec.splitOn "+").map setupOfTok

def callsOfCfg (s : String) : Option (List DtlsRole) :=
  s.toList.foldr (fun ch acc => acc.bind fun tl =>
    if ch == 'u' then some tl
    else if ch == 'c' then some (.client :: tl)
    else if ch == 's' then some (.server :: tl)
    else if ch == 'a' then some (.auto :: tl)
    else if ch == 'z' then some (DtlsRole.ofRaw 0 :: tl)
    else if ch == 'x' then some (DtlsRole.ofRaw 9 :: tl)
    else none) (some [])

def showIce : IceRole → String
  | .controlling => "controlling" | .controlled => "controlled" | .unknown => "unknown"
def showDtls : DtlsRole → String
  | .auto => "auto" | .client => "client" | .server => "server" | .unknown => "unknown"
def showConn : ConnRole → String
  | .active => "active" | .passive => "passive" | .actpass => "actpass" | .holdconn => "holdconn"
  | .zero => "Unknown"

def showObs (st : Started) (sd : Side) : String :=
  s!"ice={showIce sd.ice} dtls={showDtls sd.dtls} args={showIce st.ice}/{showDtls st.remoteDtls}"

def run (args : List String) : String :=
  match args with
  | ["ans", o, a, cfg, spec] =>
    match Wire.tokBool o, Wire.tokBool a, callsOfCfg cfg with
    | some o, some a, some calls =>
      let r := answerer o a (configure calls) (parseSpec spec)
      s!"{showConn r.setup} lite={Wire.boolTok r.lite} {showObs r.started r.side}"
    | _, _, _ => "bad-op"
  | ["pair", o, a, ocfg, acfg] =>
    match Wire.tokBool o, Wire.tokBool a, callsOfCfg ocfg, callsOfCfg acfg with
    | some o, some a, some oc, some ac =>
      let ans := answerer o a (configure ac) (uniformSections offerConnectionRole 2)
      let off := offerer o ans.lite (configure oc) (uniformSections ans.setup 2)
      s!"{showConn offerConnectionRole} {showConn ans.setup} o={showIce off.2.ice}/{showDtls off.2.dtls} a={showIce ans.side.ice}/{showDtls ans.side.dtls}"
    | _, _, _, _ => "bad-op"
  | ["off", o, a, ocfg, spec] =>
    match Wire.tokBool o, Wire.tokBool a, callsOfCfg ocfg with
    | some o, some a, some oc =>
      let off := offerer o a (configure oc) (parseSpec spec)
      showObs off.1 off.2
    | _, _, _ => "bad-op"
  | ["conn", o, a, ocfg, acfg, spec] =>
    match Wire.tokBool o, Wire.tokBool a, callsOfCfg ocfg, callsOfCfg acfg with
    | some o, some a, some oc, some ac =>
      let ans := answerer o a (configure ac) (parseSpec spec)
      let off := offerer o ans.lite (configure oc) (uniformSections ans.setup 1)
      -- assumption on pion/dtls + pion/ice: the handshake completes iff one side is client and the other server
      let state := if Spec.opposite off.2.dtls ans.side.dtls then "connected" else "stuck"
      s!"{showConn ans.setup} o={showIce off.2.ice}/{showDtls off.2.dtls} a={showIce ans.side.ice}/{showDtls ans.side.dtls} {state}"
    | _, _, _, _ => "bad-op"
  | ["fn", "role", r, c, i] =>
    match Wire.natList [r, c, i] with
    | some [r, c, i] => showDtls (dtlsTransportRole (DtlsRole.ofRaw r) (DtlsRole.ofRaw c) (IceRole.ofRaw i))
    | _ => "bad-op"
  | ["fn", "conn", d] =>
    match d.toNat? with
    | some d =>
      match connectionRoleFromDtlsRole (DtlsRole.ofRaw d) with
      | .zero => "zero"
      | c => showConn c
    | none => "bad-op"
  | ["fn", "sdp", spec] =>
    showDtls (dtlsRoleFromSDP (if spec == "nil" then none else some (parseSpec spec)))
  | ["fn", "set", calls] =>
    match callsOfCfg calls with
    | some cs =>
      let errs := String.join (cs.map fun r => Wire.boolTok (setAnsweringDTLSRole .unknown r).2)
      if errs.isEmpty then showDtls (configure cs) else s!"{showDtls (configure cs)} {errs}"
    | none => "bad-op"
  | _ => "bad-op"

/-! ### Judge: the property evaluated on an observed output, written from the property text with the
    `Spec` vocabulary only (no call into `answerConnectionRole`, `iceRole`, `dtlsTransportRole`). -/

/-- The offer's (answer's) a=setup value when it has one: `some none` = no setup attribute anywhere,
    `some (some v)` = every setup attribute says `v`, `none` = the attributes disagree. -/
def uniqueValue (secs : Sections) : Option (Option SetupVal) :=
  match secs.flatten with
  | [] => some none
  | v :: rest => if rest.all (· == v) then some (some v) else none

def field (pfx s : String) : Option String :=
  if s.startsWith pfx then some (s.drop pfx.length).toString else none

def pairOf (s : String) : Option (String × String) :=
  match s.splitOn "/" with
  | [x, y] => some (x, y)
  | _ => none

def definite (d : String) : Bool := d == "client" || d == "server"

/-- clauses about one endpoint that sent `setup` and took DTLS role `dtls` -/
def judgeAnswerSide (setup dtls : String) : Option String :=
  if !(setup == "active" || setup == "passive") then some "violated answer-setup-not-active-or-passive"
  else if !definite dtls then some "violated dtls-role-indefinite"
  else if (setup == "active") != (dtls == "client") then some "violated setup-contradicts-role"
  else none

def judgeComplement (offer : Option (Option SetupVal)) (answer : String) : Option String :=
  match offer with
  | some (some .active) => if answer == "passive" then none else some "violated answer-not-complement-of-offer"
  | some (some .passive) => if answer == "active" then none else some "violated answer-not-complement-of-offer"
  | _ => none

def expectIce (o a : Bool) (who : Spec.Who) : String :=
  if Spec.controlling o a == who then "controlling" else "controlled"

def firstSome : List (Option String) → String
  | [] => "ok"
  | some v :: _ => v
  | none :: rest => firstSome rest

def judge (args out : List String) : String :=
  match args, out with
  | ["ans", o, a, _cfg, spec], [setup, lite, ice, dtls, argsTok] =>
    match Wire.tokBool o, Wire.tokBool a, field "lite=" lite, field "ice=" ice, field "dtls=" dtls,
          (field "args=" argsTok).bind pairOf with
    | some o, some a, some lite, some ice, some dtls, some (argIce, _) =>
      firstSome [
        judgeAnswerSide setup dtls,
        judgeComplement (uniqueValue (parseSpec spec)) setup,
        if ice == expectIce o a .answerer && argIce == ice then none else some "violated ice-role-not-rfc8445",
        if lite == Wire.boolTok a then none else some "violated ice-lite-not-signalled"]
    | _, _, _, _, _, _ => "bad-judge"
  | ["pair", o, a, _, _], [offerSetup, answerSetup, oTok, aTok] =>
    match Wire.tokBool o, Wire.tokBool a, (field "o=" oTok).bind pairOf, (field "a=" aTok).bind pairOf with
    | some o, some a, some (oIce, oDtls), some (aIce, aDtls) =>
      firstSome [
        judgeAnswerSide answerSetup aDtls,
        judgeComplement (some (some (setupOfTok offerSetup))) answerSetup,
        if definite oDtls && oDtls != aDtls then none else some "violated dtls-roles-not-opposite",
        if oIce == expectIce o a .offerer && aIce == expectIce o a .answerer then none
        else some "violated ice-role-not-rfc8445"]
    | _, _, _, _ => "bad-judge"
  | ["conn", o, a, _, _, spec], [answerSetup, oTok, aTok, state] =>
    match Wire.tokBool o, Wire.tokBool a, (field "o=" oTok).bind pairOf, (field "a=" aTok).bind pairOf with
    | some o, some a, some (oIce, oDtls), some (aIce, aDtls) =>
      let iceClause := if oIce == expectIce o a .offerer && aIce == expectIce o a .answerer then none
        else some "violated ice-role-not-rfc8445"
      if oDtls == "notstarted" || aDtls == "notstarted" then
        -- ICE never connected, DTLS was never asked for its role: only the ICE and a=setup clauses apply
        firstSome [
          if answerSetup == "active" || answerSetup == "passive" then none
          else some "violated answer-setup-not-active-or-passive",
          judgeComplement (uniqueValue (parseSpec spec)) answerSetup,
          iceClause,
          some "violated connection-not-established"]
      else
      firstSome [
        judgeAnswerSide answerSetup aDtls,
        judgeComplement (uniqueValue (parseSpec spec)) answerSetup,
        if definite oDtls && oDtls != aDtls then none else some "violated dtls-roles-not-opposite",
        iceClause,
        if state == "connected" then none else some "violated connection-not-established"]
    | _, _, _, _ => "bad-judge"
  | ["off", o, a, _, spec], [ice, dtls, _argsTok] =>
    match Wire.tokBool o, Wire.tokBool a, field "ice=" ice, field "dtls=" dtls with
    | some o, some a, some ice, some dtls =>
      firstSome [
        if definite dtls then none else some "violated dtls-role-indefinite",
        match uniqueValue (parseSpec spec) with
        | some (some .active) => if dtls == "server" then none else some "violated dtls-roles-not-opposite"
        | some (some .passive) => if dtls == "client" then none else some "violated dtls-roles-not-opposite"
        | _ => none,
        if ice == expectIce o a .offerer then none else some "violated ice-role-not-rfc8445"]
    | _, _, _, _ => "bad-judge"
  | ["fn", "role", r, _, _], [d] =>
    if !definite d then "violated dtls-role-indefinite"
    else if r == "2" && d != "server" then "violated role-not-complement-of-remote"
    else if r == "3" && d != "client" then "violated role-not-complement-of-remote"
    else "ok"
  | ["fn", "conn", d], [c] =>
    if d == "2" && c != "active" then "violated setup-misstates-role"
    else if d == "3" && c != "passive" then "violated setup-misstates-role"
    else if d != "2" && d != "3" && (c == "active" || c == "passive") then "violated setup-misstates-role"
    else "ok"
  | ["fn", "sdp", spec], [d] =>
    let first := if spec == "nil" then none else (parseSpec spec).flatten.head?
    let want := match first with
      | some .active => "client"
      | some .passive => "server"
      | _ => "auto"
    if d == want then "ok" else "violated sdp-role-misread"
  | ["fn", "set", calls], stored :: errs =>
    -- only client / server may be stored; every other value is refused and changes nothing
    let accepted := calls.toList.filter (fun ch => ch == 'c' || ch == 's')
    let want := match accepted.getLast? with
      | some 'c' => "client"
      | some 's' => "server"
      | _ => "unknown"
    let wantErrs := String.join ((calls.toList.filter (· != 'u')).map fun ch =>
      if ch == 'c' || ch == 's' then "0" else "1")
    if stored == want && String.join errs == wantErrs then "ok" else "violated answering-role-setter"
  | _, _ => "bad-judge"

end WebrtcVerif.Drv.C13
