import WebrtcVerif.Base.Wire
/-! Driver handler for C40's search half: every concurrent program is expected to complete (`ok`);
    the judge names the failure observed by the race-detector build. -/
namespace WebrtcVerif.Drv.C40

def run (args : List String) : String :=
  match args with
  | ["conc", _, _, _] => "ok"
  | _ => "bad-op"

def judge (args out : List String) : String :=
  match args, out with
  | ["conc", _, _, _], ["ok"] => "ok"
  | ["conc", _, _, _], ["race"] => "violated data-race"
  | ["conc", _, _, _], ["hang"] => "violated deadlock-or-hang"
  | ["conc", _, _, _], ["timeout"] => "violated deadlock-or-hang"
  | ["conc", _, _, _], "panic" :: _ => "violated panic"
  | _, _ => "bad-judge"

end WebrtcVerif.Drv.C40
