import WebrtcVerif.Base.Wire
/-! Driver handler for C40's search half: every concurrent program is expected to complete (`ok`);
    the judge names the failure observed by the race-detector build.

    Op lines
    * `conc <seed> <goroutines> <calls>` — seeded random program next to a serialized signaling exchange;
    * `par <setup> <seed> <ng> <reps> <group>…` — a fixture brought to `setup`, then each group of entry
      points (names joined by `+`) run by `ng` goroutines behind one barrier, `reps` calls each.

    Outputs: `ok`, `race <k1> <k2> …` (one key per race-detector report: the two racing functions,
    `f~g`; the harness prints keys of recorded findings last so that a recorded race cannot hide a new
    one), `hang <where>`, `timeout`, `panic …`, `crash <runtime message>` (the process
    that ran the line died: fatal runtime error or unrecovered panic on a library goroutine).  The property demands "every call returns, and the race
    detector reports no data race": anything but `ok` violates it. -/
namespace WebrtcVerif.Drv.C40

def setups : List String := ["fresh", "offer", "conn", "conn2", "closing"]

def isNat (s : String) : Bool := !s.isEmpty && s.all Char.isDigit

/-- a group is a non-empty `+`-separated list of non-empty names -/
def groupOk (g : String) : Bool := (g.splitOn "+").all (fun n => !n.isEmpty)

def wellFormed : List String → Bool
  | ["conc", a, b, c] => isNat a && isNat b && isNat c
  | "par" :: s :: seed :: ng :: reps :: g :: gs =>
      setups.contains s && isNat seed && isNat ng && isNat reps && (g :: gs).all groupOk
  | _ => false

def run (args : List String) : String :=
  if wellFormed args then "ok" else "bad-op"

def judge (args out : List String) : String :=
  if !wellFormed args then "bad-judge" else
  match out with
  | ["ok"] => "ok"
  | ["race"] => "violated data-race"
  | "race" :: k :: _ => "violated data-race:" ++ k
  | "hang" :: _ => "violated deadlock-or-hang"
  | ["timeout"] => "violated deadlock-or-hang"
  | "panic" :: _ => "violated panic"
  | ["crash"] => "violated crash"
  | "crash" :: k :: _ => "violated crash:" ++ k
  | _ => "bad-judge"

end WebrtcVerif.Drv.C40
