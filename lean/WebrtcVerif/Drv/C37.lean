import WebrtcVerif.Base.Wire
import WebrtcVerif.Proofs.ReadLoops
import WebrtcVerif.Drv.C33
import WebrtcVerif.Drv.C34
/-! Driver handler for C37 (container readers on arbitrary bytes).
  ops (one reader, one complete input per line; <tag> is a free label naming the generator stream, ignored):
    ivf <tag> <hex>                     ivfreader.NewWith, then ParseNextFrame until it fails
    ogg <tag> <ck:0|1> <hex>            oggreader.NewWithOptions(WithDoChecksum(ck)), then ParseNextPage until it fails
    oggnew <tag> <hex>                  oggreader.NewWith (reads and checks the OpusHead page), then ParseNextPage …
    head <tag> <hex> | tags <tag> <hex> oggreader.ParseOpusHead / ParseOpusTags (one call)
    h264 <tag> <sei:0|1> <sched> <hex>  h264reader.NewReaderWithOptions(WithIncludeSEI(sei)), then NextNAL until it fails;
    h265 <tag> <sei:0|1> <sched> <hex>    `sched` cuts the bytes into `Read` results exactly as in C34 (see Drv/C34.lean)
    rtpdump <tag> <hex>                 rtpdump.NewReader, then Next until it fails
  output: tokens
    new:ok[@<consumed>] | new:<error>          the constructor (consumed: bytes taken from the stream, where the
                                               harness can count them: ivf, ogg, oggnew)
    ok@<consumed>:<len>                        one per successful call: bytes consumed so far (ivf, ogg, oggnew: counted
                                               on the stream; rtpdump: 8 + payload per record, from 0 after NewReader;
                                               h264/h265: number of scripted `Read` results used up so far) and the
                                               length of the returned payload / unit
    end:<error> | panic | hang | cap           how the loop ended: the reader's error class, a recovered panic, the
                                               per-call watchdog (no report for 2 s, confirmed over 2 s more), or the
                                               harness's cap of len+8 calls
    inconclusive …                             not executed: a call hung earlier in this harness process
    n=<k>                                      number of successful calls
    one:ok | one:<error>                       head / tags
    skipped-alloc                              ivf only: an accepted header followed by a reachable FrameSize > 4 MiB
                                               (allocation size is outside the model; not executed)
-/
namespace WebrtcVerif.Drv.C37
open WebrtcVerif WebrtcVerif.Bytes

def unhex (s : String) : Option Bs := Drv.C33.unhex s

/-! ### run: the model -/

def maxAlloc : Nat := 4194304

/-- does the frame chain after an accepted IVF header reach a `FrameSize` above 4 MiB?  (the walk a reader
    performs: 12-byte header, skip `FrameSize` bytes; stops where the reader would fail) -/
def ivfTooBig : Nat → Bs → Bool
  | 0, _ => false
  | fuel + 1, s =>
    match s with
    | a :: b' :: c :: d :: _ :: _ :: _ :: _ :: _ :: _ :: _ :: _ :: rest =>
      let size := rd32le a b' c d
      if size > maxAlloc then true
      else if size ≤ rest.length then ivfTooBig fuel (rest.drop size) else false
    | _ => false

def showIvfErr : Ivf.RErr → String
  | .eof => "eof" | .incompleteFileHeader => "incomplete-file-header" | .signatureMismatch => "signature-mismatch"
  | .unknownVersion => "unknown-version" | .invalidTimebase => "invalid-timebase"
  | .incompleteFrameHeader => "incomplete-frame-header" | .incompleteFrameData => "incomplete-frame-data"

/-- `ok@<cum>:<len>` tokens from per-call (consumed, len) pairs, starting at `start` -/
def okTokens (start : Nat) (calls : List (Nat × Nat)) : List String :=
  (calls.foldl (fun (acc : Nat × List String) (c : Nat × Nat) =>
      let cum := acc.1 + c.1
      (cum, s!"ok@{cum}:{c.2}" :: acc.2)) (start, [])).2.reverse

def line (toks : List String) : String := String.intercalate " " toks

def runIvf (f : Bs) : String :=
  match Ivf.newReader f with
  | .panic => "panic n=0"
  | .err e => s!"new:{showIvfErr e} n=0"
  | .ok (r, _, rest) =>
    if ivfTooBig (rest.length + 1) rest then "skipped-alloc"
    else
      let (fs, e) := Ivf.readFrames r rest
      let start := f.length - rest.length
      let endTok := match e with | .err e => "end:" ++ showIvfErr e | .panic => "panic"
      -- a frame consumes 12 + payload bytes (C37_progress_ivf)
      line ([s!"new:ok@{start}"] ++ okTokens start (fs.map fun (pl, _) => (12 + pl.length, pl.length))
        ++ [endTok, s!"n={fs.length}"])

def showPageEnd : Ogg.PageResult → String
  | .eof => "end:eof" | .unexpectedEOF => "end:unexpected" | .checksumMismatch => "end:checksum"
  | .panic => "panic" | .ok _ _ _ => "end:ok"

def pagesTokens (ck : Bool) (start : Nat) (s : Bs) : List String :=
  let (ps, e) := Ogg.readPages ck s
  -- a page consumes 27 + segment table + payload bytes (C37_progress_ogg_page)
  okTokens start (ps.map fun (pl, h) => (27 + h.segmentsCount.toNat + pl.length, pl.length))
    ++ [showPageEnd e, s!"n={ps.length}"]

def runOgg (ck : Bool) (f : Bs) : String := line ("new:ok@0" :: pagesTokens ck 0 f)

def runOggNew (f : Bs) : String :=
  match Ogg.readOpusHeader true f with
  | (.ok _, rest) => let start := f.length - rest.length; line (s!"new:ok@{start}" :: pagesTokens true start rest)
  | (.badIDPageLength, _) => "new:badlen n=0"
  | (.unsupportedFamily, _) => "new:family n=0"
  | (.badIDPageSignature, _) => "new:badsig n=0"
  | (.badIDPageType, _) => "new:badtype n=0"
  | (.badIDPagePayloadSignature, _) => "new:badpayloadsig n=0"
  | (.readErr .eof, _) => "new:read-eof n=0"
  | (.readErr .unexpectedEOF, _) => "new:read-unexpected n=0"
  | (.readErr .checksumMismatch, _) => "new:read-checksum n=0"
  | (.readErr _, _) => "panic n=0"
  | (.panic, _) => "panic n=0"

def runHead (p : Bs) : String :=
  match Ogg.parseOpusHead p with
  | .ok _ => "one:ok" | .badIDPageLength => "one:badlen" | .unsupportedFamily => "one:family"
  | .panic => "panic" | _ => "one:other"

def runTags (p : Bs) : String :=
  match Ogg.parseOpusTags p with
  | .ok _ => "one:ok" | .badSignature => "one:badsig" | .panic => "panic"

def showAnnexErr : AnnexB.Err → String
  | .eof => "eof" | .notStream => "notstream" | .other => "other"

/-- `NextNAL` until it fails; `fuel` ≥ `Reader.size + 1` is never exhausted (C37_progress_annexb) -/
def annexCalls (total : Nat) : Nat → AnnexB.Reader → Nat → List String → List String
  | 0, _, n, acc => (s!"n={n}" :: "cap" :: acc).reverse
  | fuel + 1, r, n, acc =>
    match AnnexB.nextNAL r with
    | (.nal u, r') => annexCalls total fuel r' (n + 1) (s!"ok@{total - r'.src.length}:{u.data.length}" :: acc)
    | (.err e, _) => (s!"n={n}" :: ("end:" ++ showAnnexErr e) :: acc).reverse
    | (.panic, _) => (s!"n={n}" :: "panic" :: acc).reverse

def runAnnex (c : AnnexB.Codec) (sei : Bool) (sched : Drv.C34.Sched) (f : Bs) : String :=
  let evs := Drv.C34.mkEvents sched f
  let r := AnnexB.init c sei evs
  line (annexCalls evs.length (r.size + 1) r 0 ["new:ok"])

def runRtpdump (f : Bs) : String :=
  match Rtpdump.newReader f with
  | .error _ => "new:malformed n=0"
  | .ok (_, rest) =>
    let (ps, e) := Rtpdump.readAll rest
    let endTok := match e with | .eof => "end:eof" | .malformed => "end:malformed" | .unrepresentable => "end:other"
    -- a record consumes 8 + payload bytes (C37_progress_rtpdump)
    line (["new:ok"] ++ okTokens 0 (ps.map fun p => (8 + p.payload.length, p.payload.length))
      ++ [endTok, s!"n={ps.length}"])

def run (args : List String) : String :=
  match args with
  | ["ivf", _, hex] => match unhex hex with | some f => runIvf f | none => "bad-op"
  | ["ogg", _, ck, hex] =>
    match Wire.tokBool ck, unhex hex with | some ck, some f => runOgg ck f | _, _ => "bad-op"
  | ["oggnew", _, hex] => match unhex hex with | some f => runOggNew f | none => "bad-op"
  | ["head", _, hex] => match unhex hex with | some f => runHead f | none => "bad-op"
  | ["tags", _, hex] => match unhex hex with | some f => runTags f | none => "bad-op"
  | ["h264", _, sei, sched, hex] =>
    match Wire.tokBool sei, Drv.C34.schedOfTok sched, unhex hex with
    | some sei, some sched, some f => runAnnex .h264 sei sched f | _, _, _ => "bad-op"
  | ["h265", _, sei, sched, hex] =>
    match Wire.tokBool sei, Drv.C34.schedOfTok sched, unhex hex with
    | some sei, some sched, some f => runAnnex .h265 sei sched f | _, _, _ => "bad-op"
  | ["rtpdump", _, hex] => match unhex hex with | some f => runRtpdump f | none => "bad-op"
  | _ => "bad-op"

/-! ### judge: the property evaluated on an observed output.
    Written from the property text; it uses the op line only for the reader's name and the input LENGTH —
    no model function is called. -/

/-- reader name and input length -/
def parseOp (args : List String) : Option (String × Nat) :=
  match args with
  | ["ivf", _, hex] | ["oggnew", _, hex] | ["head", _, hex] | ["tags", _, hex] | ["rtpdump", _, hex] =>
    (unhex hex).map fun f => (args.headD "", f.length)
  | ["ogg", _, _, hex] => (unhex hex).map fun f => ("ogg", f.length)
  | ["h264", _, _, _, hex] | ["h265", _, _, _, hex] => (unhex hex).map fun f => ("annexb", f.length)
  | _ => none

/-- `ok@<a>:<b>` -/
def parseOk (tok : String) : Option (Nat × Nat) :=
  match tok.toList with
  | 'o' :: 'k' :: '@' :: rest =>
    match (String.ofList rest).splitOn ":" with
    | [a, b'] => do let a ← a.toNat?; let b' ← b'.toNat?; pure (a, b')
    | _ => none
  | _ => none

/-- `new:ok@<k>` → k; `new:ok` → 0 -/
def parseNewOk (tok : String) : Option Nat :=
  if tok == "new:ok" then some 0
  else match tok.toList with
    | 'n' :: 'e' :: 'w' :: ':' :: 'o' :: 'k' :: '@' :: rest => (String.ofList rest).toNat?
    | _ => none

def isEnd (tok : String) : Bool := tok.startsWith "end:"

/-- every successful call must have consumed something: the consumed-so-far values are strictly increasing -/
def strictlyIncreasing : Nat → List Nat → Bool
  | _, [] => true
  | prev, x :: rest => prev < x && strictlyIncreasing x rest

def judge (args out : List String) : String :=
  match parseOp args with
  | none => "bad-judge"
  | some (kind, len) =>
    if out.contains "panic" then "violated panic"
    else if out.contains "hang" || out == ["timeout"] then "violated hang"
    else if out == ["skipped-alloc"] then "ok"
    else if out.contains "cap" then "violated too-many-calls"
    else if kind == "head" || kind == "tags" then
      -- one-shot parsers: a value or an error, nothing else
      match out with
      | [t] => if t.startsWith "one:" then "ok" else "bad-judge"
      | _ => "bad-judge"
    else
      match out with
      | [] => "bad-judge"
      | newTok :: rest =>
        match parseNewOk newTok with
        | none =>
          -- the constructor reported an error: no call follows
          if newTok.startsWith "new:" && rest == ["n=0"] then "ok" else "bad-judge"
        | some start =>
          let oks := rest.takeWhile (fun t => t.startsWith "ok@")
          let tail := rest.dropWhile (fun t => t.startsWith "ok@")
          match oks.mapM parseOk, tail with
          | some calls, [endTok, nTok] =>
            if !isEnd endTok || nTok != s!"n={calls.length}" then "bad-judge"
            else
              -- progress: ivf/ogg/rtpdump report bytes consumed so far; the Annex-B readers buffer their
              -- input, there the bytes handed out (each unit consists of distinct input bytes) are the measure
              let marks : List Nat :=
                if kind == "annexb" then
                  (calls.foldl (fun (acc : Nat × List Nat) c => (acc.1 + c.2, (acc.1 + c.2) :: acc.2)) (0, [])).2.reverse
                else calls.map (·.1)
              if !strictlyIncreasing start marks then "violated no-progress"
              else if marks.getLast?.getD start > len then "violated overrun"
              else if calls.length > len + 2 then "violated too-many-calls"
              else "ok"
          | _, _ => "bad-judge"

end WebrtcVerif.Drv.C37
