import WebrtcVerif.Base.Wire
import WebrtcVerif.Model.Jsep
/-! Shared driver code for C06 / C07 / C09 (histories of two PeerConnections, see harness/cmd/wvh/jsep.go).

  op line:   `Cxx h <cfgA> <cfgB> <op>*`
    cfg  = 5 characters: semantics u|f|p, media-level fingerprints 0|1, AlwaysNegotiateDataChannels 0|1,
           media engine 1 (audio) 2 (video) 3 (both), bundle policy 0..3 (no effect in this code base)
    op   = p.at.K | p.ak.K.D | p.dc | p.rt.I | p.st.I | p.co | p.ca | p.sl | p.slo | p.sr | p.so.SYN
           p = a|b, K = a|v, D = sr|so|ro|in, I = transceiver index
    SYN  = BUNDLE;SEC/SEC/…   BUNDLE = - (no group) | * (all mids) | e (empty group) | hexmid+hexmid+…
           SEC = media,hexmid|-,port0,dirs|-,codecOK     dirs over s o r i
  output:    one `RES TRS` pair of tokens per op
    RES  = ok | skip | err:<class> | D<o|a>;BUNDLE;sessfp;SEC/…   (`e` = no section)
           SEC = media,hexmid|-,port0,dirs|-,ufrag,pwd,setup,fp,codecOK,pcmu
    TRS  = T- | T<K><dir><sender>:<hexmid|->+…
-/
namespace WebrtcVerif.Drv.Jsep
open WebrtcVerif WebrtcVerif.Jsep

/-! ### mids -/

def isCanonicalDecimal (s : String) : Bool :=
  let cs := s.toList
  !cs.isEmpty && cs.all (fun c => '0' ≤ c && c ≤ '9') && (cs.length = 1 || cs.head? != some '0')

def midOfText (s : String) : Mid :=
  if isCanonicalDecimal s then .num (s.toNat?.getD 0) else .other s

def textOfMid : Mid → String
  | .num n => toString n
  | .other s => s

def midTok : Option Mid → String
  | none => "-"
  | some m => Wire.hexOfText (textOfMid m)

def tokMid (s : String) : Option (Option Mid) :=
  if s == "-" then some none
  else match Wire.textOfHex s with
    | some t => if t.isEmpty then some none else some (some (midOfText t))
    | none => none

/-! ### small enums -/

def dirChar : Dir → Char
  | .sendrecv => 's' | .sendonly => 'o' | .recvonly => 'r' | .inactive => 'i'

def charDir (c : Char) : Option Dir :=
  if c == 's' then some .sendrecv else if c == 'o' then some .sendonly
  else if c == 'r' then some .recvonly else if c == 'i' then some .inactive else none

def dirsTok (l : List Dir) : String := if l.isEmpty then "-" else String.ofList (l.map dirChar)

def tokDirs (s : String) : Option (List Dir) :=
  if s == "-" then some [] else s.toList.mapM charDir

def setupTok : Option Setup → String
  | none => "-" | some .actpass => "actpass" | some .active => "active" | some .passive => "passive"
  | some .other => "other"

def tokSetup (s : String) : Option Setup :=
  if s == "-" then none else if s == "actpass" then some .actpass else if s == "active" then some .active
  else if s == "passive" then some .passive else some .other

def errTok : Err → String
  | .noMid => "nomid" | .midNil => "midnil" | .semantics => "sem" | .senderNoCodecs => "sendernocodec"
  | .retries => "retries" | .state => "state" | .mismatch => "mismatch" | .noCodecs => "nocodecs"
  | .direction => "direction" | .parse => "parse"
  | .ice => "ice" | .fingerprint => "fingerprint"

/-! ### descriptions -/

def secTok (s : Sec) : String :=
  String.intercalate "," [s.media, midTok s.mid, Wire.boolTok s.port0, dirsTok s.dirs, Wire.boolTok s.ufrag,
    Wire.boolTok s.pwd, setupTok s.setup, Wire.boolTok s.fp, Wire.boolTok s.codecOK, Wire.boolTok s.pcmu]

/-- an empty id (Plan-B offer generated for a transceiver without mid) leaves no token in the group line -/
def bundleTok (b : Option (List Mid)) : String :=
  match b.map (·.filter (· != .other "")) with
  | none => "-"
  | some [] => "e"
  | some l => String.intercalate "+" (l.map fun m => midTok (some m))

def descTok (d : Desc) : String :=
  let t := match d.typ with | .offer => "Do" | .answer => "Da"
  let secs := if d.secs.isEmpty then "e" else String.intercalate "/" (d.secs.map secTok)
  String.intercalate ";" [t, bundleTok d.bundle, Wire.boolTok d.sessFp, secs]

def tokSec (s : String) : Option Sec :=
  match s.splitOn "," with
  | [media, mid, p0, dirs, uf, pw, su, fp, co, pc] => do
    let mid ← tokMid mid
    let p0 ← Wire.tokBool p0
    let dirs ← tokDirs dirs
    let uf ← Wire.tokBool uf
    let pw ← Wire.tokBool pw
    let fp ← Wire.tokBool fp
    let co ← Wire.tokBool co
    let pc ← Wire.tokBool pc
    pure { media := media, mid := mid, port0 := p0, dirs := dirs, ufrag := uf, pwd := pw, setup := tokSetup su,
           fp := fp, codecOK := co, pcmu := pc }
  | _ => none

def tokBundle (s : String) : Option (Option (List Mid)) :=
  if s == "-" then some none
  else if s == "e" then some (some [])
  else do
    let l ← (s.splitOn "+").mapM tokMid
    pure (some (l.filterMap id))

/-- a description token printed by either side -/
def tokDesc (s : String) : Option Desc :=
  match s.splitOn ";" with
  | [t, b, fp, secs] => do
    let typ ← if t == "Do" then some SdpType.offer else if t == "Da" then some SdpType.answer else none
    let b ← tokBundle b
    let fp ← Wire.tokBool fp
    let secs ← if secs == "e" then some [] else (secs.splitOn "/").mapM tokSec
    pure { typ := typ, bundle := b, sessFp := fp, secs := secs }
  | _ => none

/-- a synthetic remote offer: every section has ICE credentials and a=setup:actpass, the fingerprint is
    at session level -/
def tokSynSec (s : String) : Option Sec :=
  match s.splitOn "," with
  | [media, mid, p0, dirs, co] => do
    let mid ← tokMid mid
    let p0 ← Wire.tokBool p0
    let dirs ← tokDirs dirs
    let co ← Wire.tokBool co
    pure { media := media, mid := mid, port0 := p0, dirs := dirs, ufrag := true, pwd := true, setup := some .actpass,
           fp := false, codecOK := co && (kindOf media).isSome }
  | _ => none

def tokSyn (s : String) : Option Desc :=
  match s.splitOn ";" with
  | [b, secs] => do
    let secs ← if secs == "e" then some [] else (secs.splitOn "/").mapM tokSynSec
    let b ← if b == "*" then some (some (secs.filterMap (·.mid))) else tokBundle b
    pure { typ := .offer, bundle := b, sessFp := true, secs := secs }
  | _ => none

/-! ### configurations and ops -/

def tokCfg (s : String) : Option Cfg :=
  match s.toList with
  | [sem, fp, adc, eng, _bp] => do
    let sem ← if sem == 'u' then some Sem.unified else if sem == 'f' then some Sem.fallback
              else if sem == 'p' then some Sem.planB else none
    let fp ← Wire.tokBool (String.singleton fp)
    let adc ← Wire.tokBool (String.singleton adc)
    let eng ← if eng == '1' then some (true, false, false) else if eng == '2' then some (false, true, false)
              else if eng == '3' then some (true, true, true) else none
    pure { sem := sem, mediaFp := fp, alwaysDC := adc, engAudio := eng.1, engVideo := eng.2.1, engPCMU := eng.2.2 }
  | _ => none

def tokPeer (s : String) : Option Peer :=
  if s == "a" then some .a else if s == "b" then some .b else none

def tokKind (s : String) : Option Kind :=
  if s == "a" then some .audio else if s == "v" then some .video else none

def tokDir2 (s : String) : Option Dir :=
  if s == "sr" then some .sendrecv else if s == "so" then some .sendonly
  else if s == "ro" then some .recvonly else if s == "in" then some .inactive else none

def tokOp (s : String) : Option Op :=
  match s.splitOn "." with
  | [p, "at", k] => do pure (.addTrack (← tokPeer p) (← tokKind k))
  | [p, "ak", k, d] => do pure (.addTransceiver (← tokPeer p) (← tokKind k) (← tokDir2 d))
  | [p, "dc"] => do pure (.createDC (← tokPeer p))
  | [p, "rt", i] => do pure (.removeTrack (← tokPeer p) (← i.toNat?))
  | [p, "st", i] => do pure (.stop (← tokPeer p) (← i.toNat?))
  | [p, "co"] => do pure (.createOffer (← tokPeer p))
  | [p, "ca"] => do pure (.createAnswer (← tokPeer p))
  | [p, "sl"] => do pure (.setLocal (← tokPeer p) false)
  | [p, "slo"] => do pure (.setLocal (← tokPeer p) true)
  | [p, "sr"] => do pure (.setRemote (← tokPeer p))
  | [p, "so", syn] => do pure (.setRemoteSyn (← tokPeer p) (← tokSyn syn))
  | _ => none

/-! ### results -/

def trTok (t : Tr) : String :=
  let k := match t.kind with | .audio => "a" | .video => "v"
  s!"{k}{dirChar t.dir}{Wire.boolTok t.hasSender}:{midTok t.mid}"

def trsTok (l : List Tr) : String :=
  if l.isEmpty then "T-" else "T" ++ String.intercalate "+" (l.map trTok)

def resTok : Res → String
  | .ok => "ok"
  | .skip => "skip"
  | .err e => "err:" ++ errTok e
  | .desc d => descTok d

structure History where
  cfgA : Cfg
  cfgB : Cfg
  ops : List Op

def parseHistory (args : List String) : Option History :=
  match args with
  | "h" :: ca :: cb :: ops => do
    let ca ← tokCfg ca
    let cb ← tokCfg cb
    let ops ← ops.mapM tokOp
    pure { cfgA := ca, cfgB := cb, ops := ops }
  | _ => none

def History.world (h : History) : World := { a := { cfg := h.cfgA }, b := { cfg := h.cfgB } }

/-- model output for one history line -/
def run (args : List String) : String :=
  match parseHistory args with
  | none => "bad-op"
  | some h =>
    String.intercalate " " ((runOps h.world h.ops).map fun r => resTok r.1 ++ " " ++ trsTok r.2)

/-! ### observed outputs -/

/-- what the judges read from an observed output: per op the result token, the description if the
    result is one, and the (kind, mid) list of the acting peer's transceivers -/
structure Obs where
  res : String
  desc : Option Desc
  trs : List (String × Option Mid)

def tokTrs (s : String) : Option (List (String × Option Mid)) :=
  if s == "T-" then some []
  else ((s.drop 1).toString.splitOn "+").mapM fun t =>
    match t.splitOn ":" with
    | [k, m] => do pure ((k.take 1).toString, ← tokMid m)
    | _ => none

def parseObs : List String → Option (List Obs)
  | [] => some []
  | r :: t :: rest => do
    let trs ← tokTrs t
    let d ← if r.startsWith "D" then (tokDesc r).map some else some none
    let tl ← parseObs rest
    pure ({ res := r, desc := d, trs := trs } :: tl)
  | _ => none

/-! ### Replaying a history from the judge's side

The judges never run the model.  They read the op line (which operation, on which peer, which synthetic
offer) and the observed output, and reconstruct per peer: the descriptions it created, the remote offer
it has applied, every (mid ↦ position, media) it has seen in an applied description, its transceivers'
(kind, mid) list. -/

abbrev Seen := List (Mid × Nat × String)

def Seen.add (seen : Seen) (d : Desc) : Seen :=
  (List.range d.secs.length).zip d.secs |>.foldl (fun acc p =>
    match p.2.mid with
    | some m => if acc.any (·.1 = m) then acc else acc ++ [(m, p.1, p.2.media.toLower)]
    | none => acc) seen

structure PeerView where
  created : Option Desc := none
  createdPrev : Option Desc := none
  /-- the remote offer this peer has applied last -/
  offer : Option Desc := none
  /-- the local offer this peer has applied last -/
  localOffer : Option Desc := none
  /-- signaling state as far as the results tell: 0 stable, 1 have-local-offer, 2 have-remote-offer -/
  sig : Nat := 0
  seen : Seen := []
  trs : List (String × Option Mid) := []
  /-- Mids a transceiver of this peer held although no applied description carried them (allocated by a
      CreateOffer whose offer was never applied) at the moment an applied remote offer used the same mid:
      the cause of the recorded finding `remote-reuses-unapplied-local-mid`. -/
  glare : List Mid := []
  deriving Inhabited

structure Ev where
  op : Op
  obs : Obs
  /-- the acting peer's view before the op -/
  before : PeerView
  /-- the op feeds the peer something outside the properties' quantifier (see `trace`) -/
  outside : Bool := false
  /-- CreateOffer in have-remote-offer (outside C09's quantifier only) -/
  misuse : Bool := false

/-- SetRemoteDescription applied the description (since 55c599d a rejected description changes nothing) -/
def remoteApplied (res : String) : Bool := res == "ok"

def keyList (d : Desc) : List (Option Mid × String) := d.secs.map fun s => (s.mid, s.media.toLower)

/-- A remote description a conforming remote could have sent to this peer: an answer mirrors the local
    offer it answers (mids and media types, in order); an offer keeps every section the peer has already
    seen at its position with its media type. -/
def conforming (v : PeerView) (d : Desc) : Bool :=
  match d.typ with
  | .answer =>
    match v.localOffer with
    | some o => keyList o == keyList d
    | none => true
  | .offer =>
    -- everything seen so far stays where it is (m-lines are never removed or reordered), new sections follow
    (v.seen.map fun e => (some e.1, e.2.2)).isPrefixOf (keyList d)

def applyRemote (v : PeerView) (d : Desc) : PeerView :=
  let newGlare := v.trs.filterMap fun t =>
    match t.2 with
    | some m => if !v.seen.any (·.1 = m) && d.typ = .offer && d.secs.any (·.mid = some m) then some m else none
    | none => none
  { v with seen := v.seen.add d, offer := if d.typ = .offer then some d else v.offer, glare := v.glare ++ newGlare,
           sig := if d.typ = .offer then 2 else 0 }

/-- Replays the history.  An event is `outside` the quantifier when a peer is handed a remote description
    no conforming remote would send at that point (a stale answer, an offer that drops, moves or retypes
    sections): from there on nothing is judged. -/
def trace (ops : List Op) (obs : List Obs) (va vb : PeerView) : List Ev :=
  match ops, obs with
  | op :: ops, o :: obs =>
    let p := op.peer
    let v := match p with | .a => va | .b => vb
    let other := match p with | .a => vb | .b => va
    let r : PeerView × Bool :=
      match op with
      | .createOffer _ | .createAnswer _ =>
        match o.desc with
        | some d => ({ v with created := some d, createdPrev := v.created }, false)
        | none => (v, false)
      | .setLocal _ old =>
        if o.res == "ok" then
          match (if old then v.createdPrev else v.created) with
          | some d => ({ v with seen := v.seen.add d, sig := if d.typ = .offer then 1 else 0,
                                localOffer := if d.typ = .offer then some d else v.localOffer }, false)
          | none => (v, false)
        else (v, false)
      | .setRemote _ =>
        if remoteApplied o.res then
          match other.created with
          | some d => (applyRemote v d, !conforming v d)
          | none => (v, false)
        else (v, false)
      | .setRemoteSyn _ d => if remoteApplied o.res then (applyRemote v d, !conforming v d) else (v, false)
      | _ => (v, false)
    let v2 := { r.1 with trs := o.trs }
    -- W3C createOffer rejects have-remote-offer with InvalidStateError; pion has no such test and generates
    -- the offer without looking at the pending remote offer's section order: no "renegotiation" in C09's sense
    let misuse := (match op with | .createOffer _ => v.sig == 2 | _ => false)
    { op := op, obs := o, before := v, outside := r.2, misuse := misuse } ::
      (match p with
       | .a => trace ops obs v2 vb
       | .b => trace ops obs va v2)
  | _, _ => []

/-- The quantifier of C06/C07/C09 ranges over remote offers whose mids are present and pairwise distinct;
    histories that feed a PeerConnection anything else (malformed stream) are only compared, not judged. -/
def History.inQuantifier (h : History) : Bool :=
  h.ops.all fun op => match op with
    | .setRemoteSyn _ d => d.secs.all (·.mid.isSome) && (d.secs.filterMap (·.mid)).Nodup
    | _ => true

/-- a violation: stable key and the mid it is about (if any) -/
abbrev Verdict := Option (String × Option Mid)

/-- Known causes replace the key of the clause they break (one key per cause, whatever it breaks). -/
def withCause (ev : Ev) : Verdict → Option String
  | none => none
  | some (k, m) =>
    if k == "mid-collision:int64-wrap" then some k
    else if (match m with | some m => ev.before.glare.contains m | none => false) then
      some "remote-reuses-unapplied-local-mid"
    else match ev.op with
      | .createOffer _ =>
        if ev.before.sig == 1 && (k == "section-moved" || k == "new-section-not-appended" || k == "mid-reused")
        then some "reoffer-before-answer" else some k
      | _ => some k

def judgeWith (args out : List String) (f : Ev → Option String) (cutMisuse : Bool := false) : String :=
  match parseHistory args, parseObs out with
  | some h, some obs =>
    if obs.length != h.ops.length then "bad-judge"
    else if !h.inQuantifier then "ok"
    else match ((trace h.ops obs {} {}).takeWhile (fun e => !e.outside && !(cutMisuse && e.misuse))).findSome? f with
      | some k => "violated " ++ k
      | none => "ok"
  | _, _ => "bad-judge"

def isWrappedNumber : Mid → Bool
  | .other s => s.startsWith "-" && (parseGoInt s).isSome
  | _ => false

/-! ### C06: the property on one observed description -/

def accepted (s : Sec) : Bool := !s.port0

/-- first violated clause of C06 on a description -/
def c06Key (d : Desc) : Verdict :=
  let mids := d.secs.filterMap (·.mid)
  if d.secs.any (·.mid.isNone) then
    some (if d.secs.any (fun s => s.mid.isNone && s.port0) then "section-without-mid:rejected" else "section-without-mid", none)
  else if !mids.Nodup then
    -- name the cause: a wrapped counter prints a negative number; a freshly appended application section
    -- (always the last one) collides with an earlier mid
    let dup := mids.filter fun m => mids.count m > 1
    if dup.any isWrappedNumber then some ("mid-collision:int64-wrap", dup.head?)
    else match d.secs.getLast? with
      | some l =>
        if l.media = mediaApplication && (match l.mid with | some m => dup.contains m | none => false)
        then some ("mid-collision:data-section", l.mid)
        else some ("duplicate-mid", dup.head?)
      | none => some ("duplicate-mid", dup.head?)
  else
    let acc := (d.secs.filter accepted).filterMap (·.mid)
    if !(d.bundle.getD []).isPerm acc then some ("bundle-group-not-accepted-mids", none)
    else if d.secs.any (fun s => accepted s && !(s.ufrag && s.pwd)) then some ("accepted-without-ice-credentials", none)
    else if d.secs.any (fun s => accepted s && s.dirs.length != 1) then some ("accepted-not-one-direction", none)
    else if d.secs.any (fun s => accepted s && s.setup.isNone) then some ("accepted-without-setup", none)
    else if d.secs.any (fun s => accepted s && !(s.fp || d.sessFp)) then some ("accepted-without-fingerprint", none)
    else none

def judgeC06 (args out : List String) : String :=
  judgeWith args out fun ev =>
    match ev.obs.desc with
    | some d => withCause ev (c06Key d)
    | none => none

/-! ### C07: an answer against the offer it answers -/

def sameMedia (a b : String) : Bool := a.toLower = b.toLower

/-- first violated clause of C07 -/
def c07Key (offer answer : Desc) : Verdict :=
  if answer.secs.length < offer.secs.length then
    -- name the cause of the missing sections
    let missing := offer.secs.filter fun o => !(answer.secs.any fun a => a.mid = o.mid && o.mid.isSome)
    if missing.any (fun o => o.media != mediaApplication && (kindOf o.media).isNone) then
      some ("answer-drops-section:unknown-media", none)
    else if missing.any (fun o => o.dirs.isEmpty) then some ("answer-drops-section:no-direction", none)
    else some ("answer-drops-section", none)
  else if answer.secs.length > offer.secs.length then some ("answer-adds-section", none)
  else
    let pairs := offer.secs.zip answer.secs
    match pairs.find? (fun p => !sameMedia p.1.media p.2.media) with
    | some p => some ("answer-media-type-differs", p.1.mid)
    | none =>
      if pairs.any (fun p => p.2.mid.isNone && p.2.port0) then some ("section-without-mid:rejected", none)
      else match pairs.find? (fun p => p.1.mid != p.2.mid) with
        | some p => some ("answer-mid-differs", p.1.mid)
        | none => none

def judgeC07 (args out : List String) : String :=
  judgeWith args out fun ev =>
    match ev.op, ev.obs.desc, ev.before.offer with
    | .createAnswer _, some d, some off => withCause ev (c07Key off d)
    | _, _, _ => none

/-! ### C09: the whole sequence of descriptions and transceiver mids -/

/-- clauses 2 and 3 on a newly created description against what the creating peer has applied so far -/
def c09DescKey (seen : Seen) (d : Desc) : Verdict :=
  let idx := (List.range d.secs.length).zip d.secs
  let mids := d.secs.filterMap (·.mid)
  -- a mid twice in one description: the second use is a re-use
  if !mids.Nodup then
    let dup := mids.filter fun m => mids.count m > 1
    if dup.any isWrappedNumber then some ("mid-collision:int64-wrap", dup.head?)
    else match d.secs.getLast? with
      | some l =>
        if l.media = mediaApplication && (match l.mid with | some m => dup.contains m | none => false)
        then some ("mid-collision:data-section", l.mid)
        else some ("mid-reused", dup.head?)
      | none => some ("mid-reused", dup.head?)
  else
    idx.findSome? fun p =>
      match p.2.mid with
      | none => none
      | some m =>
        match seen.find? (·.1 = m) with
        | some (_, pos, media) =>
          if pos != p.1 then some ("section-moved", some m)
          else if media != p.2.media.toLower then some ("mid-reused", some m)
          else none
        | none =>
          -- a new section: every later section must be new as well (appended after the existing ones)
          if (idx.drop (p.1 + 1)).any (fun q => match q.2.mid with | some m' => seen.any (·.1 = m') | none => false)
          then some ("new-section-not-appended", some m) else none

def judgeC09 (args out : List String) : String :=
  judgeWith args out (cutMisuse := true) fun ev =>
    -- clause 1: the transceiver list only grows, kinds are fixed, a set mid never changes
    let prev := ev.before.trs
    let immut := ev.obs.trs.length ≥ prev.length &&
      (prev.zip ev.obs.trs).all fun q => q.1.1 == q.2.1 && (q.1.2.isNone || q.1.2 == q.2.2)
    if !immut then some "transceiver-mid-changed"
    else match ev.obs.desc with
      | some d => withCause ev (c09DescKey ev.before.seen d)
      | none => none

end WebrtcVerif.Drv.Jsep
