import WebrtcVerif.Base.Wire
import WebrtcVerif.Model.Ops
/-! Driver handler for C05 (operations queue under a controlled schedule).

  op:   run neg=<0|1|2> <thread spec>… sched <name>…
        thread specs (harness threads T0, T1, … in this order):
          E:<id>[.<child>…],<id>…   enqueuer: Enqueue each op in turn; an op's body enqueues its children
          D                         Done()
          C:<id>,…                  GracefulClose(), then Enqueue each listed op
          F                         set updateNegotiationNeededFlagOnEmptyChain (a raw request)
          N                         an API goroutine calling what PeerConnection.onNegotiationNeeded does:
                                    IsEmpty(); (yield neg.tested); queue was non-empty → set the flag, else
                                    Enqueue the next check op
        neg=0: the worker's onNegotiationNeeded callback does nothing
        neg=1: it enqueues the next check op
        neg=2: it does what PeerConnection.onNegotiationNeeded does (as thread kind N)
        check ops have the ids 901, 902, … in order of creation
        sched: thread names (T<i> / W<k>) to release one segment at a time; afterwards every thread is
        drained in a fixed order (Sched.Drain).
  out:  <name:result>… / <drain name:result>… | <log>… | neg <n> flag <0|1> empty <0|1> | <name:state>…
        log: o<id> op body started, d<k> Done returned, c<k> GracefulClose returned,
             ne / nb the worker's callback (neg=2) found the queue empty / busy, ae / ab an API goroutine did,
             f@<i> raw flag store (these five are requests), ns@<i> / as@<i> the worker's callback / an API
             goroutine stored the flag; <i> = index of the step (event) in which the store happened

  The simulator below maps every released segment to core `Ops.step` actions — it never changes the core
  state in any other way, so every simulated run is a `Reachable` run of the proved transition system.
-/
namespace WebrtcVerif.Drv.C05
open WebrtcVerif WebrtcVerif.Ops

inductive TPc
  | enq (todo : List Nat)
  | done0 (k : Nat) | doneWait (k : Nat) | doneWoke (k : Nat)
  | doneDrainWait (k : Nat) | doneDrainWoke (k : Nat)
  | close0 (k : Nat) (post : List Nat) | closeWait (k : Nat) (post : List Nat)
  | closeWoke (k : Nat) (post : List Nat)
  | flag0
  | neg0 (n : Nat) | negTested (n : Nat)
  | fin
  deriving Repr, DecidableEq

structure Sim where
  core : St
  tpcs : List TPc
  tblocked : List Bool
  wchild : List (List Nat) := []      -- per worker: children the running op still has to enqueue
  log : List String := []
  children : List (Nat × List Nat) := []
  mode : NegMode := .none
  stepNo : Nat := 0                   -- number of completed `Step`s (index of the current one)
  deriving Repr

def childrenOf (sim : Sim) (id : Nat) : List Nat :=
  match sim.children.find? (·.1 == id) with
  | some (_, ch) => ch
  | none => []

/-- apply a core action; a disabled action leaves the state unchanged (the simulator only issues
    enabled ones, except `enqueue` of an id that was already accepted, which programs never do) -/
def act (sim : Sim) (a : Action) : Sim :=
  match step sim.mode sim.core a with
  | some c => { sim with core := c }
  | none => sim

def enabled (sim : Sim) (a : Action) : Bool := (step sim.mode sim.core a).isSome

def addLog (sim : Sim) (e : String) : Sim := { sim with log := sim.log ++ [e] }

def setT (sim : Sim) (i : Nat) (pc : TPc) (bl : Bool := false) : Sim :=
  { sim with tpcs := sim.tpcs.set i pc, tblocked := sim.tblocked.set i bl }

def wchildOf (sim : Sim) (w : Nat) : List Nat := (sim.wchild[w]?).getD []
def setWchild (sim : Sim) (w : Nat) (l : List Nat) : Sim :=
  let padded := sim.wchild ++ List.replicate (w + 1 - sim.wchild.length) []
  { sim with wchild := padded.set w l }

/-- after GracefulClose returned in closer `k`: log, then the post-close enqueues -/
def closeReturned (sim : Sim) (i k : Nat) (post : List Nat) : String × Sim :=
  let sim := { sim with log := sim.log ++ [s!"c{k}"] }
  if post.isEmpty then ("fin", setT sim i .fin) else ("enq", setT sim i (.enq post))

/-- one segment of harness thread `i` (not blocked) -/
def segT (sim : Sim) (i : Nat) : TPc → String × Sim
  | .fin => ("skip", sim)
  | .enq [] => ("fin", setT sim i .fin)
  | .enq (id :: rest) =>
      let sim := act sim (.enqueue (.op id))
      if rest.isEmpty then ("fin", setT sim i .fin) else ("enq", setT sim i (.enq rest))
  | .done0 k =>
      let sim := act sim (.doneBegin k)
      match sim.core.doners[k]? with
      | some .waiting => ("ops.done.wait", setT sim i (.doneWait k))
      | some (.drainWaiting _) => ("ops.idle.wait", setT sim i (.doneDrainWait k))
      | _ => ("fin", setT { sim with log := sim.log ++ [s!"d{k}"] } i .fin)
  | .doneWait k =>
      if enabled sim (.doneWake k) then ("ops.done.woke", setT (act sim (.doneWake k)) i (.doneWoke k))
      else ("blocked", setT sim i (.doneWait k) true)
  | .doneWoke k => ("fin", setT { sim with log := sim.log ++ [s!"d{k}"] } i .fin)
  | .doneDrainWait k =>
      if enabled sim (.doneDrainWake k) then ("ops.idle.woke", setT (act sim (.doneDrainWake k)) i (.doneDrainWoke k))
      else ("blocked", setT sim i (.doneDrainWait k) true)
  | .doneDrainWoke k =>
      let sim := act sim (.doneRecheck k)
      match sim.core.doners[k]? with
      | some (.drainWaiting _) => ("ops.idle.wait", setT sim i (.doneDrainWait k))
      | _ => ("fin", setT { sim with log := sim.log ++ [s!"d{k}"] } i .fin)
  | .close0 k post =>
      let sim := act sim (.gcBegin k)
      match sim.core.closers[k]? with
      | some (.waiting _) => ("ops.idle.wait", setT sim i (.closeWait k post))
      | _ => closeReturned sim i k post
  | .closeWait k post =>
      if enabled sim (.gcWake k) then ("ops.idle.woke", setT (act sim (.gcWake k)) i (.closeWoke k post))
      else ("blocked", setT sim i (.closeWait k post) true)
  | .closeWoke k post =>
      let sim := act sim (.gcRecheck k)
      match sim.core.closers[k]? with
      | some (.waiting _) => ("ops.idle.wait", setT sim i (.closeWait k post))
      | _ => closeReturned sim i k post
  | .flag0 => ("fin", setT (addLog (act sim .setFlag) s!"f@{sim.stepNo}") i .fin)
  | .neg0 n =>
      let sim := act sim (.negTest n)
      match sim.core.callers[n]? with
      | some (.tested e) => ("neg.tested", setT (addLog sim (if e then "ae" else "ab")) i (.negTested n))
      | _ => ("fin", setT sim i .fin)
  | .negTested n =>
      let stored := sim.core.callers[n]? == some (NPc.tested false)
      let sim := act sim (.negAct n)
      ("fin", setT (if stored then addLog sim s!"as@{sim.stepNo}" else sim) i .fin)

/-- `Step` on harness thread `i` -/
def stepT (sim : Sim) (i : Nat) : String × Sim :=
  match sim.tpcs[i]? with
  | none => ("skip", sim)
  | some pc =>
    if (sim.tblocked[i]?).getD false then
      -- blocked earlier: if its wait is over it has parked at the wake label; run the next segment
      match pc with
      | .doneWait k =>
          if enabled sim (.doneWake k) then segT (setT (act sim (.doneWake k)) i (.doneWoke k)) i (.doneWoke k)
          else ("skip", sim)
      | .closeWait k post =>
          if enabled sim (.gcWake k) then segT (setT (act sim (.gcWake k)) i (.closeWoke k post)) i (.closeWoke k post)
          else ("skip", sim)
      | .doneDrainWait k =>
          if enabled sim (.doneDrainWake k) then
            segT (setT (act sim (.doneDrainWake k)) i (.doneDrainWoke k)) i (.doneDrainWoke k)
          else ("skip", sim)
      | _ => ("skip", sim)
    else segT sim i pc

/-- worker: `fn()` returned → `pop` → parks at ops.popped -/
def popW (sim : Sim) (w : Nat) : String × Sim := ("ops.popped", act sim (.pop w))

/-- `Step` on worker `w` -/
def stepW (sim : Sim) (w : Nat) : String × Sim :=
  match sim.core.workers[w]? with
  | none => ("skip", sim)
  | some .fin => ("skip", sim)
  | some .start => popW sim w
  | some (.popped (some it)) =>
      let sim := act sim (.exec w)
      match it with
      | .waiter _ => popW sim w
      | .check k => popW (addLog sim s!"o{901 + k}") w
      | .op id =>
        let sim := { sim with log := sim.log ++ [s!"o{id}"] }
        match childrenOf sim id with
        | [] => popW sim w
        | ch => ("op.child", setWchild sim w ch)
  | some (.running _) =>
      match wchildOf sim w with
      | [] => popW sim w
      | c :: cs =>
        let sim := act sim (.enqueue (.op c))
        if cs.isEmpty then popW (setWchild sim w []) w else ("op.child", setWchild sim w cs)
  | some (.popped none) =>
      -- Load; if set: Store(false), callback (modes 0/1: returns; mode 2: up to its yield after IsEmpty())
      let sim := act sim (.afterLoop w)
      match sim.core.workers[w]? with
      | some .loaded =>
          let sim := act (act sim (.clearFlag w)) (.cbBegin w)
          match sim.core.workers[w]? with
          | some (.cb e) => ("neg.tested", addLog sim (if e then "ne" else "nb"))
          | _ => ("ops.defer", sim)
      | _ => ("ops.defer", sim)
  | some (.cb e) =>
      let sim := act sim (.cbAct w)
      ("ops.defer", if e then sim else addLog sim s!"ns@{sim.stepNo}")
  -- never left in these states between two segments (no yield point there)
  | some .loaded => ("skip", sim)
  | some .cleared => ("skip", sim)
  | some .cbDone => ("skip", sim)
  | some .defer_ => ("fin", act sim (.deferred w))

def parseName (n : String) : Option (Bool × Nat) :=
  match n.toList with
  | 'T' :: r => (String.ofList r).toNat?.map (fun k => (true, k))
  | 'W' :: r => (String.ofList r).toNat?.map (fun k => (false, k))
  | _ => none

def stepName (sim : Sim) (n : String) : String × Sim :=
  let (r, sim') := match parseName n with
    | some (true, i) => stepT sim i
    | some (false, w) => stepW sim w
    | none => ("skip", sim)
  (r, { sim' with stepNo := sim'.stepNo + 1 })

def allNames (sim : Sim) : List String :=
  (List.range sim.tpcs.length).map (fun i => s!"T{i}") ++ (List.range sim.core.workers.length).map (fun k => s!"W{k}")

def isFinished (sim : Sim) (n : String) : Bool :=
  match parseName n with
  | some (true, i) => sim.tpcs[i]? == some TPc.fin
  | some (false, w) => sim.core.workers[w]? == some WPc.fin
  | none => true

def isBlocked (sim : Sim) (n : String) : Bool :=
  match parseName n with
  | some (true, i) => (sim.tblocked[i]?).getD false
  | _ => false

/-- one pass of `Sched.Drain` over a snapshot of names -/
def drainPass (sim : Sim) (names : List String) (onlyBlocked : Bool) : Sim × List String × Bool :=
  names.foldl (fun (acc : Sim × List String × Bool) n =>
    let (sim, ev, prog) := acc
    if isFinished sim n then acc
    else if onlyBlocked then
      if isBlocked sim n then
        let (r, sim') := stepName sim n
        (sim', ev ++ [s!"{n}:{r}"], prog || r != "skip")
      else acc
    else if isBlocked sim n then acc
    else
      let (r, sim') := stepName sim n
      (sim', ev ++ [s!"{n}:{r}"], true)) (sim, [], false)

def drain : Nat → Sim → List String → Sim × List String
  | 0, sim, ev => (sim, ev)
  | fuel + 1, sim, ev =>
    if ev.length ≥ 400 then (sim, ev) else
    let (sim1, ev1, prog1) := drainPass sim (allNames sim) false
    if prog1 then drain fuel sim1 (ev ++ ev1)
    else
      let (sim2, ev2, prog2) := drainPass sim1 (allNames sim1) true
      if prog2 then drain fuel sim2 (ev ++ ev1 ++ ev2) else (sim2, ev ++ ev1 ++ ev2)

/-! ### parsing -/

def parseOpSpec (s : String) : Option (Nat × List Nat) :=
  match (s.splitOn ".").mapM String.toNat? with
  | some (id :: ch) => some (id, ch)
  | _ => none

def commaList (s : String) : List String := (s.splitOn ",").filter (· ≠ "")

structure Prog where
  mode : NegMode
  specs : List String
  sched : List String

def parseMode : String → Option NegMode
  | "neg=0" => some .none
  | "neg=1" => some .enqueue
  | "neg=2" => some .rearm
  | _ => none

def parseProg (args : List String) : Option Prog :=
  match args with
  | neg :: rest =>
    match parseMode neg with
    | none => none
    | some mode =>
      let specs := rest.takeWhile (· ≠ "sched")
      let sched := (rest.dropWhile (· ≠ "sched")).drop 1
      some { mode, specs, sched }
  | _ => none

def initSim (p : Prog) : Option Sim := do
  let mut tpcs : List TPc := []
  let mut children : List (Nat × List Nat) := []
  let mut nd := 0
  let mut nc := 0
  let mut nn := 0
  for sp in p.specs do
    match sp.toList with
    | 'E' :: ':' :: r =>
        let ops ← (commaList (String.ofList r)).mapM parseOpSpec
        children := children ++ ops
        tpcs := tpcs ++ [.enq (ops.map (·.1))]
    | ['D'] => tpcs := tpcs ++ [.done0 nd]; nd := nd + 1
    | 'C' :: ':' :: r =>
        let post ← (commaList (String.ofList r)).mapM String.toNat?
        tpcs := tpcs ++ [.close0 nc post]; nc := nc + 1
    | ['F'] => tpcs := tpcs ++ [.flag0]
    | ['N'] => tpcs := tpcs ++ [.neg0 nn]; nn := nn + 1
    | _ => none
  pure { core := Ops.init nc nd nn, tpcs, tblocked := tpcs.map (fun _ => false), children, mode := p.mode }

def stateOf (sim : Sim) (n : String) : String :=
  if isFinished sim n then s!"{n}:fin" else if isBlocked sim n then s!"{n}:blocked" else s!"{n}:parked"

def run (args : List String) : String :=
  match args with
  | "run" :: rest =>
    match parseProg rest with
    | none => "bad-op"
    | some p =>
      match initSim p with
      | none => "bad-op"
      | some sim0 =>
        let (sim1, ev1) := p.sched.foldl (fun (acc : Sim × List String) n =>
          let (r, s') := stepName acc.1 n
          (s', acc.2 ++ [s!"{n}:{r}"])) (sim0, [])
        let (sim2, ev2) := drain 200 sim1 []
        let b01 (b : Bool) : String := if b then "1" else "0"
        String.intercalate " " (ev1 ++ ["/"] ++ ev2 ++ ["|"] ++ sim2.log ++ ["|", "neg", toString sim2.core.negCalls,
            "flag", b01 sim2.core.flag, "empty", b01 sim2.core.queue.isEmpty, "|"]
          ++ (allNames sim2).map (stateOf sim2))
  | _ => "bad-op"

/-! ### judge — the property on an observed run (uses the program and the observed events/log only) -/

def splitBar (l : List String) : List (List String) :=
  l.foldr (fun t acc => if t == "|" then [] :: acc else match acc with | h :: tl => (t :: h) :: tl | [] => [[t]]) [[]]

/-- position of the first completed event of thread `n` (in schedule + drain order) whose result is not skip/blocked -/
def eventsOf (evs : List String) : List (String × String) :=
  (evs.filter (· ≠ "/")).filterMap (fun e => match e.splitOn ":" with | [n, r] => some (n, r) | _ => none)

def ascending : List Nat → Bool
  | a :: b :: rest => a < b && ascending (b :: rest)
  | _ => true

def idxOf (l : List String) (x : String) : Option Nat := l.findIdx? (· == x)

/-- index of the last event in which a worker passed the flag test at the end of its chain: a worker event
    `neg.tested`, or `ops.defer` not preceded (for that worker) by `neg.tested` -/
def lastChainEnd (ev : List (String × String)) : Option Nat :=
  let rec go (l : List (String × String)) (i : Nat) (prev : List (String × String)) (acc : Option Nat) : Option Nat :=
    match l with
    | [] => acc
    | (n, r) :: rest =>
      if n.startsWith "W" then
        let p := (prev.find? (·.1 == n)).map (·.2)
        let isEnd := r == "neg.tested" || (r == "ops.defer" && p != some "neg.tested")
        let prev' := (n, r) :: prev.filter (·.1 != n)
        go rest (i + 1) prev' (if isEnd then some i else acc)
      else go rest (i + 1) prev acc
  go ev 0 [] none

def judge (args out : List String) : String :=
  match args with
  | "run" :: rest =>
    match parseProg rest, splitBar out with
    | some p, [evs, log, negGrp, states] =>
      let ev := eventsOf evs
      -- thread kinds
      let kinds := p.specs
      let tname (i : Nat) := s!"T{i}"
      -- completed (effectful) segments per thread, in global order: (thread, ordinal within thread, global pos)
      let done := ev.filter (fun e => e.2 != "skip")
      let pos (n : String) (k : Nat) : Option Nat :=   -- global position of the k-th completed segment of n
        let idxs := (List.range done.length).filter (fun j => (done[j]?.map (·.1)) == some n)
        idxs[k]?
      let closerIdx := (List.range kinds.length).filter (fun i => (kinds[i]?.getD "").startsWith "C:")
      let closeBegin : Option Nat := (closerIdx.filterMap (fun i => pos (tname i) 0)).foldl
        (fun (m : Option Nat) x => match m with | none => some x | some y => some (min x y)) none
      let hasCloser := !closerIdx.isEmpty
      let ops := log.filter (·.startsWith "o")
      -- J1: nothing runs twice
      if ops.eraseDups.length != ops.length then "violated ran-twice" else
      -- J-hang: a thread still blocked at the end (Done / GracefulClose never returned)
      if states.any (fun s => s.endsWith ":blocked") then "violated waiter-never-returns" else
      -- top-level enqueues with their global positions and whether they are surely before / after the close
      let tops : List (String × Nat × Nat) := (List.range kinds.length).flatMap (fun i =>
        let k := kinds[i]?.getD ""
        if k.startsWith "E:" then
          let ids := (commaList (k.drop 2).toString).filterMap (fun s => (parseOpSpec s).map (·.1))
          (List.range ids.length).filterMap (fun j => (pos (tname i) j).map (fun g => (s!"o{ids[j]?.getD 0}", g, i)))
        else [])
      let surelyAccepted := tops.filter (fun t => match closeBegin with | none => !hasCloser | some cb => t.2.1 < cb)
      -- J2: everything surely accepted ran
      match surelyAccepted.find? (fun t => !(ops.contains t.1)) with
      | some t => s!"violated accepted-op-never-ran {t.1}"
      | none =>
      -- J3: queue order among surely accepted top-level ops
      let ordered := surelyAccepted.all (fun a => surelyAccepted.all (fun b =>
        if a.2.1 < b.2.1 then (match idxOf log a.1, idxOf log b.1 with | some x, some y => x < y | _, _ => true) else true))
      if !ordered then "violated out-of-order" else
      -- children run after their parent, in order
      let childOk := p.specs.all (fun k =>
        if k.startsWith "E:" then
          (commaList (k.drop 2).toString).all (fun s => match parseOpSpec s with
            | some (id, ch) =>
              let seq := (s!"o{id}" :: ch.map (fun c => s!"o{c}")).filterMap (idxOf log)
              seq.length == (if ops.contains s!"o{id}" then seq.length else 0) && ascending seq
            | none => true)
        else true)
      if !childOk then "violated child-before-parent" else
      -- J5: ops enqueued after a GracefulClose returned never run; nothing runs after the closing call returned
      let postBad := (List.range kinds.length).any (fun i =>
        let k := kinds[i]?.getD ""
        k.startsWith "C:" && (commaList (k.drop 2).toString).any (fun s => ops.contains s!"o{s}"))
      if postBad then "violated ran-after-close" else
      let firstC := log.findIdx? (·.startsWith "c")
      -- the closer that actually closed returns last among closers only if it waited; conservative check:
      -- after EVERY closer has returned nothing may run
      let lastC := (List.range log.length).filter (fun j => (log[j]?.getD "").startsWith "c") |>.getLast?
      let nClosersReturned := (log.filter (·.startsWith "c")).length
      let afterAll := match lastC with
        | some j => nClosersReturned == closerIdx.length && (log.drop (j + 1)).any (·.startsWith "o")
        | none => false
      if afterAll then "violated ran-after-close" else
      -- J4: Done returns only after everything enqueued (completed) before its begin has run
      let donerIdx := (List.range kinds.length).filter (fun i => kinds[i]? == some "D")
      let doneBad := (List.range donerIdx.length).any (fun k =>
        match donerIdx[k]? with
        | none => false
        | some i =>
          match pos (tname i) 0, idxOf log s!"d{k}" with
          | some g, some dpos =>
            surelyAccepted.any (fun t => t.2.1 < g && (match idxOf log t.1 with | some x => x > dpos | none => true))
          | _, _ => false)
      if doneBad then "violated done-returned-early" else
      let _ := firstC
      -- J6: negotiation-needed requests (only judged on a run that came to rest with the queue open:
      -- every thread finished, no GracefulClose in the program)
      let atRest := !hasCloser && states.all (fun s => s.endsWith ":fin")
      match negGrp with
      | ["neg", negCalls, "flag", flag, "empty", empty] =>
        if atRest && empty != "1" then "violated accepted-op-never-ran queue-not-empty" else
        let isCheck (t : String) : Bool := t.startsWith "o" && (((t.drop 1).toString.toNat?).getD 0) ≥ 900
        let isReq (t : String) : Bool := t.startsWith "f@" || t == "nb" || t == "ne" || t == "ab" || t == "ae"
        -- every check closure that was queued ran (exactly once: J1 covers "twice")
        let queued := (log.filter (fun t => t == "ne" || t == "ae")).length + (if p.mode == .enqueue then negCalls.toNat?.getD 0 else 0)
        if atRest && (log.filter isCheck).length != queued then "violated accepted-op-never-ran check" else
        -- a request is never lost: at rest with the flag clear, the last request is followed by a check run
        let negEvents := log.filter (fun t => isCheck t || isReq t)
        let owed := match negEvents.getLast? with | some t => isReq t | none => false
        if atRest && p.mode != .none && flag == "0" && owed then "violated negotiation-request-lost" else
        -- a flag still set at rest was stored after every end of chain (nobody saw it and left it standing)
        let allFin := states.all (fun s => s.endsWith ":fin")
        let storeIdx (t : String) : Option Nat :=
          if t.startsWith "f@" || t.startsWith "as@" || t.startsWith "ns@" then
            match t.splitOn "@" with | [_, k] => k.toNat? | _ => none
          else none
        let lastStore := (log.filterMap storeIdx).foldl (fun (m : Option Nat) x => some (match m with | none => x | some y => max x y)) none
        let lastLoad := lastChainEnd ev
        let ignored := match lastLoad, lastStore with
          | some l, some s => l > s
          | some _, none => true
          | none, _ => false
        if allFin && flag == "1" && ignored then "violated negotiation-flag-ignored" else
        "ok"
      | _ => "bad-judge"
    | _, _ => "bad-judge"
  | _ => "bad-judge"

end WebrtcVerif.Drv.C05
