import WebrtcVerif.Base.Wire
import WebrtcVerif.Model.Rtpdump
/-! Driver handler for C36 (rtpdump).
  ops:
    rt <startNanos> <srcHex|-> <port> <n> {<offNanos> <rtcp> <payloadSpec>}*
    raw <fileHex>
  payloadSpec: `x<hex>` literal bytes | `g<len>:<seed>` generated (byte i = (seed + 7·i + i/256) mod 256)
  output:
    rt  → W <ok|eH|e<k>> <filelen> <filehash> R …
    raw → R …
    R … = R <hdr: ok <startNanos> <src> <port> | malformed> <n> {<offNanos> <rtcp> <len> <hash>}* <end: eof|malformed>
-/
namespace WebrtcVerif.Drv.C36
open WebrtcVerif WebrtcVerif.Bytes WebrtcVerif.Rtpdump

def genPayload (len seed : Nat) : Bs := (List.range len).map (fun i => b (seed + 7 * i + i / 256))

def payloadOfSpec (s : String) : Option Bs :=
  match s.toList with
  | 'x' :: rest => Wire.bytesOfHex (String.ofList rest)
  | 'g' :: rest =>
    match (String.ofList rest).splitOn ":" with
    | [l, sd] => do let l ← l.toNat?; let sd ← sd.toNat?; pure (genPayload l sd)
    | _ => none
  | _ => none

def parsePackets : Nat → List String → Option (List Packet)
  | 0, [] => some []
  | n + 1, off :: rtcp :: spec :: rest => do
      let off ← off.toInt?
      let rtcp ← Wire.tokBool rtcp
      let pl ← payloadOfSpec spec
      let tl ← parsePackets n rest
      pure ({ offsetNanos := off, isRTCP := rtcp, payload := pl } :: tl)
  | _, _ => none

def parseRt (args : List String) : Option (Header × List Packet) :=
  match args with
  | start :: src :: port :: n :: rest => do
      let start ← start.toInt?
      let srcb ← Wire.bytesOfHex src
      let port ← port.toNat?
      let n ← n.toNat?
      let ps ← parsePackets n rest
      let source := match srcb with
        | [a, b', c, d] => some (a, b', c, d)
        | [0,0,0,0,0,0,0,0,0,0,255,255,a,b',c,d] => some (a, b', c, d)   -- IPv4-mapped: To4() succeeds
        | _ => none
      pure ({ startNanos := start, source, port }, ps)
  | _ => none

def showHash (bs : Bs) : String := s!"{bs.length} {(fnv64 bs).toNat}"

def showErr : Err → String
  | .malformed => "malformed" | .unrepresentable => "unrepresentable" | .eof => "eof"

def showRead (file : Bs) : String :=
  match newReader file with
  | .error _ => "R malformed"
  | .ok (h, rest) =>
    let (ps, e) := readAll rest
    let src := match h.source with | some (a, b', c, d) => Wire.hexOfBytes [a, b', c, d] | none => "-"
    let pk := ps.map (fun p => s!"{p.offsetNanos} {Wire.boolTok p.isRTCP} {showHash p.payload}")
    String.intercalate " " (["R", "ok", toString h.startNanos, src, toString h.port, toString ps.length] ++ pk ++ [showErr e])

def run (args : List String) : String :=
  match args with
  | "rt" :: rest =>
    match parseRt rest with
    | none => "bad-op"
    | some (h, ps) =>
      match newWriter h with
      | .error _ => "W eH 0 " ++ toString (fnv64 []).toNat ++ " R malformed"
      | .ok hd =>
        let (body, st) := writePackets ps 0 []
        let file := hd ++ body
        let w := match st with | none => "ok" | some k => s!"e{k}"
        s!"W {w} {showHash file} {showRead file}"
  | ["raw", hex] =>
    match Wire.bytesOfHex hex with
    | some f => showRead f
    | none => "bad-op"
  | _ => "bad-op"

/-! ### judge: the property evaluated on observed outputs -/

def pktRepresentable (p : Packet) : Bool :=
  1 ≤ p.payload.length && p.payload.length ≤ 65527 && 0 ≤ p.offsetNanos && p.offsetNanos % 1000000 == 0
    && p.offsetNanos / 1000000 ≤ 4294967295
def pktUnrepresentable (p : Packet) : Bool :=
  65527 < p.payload.length || p.offsetNanos < 0 || 4294967295 < p.offsetNanos / 1000000
def hdrRepresentable (h : Header) : Bool :=
  h.source.isSome && h.port < 65536 && 0 ≤ h.startNanos && h.startNanos % 1000 == 0
    && h.startNanos / 1000000000 ≤ 4294967295
def hdrUnrepresentable (h : Header) : Bool :=
  h.source.isNone || h.startNanos < 0 || 4294967295 < h.startNanos / 1000000000

/-- expected read-back tokens for a header and packets that must round-trip exactly -/
def expectRead (h : Header) (ps : List Packet) : List String :=
  let src := match h.source with | some (a, b', c, d) => Wire.hexOfBytes [a, b', c, d] | none => "-"
  ["R", "ok", toString h.startNanos, src, toString h.port, toString ps.length]
    ++ (ps.map (fun p => [toString p.offsetNanos, Wire.boolTok p.isRTCP, toString p.payload.length,
                            toString (fnv64 p.payload).toNat])).flatten
    ++ ["eof"]

/-- spec-level walk over a record stream: number of well-formed records before the first record whose
    length field is below 8 (none if there is no such record reachable through well-formed records) -/
def firstShort : Nat → Bs → Nat → Option Nat
  | 0, _, _ => none
  | fuel + 1, s, k =>
    match s with
    | l0 :: l1 :: _ :: _ :: _ :: _ :: _ :: _ :: rest =>
      let L := rd16be l0 l1
      if L < 8 then some k
      else if L - 8 ≤ rest.length then firstShort fuel (rest.drop (L - 8)) (k + 1) else none
    | _ => none

def judge (args out : List String) : String :=
  match args with
  | "rt" :: rest =>
    match parseRt rest with
    | none => "bad-judge"
    | some (h, ps) =>
      match out with
      | "W" :: w :: _flen :: _fhash :: rd =>
        if hdrUnrepresentable h then
          (if w == "eH" then "ok" else "violated unrepresentable-header-written")
        else
          -- the first packet the format cannot represent must be refused
          let firstBad := ps.findIdx? pktUnrepresentable
          let okPrefix := match firstBad with | some k => ps.take k | none => ps
          let wantW := match firstBad with | some k => s!"e{k}" | none => "ok"
          if w != wantW then
            (match firstBad with
             | some _ => "violated unrepresentable-packet-written"
             | none => "violated representable-packet-refused")
          else if hdrRepresentable h && okPrefix.all pktRepresentable then
            (if rd == expectRead h okPrefix then "ok" else "violated roundtrip-mismatch")
          else "ok"   -- reduced-precision values (sub-µs start, sub-ms offset, empty payload): not constrained
      | _ => "bad-judge"
  | ["raw", hex] =>
    match Wire.bytesOfHex hex with
    | none => "bad-judge"
    | some f =>
      match newReader f, out with
      | .ok (_, recs), "R" :: "ok" :: _ :: _ :: _ :: n :: tl =>
        match firstShort (recs.length + 1) recs 0, n.toNat? with
        | some k, some n =>
          if n == k && tl.getLast? == some "malformed" then "ok" else "violated short-length-accepted"
        | _, _ => "ok"
      | _, _ => "ok"
  | _ => "bad-judge"

end WebrtcVerif.Drv.C36
