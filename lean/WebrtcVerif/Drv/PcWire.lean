import WebrtcVerif.Base.Wire
import WebrtcVerif.Model.PcSections
/-! Line protocol shared by the driver handlers of C10 and C16 (scenarios on a real PeerConnection).

  op:   pc <multi> <nA> codec* <nV> codec* <nX> ext* <nSteps> step*
  codec := <pt> <mimeHex> <clock> <channels> <fmtpHex> <nFb> { <typeHex> <paramHex> }*
           (local codecs and preferences carry the full mime type, remote codecs the rtpmap encoding name —
            the media name and "/" are prepended, as codecsFromMediaDescription does)
  ext   := <uriHex> <a|v> <dirmask>            RegisterHeaderExtension(uri, kind, dirs); 1 = send, 2 = recv, 0 = none given
  step  := add <a|v> <sr|so|ro>                AddTransceiverFromKind
         | pref <idx> <n> codec*               GetTransceivers()[idx].SetCodecPreferences
         | offer                               CreateOffer
         | answer                              CreateAnswer
         | sla                                 SetLocalDescription(the answer created last), skipped when there is none
         | sro <nB> <midHex>* <nS> rsec*       SetRemoteDescription(offer); the first <nB> mids form a=group:BUNDLE
  rsec  := <mediaHex> <midHex> <sr|so|ro|in|-> <bad> <nC> codec* <nE> { <id> <uriHex> }*
           (bad = 1: a format without rtpmap is appended, codecsFromMediaDescription fails)

  out:  one token group per step:
          a1 | a0          add ok / failed          p1 | p0      preferences ok / rejected
          r-ok | r-err <apt|dup|sdp> end | r-nomid end           (the scenario ends after a failed SetRemoteDescription)
          r-state                                    SetRemoteDescription(offer) refused in have-remote-offer (no effect)
          l-ok | l-skip | l-err end                  SetLocalDescription(answer) (l-err: a sender's track found no codec)
          O-err | A-err                              CreateOffer / CreateAnswer failed
          O <n> sec* | A <n> sec*
        sec := S <midHex> <a|v> <portZero> F <n> <pt>* M <n> {<pt> <nameHex> <clock> <ch>}* P <n> {<pt> <fmtpHex>}*
               B <n> {<pt> <valueHex>}* X <n> {<id> <uriHex>}*
        Inside a section every list is sorted (byte order of the printed items): the order of codecs is no
        subject of C10/C16, and Go's map iteration makes the order of RTX entries and of extmap lines arbitrary.
-/
namespace WebrtcVerif.Drv.PcWire
open WebrtcVerif WebrtcVerif.Codec WebrtcVerif.SectionSdp WebrtcVerif.PcSections

/-! ### token parser -/

abbrev P := StateT (List String) Option

def tok : P String := fun s => match s with | [] => none | t :: r => some (t, r)
def pNat : P Nat := do let t ← tok; match t.toNat? with | some n => pure n | none => failure
def pStr : P Str := do let t ← tok; match Wire.textOfHex t with | some s => pure s.toList | none => failure
def pLit (l : String) : P Unit := do let t ← tok; if t == l then pure () else failure

def rep {α} (p : P α) : Nat → P (List α)
  | 0 => pure []
  | n + 1 => do let x ← p; let xs ← rep p n; pure (x :: xs)

def pMany {α} (p : P α) : P (List α) := do let n ← pNat; if n > 100000 then failure else rep p n

def pFb : P Feedback := do let t ← pStr; let p ← pStr; pure { typ := t, param := p }

def pCodec (pre : Str) : P CodecP := do
  let pt ← pNat; let mime ← pStr; let clock ← pNat; let ch ← pNat; let fmtp ← pStr
  let fb ← pMany pFb
  pure { pt, mime := pre ++ mime, clock, channels := ch, fmtp, fb }

def parseAll {α} (p : P α) (toks : List String) : Option α :=
  match p toks with
  | some (x, []) => some x
  | _ => none

def pKind : P Kind := do
  let t ← tok
  if t == "a" then pure .audio else if t == "v" then pure .video else failure

structure ExtReg where
  uri : Str
  kind : Kind
  dirs : List XDir
  deriving Repr

def dirsOfMask (m : Nat) : List XDir :=
  (if m % 2 == 1 then [XDir.send] else []) ++ (if m / 2 % 2 == 1 then [XDir.recv] else [])

def pExtReg : P ExtReg := do
  let uri ← pStr; let kind ← pKind; let m ← pNat
  pure { uri, kind, dirs := dirsOfMask m }

def pTDir : P TDir := do
  let t ← tok
  match t with
  | "sr" => pure .sendrecv | "so" => pure .sendonly | "ro" => pure .recvonly | "in" => pure .inactive
  | _ => failure

def pTDirOpt : P (Option TDir) := do
  let t ← tok
  match t with
  | "sr" => pure (some .sendrecv) | "so" => pure (some .sendonly) | "ro" => pure (some .recvonly)
  | "in" => pure (some .inactive) | "-" => pure none
  | _ => failure

def pRSection : P RSection := do
  let media ← pStr; let mid ← pStr; let dir ← pTDirOpt; let bad ← pNat
  let cs ← pMany (pCodec (media ++ ['/']))
  let exts ← pMany (do let id ← pNat; let uri ← pStr; pure (uri, id))
  pure { media, mid, dir, codecs := if bad != 0 then none else some cs, exts }

inductive Step
  | add (k : Kind) (d : TDir)
  | pref (idx : Nat) (codecs : List CodecP)
  | offer
  | answer
  | sla
  | sro (d : RDesc)
  deriving Repr

def pStep : P Step := do
  let t ← tok
  match t with
  | "add" => do let k ← pKind; let d ← pTDir; pure (.add k d)
  | "pref" => do let i ← pNat; let cs ← pMany (pCodec []); pure (.pref i cs)
  | "offer" => pure .offer
  | "answer" => pure .answer
  | "sla" => pure .sla
  | "sro" => do
    let bundle ← pMany pStr
    let secs ← pMany pRSection
    pure (.sro { bundle, secs })
  | _ => failure

structure Op where
  multi : Bool
  audio : List CodecP
  video : List CodecP
  exts : List ExtReg
  steps : List Step
  deriving Repr

def pOp : P Op := do
  pLit "pc"
  let multi ← pNat
  let audio ← pMany (pCodec []); let video ← pMany (pCodec [])
  let exts ← pMany pExtReg
  let steps ← pMany pStep
  pure { multi := multi != 0, audio, video, exts, steps }

/-! ### running a scenario on the model -/

/-- the PeerConnection right after NewPeerConnection: RegisterCodec / RegisterHeaderExtension of everything
    listed, in order, errors ignored; the engine is copied (nothing negotiated) -/
def initialPc (op : Op) : Pc :=
  freshPc op.multi (op.audio.map (fun c => (Kind.audio, c)) ++ op.video.map (fun c => (Kind.video, c)))
    (op.exts.map (fun r => (r.uri, r.kind, r.dirs)))

def hexStr (s : Str) : String := Wire.hexOfText (String.ofList s)

/-- insertion sort on the printed items -/
def insertSorted (x : String) : List String → List String
  | [] => [x]
  | y :: ys => if x ≤ y then x :: y :: ys else y :: insertSorted x ys

def sortStrings (xs : List String) : List String := xs.foldr insertSorted []

def group (tag : String) (items : List String) : List String :=
  [tag, toString items.length] ++ sortStrings items

def showKind : Kind → String
  | .audio => "a" | .video => "v" | .other => "?"

def showSection (o : OutSection) : List String :=
  ["S", hexStr o.mid, showKind o.kind, Wire.boolTok o.portZero]
    ++ group "F" (o.sec.formats.map toString)
    ++ group "M" (o.sec.rtpmaps.map (fun (pt, name, clock, ch) => s!"{pt} {hexStr name} {clock} {ch}"))
    ++ group "P" (o.sec.fmtps.map (fun (pt, f) => s!"{pt} {hexStr f}"))
    ++ group "B" (o.sec.fbs.map (fun (pt, v) => s!"{pt} {hexStr v}"))
    ++ group "X" (o.sec.extmaps.map (fun (id, uri) => s!"{id} {hexStr uri}"))

def showDesc (tag : String) : Option (List OutSection) → List String
  | none => [tag ++ "-err"]
  | some secs => [tag, toString secs.length] ++ (secs.map showSection).flatten

def showErr : Err → String
  | .apt => "apt" | .dup => "dup" | .sdp => "sdp"

def runSteps : Pc → List Step → List String
  | _, [] => []
  | pc, .add k d :: rest =>
    match addTransceiver pc k d with
    | some pc' => "a1" :: runSteps pc' rest
    | none => "a0" :: runSteps pc rest
  | pc, .pref i cs :: rest =>
    let (pc', err) := setPrefs pc i cs
    (if err then "p0" else "p1") :: runSteps pc' rest
  | pc, .offer :: rest =>
    let (pc', r) := createOffer pc
    showDesc "O" r ++ runSteps pc' rest
  | pc, .answer :: rest =>
    let (pc', r) := createAnswer pc
    showDesc "A" r ++ runSteps pc' rest
  | pc, .sla :: rest =>
    match setLocalAnswer pc with
    | (pc', .ok) => "l-ok" :: runSteps pc' rest
    | (pc', .skipped) => "l-skip" :: runSteps pc' rest
    | (_, .sendError) => ["l-err", "end"]
  | pc, .sro d :: rest =>
    match setRemoteOffer pc d with
    | (pc', .ok) => "r-ok" :: runSteps pc' rest
    | (pc', .wrongState) => "r-state" :: runSteps pc' rest
    | (_, .engineError e) => ["r-err", showErr e, "end"]
    | (_, .noMid) => ["r-nomid", "end"]

def run (args : List String) : String :=
  match parseAll pOp args with
  | none => "bad-op"
  | some op => String.intercalate " " (runSteps (initialPc op) op.steps)

/-! ### reading an observed output back -/

/-- an observed m-section -/
structure ObsSection where
  mid : Str
  kind : Kind
  portZero : Bool
  formats : List Nat
  rtpmaps : List (Nat × Str × Nat × Nat)
  fmtps : List (Nat × Str)
  fbs : List (Nat × Str)
  extmaps : List (Nat × Str)
  deriving Repr

inductive ObsItem
  | offer (secs : List ObsSection)
  | answer (secs : List ObsSection)
  | other (t : String)
  deriving Repr

def pGroup {α} (tag : String) (p : P α) : P (List α) := do pLit tag; pMany p

def pObsSection : P ObsSection := do
  pLit "S"
  let mid ← pStr; let kind ← pKind; let pz ← pNat
  let formats ← pGroup "F" pNat
  let rtpmaps ← pGroup "M" (do let pt ← pNat; let n ← pStr; let c ← pNat; let ch ← pNat; pure (pt, n, c, ch))
  let fmtps ← pGroup "P" (do let pt ← pNat; let f ← pStr; pure (pt, f))
  let fbs ← pGroup "B" (do let pt ← pNat; let f ← pStr; pure (pt, f))
  let extmaps ← pGroup "X" (do let id ← pNat; let u ← pStr; pure (id, u))
  pure { mid, kind, portZero := pz != 0, formats, rtpmaps, fmtps, fbs, extmaps }

def pObsItem : P ObsItem := do
  let t ← tok
  match t with
  | "O" => do let s ← pMany pObsSection; pure (.offer s)
  | "A" => do let s ← pMany pObsSection; pure (.answer s)
  | "r-err" => do let _ ← tok; pure (.other t)
  | _ => pure (.other t)

/-- all items of an output line (fuel = number of tokens) -/
def pObsItems : Nat → P (List ObsItem)
  | 0 => pure []
  | n + 1 => fun s =>
    match s with
    | [] => some ([], [])
    | _ => (do let i ← pObsItem; let is ← pObsItems n; pure (i :: is)) s

def parseObs (out : List String) : Option (List ObsItem) := parseAll (pObsItems (out.length + 1)) out

end WebrtcVerif.Drv.PcWire
