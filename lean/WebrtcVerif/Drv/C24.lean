import WebrtcVerif.Base.Wire
import WebrtcVerif.Model.Gather
/-! Driver handler for C24 (local-candidate reporting of the ICE gatherer under a controlled schedule).

  op:   run pool=<n> <thread spec>… sched <name>…
        thread specs (harness threads T0, T1, … in this order):
          A:<item>,…   the gathering agent's callback thread (at most one). Items, in order:
                         <id>  the callback is invoked with candidate <id> (distinct decimal ids)
                         n     the callback is invoked with nil (gathering finished); last item, or followed by r
                         r     ICE restart: once the previous gathering is fully reported (no flush call in
                               mid-flight, nothing pooled) `Gather` is called again; directly after an n
          F:<k>        a thread that calls flushCandidates k times (k SetLocalDescription calls), 1 ≤ k ≤ 9
        sched: thread names to release one segment at a time; afterwards every thread is drained in a
        fixed order (Sched.Drain).
        e2e pool=<0|1> extra=<k>   public API, natural schedule: gather, SetLocalDescription, then k
                                   renegotiations (k more SetLocalDescription calls) after gathering completed
  out:  <name:result>… / <drain name:result>… | <thread>:c<id> / <thread>:n / <thread>:r … | <state> | <name:state>…
        (the middle part is the sequence of OnLocalCandidate invocations, with the invoking thread)

  The simulator maps every released segment to core `Gather.step` actions — it never changes the core
  state in any other way, so every simulated run is a `Reachable` run of the proved transition system.
-/
namespace WebrtcVerif.Drv.C24
open WebrtcVerif WebrtcVerif.Gather

inductive Item
  | cand (id : Nat) | nil_ | restart
  deriving Repr, DecidableEq

/-- where a flusher thread is parked inside its current `flushCandidates` call -/
inductive FSub
  | start      -- before the call ("begin" / "fl")
  | swapped    -- at flush.swapped
  | cand       -- at flush.cand (before handing over the next pooled candidate)
  | emitted    -- at flush.emitted (before the second critical section)
  | nil_       -- at flush.nil
  deriving Repr, DecidableEq

inductive TPc
  | agent (todo : List Item)
  | flusher (idx : Nat) (left : Nat) (sub : FSub)   -- core flusher index of the current call, calls left after it
  | fin
  deriving Repr, DecidableEq

structure Sim where
  core : St
  tpcs : List TPc
  log : List String := []
  deriving Repr

def act (sim : Sim) (a : Action) : Sim :=
  match step sim.core a with
  | some c => { sim with core := c }
  | none => sim

def setT (sim : Sim) (i : Nat) (pc : TPc) : Sim := { sim with tpcs := sim.tpcs.set i pc }
def logT (sim : Sim) (i : Nat) (e : String) : Sim := { sim with log := sim.log ++ [s!"T{i}:{e}"] }

/-- the agent's callback returned: park at "cb" before the next item, or finish -/
def afterCallback (sim : Sim) (i : Nat) (todo : List Item) : String × Sim :=
  if todo.isEmpty then ("fin", setT sim i .fin) else ("cb", setT sim i (.agent todo))

/-- one segment of the agent thread -/
def segA (sim : Sim) (i : Nat) (todo : List Item) : String × Sim :=
  match sim.core.agent with
  | .cand _ =>
      let sim := act sim .candTest
      match sim.core.agent with
      | .direct _ => ("gather.cand.direct", sim)
      | _ => afterCallback sim i todo
  | .direct c =>
      let sim := logT (act sim .candEmit) i s!"c{c}"
      afterCallback sim i todo
  | .nilGap =>
      let sim := act sim .nilTest
      match sim.core.agent with
      | .nilEmit => ("gather.nil.emit", sim)
      | _ => afterCallback sim i todo
  | .nilEmit =>
      let sim := logT (act sim .nilEmit) i "n"
      afterCallback sim i todo
  | _ =>   -- between two callbacks
      match todo with
      | [] => ("fin", setT sim i .fin)
      | .cand id :: rest => ("gather.cand", setT (act sim (.candBegin id)) i (.agent rest))
      | .nil_ :: rest => ("gather.nil", setT (act sim .nilBegin) i (.agent rest))
      | .restart :: rest =>
          if atRest sim.core then afterCallback (logT (act sim .regather) i "r") i rest
          else ("r.wait", sim)

/-- the current `flushCandidates` call returned -/
def afterFlush (sim : Sim) (i idx left : Nat) : String × Sim :=
  if left = 0 then ("fin", setT sim i .fin) else ("fl", setT sim i (.flusher (idx + 1) (left - 1) .start))

def restOf (sim : Sim) (idx : Nat) : List Cand :=
  match sim.core.flushers[idx]? with
  | some (.emitting rest) => rest
  | _ => []

/-- one segment of a flusher thread -/
def segF (sim : Sim) (i idx left : Nat) : FSub → String × Sim
  | .start => ("flush.swapped", setT (act sim (.flushBegin idx)) i (.flusher idx left .swapped))
  | .swapped =>
      if (restOf sim idx).isEmpty then ("flush.emitted", setT sim i (.flusher idx left .emitted))
      else ("flush.cand", setT sim i (.flusher idx left .cand))
  | .cand =>
      match restOf sim idx with
      | [] => ("flush.emitted", setT sim i (.flusher idx left .emitted))   -- (not reached)
      | c :: rest =>
        let sim := logT (act sim (.flushEmit idx)) i s!"c{c}"
        if rest.isEmpty then ("flush.emitted", setT sim i (.flusher idx left .emitted))
        else ("flush.cand", sim)
  | .emitted =>
      let sim := act sim (.flushEnd idx)
      match sim.core.flushers[idx]? with
      | some .nilEmit => ("flush.nil", setT sim i (.flusher idx left .nil_))
      | _ => afterFlush sim i idx left
  | .nil_ =>
      let sim := logT (act sim (.flushNil idx)) i "n"
      afterFlush sim i idx left

/-- decimal, 1–4 digits, no sign, no leading zero (except "0") -/
def strictNat? (s : String) : Option Nat :=
  let cs := s.toList
  if cs.isEmpty || cs.length > 4 || !cs.all Char.isDigit then none
  else if cs.length > 1 && cs.head? == some '0' then none
  else some (cs.foldl (fun n c => n * 10 + (c.toNat - 48)) 0)

def parseName (n : String) : Option Nat :=
  match n.toList with
  | 'T' :: r => strictNat? (String.ofList r)
  | _ => none

def stepName (sim : Sim) (n : String) : String × Sim :=
  match parseName n with
  | none => ("skip", sim)
  | some i =>
    match sim.tpcs[i]? with
    | none => ("skip", sim)
    | some .fin => ("skip", sim)
    | some (.agent todo) => segA sim i todo
    | some (.flusher idx left sub) => segF sim i idx left sub

def allNames (sim : Sim) : List String := (List.range sim.tpcs.length).map (fun i => s!"T{i}")

def isFinished (sim : Sim) (n : String) : Bool :=
  match parseName n with
  | some i => sim.tpcs[i]? == some TPc.fin
  | none => true

def drainStep (acc : Sim × List String) (n : String) : Sim × List String :=
  if isFinished acc.1 n then acc
  else
    let (r, s') := stepName acc.1 n
    (s', acc.2 ++ [s!"{n}:{r}"])

/-- `Sched.Drain`: passes over every unfinished thread until all are finished (no thread ever blocks here) -/
def drain : Nat → Sim → List String → Sim × List String
  | 0, sim, ev => (sim, ev)
  | fuel + 1, sim, ev =>
    if ev.length ≥ 400 then (sim, ev) else
    let (sim1, ev1) := (allNames sim).foldl drainStep (sim, [])
    if ev1.isEmpty then (sim1, ev) else drain fuel sim1 (ev ++ ev1)

/-! ### parsing (must accept exactly what the harness accepts) -/

def commaList (s : String) : List String := (s.splitOn ",").filter (· ≠ "")

def parseItem (s : String) : Option Item :=
  if s == "n" then some .nil_ else if s == "r" then some .restart else (strictNat? s).map .cand

/-- n is last or followed by r; r directly follows an n -/
def itemsWellFormed : List Item → Bool
  | [] => true
  | [.nil_] => true
  | .nil_ :: .restart :: rest => itemsWellFormed rest
  | .nil_ :: _ => false
  | .restart :: _ => false
  | .cand _ :: rest => itemsWellFormed rest

def candIds (items : List Item) : List Nat :=
  items.filterMap (fun | .cand id => some id | _ => none)

structure Prog where
  pool : Nat
  specs : List String
  agentItems : Option (List Item)     -- items of the A thread, if there is one
  sched : List String

def parseProg (args : List String) : Option Prog :=
  match args with
  | "run" :: poolTok :: rest =>
    if !poolTok.startsWith "pool=" then none else
    match strictNat? (poolTok.drop 5).toString with
    | none => none
    | some pool =>
      if pool > 255 then none else
      if !rest.contains "sched" then none else
      let specs := rest.takeWhile (· ≠ "sched")
      let sched := (rest.dropWhile (· ≠ "sched")).drop 1
      if specs.isEmpty || specs.length > 9 then none else
      let aSpecs := specs.filter (·.startsWith "A:")
      if aSpecs.length > 1 then none else
      let okF := specs.all (fun sp =>
        if sp.startsWith "A:" then true
        else if sp.startsWith "F:" then
          match (sp.drop 2).toString.toList with
          | [d] => d.isDigit && d != '0'
          | _ => false
        else false)
      if !okF then none else
      let nF := (specs.filter (·.startsWith "F:")).length
      match aSpecs with
      | [] => some { pool, specs, agentItems := none, sched }
      | a :: _ =>
        match (commaList (a.drop 2).toString).mapM parseItem with
        | none => none
        | some items =>
          let ids := candIds items
          if !itemsWellFormed items || ids.eraseDups.length != ids.length then none
          else if items.contains .restart && pool > 0 && nF == 0 then none
          else some { pool, specs, agentItems := some items, sched }
  | _ => none

def flushCount (sp : String) : Nat :=
  match (sp.drop 2).toString.toList with
  | [d] => d.toNat - 48
  | _ => 0

def initThreads (p : Prog) : List TPc × Nat :=
  p.specs.foldl (fun (acc : List TPc × Nat) sp =>
    if sp.startsWith "A:" then (acc.1 ++ [.agent (p.agentItems.getD [])], acc.2)
    else
      let k := flushCount sp
      (acc.1 ++ [.flusher acc.2 (k - 1) .start], acc.2 + k)) ([], 0)

def initSim (p : Prog) : Sim :=
  { core := Gather.init p.pool (initThreads p).2, tpcs := (initThreads p).1 }

def stateName : GState → String
  | .gathering => "gathering"
  | .complete => "complete"

/-- `e2e pool=<0|1> extra=<0..3>`: public-API run under the natural schedule (see the harness); the
    output is the property-relevant summary of the OnICECandidate invocations, which the theorems fix -/
def parseE2E (args : List String) : Option (Nat × Nat) :=
  match args with
  | ["e2e", p, e] =>
    if !p.startsWith "pool=" || !e.startsWith "extra=" then none else
    match strictNat? (p.drop 5).toString, strictNat? (e.drop 6).toString with
    | some pool, some extra => if pool > 1 || extra > 3 then none else some (pool, extra)
    | _, _ => none
  | _ => none

def kv (out : List String) (k : String) : Option Nat :=
  match out.find? (·.startsWith (k ++ "=")) with
  | some t => (t.drop (k.length + 1)).toString.toNat?
  | none => none

def judgeE2E (out : List String) : String :=
  match out with
  | "e2e" :: rest =>
    match kv rest "nil", kv rest "twice", kv rest "afternil" with
    | some n, some d, some a =>
      if d > 0 then "violated candidate-twice"
      else if n > 1 then "violated second-flush-nil"
      else if a > 0 then "violated candidate-after-nil"
      else if n == 0 then "violated end-of-gathering-missing"
      else "ok"
    | _, _, _ => "bad-judge"
  | _ => "bad-judge"

def schedStep (acc : Sim × List String) (n : String) : Sim × List String :=
  let (r, s') := stepName acc.1 n
  (s', acc.2 ++ [s!"{n}:{r}"])

/-- the whole simulated run: final simulator state, events of the schedule, events of the drain -/
def simulate (p : Prog) : Sim × List String × List String :=
  let r1 := p.sched.foldl schedStep (initSim p, [])
  let r2 := drain 500 r1.1 []
  (r2.1, r1.2, r2.2)

def run (args : List String) : String :=
  if args.head? == some "e2e" then
    (match parseE2E args with
     | some _ => "e2e candidates=1 nil=1 twice=0 afternil=0"
     | none => "bad-op") else
  match parseProg args with
  | none => "bad-op"
  | some p =>
    let (sim2, ev1, ev2) := simulate p
    String.intercalate " " (ev1 ++ ["/"] ++ ev2 ++ ["|"] ++ sim2.log ++ ["|", stateName sim2.core.gstate, "|"]
      ++ (allNames sim2).map (fun n => if isFinished sim2 n then s!"{n}:fin" else s!"{n}:parked"))

/-! ### judge — the property on an observed run (uses the program and the observed handler log only) -/

def splitBar (l : List String) : List (List String) :=
  l.foldr (fun t acc => if t == "|" then [] :: acc else match acc with | h :: tl => (t :: h) :: tl | [] => [[t]]) [[]]

/-- split a list at every element satisfying `p` (the separators are dropped) -/
def splitAt' {α} (p : α → Bool) (l : List α) : List (List α) :=
  l.foldr (fun t acc => if p t then [] :: acc else match acc with | h :: tl => (t :: h) :: tl | [] => [[t]]) [[]]

/-- a log entry `<thread>:<what>` -/
def entry (e : String) : Option (String × String) :=
  match e.splitOn ":" with
  | [t, w] => some (t, w)
  | _ => none

/-- verdict for one gathering: the candidates and whether nil was delivered (program), what the handler saw -/
def judgeRound (agentName : String) (cands : List Nat) (hasNil : Bool) (flushed : Bool) (complete : Bool)
    (seen : List (String × String)) : String :=
  let whats := seen.map (·.2)
  let wanted := cands.map (fun c => s!"c{c}")
  -- only gathered candidates (and the marker) are reported
  match whats.find? (fun w => w != "n" && !wanted.contains w) with
  | some w => s!"violated unknown-candidate {w}"
  | none =>
  -- each candidate at most once
  match wanted.find? (fun w => (whats.filter (· == w)).length > 1) with
  | some w => s!"violated candidate-twice {w}"
  | none =>
  -- the marker at most once
  let nils := seen.filter (·.2 == "n")
  if nils.length > 1 then
    (if nils.any (·.1 == agentName) then "violated double-nil-race" else "violated second-flush-nil")
  else
  -- nothing after the marker
  match (whats.dropWhile (· != "n")).drop 1 with
  | w :: _ => s!"violated candidate-after-nil {w}"
  | [] =>
  -- the marker only once gathering is complete
  if !hasNil && !nils.isEmpty then "violated nil-before-complete" else
  -- completeness, once every thread has returned and nothing can still be pooled
  if complete && flushed then
    match wanted.find? (fun w => !whats.contains w) with
    | some w => s!"violated candidate-lost {w}"
    | none => if hasNil && nils.isEmpty then "violated end-of-gathering-missing" else "ok"
  else "ok"

def judge (args out : List String) : String :=
  if args.head? == some "e2e" then
    (if out == ["bad-op"] then (if (parseE2E args).isNone then "ok" else "bad-judge") else judgeE2E out) else
  if out == ["bad-op"] then (if (parseProg args).isNone then "ok" else "bad-judge") else
  match parseProg args, splitBar out with
  | some p, [_evs, log, _state, states] =>
    match log.mapM entry with
    | none => "bad-judge"
    | some es =>
      if states.any (fun s => !s.endsWith ":fin") then "violated thread-never-finishes" else
      let items := p.agentItems.getD []
      let agentIdx := p.specs.findIdx? (·.startsWith "A:")
      let agentName := match agentIdx with | some i => s!"T{i}" | none => "-"
      let progRounds := splitAt' (· == Item.restart) items
      let seenRounds := splitAt' (fun (e : String × String) => e.2 == "r") es
      if seenRounds.length > progRounds.length then "violated unknown-restart" else
      let nF := (p.specs.filter (·.startsWith "F:")).length
      let flushed := p.pool == 0 || nF > 0
      let nr := progRounds.length
      let verdicts := (List.range nr).map (fun k =>
        let pr := progRounds[k]?.getD []
        judgeRound agentName (candIds pr) (pr.contains .nil_) flushed true (seenRounds[k]?.getD []))
      match verdicts.find? (· != "ok") with
      | some v => v
      | none => "ok"
  | _, _ => "bad-judge"

end WebrtcVerif.Drv.C24
