import WebrtcVerif.Base.Wire
import WebrtcVerif.Model.DcParams
/-! Driver handler for C19 (see harness/cmd/wvh/c19.go for the op grammar). -/
namespace WebrtcVerif.Drv.C19
open WebrtcVerif WebrtcVerif.Bytes WebrtcVerif.DcParams

structure Chan where
  rel : Rel
  negotiated : Bool
  label : String      -- hex as given
  proto : String
  deriving Repr

structure Send where
  ch : Nat
  isString : Bool
  data : Bs
  deriving Repr

def genPayload (len seed : Nat) : Bs := (List.range len).map (fun i => b (seed + 7 * i + i / 256))

def payloadOfSpec (s : String) : Option Bs :=
  match s.toList with
  | 'x' :: rest => Wire.bytesOfHex (String.ofList rest)
  | 'g' :: rest =>
    match (String.ofList rest).splitOn ":" with
    | [l, sd] => do let l ← l.toNat?; let sd ← sd.toNat?; pure (genPayload l sd)
    | _ => none
  | _ => none

def optNat (s : String) : Option (Option Nat) := if s == "-" then some none else s.toNat?.map some

def parseChans : Nat → List String → Option (List Chan × List String)
  | 0, rest => some ([], rest)
  | n + 1, o :: mr :: mp :: neg :: label :: proto :: rest => do
      let o ← Wire.tokBool o
      let mr ← optNat mr
      let mp ← optNat mp
      let neg ← Wire.tokBool neg
      let (cs, rest') ← parseChans n rest
      pure ({ rel := { ordered := o, maxRetransmits := mr, maxPacketLifeTime := mp }, negotiated := neg, label, proto } :: cs, rest')
  | _, _ => none

def parseMsgs : Nat → List String → Option (List Send)
  | 0, [] => some []
  | n + 1, ch :: isS :: spec :: rest => do
      let ch ← ch.toNat?
      let isS ← Wire.tokBool isS
      let d ← payloadOfSpec spec
      let tl ← parseMsgs n rest
      pure ({ ch, isString := isS, data := d } :: tl)
  | _, _ => none

def parse (args : List String) : Option (Nat × List Chan × List Send) :=
  match args with
  | "conn" :: maxB :: nch :: rest => do
      let maxB ← maxB.toNat?
      let nch ← nch.toNat?
      let (cs, rest) ← parseChans nch rest
      match rest with
      | nm :: rest => do
          let nm ← nm.toNat?
          let ms ← parseMsgs nm rest
          pure (if maxB == 0 then 1073741823 else maxB, cs, ms)
      | [] => none
  | _ => none

def showOpt : Option Nat → String
  | none => "-" | some n => toString n

def showMsg (m : Msg) : String := s!"{Wire.boolTok m.isString} {m.data.length} {(fnv64 m.data).toNat}"

/-- expected observation: parameters through `toWire`/`fromWire`; messages the sender's SCTP accepts
    (size ≤ the receiver's announced maximum — pion/sctp's check, external) go on the wire in order and
    through `readLoop`; unordered channels are reported sorted. -/
def run (args : List String) : String :=
  match parse args with
  | none => "bad-op"
  | some (max, chans, sends) =>
    let indexed := (List.range sends.length).zip sends
    let rejected := indexed.filter (fun (_, s) => s.data.length > max)
    let perChan := (List.range chans.length).zip chans |>.map (fun (i, c) =>
      let wire : List Msg := (sends.filter (fun s => s.ch == i && s.data.length ≤ max)).map
        (fun s => { data := s.data, isString := s.isString })
      let (got, ok) := readLoop max initialBuffer wire
      let r := fromWire (toWire c.rel).1 (toWire c.rel).2
      let strs := got.map showMsg
      let strs := if c.rel.ordered then strs else (strs.toArray.qsort (· < ·)).toList
      -- a partially reliable channel (maxRetransmits / maxPacketLifeTime set) may abandon a message whenever a
      -- retransmission timer fires (a loaded machine is enough): which messages arrive is not predicted (`*`,
      -- matched against anything by bin/check); the judge still forbids duplicates and foreign messages there
      let partialRel := c.rel.maxRetransmits.isSome || c.rel.maxPacketLifeTime.isSome
      String.intercalate " " (["ch", c.label, c.proto, Wire.boolTok r.ordered, showOpt r.maxRetransmits,
        showOpt r.maxPacketLifeTime, Wire.boolTok c.negotiated, "recv"]
        ++ (if partialRel then ["*"] else toString got.length :: strs)
        ++ [if ok then "open" else "closed"]))
    String.intercalate " " (perChan ++ ["senderr"] ++ rejected.map (fun (k, _) => toString k))

/-! ### judge -/

/-- split the observation into per-channel token groups (each starts with `ch`) and the senderr tail -/
def groups (out : List String) : List (List String) :=
  out.foldl (fun acc t =>
    if t == "ch" || t == "senderr" then acc ++ [[t]]
    else match acc.reverse with
      | last :: revInit => revInit.reverse ++ [last ++ [t]]
      | [] => [[t]]) []

def triples : List String → List String
  | a :: b :: c :: rest => s!"{a} {b} {c}" :: triples rest
  | _ => []

def count (l : List String) (x : String) : Nat := (l.filter (· == x)).length

/-- `got` is `sent` with some elements left out, order kept (equal lists for a reliable channel, where
    nothing is left out) -/
def isSubseq : List String → List String → Bool
  | [], _ => true
  | _ :: _, [] => false
  | g :: gs, s :: ss => if g == s then isSubseq gs ss else isSubseq (g :: gs) ss

def judge (args out : List String) : String :=
  match out with
  | "inconclusive" :: _ => "ok"
  | _ =>
  match parse args with
  | none => "bad-judge"
  | some (max, chans, sends) =>
    let gs := groups out
    let chGroups := gs.filter (fun g => g.head? == some "ch")
    let errIdx : List Nat := match gs.find? (fun g => g.head? == some "senderr") with
      | some g => g.drop 1 |>.filterMap String.toNat?
      | none => []
    if chGroups.length != chans.length then "bad-judge" else
    -- a send of an acceptable size must not be refused
    match errIdx.find? (fun k => match sends[k]? with | some s => s.data.length ≤ max | none => true) with
    | some k => s!"violated send-rejected {k}"
    | none =>
    let verdicts := (List.range chans.length).map (fun i =>
      match chans[i]?, chGroups[i]? with
      | some c, some ("ch" :: label :: proto :: o :: mr :: mp :: neg :: "recv" :: n :: rest) =>
        if label != c.label || proto != c.proto || o != Wire.boolTok c.rel.ordered || mr != showOpt c.rel.maxRetransmits
            || mp != showOpt c.rel.maxPacketLifeTime || neg != Wire.boolTok c.negotiated then
          "violated remote-parameters-differ"
        else
          let got := triples (rest.take (rest.length - 1))
          if n.toNat? != some got.length then "bad-judge" else
          let sent := ((List.range sends.length).zip sends).filter (fun (k, s) => s.ch == i && !errIdx.contains k)
            |>.map (fun (_, s) => showMsg { data := s.data, isString := s.isString })
          if got.any (fun g => count got g > count sent g) then
            (if got.any (fun g => count sent g == 0) then "violated message-corrupted-or-spurious" else "violated message-duplicated")
          -- the property promises delivery of every message for RELIABLE channels only
          else if c.rel.maxRetransmits.isNone && c.rel.maxPacketLifeTime.isNone
              && sent.any (fun g => count got g < count sent g) then "violated message-lost"
          else if c.rel.ordered && !isSubseq got sent then "violated message-reordered"
          else "ok"
      | _, _ => "bad-judge")
    match verdicts.find? (· != "ok") with
    | some v => v
    | none => "ok"

end WebrtcVerif.Drv.C19
