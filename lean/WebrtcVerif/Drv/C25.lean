import WebrtcVerif.Base.Wire
import WebrtcVerif.Model.Candidate
/-! Driver handler for C25 (ICE candidates through their signaling form).

  text tokens are hex of UTF-8 (`-` = empty).  Remote descriptions: `N` (none) or
  `D<session>/<media1>/<media2>…`, each part `-` (no ice-ufrag attribute) or `.`-separated hex values
  (`_` = empty value).

  ops:
    rs  <pend> <cur> <candidate string>                                  source = ice.UnmarshalCandidate
    rt  <pend> <cur> <typ> <network> <addr> <port> <comp> <prio> <foundation> <tcp> <raddr> <rport>
        <relayproto> <n> {<key> <value>}*                                source = NewCandidate<Typ> + AddExtension*
    add <pend> <cur> <ICECandidateInit.Candidate>                        AddICECandidate on a raw string
    wc  <pend> <cur> <typ|unknown> <udp|tcp|unknown> <addr> <port> <comp> <prio> <foundation> <tcpType text>
        <raddr> <rport>                                                  a hand-built webrtc.ICECandidate literal
    exts <n> {<key> <value>}*                                            setExtensions → exportExtensions
    ext <extension string>                                               exportExtensions on a raw string
  outputs:
    rs/rt → nosrc | S <view> W <ICECandidate> J <ToJSON().Candidate> P <view|err> A <p1> <p2> <n> <view>*
            ICECandidate = <typ> <proto> <foundation> <component> <priority> <address> <port> <relatedAddress>
                           <relatedPort> <tcpType> <extension string>   (the struct newICECandidateFromICE returns)
    add   → P <view|err> A <p1> <p2> <n> <view>*
    wc    → J <ToJSON().Candidate> P <view|err> A <p1> <p2> <n> <view>*
    exts  → X <string> <ok <tcp> <n> {k v}* | err>
    ext   → ok <tcp> <n> {k v}* | err
  view = <typ> <proto> <foundation> <component> <priority> <address> <port> <raddr|~> <rport> <tcp> <n> {k v}*
  p1 (no gatherer): norem | drop | fwd | err        p2 (real agent, only after fwd): - | nil | err
-/
namespace WebrtcVerif.Drv.C25
open WebrtcVerif WebrtcVerif.Candidate

def hx (s : Str) : String := Wire.hexOfText (String.ofList s)
def unhx (t : String) : Option Str := (Wire.textOfHex t).map String.toList

/-- the observable fields of a candidate (what the property lists) -/
structure View where
  typ : String
  proto : String
  found : Str
  comp : Nat
  prio : Nat
  addr : Str
  port : Nat
  rel : Option (Str × Nat)
  tcp : String
  exts : List Ext
  deriving DecidableEq, Repr, Inhabited

def tcpTok : TcpType → String
  | .unspecified => "-" | .active => "active" | .passive => "passive" | .so => "so"

def tokTcp : String → Option TcpType
  | "-" => some .unspecified | "active" => some .active | "passive" => some .passive | "so" => some .so
  | _ => none

def viewOf (c : IceCand) : View :=
  { typ := String.ofList c.typ.str, proto := String.ofList c.net.short.str, found := c.foundation,
    comp := c.component, prio := c.priority, addr := c.address, port := c.port, rel := c.related,
    tcp := tcpTok c.tcp, exts := c.extensions }

def showExts (es : List Ext) : List String :=
  toString es.length :: (es.map (fun e => [hx e.key, hx e.value])).flatten

def showView (v : View) : List String :=
  [v.typ, v.proto, hx v.found, toString v.comp, toString v.prio, hx v.addr, toString v.port]
    ++ (match v.rel with | some (a, p) => [hx a, toString p] | none => ["~", "0"])
    ++ [v.tcp] ++ showExts v.exts

def parseExts : Nat → List String → Option (List Ext × List String)
  | 0, rest => some ([], rest)
  | n + 1, k :: v :: rest => do
      let k ← unhx k
      let v ← unhx v
      let (tl, r) ← parseExts n rest
      pure (⟨k, v⟩ :: tl, r)
  | _, _ => none

def parseView : List String → Option (View × List String)
  | typ :: proto :: found :: comp :: prio :: addr :: port :: raddr :: rport :: tcp :: n :: rest => do
      let found ← unhx found
      let comp ← comp.toNat?
      let prio ← prio.toNat?
      let addr ← unhx addr
      let port ← port.toNat?
      let rport ← rport.toNat?
      let rel ← if raddr == "~" then some none else (unhx raddr).map (fun a => some (a, rport))
      let n ← n.toNat?
      let (exts, r) ← parseExts n rest
      pure ({ typ, proto, found, comp, prio, addr, port, rel, tcp, exts }, r)
  | _ => none

/-! ### op parsing -/

def parseUfrags (part : String) : Option (List Str) :=
  if part == "-" then some []
  else (part.splitOn ".").mapM (fun t => if t == "_" then some [] else unhx t)

def parseDesc (tok : String) : Option (Option Desc) :=
  if tok == "N" then some none
  else match tok.toList with
    | 'D' :: rest =>
      match (String.ofList rest).splitOn "/" with
      | s :: ms => do
          let s ← parseUfrags s
          let ms ← ms.mapM parseUfrags
          pure (some { session := s, media := ms })
      | [] => none
    | _ => none

def candTypeTok (s : String) : Option CandType := candTypeOfStr s.toList

def relayPrefOf (proto : String) : Nat :=
  if proto == "tls" then 0 else if proto == "tcp" then 1 else if proto == "dtls" then 2 else 3

/-- the source candidate of an `rt` op: constructor, then AddExtension calls whose errors are ignored -/
def buildRt (args : List String) : Option (Except UErr IceCand) :=
  match args with
  | typ :: net :: addr :: port :: comp :: prio :: found :: tcp :: raddr :: rport :: relay :: n :: rest => do
      let typ ← candTypeTok typ
      let net ← unhx net
      let addr ← unhx addr
      let port ← port.toNat?
      let comp ← comp.toNat?
      let prio ← prio.toNat?
      let found ← unhx found
      let tcp ← tokTcp tcp
      let raddr ← unhx raddr
      let rport ← rport.toNat?
      let n ← n.toNat?
      let (exts, r) ← parseExts n rest
      if r ≠ [] then none else
      match newCandidate
          { typ, network := net, address := addr, port, component := comp, priority := prio,
            foundation := found, tcp, relAddr := raddr, relPort := rport, relayPref := relayPrefOf relay } with
      | .error e => pure (.error e)
      | .ok c => pure (.ok (exts.foldl (fun c e => match c.addExtension e with | .ok c' => c' | .error _ => c) c))
  | _ => none

def wtypeTok : String → Option WType
  | "host" => some .host | "srflx" => some .srflx | "prflx" => some .prflx | "relay" => some .relay
  | "unknown" => some .unknown | _ => none
def wprotoTok : String → Option WProto
  | "udp" => some .udp | "tcp" => some .tcp | "unknown" => some .unknown | _ => none

/-- a hand-built `webrtc.ICECandidate` (its unexported extension string is empty) -/
def parseWc : List String → Option ICECandidate
  | [typ, proto, addr, port, comp, prio, found, tcp, raddr, rport] => do
      let typ ← wtypeTok typ
      let proto ← wprotoTok proto
      let addr ← unhx addr
      let port ← port.toNat?
      let comp ← comp.toNat?
      let prio ← prio.toNat?
      let found ← unhx found
      let tcp ← unhx tcp
      let raddr ← unhx raddr
      let rport ← rport.toNat?
      pure { foundation := found, priority := prio, address := addr, protocol := proto, port := port, typ := typ,
             component := comp, relatedAddress := raddr, relatedPort := rport, tcpType := tcp, extensions := [] }
  | _ => none

/-! ### model outputs -/

def showParse (s : Str) : List String :=
  match unmarshal s with
  | .ok c => "P" :: showView (viewOf c)
  | .error _ => ["P", "err"]

def showAdd (pend cur : Option Desc) (cand : Str) : List String :=
  match addICECandidate pend cur cand with
  | .noRemoteDescription => ["A", "norem", "-", "0"]
  | .dropped => ["A", "drop", "-", "0"]
  | .parseError => ["A", "err", "-", "0"]
  | .forwarded c =>
    match transportAdd c with
    | .error _ => ["A", "fwd", "err", "0"]
    | .ok none => ["A", "fwd", "nil", "0"]
    | .ok (some ic) =>
      if agentKeeps ic then ["A", "fwd", "nil", "1"] ++ showView (viewOf ic) else ["A", "fwd", "nil", "0"]

def wtypeStr : WType → String
  | .host => "host" | .srflx => "srflx" | .prflx => "prflx" | .relay => "relay" | .unknown => "unknown"

def showW (w : ICECandidate) : List String :=
  ["W", wtypeStr w.typ, String.ofList w.protocol.str, hx w.foundation, toString w.component, toString w.priority,
   hx w.address, toString w.port, hx w.relatedAddress, toString w.relatedPort, hx w.tcpType, hx w.extensions]

def showChain (pend cur : Option Desc) (src : IceCand) : String :=
  let w := fromICE src
  let j := w.toJSON
  String.intercalate " "
    (("S" :: showView (viewOf src)) ++ showW w ++ ["J", hx j] ++ showParse (stripPrefix candidatePrefix j) ++ showAdd pend cur j)

/-- the fresh candidate `ext`/`exts` export into: host udp 1.2.3.4:9 -/
def freshHost : IceCand :=
  { typ := .host, net := .udp4, address := chars!"1.2.3.4", port := 9, component := 1,
    foundationOverride := chars!"f", priorityOverride := 1, related := none, tcp := .unspecified, exts := [] }

def showExport (extensions : Str) : List String :=
  match freshHost.addAll (exportCalls extensions) with
  | .ok c => ["ok", tcpTok c.tcp] ++ showExts c.extensions
  | .error _ => ["err"]

def run (args : List String) : String :=
  match args with
  | ["rs", pend, cur, cand] =>
    match parseDesc pend, parseDesc cur, unhx cand with
    | some pend, some cur, some cand =>
      match unmarshal cand with
      | .error _ => "nosrc"
      | .ok src => showChain pend cur src
    | _, _, _ => "bad-op"
  | "rt" :: pend :: cur :: rest =>
    match parseDesc pend, parseDesc cur, buildRt rest with
    | some pend, some cur, some src =>
      match src with
      | .error _ => "nosrc"
      | .ok src => showChain pend cur src
    | _, _, _ => "bad-op"
  | ["add", pend, cur, cand] =>
    match parseDesc pend, parseDesc cur, unhx cand with
    | some pend, some cur, some cand =>
      String.intercalate " " (showParse (stripPrefix candidatePrefix cand) ++ showAdd pend cur cand)
    | _, _, _ => "bad-op"
  | ["wc", pend, cur, typ, proto, addr, port, comp, prio, found, tcp, raddr, rport] =>
    match parseDesc pend, parseDesc cur, parseWc [typ, proto, addr, port, comp, prio, found, tcp, raddr, rport] with
    | some pend, some cur, some w =>
      let j := w.toJSON
      String.intercalate " " (["J", hx j] ++ showParse (stripPrefix candidatePrefix j) ++ showAdd pend cur j)
    | _, _, _ => "bad-op"
  | "exts" :: n :: rest =>
    match n.toNat?.bind (fun n => parseExts n rest) with
    | some (exts, []) =>
      let s := setExtensions exts
      String.intercalate " " (["X", hx s] ++ showExport s)
    | _ => "bad-op"
  | ["ext", s] =>
    match unhx s with
    | some s => String.intercalate " " (showExport s)
    | none => "bad-op"
  | _ => "bad-op"

/-! ### judge: the property evaluated on observed outputs (never calls marshal/unmarshal/exportCalls) -/

def noSpace (s : Str) : Bool := !s.contains ' '

/-- an extension attribute token pion/ice's grammar can carry (RFC 5245 byte-string without SP) -/
def extTokenOK (s : Str) : Bool := s.all (fun c => isByteChar c && c != ' ')

/-- "every ICE candidate pion can represent" that the ICE candidate-attribute grammar can also write down -/
def inDomain (v : View) : Bool :=
  (v.found == [' '] || (1 ≤ v.found.length && v.found.length ≤ 32 && v.found.all isIceChar))
  && v.comp < 65536 && 1 ≤ v.prio && v.prio < 4294967296 && v.port < 65536
  && v.addr != [] && noSpace v.addr && !v.addr.contains '%'
  && (match v.rel with | none => true | some (a, p) => noSpace a && p < 65536)
  && ["host", "srflx", "prflx", "relay"].contains v.typ && ["udp", "tcp"].contains v.proto
  && v.exts.all (fun e => e.key != [] && extTokenOK e.key && extTokenOK e.value)
  && (v.exts.drop 1).all (fun e => e.key != tcptypeKey)
  -- an extension named `raddr` right after the type would be read as the related address
  && (match v.exts.head? with | some e => e.key != chars!"raddr" | none => true)

/-- first position / last value per key: what a sequence of AddExtension calls leaves -/
def collapse : List Ext → List Ext → List Ext
  | acc, [] => acc
  | acc, e :: es =>
    if acc.any (·.key == e.key) then collapse (acc.map (fun x => if x.key == e.key then e else x)) es
    else collapse (acc ++ [e]) es

def hasDupKeys (es : List Ext) : Bool := collapse [] es != es

/-- known-finding shapes: what each recorded defect does to an expected view (`none` = not applicable) -/
def findingShapes : List (String × (View → Option View)) :=
  [ ("duplicate-extension-key-collapsed", fun v =>
      if hasDupKeys v.exts then some { v with exts := collapse [] v.exts } else none),
    ("related-address-lost:zero-rport-or-empty-raddr", fun v =>
      match v.rel with
      | some (a, p) => if (a == [] || p == 0) && !(a == [] && p == 0) then some { v with rel := some ([], 0) } else none
      | none => none),
    ("tcptype-lost:non-host", fun v =>
      if v.typ != "host" && v.tcp != "-" then some { v with tcp := "-", exts := v.exts.filter (·.key != tcptypeKey) }
      else none) ]

/-- every view obtainable by letting a non-empty subset of the applicable findings act, with the key of
    the first one -/
def findingVariants (v : View) : List (String × View) :=
  let step (acc : List (Option String × View)) (f : String × (View → Option View)) : List (Option String × View) :=
    acc ++ acc.filterMap (fun (k, x) => (f.2 x).map (fun y => (some (k.getD f.1), y)))
  (findingShapes.foldl step [(none, v)]).filterMap (fun (k, x) => k.map (fun k => (k, x)))

def firstDiff (a b : View) : String :=
  if a.found != b.found then "foundation" else if a.comp != b.comp then "component"
  else if a.proto != b.proto then "protocol" else if a.prio != b.prio then "priority"
  else if a.addr != b.addr then "address" else if a.port != b.port then "port"
  else if a.typ != b.typ then "type" else if a.rel != b.rel then "related"
  else if a.tcp != b.tcp then "tcptype" else if a.exts != b.exts then "extensions" else "none"

def diffOrder : List String :=
  ["foundation", "component", "protocol", "priority", "address", "port", "type", "related", "tcptype", "extensions", "none"]

/-- `none` = equal; otherwise the verdict.  An unexplained difference is named after the field that still
    differs once the recorded findings have been allowed to act (the variant agreeing on the longest prefix
    of fields). -/
def compareViews (stage : String) (expected got : View) : Option String :=
  if got == expected then none
  else
    let vars := findingVariants expected
    match vars.find? (fun (_, x) => x == got) with
    | some (k, _) => some s!"violated {k}"
    | none =>
      let diffs := (expected :: vars.map (·.2)).map (fun e => firstDiff e got)
      let best := diffs.foldl (fun b d => if diffOrder.idxOf d > diffOrder.idxOf b then d else b) "foundation"
      some s!"violated {stage}:{best}"

inductive Parsed | err | view (v : View)

def parseP : List String → Option (Parsed × List String)
  | "P" :: "err" :: rest => some (.err, rest)
  | "P" :: rest => (parseView rest).map (fun (v, r) => (.view v, r))
  | _ => none

def parseViews : Nat → List String → Option (List View)
  | 0, [] => some []
  | n + 1, toks => do
      let (v, r) ← parseView toks
      let tl ← parseViews n r
      pure (v :: tl)
  | _, _ => none

structure AddObs where
  p1 : String
  p2 : String
  cands : List View

def parseA : List String → Option AddObs
  | "A" :: p1 :: p2 :: n :: rest => do
      let n ← n.toNat?
      let cs ← parseViews n rest
      pure { p1, p2, cands := cs }
  | _ => none

def ignorable (v : View) : Bool :=
  v.tcp == "active" || (v.typ == "host" && hasSuffix (chars!".local") v.addr)

/-- the AddICECandidate clauses, on the candidate `p` that pion/ice parses out of the signaled string -/
def judgeAdd (remote : Option Desc) (p : Parsed) (a : AddObs) : String :=
  match remote, p with
  | some d, .view p =>
    let u := (p.exts.find? (·.key == ufragKey)).map (·.value)
    match u with
    | some uv =>
      if !d.allUfrags.contains uv then
        -- "drops, without error, any candidate whose ufrag extension names no ufrag in the applied remote description"
        (if a.p1 == "drop" then "ok"
         else if a.p1 == "err" then "violated unknown-ufrag-error"
         else "violated unknown-ufrag-not-dropped")
      else if d.containsUfrag uv then accepted p a
      else "ok"   -- named only by a second ice-ufrag attribute of one section: not constrained
    | none => accepted p a
  | _, _ => "ok"
where
  accepted (p : View) (a : AddObs) : String :=
    if !inDomain p then "ok"
    else if !(a.p1 == "fwd" && a.p2 == "nil") then "violated candidate-not-accepted"
    else if ignorable p then "ok"     -- the agent itself ignores active-TCP and (mDNS off) .local candidates
    else match a.cands with
      | [c] => (compareViews "added-candidate-mismatch" p c).getD "ok"
      | [] => "violated accepted-candidate-not-added"
      | _ => "violated added-more-than-one"

def remoteOf (pend cur : String) : Option (Option Desc) := do
  let p ← parseDesc pend
  let c ← parseDesc cur
  pure (remoteDescription p c)

def splitAt (m : String) (l : List String) : List String × List String :=
  (l.takeWhile (· ≠ m), (l.dropWhile (· ≠ m)).drop 1)

def judgeChain (remote : Option Desc) (out : List String) : String :=
  match out with
  | ["nosrc"] => "ok"
  | "S" :: rest =>
    match parseView rest with
    | some (s, "W" :: wt :: wp :: wf :: wc :: wpr :: wa :: wpo :: wra :: wrp :: wtcp :: wext :: "J" :: _j :: rest) =>
      match parseP rest with
      | some (p, arest) =>
        match parseA arest with
        | some a =>
          -- clause 0: the ICECandidate struct carries the same fields (ports as uint16, a host candidate has
          -- no related address, the extension string is "name value" joined by single spaces)
          let extStr := String.intercalate " " (s.exts.map (fun e => String.ofList e.key ++ " " ++ String.ofList e.value))
          let wOK := wt == s.typ && wp == s.proto && wf == hx s.found && wc == toString s.comp
            && wpr == toString s.prio && wa == hx s.addr && wpo == toString (s.port % 65536)
            && (match s.rel with
                | some (ra, rp) => wra == hx ra && wrp == toString (rp % 65536)
                | none => wra == "-" && wrp == "0")
            && wtcp == (if s.tcp == "-" then "-" else Wire.hexOfText s.tcp) && wext == Wire.hexOfText extStr
          -- clause 1: the JSON form parses back to the same candidate
          let c1 : Option String :=
            if !wOK then some "violated icecandidate-struct-mismatch"
            else if !inDomain s then none
            else match p with
              | .err => some "violated json-form-rejected"
              | .view pv => compareViews "roundtrip-mismatch" s pv
          match c1 with
          | some v =>
            -- a recorded finding must not hide a failure of the other clauses
            if (v.splitOn " ").getD 1 "" ∈ ["duplicate-extension-key-collapsed",
                "related-address-lost:zero-rport-or-empty-raddr", "tcptype-lost:non-host"] then
              let v2 := judgeAdd remote p a
              if v2 == "ok" then v else v2
            else v
          | none => judgeAdd remote p a
        | none => "bad-judge"
      | none => "bad-judge"
    | _ => "bad-judge"
  | _ => "bad-judge"

def judge (args out : List String) : String :=
  match args with
  | ["rs", pend, cur, _] | "rt" :: pend :: cur :: _ =>
    match remoteOf pend cur with
    | some remote => judgeChain remote out
    | none => "bad-judge"
  | ["add", pend, cur, _] =>
    match remoteOf pend cur, parseP out with
    | some remote, some (p, arest) =>
      match parseA arest with
      | some a => judgeAdd remote p a
      | none => "bad-judge"
    | _, _ => "bad-judge"
  | ["wc", pend, cur, typ, proto, addr, port, comp, prio, found, tcp, raddr, rport] =>
    match remoteOf pend cur, parseWc [typ, proto, addr, port, comp, prio, found, tcp, raddr, rport], out with
    | some remote, some w, "J" :: j :: rest =>
      match parseP rest with
      | some (p, arest) =>
        match parseA arest with
        | some a =>
          -- the literal, read as a candidate: a host candidate has no related address; the TCP type is the
          -- lower-case word, carried (as pion/ice does) as the leading tcptype extension
          let tcpOK := ["", "active", "passive", "so"].contains (String.ofList w.tcpType)
          let tcpTok' := if w.tcpType == [] then "-" else String.ofList w.tcpType
          let expected : View :=
            { typ := typ, proto := proto, found := w.foundation, comp := w.component, prio := w.priority,
              addr := w.address, port := w.port,
              rel := if typ == "host" then none else some (w.relatedAddress, w.relatedPort),
              tcp := tcpTok', exts := if w.tcpType == [] then [] else [⟨tcptypeKey, w.tcpType⟩] }
          -- pion/ice represents every host candidate with an mDNS / .invalid name as UDP until it is resolved:
          -- a TCP literal with such a name is not a candidate pion can represent
          let nameTcp := typ == "host" && isNameAddress w.address && proto == "tcp"
          let c1 : Option String :=
            if !(tcpOK && inDomain expected) || nameTcp then none
            else match p with
              -- "candidate:" alone = ToICE refused the literal (an address its type cannot carry): not representable
              | .err => if j == hx candidatePrefix then none else some "violated json-form-rejected"
              | .view pv => compareViews "roundtrip-mismatch" expected pv
          match c1 with
          | some v =>
            if (v.splitOn " ").getD 1 "" ∈ ["duplicate-extension-key-collapsed",
                "related-address-lost:zero-rport-or-empty-raddr", "tcptype-lost:non-host"] then
              let v2 := judgeAdd remote p a
              if v2 == "ok" then v else v2
            else v
          | none => judgeAdd remote p a
        | none => "bad-judge"
      | none => "bad-judge"
    | _, _, _ => "bad-judge"
  | "exts" :: n :: rest =>
    match n.toNat?.bind (fun n => parseExts n rest) with
    | some (exts, []) =>
      let dom := exts.all (fun e => e.key != [] && noSpace e.key && noSpace e.value && e.key != tcptypeKey)
      if !dom then (if out.head? == some "panic" then "violated panic" else "ok")
      else match out with
        | "X" :: _ :: "ok" :: "-" :: n :: rest =>
          match n.toNat?.bind (fun n => parseExts n rest) with
          | some (got, []) =>
            if got == exts then "ok"
            else if hasDupKeys exts && got == collapse [] exts then "violated duplicate-extension-key-collapsed"
            else "violated extensions-roundtrip-mismatch"
          | _ => "bad-judge"
        | _ => "violated extensions-roundtrip-mismatch"
    | _ => "bad-judge"
  | ["ext", _] => if out.head? == some "panic" then "violated panic" else "ok"
  | _ => "bad-judge"

end WebrtcVerif.Drv.C25
