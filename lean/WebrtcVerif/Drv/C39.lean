import WebrtcVerif.Base.Wire
import WebrtcVerif.Model.Config
/-! Driver handler for C39 (SetConfiguration immutability).

  op line:  `h <cfg> <op>*`
    cfg    := <peerIdentity> <certs> <bundle> <rtcpmux> <pool> <transport> <sdpsem> <always> <nsrv> <server>*
    server := <nurls> <url>* <username> <cred> <credType>
    certs  := `-` | comma list of  <i> pool certificate i · c<i> a PEM round-trip copy of it · e<i> expired ·
              a the certificate NewPeerConnection generated · z the zero Certificate{} · ? unidentified
    cred   := n nil · s<hex> string · o OAuthCredential · i some other Go type
    op     := set <f|g|s> <cfg>  |  slo  |  ans  |  close  |  scrib
              (f fresh argument · g argument built by overwriting GetConfiguration()'s result in place ·
               s fresh argument whose slices are overwritten after the call)
    texts (peer identity, urls, username, string credential) are hex of UTF-8, `-` = empty.
  output:   `I ok <cfg>` | `I err <err>`   then per op
            `S <err> <cfg>` · `L ok|err <cfg>` · `L panic` (ends the line) · `C <cfg>` · `X <cfg>`
    err    := nil | InvalidState:closed | InvalidModification:<field> | InvalidAccess:<why> | NotSupported:poolSize | other:<…>
  every <cfg> in the output is what GetConfiguration() returned after that step. -/
namespace WebrtcVerif.Drv.C39
open WebrtcVerif WebrtcVerif.Config

/-! ### tokens → values -/

def certOfTok (t : String) : Option Cert :=
  match t.toList with
  | ['a'] => some .auto
  | ['z'] => some .zero
  | ['?'] => some .unknown
  | 'e' :: r => (String.ofList r).toNat?.map .expired
  | 'c' :: r => (String.ofList r).toNat?.map .pool
  | _ => t.toNat?.map .pool

def certsOfTok (t : String) : Option (List Cert) :=
  if t == "-" then some [] else (t.splitOn ",").mapM certOfTok

def credOfTok (t : String) : Option Cred :=
  match t.toList with
  | ['n'] => some .nil
  | ['o'] => some .oauth
  | ['i'] => some .other
  | 's' :: r => (Wire.textOfHex (String.ofList r)).map .str
  | _ => none

def parseTexts : Nat → List String → Option (List String × List String)
  | 0, ts => some ([], ts)
  | n + 1, t :: ts => do
      let s ← Wire.textOfHex t
      let (tl, rest) ← parseTexts n ts
      pure (s :: tl, rest)
  | _, _ => none

def parseServers : Nat → List String → Option (List IceServer × List String)
  | 0, ts => some ([], ts)
  | n + 1, k :: ts => do
      let k ← k.toNat?
      let (urls, ts) ← parseTexts k ts
      match ts with
      | u :: c :: ct :: ts => do
          let u ← Wire.textOfHex u
          let c ← credOfTok c
          let ct ← ct.toNat?
          let (tl, rest) ← parseServers n ts
          pure ({ urls, username := u, cred := c, credType := ct } :: tl, rest)
      | _ => none
  | _, _ => none

def parseCfg : List String → Option (Cfg × List String)
  | pi :: certs :: bp :: mux :: pool :: tp :: sem :: an :: nsrv :: ts => do
      let pi ← Wire.textOfHex pi
      let certs ← certsOfTok certs
      let bp ← bp.toNat?
      let mux ← mux.toNat?
      let pool ← pool.toNat?
      let tp ← tp.toNat?
      let sem ← sem.toNat?
      let an ← Wire.tokBool an
      let n ← nsrv.toNat?
      let (servers, rest) ← parseServers n ts
      pure ({ servers, transportPolicy := tp, bundlePolicy := bp, rtcpMuxPolicy := mux, peerIdentity := pi,
              certs, poolSize := pool, sdpSemantics := sem, alwaysNegotiate := an }, rest)
  | _ => none

def modeOfTok (t : String) : Option Mode :=
  if t == "f" then some .fresh else if t == "g" then some .getModifySet
  else if t == "s" then some .scribbleAfter else none

/-- fuelled by the number of tokens (every op consumes at least one) -/
def parseOps : Nat → List String → Option (List Op)
  | _, [] => some []
  | 0, _ => none
  | f + 1, "slo" :: ts => (parseOps f ts).map (Op.slo :: ·)
  | f + 1, "ans" :: ts => (parseOps f ts).map (Op.ans :: ·)
  | f + 1, "close" :: ts => (parseOps f ts).map (Op.close :: ·)
  | f + 1, "scrib" :: ts => (parseOps f ts).map (Op.scrib :: ·)
  | f + 1, "set" :: m :: ts => do
      let m ← modeOfTok m
      let (a, rest) ← parseCfg ts
      let tl ← parseOps f rest
      pure (Op.set m a :: tl)
  | _, _ => none

def parseLine (args : List String) : Option (Cfg × List Op) :=
  match args with
  | "h" :: ts => do
      let (c, rest) ← parseCfg ts
      let ops ← parseOps (rest.length + 1) rest
      pure (c, ops)
  | _ => none

/-! ### values → tokens -/

def hexT (s : String) : String := Wire.hexOfText s

def showCert : Cert → String
  | .pool i => toString i
  | .expired i => s!"e{i}"
  | .auto => "a" | .zero => "z" | .unknown => "?"

def showCred : Cred → String
  | .nil => "n" | .oauth => "o" | .other => "i"
  | .str s => "s" ++ hexT s

def showServer (s : IceServer) : List String :=
  [toString s.urls.length] ++ s.urls.map hexT ++ [hexT s.username, showCred s.cred, toString s.credType]

def showCfg (c : Cfg) : List String :=
  [hexT c.peerIdentity,
   (if c.certs.isEmpty then "-" else String.intercalate "," (c.certs.map showCert)),
   toString c.bundlePolicy, toString c.rtcpMuxPolicy, toString c.poolSize, toString c.transportPolicy,
   toString c.sdpSemantics, Wire.boolTok c.alwaysNegotiate, toString c.servers.length]
  ++ (c.servers.map showServer).flatten

def showErr : Option Err → String
  | none => "nil"
  | some .invalidState => "InvalidState:closed"
  | some .modPeerIdentity => "InvalidModification:peerIdentity"
  | some .modCertificates => "InvalidModification:certificates"
  | some .modBundlePolicy => "InvalidModification:bundlePolicy"
  | some .modRtcpMuxPolicy => "InvalidModification:rtcpMuxPolicy"
  | some .modPoolSize => "InvalidModification:poolSize"
  | some .accessUrl => "InvalidAccess:url"
  | some .accessNoTurnCred => "InvalidAccess:noTurnCred"
  | some .accessTurnCred => "InvalidAccess:turnCred"
  | some .accessCertExpired => "InvalidAccess:certExpired"
  | some .notSupportedPool => "NotSupported:poolSize"

def showRes : Res × St → List String
  | (.set e, s) => ["S", showErr e] ++ showCfg s.cfg
  | (.sd ok, s) => ["L", if ok then "ok" else "err"] ++ showCfg s.cfg
  | (.panic, _) => ["L", "panic"]
  | (.unit, s) => ["U"] ++ showCfg s.cfg

/-- `U` is printed as `C` for close and `X` for scrib -/
def showStep (op : Op) (r : Res × St) : List String :=
  match op, showRes r with
  | .close, "U" :: tl => "C" :: tl
  | .scrib, "U" :: tl => "X" :: tl
  | _, l => l

def run (args : List String) : String :=
  match parseLine args with
  | none => "bad-op"
  | some (c0, ops) =>
    match initConfiguration stunParseURI c0 with
    | .error e => "I err " ++ showErr (some e)
    | .ok c =>
      let rs := runOps stunParseURI { cfg := c } ops
      String.intercalate " " (["I", "ok"] ++ showCfg c ++ ((ops.zip rs).map (fun (o, r) => showStep o r)).flatten)

/-! ### judge: the property evaluated on an observed history

Written from the property text; it uses no `step…`/`setConfiguration` function of the model — only the
record types, `Cert`-list equality and its own reading of "invalid ICE server". -/

/-- a server the W3C text calls invalid: some URL does not parse, or a TURN URL comes without a username,
    without a credential, or with a credential that does not fit its type -/
def serverInvalid (s : IceServer) : Bool :=
  s.urls.any (fun u =>
    match stunParseURI u with
    | none => true
    | some sch =>
      (sch == .turn || sch == .turns) &&
        (s.username == "" || s.cred == .nil ||
          !((s.credType == 0 && (match s.cred with | .str _ => true | _ => false)) ||
            (s.credType == 1 && s.cred == .oauth))))

/-- names of the fields in which two configurations differ -/
def diffFields (x y : Cfg) : List String :=
  (if x.peerIdentity != y.peerIdentity then ["peerIdentity"] else []) ++
  (if x.certs != y.certs then ["certificates"] else []) ++
  (if x.bundlePolicy != y.bundlePolicy then ["bundlePolicy"] else []) ++
  (if x.rtcpMuxPolicy != y.rtcpMuxPolicy then ["rtcpMuxPolicy"] else []) ++
  (if x.poolSize != y.poolSize then ["poolSize"] else []) ++
  (if x.transportPolicy != y.transportPolicy then ["transportPolicy"] else []) ++
  (if x.sdpSemantics != y.sdpSemantics then ["sdpSemantics"] else []) ++
  (if x.alwaysNegotiate != y.alwaysNegotiate then ["alwaysNegotiate"] else []) ++
  (if x.servers != y.servers then ["iceServers"] else [])

/-- the immutable settings the argument tries to change (zero value = "not specified") -/
def attempts (hasLocal : Bool) (b a : Cfg) : List String :=
  (if a.peerIdentity != "" && a.peerIdentity != b.peerIdentity then ["peerIdentity"] else []) ++
  (if !a.certs.isEmpty && a.certs != b.certs then ["certificates"] else []) ++
  (if a.bundlePolicy != 0 && a.bundlePolicy != b.bundlePolicy then ["bundlePolicy"] else []) ++
  (if a.rtcpMuxPolicy != 0 && a.rtcpMuxPolicy != b.rtcpMuxPolicy then ["rtcpMuxPolicy"] else []) ++
  (if hasLocal && a.poolSize != 0 && a.poolSize != b.poolSize then ["poolSize"] else [])

def immutableFields (hasLocal : Bool) : List String :=
  ["peerIdentity", "certificates", "bundlePolicy", "rtcpMuxPolicy"] ++ (if hasLocal then ["poolSize"] else [])

def errClass (e : String) : String := (e.splitOn ":").headD ""

structure JSt where
  cfg : Cfg
  closed : Bool := false
  hasLocal : Bool := false

def judgeSet (j : JSt) (a : Cfg) (e : String) (after : Cfg) : String :=
  let att := attempts j.hasLocal j.cfg a
  let badSrv := a.servers.any serverInvalid
  let d := diffFields j.cfg after
  if errClass e == "nil" then
    if j.closed then "violated closed-connection-accepted"
    else match att with
      | f :: _ => s!"violated immutable-change-accepted:{f}"
      | [] =>
        if badSrv then "violated invalid-server-accepted"
        else match d.filter (immutableFields j.hasLocal).contains with
          | f :: _ => s!"violated immutable-changed:{f}"
          | [] => "ok"
  else
    match d with
    | f :: _ =>
      if att.isEmpty && badSrv && !j.closed then s!"violated invalid-server-partial-change:{f}"
      else s!"violated rejected-call-changed-config:{f}"
    | [] =>
      if !j.closed && !att.isEmpty && errClass e != "InvalidModification" then
        s!"violated wrong-error-class:{errClass e}"
      else "ok"

def hasUnknownCert (c : Cfg) : Bool := c.certs.contains .unknown

/-- walk ops and observed records in lockstep -/
def judgeOps : JSt → List Op → List String → String
  | _, [], [] => "ok"
  | _, [], _ => "bad-judge"
  | j, op :: ops, out =>
    match op, out with
    | .set _ a, "S" :: e :: ts =>
      match parseCfg ts with
      | none => "bad-judge"
      | some (after, rest) =>
        if hasUnknownCert after then "violated unidentified-certificate" else
        match judgeSet j a e after with
        | "ok" => judgeOps { j with cfg := after } ops rest
        | v => v
    | .slo, "L" :: r :: ts | .ans, "L" :: r :: ts =>
      if r == "panic" then (if ts.isEmpty then "ok" else "bad-judge") else
      match parseCfg ts with
      | none => "bad-judge"
      | some (after, rest) =>
        match diffFields j.cfg after with
        | f :: _ => s!"violated config-changed-by-setlocaldescription:{f}"
        | [] => judgeOps { j with hasLocal := j.hasLocal || r == "ok" } ops rest
    | .close, "C" :: ts =>
      match parseCfg ts with
      | none => "bad-judge"
      | some (after, rest) =>
        match diffFields j.cfg after with
        | f :: _ => s!"violated config-changed-by-close:{f}"
        | [] => judgeOps { j with closed := true } ops rest
    | .scrib, "X" :: ts =>
      match parseCfg ts with
      | none => "bad-judge"
      | some (after, rest) =>
        match diffFields j.cfg after with
        | f :: _ => s!"violated config-changed-through-getconfiguration-result:{f}"
        | [] => judgeOps j ops rest
    | _, _ => "bad-judge"

def judge (args out : List String) : String :=
  match parseLine args with
  | none => "bad-judge"
  | some (_, ops) =>
    match out with
    | ["I", "err", _] => "ok"        -- NewPeerConnection refused the configuration: nothing to observe
    | "I" :: "ok" :: ts =>
      match parseCfg ts with
      | none => "bad-judge"
      | some (c, rest) =>
        if hasUnknownCert c then "violated unidentified-certificate" else judgeOps { cfg := c } ops rest
    | _ => "bad-judge"

end WebrtcVerif.Drv.C39
