import WebrtcVerif.Base.Wire
import WebrtcVerif.Model.Mux
/-! Driver handler for C27 (internal/mux: classification, dispatch, NewEndpoint + pending flush).

  ops:  cls <len> <b0> <b1>              → <dtls><srtp><srtcp><rtp>   bits of MatchDTLS/SRTP/SRTCP/SRTPOrSRTCP on the
                                           buffer [b0, b1, filler…] cut to <len> bytes
        clsrow <len> <b0>                → 256 hex digits: the same four bits for b1 = 0..255
        clsb <hex>                       → same bits for an arbitrary buffer
        pipe <act>…                      → <endpoints> | pend <hex,…> | loop ok|dead
              sequential script over the real readLoop (datagrams written to a net.Pipe)
              acts: d<hex> feed a datagram · n<m> NewEndpoint · N<m> NewEndpoint whose MatchFunc parks (harness yield
                    `match`) at every call made by NewEndpoint itself, i.e. inside the m.lock section (run only; in
                    pipe scripts N = n) · x<k> Endpoint.Close of the k-th endpoint ·
                    q Mux.Close · l<k>.<n> buffer limit · r<k> read one packet from endpoint k if one waits
              matchers <m>: dtls srtp srtcp rtp all g<lo>.<hi>
        run <thread spec>… sched <name>… → <name:result>… / <drain name:result>… | <endpoints> | pend … | loop … | all-fin
              thread specs (harness threads T0, T1, … in this order):
                D:<hex>,<hex>,…   the dispatcher: calls dispatch for each datagram in turn (exactly one D thread)
                E:<act>,<act>,…   a creator: the acts above except d; x/l/r refer to this thread's own endpoints
              sched: thread names to release one segment at a time, then every thread is drained (Sched.Drain)
        <endpoints> = <thread>.<k>=<m>:<hex,…>… (everything read from that endpoint, in order) or `none`

  While a creator is parked at `match` it holds m.lock: releasing another thread whose next segment takes the lock
  reports `blocked` (that segment then runs by itself as soon as the creator has left the section; its label is not
  reported, as with every woken thread); while one thread is blocked the others are not released at all (`held`),
  so that at most one thread waits for the lock and the run stays deterministic.

  The simulator maps every released segment to `Mux.lstep` actions (the core `Mux.step` system with m.lock explicit)
  and never changes the state in any other way, so every simulated run is an `LReachable` run, hence — theorem
  C27_locked_runs_are_core_runs — a `Reachable` run of the proved transition system.
-/
namespace WebrtcVerif.Drv.C27
open WebrtcVerif WebrtcVerif.Mux

/-! ### parsing -/

def fillByte (i b0 b1 : Nat) : UInt8 := UInt8.ofNat ((0xA0 + i + 7 * b0 + 13 * b1) % 256)

def mkBuf (n b0 b1 : Nat) : Pkt :=
  (List.range n).map (fun i => if i == 0 then UInt8.ofNat b0 else if i == 1 then UInt8.ofNat b1 else fillByte i b0 b1)

def parseMatcher (t : String) : Option Matcher :=
  match t with
  | "dtls" => some .dtls
  | "srtp" => some .srtp
  | "srtcp" => some .srtcp
  | "rtp" => some .rtpOrRtcp
  | "all" => some .all
  | _ =>
    match t.toList with
    | 'g' :: r =>
      match ((String.ofList r).splitOn ".").mapM String.toNat? with
      | some [lo, hi] => if lo < 256 && hi < 256 then some (.range (UInt8.ofNat lo) (UInt8.ofNat hi)) else none
      | _ => none
    | _ => none

inductive Act
  | feed (d : Pkt)
  | new (tok : String) (m : Matcher)
  | newPark (tok : String) (m : Matcher)
  | close (k : Nat)
  | muxClose
  | limit (k n : Nat)
  | read (k : Nat)
  deriving Repr

def parseAct (a : String) : Option Act :=
  match a.toList with
  | 'd' :: r => (Wire.bytesOfHex (String.ofList r)).map .feed
  | 'n' :: r => (parseMatcher (String.ofList r)).map (.new (String.ofList r))
  | 'N' :: r => (parseMatcher (String.ofList r)).map (.newPark (String.ofList r))
  | 'x' :: r => (String.ofList r).toNat?.map .close
  | ['q'] => some .muxClose
  | 'l' :: r =>
    match ((String.ofList r).splitOn ".").mapM String.toNat? with
    | some [k, n] => if n ≥ 1 then some (.limit k n) else none
    | _ => none
  | 'r' :: r => (String.ofList r).toNat?.map .read
  | _ => none

def commaList (s : String) : List String := (s.splitOn ",").filter (· ≠ "")

def hexList (l : List Pkt) : String :=
  if l.isEmpty then "-" else String.intercalate "," (l.map Wire.hexOfBytes)

def bits (b : Pkt) : String :=
  Wire.boolTok (matchDTLS b) ++ Wire.boolTok (matchSRTP b) ++ Wire.boolTok (matchSRTCP b) ++ Wire.boolTok (matchSRTPOrSRTCP b)

/-- the four bits as one hex digit (clsrow) -/
def nibble (b : Pkt) : Char :=
  Wire.hexDigit ((if matchDTLS b then 8 else 0) + (if matchSRTP b then 4 else 0) + (if matchSRTCP b then 2 else 0) +
    (if matchSRTPOrSRTCP b then 1 else 0))

/-! ### simulator -/

inductive TPc
  | disp (todo : List Pkt)
  | dispFound (rest : List Pkt)
  | acts (todo : List Act)
  | afterReg (rest : List Act)
  | flushing (tok : String) (rest : List Act)   -- inside NewEndpoint's locked section, parked at a `match` call
  | closing (idx : Nat) (rest : List Act)
  | fin
  deriving Repr

structure Sim where
  lcore : LSt := {}
  holder : Option Nat := none       -- the thread parked at `match` (it holds m.lock)
  waiter : Option Nat := none       -- the thread that was released meanwhile and is blocked on m.lock
  tpcs : List TPc := []
  own : List (List Nat) := []       -- per thread: core indices of the endpoints it created
  toks : List String := []          -- per core endpoint: its matcher token
  obs : List (List Pkt) := []       -- per core endpoint: what `r` acts have read
  deriving Repr

def Sim.core (sim : Sim) : St := sim.lcore.st

def lact (sim : Sim) (a : LAction) : Sim :=
  match lstep sim.lcore a with
  | some c => { sim with lcore := c }
  | none => sim

def act (sim : Sim) (a : Action) : Sim := lact sim (.free a)

def setT (sim : Sim) (i : Nat) (pc : TPc) : Sim := { sim with tpcs := sim.tpcs.set i pc }

/-- what the map iteration of `dispatch` finds: the generated programs keep the registered matchers
    pairwise exclusive, so at most one endpoint matches; otherwise take the first -/
def findTarget (s : St) (d : Pkt) : Option Nat :=
  (List.range s.eps.length).find? (fun k => match s.eps[k]? with
    | some e => e.registered && e.m.eval d
    | none => false)

/-- first critical section of dispatch; returns true when an endpoint was found (write still to come) -/
def lookup (sim : Sim) (d : Pkt) : Sim × Bool :=
  if d.isEmpty then (act sim (.arrive d none), false)
  else match findTarget sim.core d with
    | some k => (act sim (.arrive d (some k)), true)
    | none => (act sim (.arrive d none), false)

def ownIdx (sim : Sim) (i k : Nat) : Option Nat := ((sim.own[i]?).getD [])[k]?

/-- one creator act that completes within the segment; `none` for the two acts that park at a library yield -/
def simpleAct (sim : Sim) (i : Nat) : Act → Sim
  | .muxClose => act sim .muxClose
  | .limit k n => match ownIdx sim i k with
    | some idx => act sim (.setLimit idx n)
    | none => sim
  | .read k => match ownIdx sim i k with
    | some idx =>
      match sim.core.eps[idx]? with
      | some e =>
        match e.got[e.nread]? with
        | some d =>
          let sim := act sim (.read idx)
          { sim with obs := sim.obs.set idx ((sim.obs[idx]?).getD [] ++ [d.data]) }
        | none => sim
      | none => sim
    | none => sim
  | _ => sim

def bookEp (sim : Sim) (i idx : Nat) (tok : String) : Sim :=
  { sim with own := sim.own.set i ((sim.own[i]?).getD [] ++ [idx]), toks := sim.toks ++ [tok], obs := sim.obs ++ [[]] }

def newEp (sim : Sim) (i : Nat) (tok : String) (m : Matcher) : Sim :=
  let idx := sim.core.eps.length
  bookEp (act sim (.newEndpoint m)) i idx tok

/-- the creator leaves NewEndpoint's locked section: the core `newEndpoint` action happens here -/
def leaveEp (sim : Sim) (i : Nat) (tok : String) : Sim :=
  let idx := sim.core.eps.length
  bookEp { (lact sim (.leave i)) with holder := none } i idx tok

def cont (sim : Sim) (i : Nat) (rest : List Act) : String × Sim :=
  if rest.isEmpty then ("fin", setT sim i .fin) else ("act", setT sim i (.acts rest))

/-- one released segment of harness thread `i` -/
def segT (sim : Sim) (i : Nat) : TPc → String × Sim
  | .fin => ("skip", sim)
  | .disp [] => ("fin", setT sim i .fin)
  | .disp (d :: rest) =>
      let (sim, found) := lookup sim d
      if found then ("mux.dispatch.found", setT sim i (.dispFound rest))
      else if rest.isEmpty then ("fin", setT sim i .fin) else ("next", setT sim i (.disp rest))
  | .dispFound rest =>
      let sim := act sim .write
      if sim.core.loopDead || rest.isEmpty then ("fin", setT sim i .fin) else ("next", setT sim i (.disp rest))
  | .acts [] => ("fin", setT sim i .fin)
  | .acts (a :: rest) =>
      match a with
      | .new tok m => ("mux.ep.registered", setT (newEp sim i tok m) i (.afterReg rest))
      | .newPark tok m =>
        let sim := lact sim (.enter i m)
        if sim.core.pending.isEmpty then ("mux.ep.registered", setT (leaveEp sim i tok) i (.afterReg rest))
        else ("match", setT { (lact sim (.matchCall i)) with holder := some i } i (.flushing tok rest))
      | .close k =>
        match ownIdx sim i k with
        | some idx => ("mux.ep.closing", setT (act sim (.epClose idx)) i (.closing idx rest))
        | none => cont sim i rest
      | .feed _ => cont sim i rest
      | a => cont (simpleAct sim i a) i rest
  | .afterReg rest => cont sim i rest
  | .flushing tok rest =>
      match sim.lcore.holder with
      | some (_, _, _ + 1) => ("match", lact sim (.matchCall i))
      | _ => ("mux.ep.registered", setT (leaveEp sim i tok) i (.afterReg rest))
  | .closing idx rest => cont (act sim (.remove idx)) i rest

/-- does the next segment of a thread in this state begin by taking m.lock? -/
def needsLock : TPc → Bool
  | .disp (d :: _) => !d.isEmpty
  | .acts (.new _ _ :: _) => true
  | .acts (.newPark _ _ :: _) => true
  | .acts (.muxClose :: _) => true
  | .closing _ _ => true
  | _ => false

/-- the holder has left the locked section: the thread blocked on m.lock (if any) runs its segment by itself -/
def wake (sim : Sim) : Sim :=
  if sim.holder.isSome then sim else
  match sim.waiter with
  | none => sim
  | some w =>
    let sim := { sim with waiter := none }
    match sim.tpcs[w]? with
    | some pc => (segT sim w pc).2
    | none => sim

def isFinPc : TPc → Bool
  | .fin => true
  | _ => false

def parseName (n : String) : Option Nat :=
  match n.toList with
  | 'T' :: r => (String.ofList r).toNat?
  | _ => none

def stepName (sim : Sim) (n : String) : String × Sim :=
  match parseName n with
  | some i =>
    match sim.tpcs[i]? with
    | some pc =>
      if sim.waiter == some i then ("skip", sim)
      else match sim.holder with
        | some h =>
          if h == i then
            let (r, sim') := segT sim i pc
            (r, wake sim')
          else if isFinPc pc then ("skip", sim)
          else if sim.waiter.isSome then ("held", sim)
          else if needsLock pc then ("blocked", { sim with waiter := some i })
          else segT sim i pc
        | none => segT sim i pc
    | none => ("skip", sim)
  | none => ("skip", sim)

def isFin : TPc → Bool
  | .fin => true
  | _ => false

/-- the drain of the harness: passes over all threads; an unfinished thread that is not waiting for m.lock is
    released once per pass; stop when a pass moves nobody -/
def drain : Nat → Sim → List String → Sim × List String
  | 0, sim, ev => (sim, ev)
  | fuel + 1, sim, ev =>
    if ev.length ≥ 400 then (sim, ev) else
    let (sim', ev', prog) := (List.range sim.tpcs.length).foldl (fun (acc : Sim × List String × Bool) i =>
      let (sm, e, p) := acc
      match sm.tpcs[i]? with
      | some pc => if isFin pc || sm.waiter == some i then acc else
          let (r, sm') := stepName sm s!"T{i}"
          (sm', e ++ [s!"T{i}:{r}"], p || (r != "held" && r != "skip" && r != "blocked"))
      | none => (sm, e, p)) (sim, [], false)
    if prog then drain fuel sim' (ev ++ ev') else (sim', ev ++ ev')

def epLine (sim : Sim) (tname : String) (i : Nat) : List String :=
  let idxs := (sim.own[i]?).getD []
  (List.range idxs.length).filterMap (fun k =>
    match idxs[k]? with
    | some idx =>
      match sim.core.eps[idx]? with
      | some e =>
        let all := (sim.obs[idx]?).getD [] ++ (e.got.drop e.nread).map (·.data)
        some s!"{tname}.{k}={(sim.toks[idx]?).getD "?"}:{hexList all}"
      | none => none
    | none => none)

def finalOut (sim : Sim) (names : List String) : String :=
  let eps := (List.range names.length).flatMap (fun i => epLine sim ((names[i]?).getD "?") i)
  let eps := if eps.isEmpty then ["none"] else eps
  String.intercalate " " eps ++ " | pend " ++ hexList (sim.core.pending.map (·.data))

def loopTok (sim : Sim) : String := if sim.core.loopDead then "dead" else "ok"

/-- sequential script over the real readLoop -/
def runPipe (acts : List Act) : String :=
  let sim0 : Sim := { tpcs := [.fin], own := [[]] }
  let (sim, _) := acts.foldl (fun (acc : Sim × Bool) a =>
    let (sim, closed) := acc
    match a with
    | .feed d =>
      if closed || sim.core.loopDead then acc else
      let (sim, found) := lookup sim d
      (if found then act sim .write else sim, closed)
    | .new tok m => (newEp sim 0 tok m, closed)
    | .newPark tok m => (newEp sim 0 tok m, closed)
    | .close k =>
      match ownIdx sim 0 k with
      | some idx => (act (act sim (.epClose idx)) (.remove idx), closed)
      | none => acc
    | .muxClose => (act sim .muxClose, true)
    | a => (simpleAct sim 0 a, closed)) (sim0, false)
  finalOut sim ["P"] ++ " | loop " ++ loopTok sim

structure Prog where
  specs : List String
  sched : List String

def parseProg (rest : List String) : Prog :=
  { specs := rest.takeWhile (· ≠ "sched"), sched := (rest.dropWhile (· ≠ "sched")).drop 1 }

def initSim (p : Prog) : Option Sim := do
  let mut tpcs : List TPc := []
  let mut nD := 0
  for sp in p.specs do
    match sp.toList with
    | 'D' :: ':' :: r =>
        let pk ← (commaList (String.ofList r)).mapM Wire.bytesOfHex
        tpcs := tpcs ++ [.disp pk]
        nD := nD + 1
    | 'E' :: ':' :: r =>
        let as ← (commaList (String.ofList r)).mapM parseAct
        if as.any (fun a => match a with | .feed _ => true | _ => false) then none
        tpcs := tpcs ++ [.acts as]
    | _ => none
  if nD > 1 then none
  pure { tpcs, own := tpcs.map (fun _ => []) }

def run (args : List String) : String :=
  match args with
  | ["cls", n, b0, b1] =>
    match Wire.natList [n, b0, b1] with
    | some [n, b0, b1] => if n ≤ 70000 && b0 < 256 && b1 < 256 then bits (mkBuf n b0 b1) else "bad-op"
    | _ => "bad-op"
  | ["clsrow", n, b0] =>
    match Wire.natList [n, b0] with
    | some [n, b0] =>
      if n ≤ 70000 && b0 < 256 then String.ofList ((List.range 256).map (fun b1 => nibble (mkBuf n b0 b1))) else "bad-op"
    | _ => "bad-op"
  | ["clsb", h] =>
    match Wire.bytesOfHex h with
    | some b => bits b
    | none => "bad-op"
  | "pipe" :: acts =>
    match acts.mapM parseAct with
    | some as => runPipe as
    | none => "bad-op"
  | "run" :: rest =>
    let p := parseProg rest
    match initSim p with
    | none => "bad-op"
    | some sim0 =>
      let (sim1, ev1) := p.sched.foldl (fun (acc : Sim × List String) n =>
        let (r, s') := stepName acc.1 n
        (s', acc.2 ++ [s!"{n}:{r}"])) (sim0, [])
      let (sim2, ev2) := drain 400 sim1 []
      let names := (List.range sim2.tpcs.length).map (fun i => s!"T{i}")
      let stuck := names.filter (fun n => match parseName n with
        | some i => match sim2.tpcs[i]? with | some pc => !isFin pc | none => false
        | none => false)
      String.intercalate " " (ev1 ++ ["/"] ++ ev2) ++ " | " ++ finalOut sim2 names ++ " | loop " ++ loopTok sim2 ++ " | " ++
        (if stuck.isEmpty then "all-fin" else "stuck:" ++ String.intercalate "," stuck)
  | _ => "bad-op"

/-! ### judge — the property on an observed output, written from the property text (RFC 7983 ranges on raw
    bytes, arrival order from the op line and the observed events); it does not use the model's functions -/

def byteIn (lo hi : Nat) : Pkt → Bool
  | [] => false
  | b :: _ => lo ≤ b.toNat && b.toNat ≤ hi

def specRtcp (p : Pkt) : Bool :=
  match p with
  | _ :: b1 :: _ :: _ :: _ => 192 ≤ b1.toNat && b1.toNat ≤ 223
  | _ => false

/-- does the class named by the matcher token contain this datagram? -/
def specMatch (tok : String) (p : Pkt) : Bool :=
  match tok with
  | "dtls" => byteIn 20 63 p
  | "srtp" => byteIn 128 191 p && !specRtcp p
  | "srtcp" => byteIn 128 191 p && specRtcp p
  | "rtp" => byteIn 128 191 p
  | "all" => true
  | _ =>
    match tok.toList with
    | 'g' :: r =>
      match ((String.ofList r).splitOn ".").mapM String.toNat? with
      | some [lo, hi] => byteIn lo hi p
      | _ => false
    | _ => false

def specBits (p : Pkt) : String :=
  Wire.boolTok (specMatch "dtls" p) ++ Wire.boolTok (specMatch "srtp" p) ++ Wire.boolTok (specMatch "srtcp" p) ++
    Wire.boolTok (specMatch "rtp" p)

def judgeBits (p : Pkt) (out : List String) : String :=
  match out with
  | [o] =>
    match o.toList with
    | [d, r, c, b] =>
      let n := [d, r, c].filter (· == '1') |>.length
      if ![d, r, c, b].all (fun x => x == '0' || x == '1') then "bad-judge"
      else if n > 1 then "violated classes-overlap"
      else if o == specBits p then "ok" else "violated not-rfc7983-class"
    | _ => "bad-judge"
  | _ => "bad-judge"

def splitBar (l : List String) : List (List String) :=
  l.foldr (fun t acc => if t == "|" then [] :: acc else match acc with | h :: tl => (t :: h) :: tl | [] => [[t]]) [[]]

structure EpObs where
  name : String
  tok : String
  got : List Pkt

def parseEpObs (t : String) : Option EpObs :=
  match t.splitOn "=" with
  | [name, r] =>
    match r.splitOn ":" with
    | [tok, l] =>
      if l == "-" then some { name, tok, got := [] }
      else ((l.splitOn ",").mapM Wire.bytesOfHex).map (fun g => { name, tok, got := g })
    | _ => none
  | _ => none

def parseHexList (l : String) : Option (List Pkt) :=
  if l == "-" then some [] else (l.splitOn ",").mapM Wire.bytesOfHex

/-- is `l` a subsequence of `arr`? -/
def isSubseq : List Pkt → List Pkt → Bool
  | [], _ => true
  | _ :: _, [] => false
  | x :: xs, a :: as => if x == a then isSubseq xs as else isSubseq (x :: xs) as

def count (p : Pkt) (l : List Pkt) : Nat := (l.filter (· == p)).length

/-- position of the first inversion: (x, y) adjacent-or-not with x before y in `l` but y arriving earlier -/
def firstInversion (arr l : List Pkt) : Option (Nat × Nat) :=
  let idx (p : Pkt) : Nat := (arr.findIdx? (· == p)).getD arr.length
  let pairs := (List.range l.length).flatMap (fun i => (List.range l.length).filterMap (fun j =>
    if i < j then match l[i]?, l[j]? with
      | some x, some y => if idx y < idx x then some (idx x, idx y) else none
      | _, _ => none
    else none))
  pairs.head?

/-- from the observed events: for every endpoint name, how many datagrams the dispatcher had looked up when the
    endpoint's creation segment completed.  Dispatcher results: `mux.dispatch.found` = one more lookup (write to
    come); `next`/`fin` directly after a non-`found` result = one more lookup; after `found` = the write. -/
def regPositions (specs : List String) (events : List (String × String)) : List (String × Nat) :=
  let dIdx := (List.range specs.length).find? (fun i => ((specs[i]?).getD "").startsWith "D:")
  let dName := match dIdx with | some i => s!"T{i}" | none => ""
  let (_, _, _, _, acc) := events.foldl
    (fun (st : Nat × Bool × List (String × Nat) × List String × List (String × Nat)) ev =>
    let (looked, afterFound, created, inReg, acc) := st
    let (n, r) := ev
    let kOf := ((created.find? (·.1 == n)).map (·.2)).getD 0
    if n == dName then
      if r == "mux.dispatch.found" then (looked + 1, true, created, inReg, acc)
      else if r == "next" || r == "fin" then
        if afterFound then (looked, false, created, inReg, acc) else (looked + 1, false, created, inReg, acc)
      else if r == "blocked" then (looked + 1, false, created, inReg, acc)   -- its lookup runs when the lock is free
      else st
    else if r == "match" then
      -- first park inside NewEndpoint: the endpoint is being registered now
      if inReg.contains n then st else (looked, afterFound, created, n :: inReg, acc ++ [(s!"{n}.{kOf}", looked)])
    else if r == "mux.ep.registered" then
      let created' := (n, kOf + 1) :: created.filter (·.1 != n)
      if inReg.contains n then (looked, afterFound, created', inReg.filter (· != n), acc)
      else (looked, afterFound, created', inReg, acc ++ [(s!"{n}.{kOf}", looked)])
    else st) (0, false, [], [], [])
  acc

def judgeDelivery (arr : List Pkt) (plain : Bool) (regPos : List (String × Nat)) (eps : List EpObs) (pend : List Pkt)
    (loop : String) : String :=
  -- J1: an endpoint only receives datagrams of its class
  match eps.find? (fun e => e.got.any (fun p => !specMatch e.tok p)) with
  | some e => s!"violated wrong-endpoint {e.name}"
  | none =>
  let delivered := eps.flatMap (·.got)
  -- J2: nothing is invented
  if delivered.any (fun p => count p arr == 0) then "violated phantom-datagram" else
  -- J3: each datagram reaches at most one endpoint, at most once
  if (delivered ++ pend).any (fun p => count p (delivered ++ pend) > count p arr) then "violated duplicated-delivery" else
  -- J4: every endpoint reads its datagrams in arrival order
  match eps.find? (fun e => !isSubseq e.got arr) with
  | some e =>
    let rp := ((regPos.find? (·.1 == e.name)).map (·.2)).getD 0
    match firstInversion arr e.got with
    | some (ix, iy) => if iy < rp && rp ≤ ix then s!"violated pending-after-direct {e.name}" else s!"violated out-of-order {e.name}"
    | none => s!"violated out-of-order {e.name}"
  | none =>
  -- J5 (programs that only create endpoints): a datagram of an endpoint's class is not lost, unless the pending
  -- queue may have been full (15 or more datagrams arrived before it) or it is larger than any UDP datagram
  -- (the packet buffer refuses 64 KiB and more)
  if plain && loop == "ok" then
    let lostOne := (List.range arr.length).find? (fun i =>
      match arr[i]? with
      | some p =>
        !p.isEmpty && p.length < 65536 && i < 15 && eps.any (fun e => specMatch e.tok p) &&
          count p delivered < count p (arr.take 15)
      | none => false)
    match lostOne with
    | some i => s!"violated lost-datagram {i}"
    | none => "ok"
  else "ok"

def actsPlain (as : List Act) : Bool :=
  as.all (fun a => match a with | .feed _ | .new _ _ | .newPark _ _ | .read _ => true | _ => false)

def judge (args out : List String) : String :=
  match args with
  | ["cls", n, b0, b1] =>
    match Wire.natList [n, b0, b1] with
    | some [n, b0, b1] => judgeBits (mkBuf n b0 b1) out
    | _ => "bad-judge"
  | ["clsrow", n, b0] =>
    match Wire.natList [n, b0], out with
    | some [n, b0], [row] =>
      let digits := row.toList
      if digits.length != 256 then "bad-judge" else
      let verdicts := (List.range 256).map (fun b1 =>
        match (digits[b1]?).bind Wire.hexVal with
        | some v =>
          let o := String.ofList [if v / 8 % 2 == 1 then '1' else '0', if v / 4 % 2 == 1 then '1' else '0',
            if v / 2 % 2 == 1 then '1' else '0', if v % 2 == 1 then '1' else '0']
          (b1, judgeBits (mkBuf n b0 b1) [o])
        | none => (b1, "bad-judge"))
      match verdicts.find? (fun v => v.2 != "ok") with
      | some (b1, v) => s!"{v} b1={b1}"
      | none => "ok"
    | _, _ => "bad-judge"
  | ["clsb", h] =>
    match Wire.bytesOfHex h with
    | some b => judgeBits b out
    | none => "bad-judge"
  | "pipe" :: acts =>
    match acts.mapM parseAct, splitBar out with
    | some as, [epsT, "pend" :: [pendT], ["loop", loop]] =>
      let fed := as.takeWhile (fun a => match a with | .muxClose => false | _ => true)
      let arr := fed.filterMap (fun a => match a with | .feed d => some d | _ => none)
      -- creation positions: number of feeds before each `n` act
      let (_, _, regPos) := as.foldl (fun (st : Nat × Nat × List (String × Nat)) a =>
        let (fedN, k, acc) := st
        match a with
        | .feed _ => (fedN + 1, k, acc)
        | .new _ _ => (fedN, k + 1, acc ++ [(s!"P.{k}", fedN)])
        | .newPark _ _ => (fedN, k + 1, acc ++ [(s!"P.{k}", fedN)])
        | _ => st) (0, 0, [])
      match (if epsT == ["none"] then some [] else epsT.mapM parseEpObs), parseHexList pendT with
      | some eps, some pend => judgeDelivery arr (actsPlain as) regPos eps pend loop
      | _, _ => "bad-judge"
    | _, _ => "bad-judge"
  | "run" :: rest =>
    let p := parseProg rest
    match splitBar out with
    | [evs, epsT, "pend" :: [pendT], ["loop", loop], [st]] =>
      if st != "all-fin" then "violated thread-stuck" else
      let events := (evs.filter (· ≠ "/")).filterMap (fun e => match e.splitOn ":" with | [n, r] => some (n, r) | _ => none)
      let arr := p.specs.flatMap (fun sp => match sp.toList with
        | 'D' :: ':' :: r => ((commaList (String.ofList r)).filterMap Wire.bytesOfHex)
        | _ => [])
      let plain := p.specs.all (fun sp => match sp.toList with
        | 'E' :: ':' :: r => match (commaList (String.ofList r)).mapM parseAct with
          | some as => actsPlain as
          | none => false
        | _ => true)
      match (if epsT == ["none"] then some [] else epsT.mapM parseEpObs), parseHexList pendT with
      | some eps, some pend => judgeDelivery arr plain (regPositions p.specs events) eps pend loop
      | _, _ => "bad-judge"
    | _ => "bad-judge"
  | _ => "bad-judge"

end WebrtcVerif.Drv.C27
