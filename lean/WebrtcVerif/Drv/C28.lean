import WebrtcVerif.Base.Wire
import WebrtcVerif.Model.SampleTrack
/-! Driver handler for C28 (TrackLocalStaticSample.WriteSample).
  op:   `seq <payloader> <clockRate> <ts0> <seq0> <nops> <op>*`
        payloader = `opus` | `g7` | `vp8` | `c<k>`      (c<k>: the harness's own payloader, chunks of k bytes; c0: none)
        op        = `S <durNanos> <dataLen> <prevDropped>`   WriteSample
                  | `P <k>`                                  GeneratePadding(k)
                  | `B` | `U`                                Bind a further context | Unbind the latest further context
  out:  one segment per op, separated by `|`:
        S, P → `<n> {<seq> <ts>}^n`    the packets the first bound writer received, in order
        B → `b`, U → `u`
  `run` evaluates the model with the binary64 arithmetic (`SampleTrack.f64`) — what the Go code computes,
  bit for bit — so the comparison with the implementation is exact.  `judge` evaluates the property
  against exact integer arithmetic with the property's own tolerance: each sample's timestamp within one
  tick of ts0 + ⌊total·rate/10⁹⌋ (mod 2^32); the bound is on the distance to the exact total, so it cannot
  accumulate.
-/
namespace WebrtcVerif.Drv.C28
open WebrtcVerif WebrtcVerif.SampleTrack

inductive POp
  | sample (dur len dropped : Nat)
  | padding (k : Nat)
  | bind
  | unbind

def parsePayloader (s : String) : Option Payloader :=
  if s == "opus" then some .opus
  else if s == "g7" then some .g7xx
  else if s == "vp8" then some .vp8
  else match s.toList with
    | 'c' :: rest => (String.ofList rest).toNat?.map .chunk
    | _ => none

def parseOps : Nat → List String → Option (List POp)
  | 0, [] => some []
  | n + 1, "S" :: d :: l :: dr :: rest => do
    let d ← d.toNat?; let l ← l.toNat?; let dr ← dr.toNat?
    let tl ← parseOps n rest
    pure (.sample d l dr :: tl)
  | n + 1, "P" :: k :: rest => do
    let k ← k.toNat?
    let tl ← parseOps n rest
    pure (.padding k :: tl)
  | n + 1, "B" :: rest => do let tl ← parseOps n rest; pure (.bind :: tl)
  | n + 1, "U" :: rest => do let tl ← parseOps n rest; pure (.unbind :: tl)
  | _, _ => none

structure Hist where
  pay : Payloader
  rate : Nat
  ts0 : Nat
  seq0 : Nat
  ops : List POp

def parseHist (args : List String) : Option Hist :=
  match args with
  | "seq" :: pay :: rate :: ts0 :: seq0 :: n :: rest => do
    let pay ← parsePayloader pay
    let rate ← rate.toNat?; let ts0 ← ts0.toNat?; let seq0 ← seq0.toNat?; let n ← n.toNat?
    let ops ← parseOps n rest
    pure { pay, rate, ts0, seq0, ops }
  | _ => none

def showPkts (ps : List Pkt) : String :=
  String.intercalate " " (toString ps.length :: (ps.map (fun p => s!"{p.seq} {p.ts}")))

def runOps {R : Type} (A : Arith R) (pay : Payloader) : St R → Nat → List POp → List String
  | _, _, [] => []
  | s, pid, .sample d l dr :: rest =>
    let (n, pid') := payloadCount pay pid l
    let r := writeSample A s { dur := d, dropped := dr, n }
    showPkts r.2 :: runOps A pay r.1 pid' rest
  | s, pid, .padding k :: rest =>
    let r := generatePadding s k
    showPkts r.2 :: runOps A pay r.1 pid rest
  | s, pid, .bind :: rest => "b" :: runOps A pay (step A s .rebind).1 pid rest
  | s, pid, .unbind :: rest => "u" :: runOps A pay (step A s .rebind).1 pid rest

def run (args : List String) : String :=
  match parseHist args with
  | none => "bad-op"
  | some h => String.intercalate " | " (runOps f64 h.pay (init f64 h.rate h.ts0 h.seq0) 0 h.ops)

/-! ### judge -/

def splitSegs : List String → List (List String)
  | [] => [[]]
  | t :: ts =>
    if t == "|" then [] :: splitSegs ts
    else match splitSegs ts with
      | [] => [[t]]
      | h :: tl => (t :: h) :: tl

def pairs : List Nat → Option (List (Nat × Nat))
  | [] => some []
  | a :: b :: rest => (pairs rest).map ((a, b) :: ·)
  | _ => none

def parsePkts (seg : List String) : Option (List (Nat × Nat)) :=
  match Wire.natList seg with
  | some (n :: rest) => (pairs rest).bind (fun ps => if ps.length == n then some ps else none)
  | _ => none

/-- `a` within one of `b` modulo `m` -/
def near (a b m : Nat) : Bool :=
  let d := (a % m + m - b % m) % m
  d == 0 || d == 1 || d + 1 == m

/-- consecutive mod 2^16 starting at `first` -/
def consecutive (first : Nat) : List Nat → Bool
  | [] => true
  | s :: rest => s == first % M16 && consecutive (first + 1) rest

/-- `cnt` = sequence numbers consumed so far (seq0 + packets seen + drops), `nanos` = nominal duration
    accounted for so far — both computed from the op line and the *observed* packet counts. -/
def judgeOps (rate ts0 : Nat) : List POp → List (List String) → (cnt nanos : Nat) → (big : Bool) → String
  | [], [], _, _, _ => "ok"
  | .sample d _ dr :: ops, seg :: segs, cnt, nanos, big =>
    -- binary64 holds integers exactly only up to 2^53: a single sample of 2^50 ticks or more is reported
    -- under its own key
    let big := big || (d * rate * dr) / G ≥ 2 ^ 50 || (d * rate) / G ≥ 2 ^ 50
    match parsePkts seg with
    | none => "bad-judge"
    | some ps =>
      let seqs := ps.map (·.1)
      let tss := ps.map (·.2)
      -- sentence 1
      if !(tss.all (fun t => some t == tss.head?)) then "violated timestamp-differs-within-sample"
      -- sentence 3
      else if !consecutive (cnt + dr) seqs then
        (if dr > 0 && consecutive cnt seqs then "violated dropped-packets-not-skipped"
         else "violated sequence-not-consecutive")
      else
        -- sentence 2
        let want := ts0 + ((nanos + d * dr) * rate) / G
        match tss.head? with
        | some t =>
          if t ≥ M32 then "violated timestamp-out-of-range"
          else if near t want M32 then judgeOps rate ts0 ops segs (cnt + dr + ps.length) (nanos + d * dr + d) big
          else if big then "violated timestamp-drift:sample-beyond-2^50-ticks"
          else if dr > 0 && near t (ts0 + (nanos * rate) / G) M32 then "violated dropped-duration-not-skipped"
          else "violated timestamp-drift"
        | none => judgeOps rate ts0 ops segs (cnt + dr + ps.length) (nanos + d * dr + d) big
  | .padding _ :: ops, seg :: segs, cnt, nanos, big =>
    match parsePkts seg with
    | none => "bad-judge"
    | some ps =>
      if !consecutive cnt (ps.map (·.1)) then "violated sequence-not-consecutive"
      else judgeOps rate ts0 ops segs (cnt + ps.length) nanos big
  | .bind :: ops, ["b"] :: segs, cnt, nanos, big => judgeOps rate ts0 ops segs cnt nanos big
  | .unbind :: ops, ["u"] :: segs, cnt, nanos, big => judgeOps rate ts0 ops segs cnt nanos big
  | _, _, _, _, _ => "bad-judge"

def judge (args out : List String) : String :=
  match parseHist args with
  | none => "bad-judge"
  | some h => judgeOps h.rate h.ts0 h.ops (if h.ops.isEmpty then [] else splitSegs out) h.seq0 0 false

end WebrtcVerif.Drv.C28
