import WebrtcVerif.Base.Wire
import WebrtcVerif.Model.SampleTrack
/-! Driver handler for C28 (TrackLocalStaticSample.WriteSample).
  op:   `seq <payloader> <clockRate> <ts0|r> <seq0|r> <nops> <op>*`
        payloader = `opus` | `g7` | `vp8` | `c<k>`      (c<k>: the harness's own payloader, chunks of k bytes; c0: none)
        ts0 / seq0 = a number: the track is created with WithRTPTimestamp / WithRTPSequenceNumber;
                     `r`: without that option (pion/rtp picks a random initial value)
        op        = `S <durNanos> <dataLen> <prevDropped>`   WriteSample
                  | `P <k>`                                  GeneratePadding(k)
                  | `B` | `U`                                Bind a further context | Unbind the latest further context
                  | `R`                                      Unbind the observed context and Bind it again
  out:  `first <seq|r|-> <ts|r|->` then one segment per op, all separated by `|`:
        first: sequence number / timestamp of the first packet of the history when the initial value was
               fixed by the option, `r` when it was random, `-` when the history produced no packet
        S, P → `<n> {<seq> <ts>}^n`    the packets the observed writer received, in order, each value RELATIVE to
                                       the first packet of the history (mod 2^16 / mod 2^32)
        B → `b`, U → `u`, R → `rb`
  (Props/C28.C28_initial_values_shift: the relative values do not depend on the initial ones.)
  `run` evaluates the model with the binary64 arithmetic (`SampleTrack.f64`) — what the Go code computes,
  bit for bit — so the comparison with the implementation is exact.  `judge` evaluates the property
  against exact integer arithmetic with the property's own tolerance: each sample's timestamp within one
  tick of ts0 + ⌊total·rate/10⁹⌋ (mod 2^32); the bound is on the distance to the exact total, so it cannot
  accumulate.
-/
namespace WebrtcVerif.Drv.C28
open WebrtcVerif WebrtcVerif.SampleTrack

inductive POp
  | sample (dur len dropped : Nat)
  | padding (k : Nat)
  | bind
  | unbind
  | rebindPrimary

def parsePayloader (s : String) : Option Payloader :=
  if s == "opus" then some .opus
  else if s == "g7" then some .g7xx
  else if s == "vp8" then some .vp8
  else match s.toList with
    | 'c' :: rest => (String.ofList rest).toNat?.map .chunk
    | _ => none

def parseOps : Nat → List String → Option (List POp)
  | 0, [] => some []
  | n + 1, "S" :: d :: l :: dr :: rest => do
    let d ← d.toNat?; let l ← l.toNat?; let dr ← dr.toNat?
    let tl ← parseOps n rest
    pure (.sample d l dr :: tl)
  | n + 1, "P" :: k :: rest => do
    let k ← k.toNat?
    let tl ← parseOps n rest
    pure (.padding k :: tl)
  | n + 1, "B" :: rest => do let tl ← parseOps n rest; pure (.bind :: tl)
  | n + 1, "U" :: rest => do let tl ← parseOps n rest; pure (.unbind :: tl)
  | n + 1, "R" :: rest => do let tl ← parseOps n rest; pure (.rebindPrimary :: tl)
  | _, _ => none

structure Hist where
  pay : Payloader
  rate : Nat
  /-- `none`: no WithRTPTimestamp / WithRTPSequenceNumber — the initial value is pion/rtp's random choice -/
  ts0 : Option Nat
  seq0 : Option Nat
  ops : List POp

def parseHist (args : List String) : Option Hist :=
  match args with
  | "seq" :: pay :: rate :: ts0 :: seq0 :: n :: rest => do
    let pay ← parsePayloader pay
    let rate ← rate.toNat?; let n ← n.toNat?
    let ts0 ← if ts0 == "r" then some none else ts0.toNat?.map some
    let seq0 ← if seq0 == "r" then some none else seq0.toNat?.map some
    let ops ← parseOps n rest
    pure { pay, rate, ts0, seq0, ops }
  | _ => none

/-- packets relative to the first packet `f` of the history -/
def showPkts (f : Pkt) (ps : List Pkt) : String :=
  String.intercalate " " (toString ps.length ::
    (ps.map (fun p => s!"{(p.seq + M16 - f.seq % M16) % M16} {(p.ts + M32 - f.ts % M32) % M32}")))

def runOps {R : Type} (A : Arith R) (pay : Payloader) : St R → Nat → List POp → List (Option (List Pkt))
  | _, _, [] => []
  | s, pid, .sample d l dr :: rest =>
    let (n, pid') := payloadCount pay pid l
    let r := writeSample A s { dur := d, dropped := dr, n }
    some r.2 :: runOps A pay r.1 pid' rest
  | s, pid, .padding k :: rest =>
    let r := generatePadding s k
    some r.2 :: runOps A pay r.1 pid rest
  | s, pid, _ :: rest => none :: runOps A pay (step A s .rebind).1 pid rest

def markOf : POp → String
  | .bind => "b" | .unbind => "u" | _ => "rb"

def run (args : List String) : String :=
  match parseHist args with
  | none => "bad-op"
  | some h =>
    -- a random initial value is modelled as 0: every reported value is relative to the first packet
    let outs := runOps f64 h.pay (init f64 h.rate (h.ts0.getD 0) (h.seq0.getD 0)) 0 h.ops
    let first := (outs.filterMap id).flatten.head?
    let tok := fun (fixed : Bool) (v : Nat) => if fixed then toString v else "r"
    let hd := match first with
      | some f => s!"first {tok h.seq0.isSome f.seq} {tok h.ts0.isSome f.ts}"
      | none => "first - -"
    let f := first.getD { seq := 0, ts := 0, marker := false }
    let segs := (h.ops.zip outs).map (fun (o, r) => match r with | some ps => showPkts f ps | none => markOf o)
    String.intercalate " | " (hd :: segs)

/-! ### judge -/

def splitSegs : List String → List (List String)
  | [] => [[]]
  | t :: ts =>
    if t == "|" then [] :: splitSegs ts
    else match splitSegs ts with
      | [] => [[t]]
      | h :: tl => (t :: h) :: tl

def pairs : List Nat → Option (List (Nat × Nat))
  | [] => some []
  | a :: b :: rest => (pairs rest).map ((a, b) :: ·)
  | _ => none

def parsePkts (seg : List String) : Option (List (Nat × Nat)) :=
  match Wire.natList seg with
  | some (n :: rest) => (pairs rest).bind (fun ps => if ps.length == n then some ps else none)
  | _ => none

/-- `a` within one of `b` modulo `m` -/
def near (a b m : Nat) : Bool :=
  let d := (a % m + m - b % m) % m
  d == 0 || d == 1 || d + 1 == m

/-- consecutive mod 2^16 starting at `first` -/
def consecutive (first : Nat) : List Nat → Bool
  | [] => true
  | s :: rest => s == first % M16 && consecutive (first + 1) rest

/-- signed reading of a difference mod 2^32 -/
def signed32 (a b : Nat) : Int :=
  let d := (a % M32 + M32 - b % M32) % M32
  if d < M32 / 2 then (d : Int) else (d : Int) - (M32 : Int)

/-- What the judge carries along a history.
    `cnt`   sequence numbers consumed so far, counted from 0 (packets seen + drops) — from the op line and
            the *observed* packet counts;
    `nanos` nominal duration accounted for so far;
    `anchor` position `cnt` and exact tick count of the first packet of the history: every reported value
            is relative to that packet, so expectations are differences to the anchor;
    `lo`/`hi` smallest / largest deviation of an observed relative timestamp from the exact one. -/
structure J where
  cnt : Nat := 0
  nanos : Nat := 0
  big : Bool := false
  anchor : Option (Nat × Nat) := none
  lo : Int := 0
  hi : Int := 0

/-- fixed initial values (from the options) and the first packet's absolute values, when known -/
structure Abs where
  seq0 : Option Nat
  ts0 : Option Nat
  firstSeq : Option Nat
  firstTs : Option Nat

def judgeOps (rate : Nat) (ab : Abs) : List POp → List (List String) → J → String
  | [], [], _ => "ok"
  | .sample d _ dr :: ops, seg :: segs, j =>
    match parsePkts seg with
    | none => "bad-judge"
    | some ps =>
      -- binary64 holds integers exactly only up to 2^53: a single sample of 2^50 ticks or more is reported
      -- under its own key
      let big := j.big || (d * rate * dr) / G ≥ 2 ^ 50 || (d * rate) / G ≥ 2 ^ 50
      let seqs := ps.map (·.1)
      let tss := ps.map (·.2)
      let ticks := ((j.nanos + d * dr) * rate) / G          -- exact ⌊total·rate/10⁹⌋ for this sample
      let ticksNoDrop := (j.nanos * rate) / G
      let anchor := match j.anchor with
        | some a => some a
        | none => if ps.isEmpty then none else some (j.cnt + dr, ticks)
      let next : J := { cnt := j.cnt + dr + ps.length, nanos := j.nanos + d * dr + d, big, anchor, lo := j.lo, hi := j.hi }
      -- sentence 1
      if !(tss.all (fun t => some t == tss.head?)) then "violated timestamp-differs-within-sample"
      else match anchor, tss.head? with
      | some (c0, k0), some t =>
        -- sentence 3, on values relative to the first packet of the history …
        if !consecutive (j.cnt + dr - c0) seqs then
          (if dr > 0 && j.cnt ≥ c0 && consecutive (j.cnt - c0) seqs then "violated dropped-packets-not-skipped"
           else "violated sequence-not-consecutive")
        -- … and on the absolute value of that first packet when the initial sequence number was fixed
        else if j.anchor.isNone && (match ab.seq0, ab.firstSeq with
            | some s0, some f => f != (s0 + c0) % M16 | _, _ => false) then
          (if dr > 0 && ab.firstSeq == ab.seq0.map (fun s0 => (s0 + j.cnt) % M16) then "violated dropped-packets-not-skipped"
           else "violated sequence-not-consecutive")
        else
          -- sentence 2.  Initial timestamp fixed: within one tick of ts0 + ⌊total·rate/10⁹⌋.
          let absBad := match ab.ts0, ab.firstTs with
            | some t0, some f => !near (f + t) (t0 + ticks) M32
            | _, _ => false
          -- Always: some initial timestamp must put every sample within one tick, i.e. the deviations of the
          -- relative timestamps from the exact relative tick counts span at most 2.
          let rel := fun (x : Nat) => (x % M32 + M32 - k0 % M32) % M32
          let dev := signed32 t (rel ticks)
          let lo := if dev < j.lo then dev else j.lo
          let hi := if dev > j.hi then dev else j.hi
          if absBad || hi - lo > 2 then
            (if big then "violated timestamp-drift:sample-beyond-2^50-ticks"
             else if dr > 0 && rel ticksNoDrop != rel ticks &&
                     ((let dv := signed32 t (rel ticksNoDrop); dv ≥ -1 && dv ≤ 1) ||
                      (match ab.ts0, ab.firstTs with
                       | some t0, some f => near (f + t) (t0 + ticksNoDrop) M32 | _, _ => false))
               then "violated dropped-duration-not-skipped"
             else "violated timestamp-drift")
          else judgeOps rate ab ops segs { next with lo, hi }
      | _, _ => judgeOps rate ab ops segs next
  | .padding _ :: ops, seg :: segs, j =>
    match parsePkts seg with
    | none => "bad-judge"
    | some ps =>
      let anchor := match j.anchor with
        | some a => some a
        | none => if ps.isEmpty then none else some (j.cnt, (j.nanos * rate) / G)
      match anchor with
      | some (c0, _) =>
        if !consecutive (j.cnt - c0) (ps.map (·.1)) then "violated sequence-not-consecutive"
        else if j.anchor.isNone && (match ab.seq0, ab.firstSeq with
            | some s0, some f => f != (s0 + c0) % M16 | _, _ => false) then "violated sequence-not-consecutive"
        else judgeOps rate ab ops segs { j with cnt := j.cnt + ps.length, anchor }
      | none => judgeOps rate ab ops segs j
  | .bind :: ops, ["b"] :: segs, j => judgeOps rate ab ops segs j
  | .unbind :: ops, ["u"] :: segs, j => judgeOps rate ab ops segs j
  | .rebindPrimary :: ops, ["rb"] :: segs, j => judgeOps rate ab ops segs j
  | _, _, _ => "bad-judge"

def judge (args out : List String) : String :=
  match parseHist args with
  | none => "bad-judge"
  | some h =>
    match splitSegs out with
    | ["first", fs, ft] :: segs =>
      -- the first packet's absolute values are reported exactly when the option fixed the initial value
      if (fs.toNat?.isSome != h.seq0.isSome && fs != "-") || (ft.toNat?.isSome != h.ts0.isSome && ft != "-") then "bad-judge"
      else judgeOps h.rate { seq0 := h.seq0, ts0 := h.ts0, firstSeq := fs.toNat?, firstTs := ft.toNat? } h.ops segs {}
    | _ => "bad-judge"

end WebrtcVerif.Drv.C28
