import WebrtcVerif.Drv.C01
/-! Driver handler for C02 (rollback).  Same op language as C01 (`tab …`, `h …`). -/
namespace WebrtcVerif.Drv.C02
open WebrtcVerif WebrtcVerif.Signaling WebrtcVerif.Drv.SigHist

def run (args : List String) : String := Drv.C01.run args

/-- the states from which the property demands a successful rollback, per side -/
def mustSucceed (side : Side) (cur : String) : Bool :=
  match side with
  | .loc => cur == "hlo" || cur == "hlp"
  | .rem => cur == "hro" || cur == "hrp"

def judgeView (v : View) : String :=
  let o := v.now
  let b := v.before.prev
  match v.step.kind with
  | .set side .rollback _ _ _ =>
    if v.before.closed then "ok"
    else if mustSucceed side b.sig && o.err != "ok" then s!"violated rollback-rejected:{b.sig}"
    else if b.sig == "st" && o.err == "ok" then "violated rollback-from-stable-accepted"
    else if b.sig == "st" && !(o.sameState b) then "violated rejected-rollback-changed-state"
    else if o.err != "ok" then "ok"
    else if o.sig != "st" then "violated rollback-not-stable"
    else if o.pl != "-" || o.pr != "-" then "violated rollback-keeps-pending"
    else if o.cl != b.cl || o.cr != b.cr then "violated rollback-changes-current"
    else if o.cl != v.before.stableCl || o.cr != v.before.stableCr then "violated rollback-not-last-stable"
    else if o.ev != "st" then "violated rollback-event"
    else "ok"
  | _ => "ok"

def judge (args out : List String) : String :=
  match args with
  | ["tab", c, n, o, t] =>
    match Wire.natList [c, n, o, t], out with
    | some [c, n, o, t], [st, e] =>
      if t != 4 then "ok" else
      let cur := sigName (Sig.ofRaw c)
      match Side.ofOp (Op.ofRaw o) with
      | some side =>
        if n == 1 && mustSucceed side cur then
          (if e == "ok" && st == "1" then "ok" else s!"violated rollback-rejected:{cur}")
        else if c == 1 then (if e == "norollback" && st == "1" then "ok" else "violated rollback-from-stable-accepted")
        else "ok"
      | none => if e == "ok" then "violated rollback-unknown-op-accepted" else "ok"
    | _, _ => "bad-judge"
  | "h" :: _ =>
    match parseHist args with
    | none => "bad-judge"
    | some (_, steps) =>
      match views steps out with
      | none => "bad-judge"
      | some vs => firstBad vs judgeView
  | _ => "bad-judge"

end WebrtcVerif.Drv.C02
