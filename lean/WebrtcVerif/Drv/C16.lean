import WebrtcVerif.Drv.PcWire
/-! Driver handler for C16 (answer codecs are a subset of the offered codecs, with the offered payload types).
    Line protocol and model run: Drv/PcWire.lean.

    The judge pairs every accepted (port ≠ 0) section of every observed answer with the section of the same mid
    of the remote offer it answers and checks, payload type by payload type, that the offer lists it for the same
    codec.  Rejected sections (port 0: no common codec, or outside the offer's BUNDLE group) are exempt: RFC 3264
    §6 says the format list of a rejected stream is ignored.

    "Same codec (mime type, clock rate, channels)": encoding names equal without regard to case; clock rates
    equal, channels equal — where an absent value (0) stands for the codec's default (pion's fmtp.ClockRateEqual /
    ChannelsEqual conventions: opus 48000/2, PCMU/PCMA 8000, else 90000 and 1 channel). -/
namespace WebrtcVerif.Drv.C16
open WebrtcVerif WebrtcVerif.Codec WebrtcVerif.SectionSdp WebrtcVerif.PcSections WebrtcVerif.Drv.PcWire

def run (args : List String) : String := PcWire.run args

/-- encoding name of an offered codec (the model carries the mime type `<media>/<name>`) -/
def offeredName (media : Str) (c : CodecP) : Str :=
  if (media ++ ['/']).isPrefixOf c.mime then c.mime.drop (media.length + 1) else c.mime

def sameCodec (media : Str) (offered : CodecP) (name : Str) (clock ch : Nat) : Bool :=
  let mime := media ++ ['/'] ++ name
  equalFold (offeredName media offered) name && clockRateEqual mime offered.clock clock
    && channelsEqual mime offered.channels ch

inductive Bad
  | noOfferSection (mid : Str)
  | kindMismatch (mid : Str)
  | foreignPt (pt : Nat) (name : Str)
  | codecDiffers (pt : Nat) (name : Str) (clock ch : Nat)

/-- the property on one accepted answer section against the offer section of the same mid -/
def checkSection (offer : RSection) (a : ObsSection) : Option Bad :=
  if kindOf offer.media != a.kind then some (Bad.kindMismatch a.mid) else
  a.formats.findSome? (fun pt =>
    match a.rtpmaps.find? (fun r => r.1 == pt) with
    | none => some (Bad.foreignPt pt [])          -- a format without rtpmap in an accepted section
    | some (_, name, clock, ch) =>
      let sameMedia := (offer.codecs.getD []).filter (fun c => c.pt == pt)
      if sameMedia.isEmpty then some (Bad.foreignPt pt name)
      else if sameMedia.any (fun c => sameCodec offer.media c name clock ch) then none
      else some (Bad.codecDiffers pt name clock ch))

/-- walk the steps and the observed items together; `pending` = the offer being answered -/
def walk (fuel : Nat) (steps : List Step) (items : List ObsItem) (pending : Option RDesc)
    (seen : List RSection) : Option (Bad × RSection × ObsSection × List RSection) :=
  match fuel, steps, items with
  | 0, _, _ => none
  | _, [], _ => none
  | _, _, [] => none
  | fuel + 1, .sro d :: steps, .other t :: items =>
    if t == "r-ok" then walk fuel steps items (some d) (seen ++ d.secs) else walk fuel steps items pending seen
  | fuel + 1, .sla :: steps, .other t :: items =>
    if t == "l-ok" then walk fuel steps items none seen else walk fuel steps items pending seen
  | fuel + 1, .answer :: steps, .answer secs :: items =>
    match pending with
    | none => walk fuel steps items pending seen
    | some d =>
      let bad := secs.findSome? (fun a =>
        if a.portZero then none
        else match d.secs.find? (fun s => s.mid == a.mid) with
          | none => some (Bad.noOfferSection a.mid,
              ({ media := [], mid := a.mid, dir := none, codecs := none, exts := [] } : RSection), a)
          | some s => (checkSection s a).map (fun b => (b, s, a)))
      match bad with
      | some (b, s, a) => some (b, s, a, seen)
      | none => walk fuel steps items pending seen
  | fuel + 1, _ :: steps, _ :: items => walk fuel steps items pending seen

def prefCodecsOf (op : Op) : List CodecP :=
  op.steps.flatMap (fun s => match s with | .pref _ cs => cs | _ => [])

/-- names the cause; reads the op line only -/
def cause (op : Op) (b : Bad) (offer : RSection) (_ans : ObsSection) (seen : List RSection) : String :=
  let others := fun (pt : Nat) => seen.filter (fun s =>
    kindOf s.media == kindOf offer.media && !(s.mid == offer.mid && s.codecs == offer.codecs)
      && (s.codecs.getD []).any (fun c => c.pt == pt))
  match b with
  | .noOfferSection _ => "answer-section-without-offer-section"
  | .kindMismatch _ => "section-kind-mismatch"
  | .foreignPt pt _ =>
    if (prefCodecsOf op).any (fun c => c.pt == pt) then "foreign-payload-type:user-preference"
    else if !(others pt).isEmpty then "foreign-payload-type:negotiated-list-per-kind"
    else "foreign-payload-type"
  | .codecDiffers pt name clock ch =>
    if (prefCodecsOf op).any (fun c => (c.pt == pt || c.pt == 0) && equalFold (encodingName c.mime) name) then
      "codec-differs:user-preference"
    else if (others pt).any (fun s => (s.codecs.getD []).any (fun c => c.pt == pt && sameCodec s.media c name clock ch)) then
      -- another section / an earlier description offered exactly this (payload type, codec)
      "codec-differs:negotiated-list-per-kind"
    else if (offer.codecs.getD []).any (fun c => c.pt != pt && sameCodec offer.media c name clock ch) then
      -- the section offers this very codec under another payload type: its attributes went to the wrong number
      "codec-differs:swapped-within-section"
    else if !(others pt).isEmpty then "codec-differs:negotiated-list-per-kind"
    else "codec-differs"

def detail : Bad → String
  | .noOfferSection mid => s!"mid={String.ofList mid}"
  | .kindMismatch mid => s!"mid={String.ofList mid}"
  | .foreignPt pt name => s!"pt={pt} {String.ofList name}"
  | .codecDiffers pt name _ _ => s!"pt={pt} {String.ofList name}"

def judge (args out : List String) : String :=
  match parseAll pOp args, parseObs out with
  | some op, some items =>
    if items.any (fun i => match i with
        | .other t => !(["a0", "a1", "p0", "p1", "r-ok", "r-err", "r-nomid", "r-state", "l-ok", "l-skip", "l-err", "end", "O-err", "A-err"].contains t)
        | _ => false) then "bad-judge"
    else
      match walk (op.steps.length + items.length + 1) op.steps items none [] with
      | some (b, s, a, seen) => "violated " ++ cause op b s a seen ++ " " ++ detail b
      | none => "ok"
  | _, _ => "bad-judge"

end WebrtcVerif.Drv.C16
