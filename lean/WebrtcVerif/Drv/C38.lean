import WebrtcVerif.Base.Wire
import WebrtcVerif.Model.Json
/-! Driver handler for C38 (JSON / text / PEM encodings).

  Value trees travel as prefix tokens:  `N` null · `T`/`F` · `D<number text>` · `S<hex of UTF-8>` (`S-` = "")
    · `A<n>` then n trees · `O<n>` then n × (`K<hex>` tree), keys sorted bytewise.
  Results of a decode are `ok:<int>` / `err` for enums.

  ops (→ output):
    ev  <Enum> <raw>            → <String() hex> N <newX(String()) val:err|-> J <tree of json.Marshal> D <r>
                                   T <MarshalText hex|-> <UnmarshalText of it r|->
    es  <Enum> <str hex>        → N <val:err|-> J <r of json.Unmarshal("str")> T <r of UnmarshalText|->
    ej  <Enum> <cur> <tree>     → <r of json.Unmarshal(tree) into a variable holding cur>
    sd  <type> <sdp hex>        → J <tree> U <ok <type> <sdp hex> | err>      (sdp not UTF-8 → `nonutf8 <eq>`)
    sdd <tree>                  → ok <type> <sdp hex> | err
    ci  <cand hex> <mid> <idx> <ufrag>   → J <tree> U <ok <cand hex> <mid> <idx> <ufrag> | err>
    cid <tree>                  → ok … | err            (mid/ufrag: `n` | `s:<hex>`; idx: `n` | `u:<n>`)
    is  <urls> <user hex> <ctype> <cred…> → J <tree> U <ok <urls> <user hex> <ctype> <cred…> | err>
    isd <tree>                  → ok … | err
          urls: `n` nil | `e` empty | `l:<hex>,<hex>,…`;  cred: `n` | `s:<hex>` | `o:<hex>,<hex>` | `i:<int>` | `v <tree>`
    st  <Struct> <type hex> <kind hex|~> <enum raws a,b,c|-> <mode> <seed> → merr | ok <GoStruct> <eq> | ne
                                   (ne: refused, or decoded into a different struct)
    std <tree>                  → err | ok <GoStruct>
    pem  <keykind>              → P <block types> R <ok <eq> <fp> <exp> | err:<class>>
    pemb <keykind> <blocks…>    → ok <eq> <fp> <exp> | err:<class>       blocks: C B K X c k C2 K2 G
-/
namespace WebrtcVerif.Drv.C38
open WebrtcVerif WebrtcVerif.Json

def strOfHex (h : String) : Option Str := (Wire.textOfHex h).map String.toList
def hexOfStr (s : Str) : String := Wire.hexOfText (String.ofList s)

/-! ### trees ⇄ tokens -/

def strLe : Str → Str → Bool
  | [], _ => true
  | _ :: _, [] => false
  | a :: as, b :: bs => if a.toNat < b.toNat then true else if b.toNat < a.toNat then false else strLe as bs

def insertKv (p : Str × List String) : List (Str × List String) → List (Str × List String)
  | [] => [p]
  | q :: rest => if strLe p.1 q.1 then p :: q :: rest else q :: insertKv p rest

mutual
  def toks : J → List String
    | .null => ["N"]
    | .bool true => ["T"]
    | .bool false => ["F"]
    | .int i => ["D" ++ toString i]
    | .numx t => ["D" ++ String.ofList t]
    | .str s => ["S" ++ hexOfStr s]
    | .arr xs => ("A" ++ toString xs.length) :: toksList xs
    | .obj kvs =>
      let sorted := (toksKvs kvs).foldr insertKv []
      ("O" ++ toString kvs.length) :: (sorted.map (fun p => ("K" ++ hexOfStr p.1) :: p.2)).flatten
  def toksList : List J → List String
    | [] => []
    | x :: xs => toks x ++ toksList xs
  def toksKvs : List (Str × J) → List (Str × List String)
    | [] => []
    | (k, v) :: rest => (k, toks v) :: toksKvs rest
end

def tailOf (s : String) : String := String.ofList (s.toList.drop 1)

mutual
  def parseJ : Nat → List String → Option (J × List String)
    | 0, _ => none
    | _ + 1, [] => none
    | fuel + 1, t :: rest =>
      match t.toList with
      | ['N'] => some (.null, rest)
      | ['T'] => some (.bool true, rest)
      | ['F'] => some (.bool false, rest)
      | 'D' :: num =>
        match (String.ofList num).toInt? with
        | some i => some (.int i, rest)
        | none => some (.numx num, rest)
      | 'S' :: hex => (strOfHex (String.ofList hex)).map (fun s => (.str s, rest))
      | 'A' :: n => do
          let n ← (String.ofList n).toNat?
          let (xs, rest') ← parseArr fuel n rest
          pure (.arr xs, rest')
      | 'O' :: n => do
          let n ← (String.ofList n).toNat?
          let (kvs, rest') ← parseObj fuel n rest
          pure (.obj kvs, rest')
      | _ => none
  def parseArr : Nat → Nat → List String → Option (List J × List String)
    | 0, _, _ => none
    | _ + 1, 0, rest => some ([], rest)
    | fuel + 1, n + 1, rest => do
        let (x, r1) ← parseJ fuel rest
        let (xs, r2) ← parseArr fuel n r1
        pure (x :: xs, r2)
  def parseObj : Nat → Nat → List String → Option (List (Str × J) × List String)
    | 0, _, _ => none
    | _ + 1, 0, rest => some ([], rest)
    | _ + 1, _ + 1, [] => none
    | fuel + 1, n + 1, k :: rest =>
      match k.toList with
      | 'K' :: hex => do
          let key ← strOfHex (String.ofList hex)
          let (v, r1) ← parseJ fuel rest
          let (kvs, r2) ← parseObj fuel n r1
          pure ((key, v) :: kvs, r2)
      | _ => none
end

/-- a whole token list as one tree -/
def parseTree (ts : List String) : Option J :=
  match parseJ (2 * ts.length + 2) ts with
  | some (j, []) => some j
  | _ => none

/-! ### small codecs of the line protocol -/

def showR : Except Unit Int → String
  | .ok v => "ok:" ++ toString v
  | .error _ => "err"

def showNew (e : Enum) (s : Str) : String :=
  if e.hasNew then let r := e.new s; toString r.1 ++ ":" ++ Wire.boolTok r.2 else "-"

def optStrTok : Option Str → String
  | none => "n"
  | some s => "s:" ++ hexOfStr s

def tokOptStr (t : String) : Option (Option Str) :=
  if t == "n" then some none
  else match t.toList with
    | 's' :: ':' :: hex => (strOfHex (String.ofList hex)).map some
    | _ => none

def optIdxTok : Option Nat → String
  | none => "n"
  | some n => "u:" ++ toString n

def tokOptIdx (t : String) : Option (Option Nat) :=
  if t == "n" then some none
  else match t.toList with
    | 'u' :: ':' :: n => (String.ofList n).toNat?.map some
    | _ => none

def urlsTok : Option (List Str) → String
  | none => "n"
  | some [] => "e"
  | some l => "l:" ++ String.intercalate "," (l.map hexOfStr)

def tokUrls (t : String) : Option (Option (List Str)) :=
  if t == "n" then some none
  else if t == "e" then some (some [])
  else match t.toList with
    | 'l' :: ':' :: rest => (((String.ofList rest).splitOn ",").mapM strOfHex).map some
    | _ => none

def credToks : Cred → List String
  | .none => ["n"]
  | .str s => ["s:" ++ hexOfStr s]
  | .oauth m t => ["o:" ++ hexOfStr m ++ "," ++ hexOfStr t]
  | .foreignInt i => ["i:" ++ toString i]
  | .generic j => "v" :: toks j

def toksCred : List String → Option Cred
  | ["n"] => some .none
  | "v" :: rest => (parseTree rest).map Cred.ofAny
  | [t] =>
    match t.toList with
    | 's' :: ':' :: hex => (strOfHex (String.ofList hex)).map Cred.str
    | 'o' :: ':' :: rest =>
      match (String.ofList rest).splitOn "," with
      | [m, k] => do let m ← strOfHex m; let k ← strOfHex k; pure (.oauth m k)
      | _ => none
    | 'i' :: ':' :: n => (String.ofList n).toInt?.map Cred.foreignInt
    | _ => none
  | _ => none

def showServer (s : ICEServer) : List String :=
  ["ok", urlsTok s.urls, hexOfStr s.username, toString s.credentialType] ++ credToks s.credential

def parseServer : List String → Option ICEServer
  | urls :: user :: ct :: cred => do
      let urls ← tokUrls urls
      let user ← strOfHex user
      let ct ← ct.toInt?
      let cred ← toksCred cred
      pure ⟨urls, user, cred, ct⟩
  | _ => none

def showSD : Except Unit SessionDescription → List String
  | .ok d => ["ok", toString d.type, hexOfStr d.sdp]
  | .error _ => ["err"]

def showCI : Except Unit ICECandidateInit → List String
  | .ok c => ["ok", hexOfStr c.candidate, optStrTok c.sdpMid, optIdxTok c.sdpMLineIndex, optStrTok c.usernameFragment]
  | .error _ => ["err"]

def showIS : Except Unit ICEServer → List String
  | .ok s => showServer s
  | .error _ => ["err"]

def structByName (n : String) : Option StatsStruct := StatsStruct.all.find? (·.goName == n)

def parseEnums (t : String) : Option (List Int) :=
  if t == "-" then some [] else (t.splitOn ",").mapM String.toInt?

structure StOp where
  struct : StatsStruct
  type : Str
  /-- `none`: the struct has no Kind field (token `~`) -/
  kind : Option Str
  enums : List Int
  mode : String

def parseSt : List String → Option StOp
  | [sn, ty, kd, en, mode, _seed] => do
      let s ← structByName sn
      let ty ← strOfHex ty
      let kd ← if kd == "~" then some none else (strOfHex kd).map some
      let en ← parseEnums en
      if en.length ≠ s.enumFields.length then none
      else if s.hasKind ≠ kd.isSome then none
      else pure ⟨s, ty, kd, en, mode⟩
  | _ => none

/-! ### PEM -/

def kindOfTok : String → Option KeyKind
  | "rsa" => some .rsa | "p256" => some .ecdsa | "p384" => some .ecdsa | "ed25519" => some .ed25519
  | "x25519" => some .other | "nil" => some .absent
  | _ => none

def blockOfTok (kind : KeyKind) : String → Option Block
  | "C" => some ⟨.certificate, .certDer 1⟩
  | "C2" => some ⟨.certificate, .certDer 2⟩
  | "B" => some ⟨.certificate, .certB64 1⟩
  | "K" => some ⟨.privateKey, .keyPkcs8 ⟨kind, 1⟩⟩
  | "K2" => some ⟨.privateKey, .keyPkcs8 ⟨kind, 2⟩⟩
  | "X" => some ⟨.otherType, .junk⟩
  | "c" => some ⟨.certificate, .junk⟩
  | "k" => some ⟨.privateKey, .junk⟩
  | _ => none

def showPemErr : PemErr → String
  | .multipleCert => "err:multicert" | .multiplePriv => "err:multipriv" | .decode => "err:decode"
  | .missing => "err:missing" | .marshalKey => "err:marshal"

def showImport (orig : Certificate) : Except PemErr Certificate → String
  | .error e => showPemErr e
  | .ok c => s!"ok {Wire.boolTok (orig.equals c)} {Wire.boolTok (c.cert == orig.cert)} {Wire.boolTok (c.cert == orig.cert)}"

def showBlockTypes (bs : List Block) : String :=
  if bs.isEmpty then "-" else
  String.intercalate "," (bs.map (fun b => match b.type with
    | .certificate => "CERTIFICATE" | .privateKey => "PRIVATE_KEY" | .otherType => "OTHER"))

/-! ### run -/

def run (args : List String) : String :=
  match args with
  | ["ev", tn, raw] =>
    match Enum.byName tn, raw.toInt? with
    | some e, some raw =>
      let j := e.marshalJSON raw
      let text := if e.codec == .text then
          [hexOfStr (e.marshalText raw), showR (e.unmarshalText (e.marshalText raw))] else ["-", "-"]
      String.intercalate " " ([hexOfStr (e.string raw), "N", showNew e (e.string raw), "J"] ++ toks j
        ++ ["D", showR (e.unmarshalJSON 1 j), "T"] ++ text)
    | _, _ => "bad-op"
  | ["es", tn, hex] =>
    match Enum.byName tn, strOfHex hex with
    | some e, some s =>
      let t := if e.codec == .text then showR (e.unmarshalText s) else "-"
      String.intercalate " " ["N", showNew e s, "J", showR (e.unmarshalJSON 1 (.str s)), "T", t]
    | _, _ => "bad-op"
  | "ej" :: tn :: cur :: tree =>
    match Enum.byName tn, cur.toInt?, parseTree tree with
    | some e, some cur, some j => showR (e.unmarshalJSON cur j)
    | _, _, _ => "bad-op"
  | ["sd", ty, hex] =>
    match ty.toInt?, Wire.bytesOfHex hex with
    | some ty, some _ =>
      match strOfHex hex with
      | none => "nonutf8 0"       -- encoding/json replaces invalid bytes by U+FFFD: never equal
      | some sdp =>
        let d : SessionDescription := ⟨ty, sdp⟩
        String.intercalate " " (["J"] ++ toks d.marshal ++ ["U"] ++ showSD (SessionDescription.unmarshal d.marshal))
    | _, _ => "bad-op"
  | "sdd" :: tree =>
    match parseTree tree with
    | some j => String.intercalate " " (showSD (SessionDescription.unmarshal j))
    | none => "bad-op"
  | ["ci", cand, mid, idx, uf] =>
    match strOfHex cand, tokOptStr mid, tokOptIdx idx, tokOptStr uf with
    | some cand, some mid, some idx, some uf =>
      let c : ICECandidateInit := ⟨cand, mid, idx, uf⟩
      String.intercalate " " (["J"] ++ toks c.marshal ++ ["U"] ++ showCI (ICECandidateInit.unmarshal c.marshal))
    | _, _, _, _ => "bad-op"
  | "cid" :: tree =>
    match parseTree tree with
    | some j => String.intercalate " " (showCI (ICECandidateInit.unmarshal j))
    | none => "bad-op"
  | "is" :: rest =>
    match parseServer rest with
    | some s => String.intercalate " " (["J"] ++ toks s.marshal ++ ["U"] ++ showIS (ICEServer.unmarshal s.marshal))
    | none => "bad-op"
  | "isd" :: tree =>
    match parseTree tree with
    | some j => String.intercalate " " (showIS (ICEServer.unmarshal j))
    | none => "bad-op"
  | "st" :: rest =>
    match parseSt rest with
    | none => "bad-op"
    | some o =>
      if o.mode == "nan" then "merr" else
      let v : StatsValue := ⟨o.struct, o.type, o.kind.getD [], o.enums⟩
      match unmarshalStats v.marshal with
      | .error _ => "ne"
      | .ok w => if w.struct == o.struct then s!"ok {w.struct.goName} {Wire.boolTok (w == v)}" else "ne"
  | "std" :: tree =>
    match parseTree tree with
    | some j =>
      match unmarshalStats j with
      | .error _ => "err"
      | .ok w => s!"ok {w.struct.goName}"
    | none => "bad-op"
  | ["pem", kind] =>
    match kindOfTok kind with
    | none => "bad-op"
    | some k =>
      let orig : Certificate := ⟨⟨k, 1⟩, 1⟩
      match orig.pem with
      | .error e => s!"P - R {showPemErr e}"
      | .ok bs => s!"P {showBlockTypes bs} R {showImport orig (certificateFromPEM bs)}"
  | "pemb" :: kind :: blocks =>
    match kindOfTok kind with
    | none => "bad-op"
    | some k =>
      let orig : Certificate := ⟨⟨k, 1⟩, 1⟩
      match (blocks.filter (· ≠ "G")).mapM (blockOfTok k) with      -- G: text that is not a PEM block
      | none => "bad-op"
      | some bs => showImport orig (certificateFromPEM bs)
  | _ => "bad-op"

/-! ### judge: the property evaluated on observed outputs

  "For every value of the public serializable types, decoding its JSON or text encoding yields an equal
  value."  The judge looks only at the op (the value) and the observed decode result; of the model it uses
  the per-type data a reader of the property needs anyway: how many constants an enum declares, and which
  `Type`/`Kind` constant each Stats struct is emitted with. -/

def splitAt (sep : String) (xs : List String) : List String × List String :=
  (xs.takeWhile (· ≠ sep), (xs.dropWhile (· ≠ sep)).drop 1)

/-- is this credential of the Go type its credential type announces? -/
def credAgrees (ct : Int) : Cred → Bool
  | .none => true
  | .str _ => ct == 0
  | .oauth _ _ => ct == 1
  | .generic _ => ct == 0
  | .foreignInt _ => false

def judge (args out : List String) : String :=
  match args with
  | ["ev", tn, raw] =>
    match Enum.byName tn, raw.toInt? with
    | some e, some raw =>
      if !(0 ≤ raw && raw < e.count) then "ok" else     -- not a constant of the type: not constrained
      match out with
      | strHex :: "N" :: nw :: "J" :: rest =>
        let (_, afterD) := splitAt "D" rest
        match afterD with
        | [d, "T", _, t] =>
          let want := "ok:" ++ toString raw
          if d != want then
            (if raw == 0 then s!"violated zero-enum-not-decodable:{tn}" else s!"violated enum-json-roundtrip:{tn}")
          else if t != "-" && t != want then
            (if raw == 0 then s!"violated zero-enum-not-decodable:{tn}" else s!"violated enum-text-roundtrip:{tn}")
          else if nw != "-" && strHex != Wire.hexOfText "unknown" && nw != toString raw ++ ":0" then
            s!"violated string-table-mismatch:{tn}"
          else "ok"
        | _ => "bad-judge"
      | _ => "bad-judge"
    | _, _ => "bad-judge"
  | "es" :: _ => "ok"      -- decode-only streams tie the model; the property speaks about encode→decode
  | "ej" :: _ => "ok"
  | "sdd" :: _ => "ok"
  | "cid" :: _ => "ok"
  | "isd" :: _ => "ok"
  | "std" :: _ => "ok"
  | "pemb" :: _ => "ok"
  | ["sd", ty, hex] =>
    match ty.toInt?, strOfHex hex with
    | some ty, some _ =>
      if !(0 ≤ ty && ty < 5) then "ok" else
      let (_, u) := splitAt "U" out
      if u == ["ok", toString ty, hex] then "ok"
      else if ty == 0 then "violated zero-enum-not-decodable:SDPType"
      else "violated sessiondescription-roundtrip"
    | some _, none => "ok"     -- not valid UTF-8: JSON text cannot carry it
    | _, _ => "bad-judge"
  | ["ci", cand, mid, idx, uf] =>
    let (_, u) := splitAt "U" out
    if u == ["ok", cand, mid, idx, uf] then "ok" else "violated icecandidateinit-roundtrip"
  | "is" :: rest =>
    match parseServer rest with
    | none => "bad-judge"
    | some s =>
      if !(s.credentialType == 0 || s.credentialType == 1) then "ok"
      else if !credAgrees s.credentialType s.credential then "ok"
      else
        let (_, u) := splitAt "U" out
        if u == "ok" :: rest then "ok"
        else if s.urls.isNone && (match u with
            | "ok" :: du :: _ => du != "n"              -- decoded, but the list is no longer nil
            | _ => s.credential.isNone && s.credentialType == 0)   -- refused, and nothing else to blame
          then "violated iceserver-nil-urls"
        else "violated iceserver-roundtrip"
  | "st" :: rest =>
    match parseSt rest with
    | none => "bad-judge"
    | some o =>
      if o.mode == "nan" then "ok" else       -- no JSON encoding exists (json.Marshal refuses NaN/Inf)
      let good := out == ["ok", o.struct.goName, "1"]
      if good then "ok"
      else if o.type.isEmpty || (o.struct.ownKind.isSome && o.kind == some []) then
        "violated zero-stats-tag-not-decodable"
      else if !(o.struct.ownTypes.contains o.type) then "ok"          -- carries another struct's tag
      else if o.struct.ownKind.isSome && o.struct.ownKind != o.kind then "ok"
      else if !((o.struct.enumFields.zip o.enums).all (fun p => 0 ≤ p.2 && p.2 < p.1.2.count)) then "ok"
      else if o.struct == .iceCandidate && o.enums == [0] then "violated zero-enum-not-decodable:ICECandidateType"
      else s!"violated stats-roundtrip:{o.struct.goName}"
  | ["pem", kind] =>
    match kindOfTok kind with
    | some .rsa | some .ecdsa | some .ed25519 =>
      let (_, r) := splitAt "R" out
      if r == ["ok", "1", "1", "1"] then "ok" else "violated pem-roundtrip"
    | some _ => "ok"        -- key types the package does not support / no key
    | none => "bad-judge"
  | _ => "bad-judge"

end WebrtcVerif.Drv.C38
