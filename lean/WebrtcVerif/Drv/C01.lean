import WebrtcVerif.Drv.SigHist
/-! Driver handler for C01.
  ops:  `tab <cur> <next> <op> <ty>`   (raw Go ints)     → `<state> <ok|norollback|transition>`
        `h <cfg> <step>…`                                 → see Drv/SigHist.lean
-/
namespace WebrtcVerif.Drv.C01
open WebrtcVerif WebrtcVerif.Signaling WebrtcVerif.Drv.SigHist

def run (args : List String) : String :=
  match args with
  | ["tab", c, n, o, t] =>
    match Wire.natList [c, n, o, t] with
    | some [c, n, o, t] =>
      let r := checkNext (Sig.ofRaw c) (Sig.ofRaw n) (Op.ofRaw o) (Ty.ofRaw t)
      let e := match r.2 with | none => "ok" | some .cannotRollback => "norollback" | some .invalidTransition => "transition"
      s!"{r.1.toNat} {e}"
    | _ => "bad-op"
  | "h" :: _ => SigHist.run args
  | _ => "bad-op"

/-- pending if present, else current -/
def pendingElseCurrent (pend cur : String) : String := if pend != "-" then pend else cur

/-- The clauses of C01 on one observed step (uses `jsepEdge`, never `checkNext` / `setDescription`). -/
def judgeView (v : View) : String :=
  let o := v.now
  let b := v.before.prev
  -- getters: pending if one exists, otherwise current
  if o.ld != pendingElseCurrent o.pl o.cl || o.rd != pendingElseCurrent o.pr o.cr then
    "violated getter-not-pending-else-current"
  -- stable ⇒ no pending descriptions
  else if o.sig == "st" && (o.pl != "-" || o.pr != "-") then "violated pending-in-stable"
  else
  match v.step.kind with
  | .co | .ca =>
    if o.sameState b then "ok" else "violated create-changed-negotiation-state"
  | .cl => if o.sig == "cl" then "ok" else "violated close-not-closed"
  | .set side ty _ _ _ =>
    if o.err != "ok" then "ok"     -- what a failed call may leave behind is C03's subject
    else if v.before.closed then "violated success-after-close"
    else
      match sigOfName b.sig, sigOfName o.sig with
      | some cur, some nxt =>
        -- a call succeeds only along an edge of the JSEP machine, and lands on its target
        if jsepEdge cur side ty != some nxt then "violated success-not-a-jsep-edge"
        -- the signaling event announces exactly the new state
        else if o.ev != sigName nxt then "violated event-not-new-state"
        else
          let ap := v.applied.getD "?"
          match ty with
          | .offer | .pranswer =>
            -- the applied description becomes the pending one on its side; nothing else moves
            let okSide := match side with
              | .loc => o.pl == ap && o.pr == b.pr
              | .rem => o.pr == ap && o.pl == b.pl
            if !okSide then "violated applied-description-not-pending"
            else if o.cl != b.cl || o.cr != b.cr then "violated current-changed-before-answer"
            else "ok"
          | .answer =>
            -- completing the exchange: that offer and that answer are the current descriptions
            let offer := v.before.exchOffer.getD "?"
            let okCur := match side with
              | .loc => o.cl == ap && o.cr == offer
              | .rem => o.cr == ap && o.cl == offer
            if okCur then "ok" else "violated exchange-not-current"
          | _ => "ok"   -- rollback results are C02's subject
      | _, _ => "bad-judge"

def judge (args out : List String) : String :=
  match args with
  | ["tab", c, n, o, t] =>
    match Wire.natList [c, n, o, t], out with
    | some [c, n, o, t], [st, e] =>
      match st.toNat? with
      | none => "bad-judge"
      | some st =>
        if e == "ok" then
          -- success only along a JSEP edge whose target is both the proposed and the returned state
          match Side.ofOp (Op.ofRaw o) with
          | some side =>
            if jsepEdge (Sig.ofRaw c) side (Ty.ofRaw t) == some (Sig.ofRaw n) && st == n && n ≤ 6 && c ≤ 6 then "ok"
            else "violated table-success-not-a-jsep-edge"
          | none => "violated table-success-not-a-jsep-edge"
        else if st == c then "ok" else "violated table-error-changes-state"
    | _, _ => "bad-judge"
  | "h" :: _ =>
    match parseHist args with
    | none => "bad-judge"
    | some (_, steps) =>
      match views steps out with
      | none => "bad-judge"
      | some vs => firstBad vs judgeView
  | _ => "bad-judge"

end WebrtcVerif.Drv.C01
