import WebrtcVerif.Base.Wire
import WebrtcVerif.Model.Origin
/-! Driver handler for C11 (SDP origin: fixed session id, strictly increasing session version).

  ops
    sch <id0:v0,…>… sched <name>…
        one shared origin (both cells 0); harness thread T<i> makes the listed calls of `updateSDPOrigin` in
        turn, each with a fresh description origin (id0, v0) (decimal uint64).  `sched`: thread names to
        release for one segment each (up to the next yield: `origin.won` / `origin.lost` after the CAS,
        `origin.spin` in the load loop, `origin.loaded` before the add, `call` between two calls);
        afterwards every thread is drained round-robin (Sched.Drain; no new pass once 60 events are reached).
        out: <name:label>… / <drain name:label>… | <T<i>.<j>:<start>:<ret>:<id>:<ver>>… (in order of return)
             | origin <id> <ver> | <name:fin|parked>…
    seq eng=<a|d|p> <op>…
        one real PeerConnection (eng=a: audio codec only; eng=p: the same under SDPSemanticsPlanB; eng=d: default
        codecs; a data channel exists from the start); ops O CreateOffer, A CreateAnswer (Ot / At: with
        ICETricklingSupported), R remote offer, N / Np the remote peer's answer / pranswer to our pending (else
        last) offer, Rl / Rr SetLocalDescription / SetRemoteDescription(rollback), P the last answer applied as
        pranswer, Ko / Lo the offer / answer created BEFORE the last one applied (an older description),
        L SetLocalDescription(last answer), K SetLocalDescription(last offer), T add audio transceiver,
        D data channel, X add a recvonly video transceiver (codec-less under eng=a: CreateOffer then runs
        its retry loop 128 times and fails), C Close.
        out: <O|A>:<start>:<ret>:(i<class>:<ver − min ver> | err)… | sig=<signaling state> hyp=<1 iff no generated
             id or version is 0>
    race n=<N> spin=<S>
        one real PeerConnection; N times: add a recvonly transceiver, then CreateOffer while another goroutine
        (after S·(1..4) spins) calls Stop on it — Stop changes the direction without pc.mu, so CreateOffer's
        hasLocalDescriptionChanged test sometimes fails once and the loop generates a second description.
        out: i0:first, then per offer i<0 same id | 1 other id>:<'>' '=' '<' version vs. the previous offer>
    par pc st=<s0|hro|st1> g=<G> k=<K> r=<R> pat=<O/A pattern>      (real PeerConnection)
    par hook g=<G> k=<K> r=<R> n=<N> v0=<base> shake=<0|1>          (shared origin through the hook; the
        experiment is repeated on N fresh origins, the first unexpected outcome — else the last — is reported;
        with sweep=1 the goroutines walk over the N origins without barriers, K calls on each, one round)
        R rounds; in each, G goroutines are released together and make K calls each; call j of goroutine g
        in round r has kind pat[(g+j+r) mod |pat|].  Coarse ticks: start = 2r, return = 2r+1.
        out: <sorted ver − min ver of round 0, runs of consecutive values as a-b> / <round 1> / … | ids <distinct ids> | fine ok
             (or `fine inv <start> <ret> <ver> <start'> <ret'> <ver'>`: two calls, fine-grained ticks of the
             same clock, the first returned before the second started but has the larger-or-equal version)

  `run` maps every released segment to `Origin.step` actions only, so each simulated run is a `Reachable`
  run of the transition system the theorems are about.  `judge` evaluates the property on the observed
  calls: one session id; returned-before-started ⇒ smaller version; no version twice.
-/
namespace WebrtcVerif.Drv.C11
open WebrtcVerif WebrtcVerif.Origin

def u64? (s : String) : Option UInt64 :=
  match s.toNat? with
  | some n => if n < 2 ^ 64 then some (UInt64.ofNat n) else none
  | none => none

def parseParam (s : String) : Option (UInt64 × UInt64) :=
  match s.splitOn ":" with
  | [a, b] => do
      let x ← u64? a
      let y ← u64? b
      pure (x, y)
  | _ => none

def parseThread (s : String) : Option (List (UInt64 × UInt64)) := (s.splitOn ",").mapM parseParam

structure Prog where
  threads : List (List (UInt64 × UInt64))
  sched : List String

def parseSch (args : List String) : Option Prog := do
  let specs := args.takeWhile (· ≠ "sched")
  if specs.isEmpty || !(args.contains "sched") then none
  let threads ← specs.mapM parseThread
  pure { threads, sched := (args.dropWhile (· ≠ "sched")).drop 1 }

/-! ### simulator for `sch` -/

structure Sim where
  core : St
  offs : List Nat          -- core index of each thread's first call
  cnt : List Nat           -- number of calls of each thread
  cur : List Nat           -- per thread: index of its current call (= cnt when it has finished)
  clock : Nat := 0
  starts : List Nat        -- per core call: start tick
  log : List String := []
  deriving Repr

def offsets : List Nat → Nat → List Nat
  | [], _ => []
  | n :: ns, acc => acc :: offsets ns (acc + n)

def initSim (p : Prog) : Sim :=
  let cnt := p.threads.map List.length
  let all := p.threads.flatten
  { core := Origin.init all, offs := offsets cnt 0, cnt, cur := cnt.map (fun _ => 0),
    starts := all.map (fun _ => 0) }

def act (sim : Sim) (c : Nat) : Sim :=
  match step sim.core c with
  | some s => { sim with core := s }
  | none => sim

def pcOf (sim : Sim) (c : Nat) : Option Pc := (sim.core.calls[c]?).map (·.pc)

/-- the call returned: log it, advance the thread -/
def returned (sim : Sim) (i j c : Nat) : String × Sim :=
  match pcOf sim c with
  | some (.done id ver) =>
    let st := (sim.starts[c]?).getD 0
    let entry := s!"T{i}.{j}:{st}:{sim.clock}:{id.toNat}:{ver.toNat}"
    let sim := { sim with clock := sim.clock + 1, log := sim.log ++ [entry], cur := sim.cur.set i (j + 1) }
    (if j + 1 < (sim.cnt[i]?).getD 0 then "call" else "fin", sim)
  | _ => ("skip", sim)

/-- `Step` on harness thread `i`: one segment -/
def stepT (sim : Sim) (i : Nat) : String × Sim :=
  match sim.cur[i]?, sim.cnt[i]?, sim.offs[i]? with
  | some j, some n, some off =>
    if j ≥ n then ("skip", sim) else
    let c := off + j
    match pcOf sim c with
    | some .idle =>
      -- read the clock, enter updateSDPOrigin, execute the CAS, park at the yield behind it
      let sim := { sim with starts := sim.starts.set c sim.clock, clock := sim.clock + 1 }
      let sim := act (act sim c) c
      match pcOf sim c with
      | some .won => ("origin.won", sim)
      | _ => ("origin.lost", sim)
    | some .won => returned (act sim c) i j c
    | some .spin =>
      let sim := act sim c
      match pcOf sim c with
      | some (.loaded _) => ("origin.loaded", sim)
      | _ => ("origin.spin", sim)
    | some (.loaded _) => returned (act sim c) i j c
    | _ => ("skip", sim)
  | _, _, _ => ("skip", sim)

def parseName (n : String) : Option Nat :=
  match n.toList with
  | 'T' :: r => (String.ofList r).toNat?
  | _ => none

def stepName (sim : Sim) (n : String) : String × Sim :=
  match parseName n with
  | some i => stepT sim i
  | none => ("skip", sim)

def finished (sim : Sim) (i : Nat) : Bool := (sim.cur[i]?).getD 0 ≥ (sim.cnt[i]?).getD 0

def drainPass (sim : Sim) : Sim × List String × Bool :=
  (List.range sim.cnt.length).foldl (fun (acc : Sim × List String × Bool) i =>
    let (sim, ev, _) := acc
    if finished sim i then acc
    else
      let (r, sim') := stepT sim i
      (sim', ev ++ [s!"T{i}:{r}"], true)) (sim, [], false)

def drain : Nat → Sim → List String → Sim × List String
  | 0, sim, ev => (sim, ev)
  | fuel + 1, sim, ev =>
    if ev.length ≥ 60 then (sim, ev) else
    let (sim1, ev1, prog) := drainPass sim
    if prog then drain fuel sim1 (ev ++ ev1) else (sim1, ev ++ ev1)

def runSch (p : Prog) : String :=
  let sim0 := initSim p
  let (sim1, ev1) := p.sched.foldl (fun (acc : Sim × List String) n =>
    let (r, s') := stepName acc.1 n
    (s', acc.2 ++ [s!"{n}:{r}"])) (sim0, [])
  let (sim2, ev2) := drain 100 sim1 []
  let states := (List.range sim2.cnt.length).map (fun i => if finished sim2 i then s!"T{i}:fin" else s!"T{i}:parked")
  String.intercalate " " (ev1 ++ ["/"] ++ ev2 ++ ["|"] ++ sim2.log
    ++ ["|", "origin", toString sim2.core.id.toNat, toString sim2.core.ver.toNat, "|"] ++ states)

/-! ### real PeerConnections: the proved history model (`Origin.pcStep` over `Signaling.Neg`) decides which
    calls reach `updateSDPOrigin`; the harness-level bookkeeping around it only chooses the actions -/

def sigName : Signaling.Sig → String
  | .stable => "stable" | .haveLocalOffer => "have-local-offer" | .haveRemoteOffer => "have-remote-offer"
  | .haveLocalPranswer => "have-local-pranswer" | .haveRemotePranswer => "have-remote-pranswer"
  | .closed => "closed" | .unknown => "unknown"

structure SeqSt where
  pc : Origin.PcSt := {}
  codecless : Bool := false
  gen : Nat := 0                      -- descriptions generated so far (numbers the fresh origins)
  clock : Nat := 0
  calls : List (String × Nat × Nat × Option (UInt64 × UInt64)) := []   -- kind, start, ret, origin
  offers : List Nat := []             -- numbers k (`Txt.made k 0`) of the offers handed out, most recent first
  answers : List Nat := []

/-- the model's stand-in for the origin pion/sdp draws for the k-th generated description -/
def freshOrigin (k : Nat) : UInt64 × UInt64 := (UInt64.ofNat (7000 + k), UInt64.ofNat (1790000000 + k % 3))

def freshList (from_ n : Nat) : List (UInt64 × UInt64) := (List.range n).map (fun k => freshOrigin (from_ + k))

def pcAct (s : SeqSt) (a : PcAct) : SeqSt := { s with pc := (pcStep s.pc a).getD s.pc }

/-- a `CreateOffer` / `CreateAnswer` call that (if its guards pass) generates `n` descriptions and returns
    the last iff `ret` -/
def apiCall (s : SeqSt) (kind : String) (n : Nat) (ret : Bool) : SeqSt :=
  let a : Api := { fresh := freshList s.gen n, returns := ret }
  let before := s.pc.created.length
  let s' := pcAct s (if kind == "O" then .createOffer a else .createAnswer a)
  let o := if s'.pc.created.length > before then s'.pc.created.getLast? else none
  let s' := { s' with gen := s.gen + n, clock := s.clock + 2, calls := s.calls ++ [(kind, s.clock, s.clock + 1, o)] }
  match o with
  | none => s'
  | some _ => if kind == "O" then { s' with offers := before :: s'.offers } else { s' with answers := before :: s'.answers }

def applyLocal (s : SeqSt) (ty : Signaling.Ty) (k : Option Nat) : SeqSt :=
  match k with
  | none => s                         -- the harness has no such description: nothing is called
  | some k => pcAct s (.setLocal { ty := ty, txt := .made k 0 })

/-- `codecOnlyAudio`: the engine has no video codec; `planB`: SDPSemanticsPlanB -/
def seqOp (codecOnlyAudio planB : Bool) (s : SeqSt) (op : String) : Option SeqSt :=
  let offer (s : SeqSt) : SeqSt :=
    if s.codecless then apiCall s "O" 128 false     -- errExcessiveRetries after 128 iterations
    else apiCall s "O" 1 true
  match op with
  | "O" => some (offer s)
  | "Ot" => some (offer s)
  | "A" => some (apiCall s "A" 1 true)
  | "At" => some (apiCall s "A" 1 true)
  | "R" => some (pcAct s (.setRemote { ty := .offer, txt := .garbage }))
  | "N" => some (pcAct s (.setRemote { ty := .answer, txt := .garbage }))
  | "Np" => some (pcAct s (.setRemote { ty := .pranswer, txt := .garbage }))
  | "L" => some (applyLocal s .answer s.answers.head?)
  | "Lo" => some (applyLocal s .answer s.answers[1]?)       -- an OLDER answer than the last created one
  | "P" => some (applyLocal s .pranswer s.answers.head?)
  | "K" => some (applyLocal s .offer s.offers.head?)
  | "Ko" => some (applyLocal s .offer s.offers[1]?)         -- an OLDER offer than the last created one
  | "Rl" => some (pcAct s (.setLocal { ty := .rollback, txt := .empty }))
  | "Rr" => some (pcAct s (.setRemote { ty := .rollback, txt := .empty }))
  | "X" => some (if !s.pc.neg.isClosed && codecOnlyAudio && !planB then { s with codecless := true } else s)   -- ignored under Plan B
  | "T" => some s
  | "D" => some s
  | "C" => some (pcAct s .close)
  | _ => none

def minVer (os : List (UInt64 × UInt64)) : Nat :=
  match os.map (·.2.toNat) with
  | [] => 0
  | v :: vs => vs.foldl min v

def idClass (seen : List UInt64) (id : UInt64) : Nat × List UInt64 :=
  match seen.findIdx? (· == id) with
  | some k => (k, seen)
  | none => (seen.length, seen ++ [id])

def showCalls (calls : List (String × Nat × Nat × Option (UInt64 × UInt64))) : List String :=
  let m := minVer (calls.filterMap (·.2.2.2))
  (calls.foldl (fun (acc : List String × List UInt64) c =>
    match c with
    | (k, st, rt, none) => (acc.1 ++ [s!"{k}:{st}:{rt}:err"], acc.2)
    | (k, st, rt, some (id, ver)) =>
      let (cl, seen) := idClass acc.2 id
      (acc.1 ++ [s!"{k}:{st}:{rt}:i{cl}:{ver.toNat - m}"], seen)) ([], [])).1

def runSeq (eng : String) (ops : List String) : String :=
  if eng != "eng=a" && eng != "eng=d" && eng != "eng=p" then "bad-op" else
  match ops.foldlM (seqOp (eng != "eng=d") (eng == "eng=p")) ({} : SeqSt) with
  | none => "bad-op"
  | some s => String.intercalate " " (showCalls s.calls ++ ["|", "*", "hyp=1"])  -- the final signaling state is not predicted: whether a remote answer is
      -- accepted depends on SDP contents this model does not carry (C01/C02 own that); `*` matches the harness's `sig=…`

def kv (args : List String) (key : String) : Option String :=
  (args.find? (·.startsWith (key ++ "="))).map (fun t => String.ofList (t.toList.drop (key.length + 1)))

def kvNat (args : List String) (key : String) (d : Nat) : Nat :=
  match kv args key with
  | some v => v.toNat?.getD d
  | none => d

/-- number of calls of one round that return a description -/
def okInRound (pat : List Char) (okO okA : Bool) (g k r : Nat) : Nat :=
  ((List.range g).flatMap (fun gi => (List.range k).map (fun j =>
    match pat[(gi + j + r) % pat.length]? with
    | some 'O' => okO
    | some 'A' => okA
    | _ => false))).count true

def runPar (args : List String) : String :=
  match args with
  | target :: rest =>
    let g := kvNat rest "g" 2; let k := kvNat rest "k" 1; let r := kvNat rest "r" 1
    let pat := ((kv rest "pat").getD "O").toList
    if g < 1 || g > 64 || k < 1 || k > 65536 || r < 1 || r > 64 || pat.isEmpty then "bad-op" else
    let counts : Option (List Nat) :=
      if target == "pc" then
        match (kv rest "st").getD "s0" with
        | "s0" => some ((List.range r).map (okInRound pat true false g k))
        | "hro" => some ((List.range r).map (okInRound pat true true g k))
        | "st1" => some ((List.range r).map (okInRound pat true false g k))
        | _ => none
      else if target == "hook" then
        match (kv rest "v0").bind u64? with
        | some _ => some ((List.range (if kvNat rest "sweep" 0 != 0 then 1 else r)).map (fun _ => g * k))
        | none => none
      else none
    match counts with
    | none => "bad-op"
    | some cs =>
      -- sequentially, the calls of round 0 take versions 0 … c₀−1, those of round 1 the next c₁, …
      let (rounds, total) := cs.foldl (fun (acc : List (List String) × Nat) c =>
        let tok : List String :=
          if c == 0 then [] else if c == 1 then [toString acc.2] else [s!"{acc.2}-{acc.2 + c - 1}"]
        (acc.1 ++ [tok], acc.2 + c)) ([], 0)
      let toks := (rounds.intersperse ["/"]).flatten
      String.intercalate " " (toks ++ ["|", "ids", if total == 0 then "0" else "1", "|", "fine", "ok"])
  | [] => "bad-op"

/-- `race n=<N> spin=<S>`: N CreateOffer calls, all successful, however many descriptions each generated -/
def runRace (args : List String) : String :=
  let n := kvNat args "n" 8
  let spin := kvNat args "spin" 1000
  if n < 1 || n > 64 || spin > 10000000 then "bad-op" else
  String.intercalate " " ((List.range n).map (fun i => if i == 0 then "i0:first" else "i0:>"))

def run (args : List String) : String :=
  match args with
  | "race" :: rest => runRace rest
  | "sch" :: rest =>
    match parseSch rest with
    | some p => runSch p
    | none => "bad-op"
  | "seq" :: eng :: ops => runSeq eng ops
  | "par" :: rest => runPar rest
  | _ => "bad-op"

/-! ### judge — the property on the observed calls -/

structure Obs where
  start : Nat
  ret : Nat
  id : String
  ver : Nat

/-- C11 on a set of completed calls with start/return ticks of one monotonic clock -/
def judgeCalls (cs : List Obs) : String :=
  match cs with
  | [] => "ok"
  | c0 :: _ =>
    if cs.any (fun c => c.id != c0.id) then "violated session-id-differs" else
    if cs.any (fun a => cs.any (fun b => a.ret < b.start && !(a.ver < b.ver))) then "violated version-not-increasing" else
    if (cs.map (·.ver)).eraseDups.length != cs.length then "violated version-repeated" else
    "ok"

def splitBar (l : List String) : List (List String) :=
  l.foldr (fun t acc => if t == "|" then [] :: acc else match acc with | h :: tl => (t :: h) :: tl | [] => [[t]]) [[]]

def splitSlash (l : List String) : List (List String) :=
  l.foldr (fun t acc => if t == "/" then [] :: acc else match acc with | h :: tl => (t :: h) :: tl | [] => [[t]]) [[]]

def hypOk (p : Prog) : Bool := decide (Hyp p.threads.flatten)

def nonDesc : List Nat → Bool
  | a :: b :: rest => a ≤ b && nonDesc (b :: rest)
  | _ => true

def hasEqNeighbours : List Nat → Bool
  | a :: b :: rest => a == b || hasEqNeighbours (b :: rest)
  | _ => false

/-- C11 on rounds of calls: all calls of a round are concurrent (same coarse ticks), every call of an earlier
    round returned before every call of a later round started.  Each round's versions arrive sorted, so this
    is `judgeCalls` in linear time (rounds can hold 10^5 calls). -/
def judgeRounds (rs : List (List Nat)) : String :=
  if rs.any (fun r => !nonDesc r) then "bad-judge" else
  let spans := rs.filterMap (fun r => match r.head?, r.getLast? with | some lo, some hi => some (lo, hi) | _, _ => none)
  let rec cross : List (Nat × Nat) → Bool
    | [] => false
    | (_, hi) :: rest => rest.any (fun s => !(hi < s.1)) || cross rest
  if cross spans then "violated version-not-increasing" else
  if rs.any hasEqNeighbours then "violated version-repeated" else "ok"

/-- "7" or "3-9" (a run of consecutive versions) -/
def expandTok (t : String) : Option (List Nat) :=
  match t.splitOn "-" with
  | [a] => a.toNat?.map (fun x => [x])
  | [a, b] =>
    match a.toNat?, b.toNat? with
    | some x, some y => if x ≤ y && y - x ≤ 200000 then some ((List.range (y - x + 1)).map (· + x)) else none
    | _, _ => none
  | _ => none

def judge (args out : List String) : String :=
  match args with
  | "race" :: _ =>
    -- sequential calls: each description must carry the first one's id and a version greater than the previous
    if out.any (fun t => t.startsWith "i1") then "violated session-id-differs"
    else if out.any (fun t => t.endsWith ":<") then "violated version-not-increasing"
    else if out.any (fun t => t.endsWith ":=") then "violated version-repeated"
    else if out.all (fun t => t == "i0:first" || t == "i0:>" || t == "err") then "ok" else "bad-judge"
  | "sch" :: rest =>
    match parseSch rest, splitBar out with
    | some p, [_evs, calls, _origin, _states] =>
      -- outside the hypotheses (a zero id or version was generated, or the counter wraps) nothing is claimed
      if !hypOk p then "ok" else
      match calls.mapM (fun t => match t.splitOn ":" with
          | [_, s, r, id, v] => do
              let s ← s.toNat?
              let r ← r.toNat?
              let v ← v.toNat?
              pure ({ start := s, ret := r, id := id, ver := v } : Obs)
          | _ => none) with
      | some cs => judgeCalls cs
      | none => "bad-judge"
    | _, _ => "bad-judge"
  | "seq" :: _ =>
    match splitBar out with
    | [calls, [_sig, hyp]] =>
      if hyp != "hyp=1" then "violated sdp-generated-zero-origin" else
      match calls.mapM (fun t => match t.splitOn ":" with
          | [_, s, r, id, v] => do
              let s ← s.toNat?
              let r ← r.toNat?
              let v ← v.toNat?
              pure (some ({ start := s, ret := r, id := id, ver := v } : Obs))
          | [_, _, _, "err"] => some none
          | _ => none) with
      | some cs => judgeCalls (cs.filterMap id)
      | none => "bad-judge"
    | _ => "bad-judge"
  | "par" :: _ =>
    match splitBar out with
    | [rounds, ["ids", n], "fine" :: fine] =>
      match n.toNat?, (splitSlash rounds).mapM (fun r => (r.mapM expandTok).map List.flatten) with
      | some n, some rs =>
        if n > 1 then "violated session-id-differs" else
        match judgeRounds rs with
        | "ok" =>
          match fine with
          | ["ok"] => "ok"
          | ["inv", s1, r1, v1, s2, r2, v2] =>
            match [s1, r1, v1, s2, r2, v2].mapM String.toNat? with
            | some [s1, r1, v1, s2, r2, v2] =>
              judgeCalls [{ start := s1, ret := r1, id := "i", ver := v1 }, { start := s2, ret := r2, id := "i", ver := v2 }]
                |> fun v => if v == "ok" then "bad-judge" else v
            | _ => "bad-judge"
          | _ => "bad-judge"
        | v => v
      | _, _ => "bad-judge"
    | _ => "bad-judge"
  | _ => "bad-judge"

end WebrtcVerif.Drv.C11
