import WebrtcVerif.Drv.SigHist
/-! Driver handler for C03 (a rejected SetLocal/SetRemoteDescription changes nothing).  Op language `h …`. -/
namespace WebrtcVerif.Drv.C03
open WebrtcVerif WebrtcVerif.Signaling WebrtcVerif.Drv.SigHist

def run (args : List String) : String := SigHist.run args

/-- error ⇒ same signaling state, same four descriptions, no signaling event.  The key names the error
    class, so that a different cause is a different finding. -/
def judgeView (v : View) : String :=
  let o := v.now
  let b := v.before.prev
  match v.step.kind with
  | .set .. =>
    if o.err == "ok" then "ok"
    else if !(o.sameState b) then s!"violated state-changed-on-error:{o.err}"
    else if o.ev != "-" then s!"violated event-on-error:{o.err}"
    else "ok"
  | _ => "ok"

def judge (args out : List String) : String :=
  match parseHist args with
  | none => "bad-judge"
  | some (_, steps) =>
    match views steps out with
    | none => "bad-judge"
    | some vs => firstBad vs judgeView

end WebrtcVerif.Drv.C03
