import WebrtcVerif.Base.Wire
import WebrtcVerif.Model.Fingerprint
/-! Driver handler for C14 (DTLS fingerprint).  Text tokens are hex of UTF-8 (`-` = empty).
  ops:
    ext  <nsess> {<key> <value>}* <nmedia> {<n> {<key> <value>}*}*     extractFingerprint on a built description
    exts … same tokens …                                               the same through SDP text + pion/sdp parser
         → `ok <value> <hash>` | `nofp` | `badfp`
    val  <disabled> <cert> <md5> <sha1> <sha224> <sha256> <sha384> <sha512> <n> {<algo> <value>}*
         cert = `none` | `x…` (does not parse) | `c…` (parses); the six tokens are the digests of the DER (hex)
         → `ok|nomatch|badalgo|badcert|nocert rec=<0|1>`
    gfp  <cert> <sha256>                                               Certificate.GetFingerprints
         → `<n> <algo> <value>`
    adv  <cfg> <mediaLevel>                                            offer of a fresh PeerConnection
         → `s=<session fps> m=<sections with fp>/<sections> eq=<0|1> first=<0|1|na> aeq=<0|1>` (eq: offer, aeq: answer)
    e2e  <victim o|a> <cert> <disabled> <variant> [<param>]            two real peers over loopback
         → `srd=<ok|nofp|badfp> m=<0|1> dtlsconn=<b> dtlsfail=<b> pcconn=<b> open=<b> msg=<b> track=<b> adv=<b>`
           | `inconclusive <reason>` (implementation only: a wall-clock limit was hit)
-/
namespace WebrtcVerif.Drv.C14
open WebrtcVerif WebrtcVerif.Fingerprint

def txt (s : String) : Option Str := (Wire.textOfHex s).map String.toList
def hexS (l : Str) : String := Wire.hexOfText (String.ofList l)

def parseAttrs : Nat → List String → Option (List Attr × List String)
  | 0, rest => some ([], rest)
  | n + 1, k :: v :: rest => do
      let k ← txt k
      let v ← txt v
      let (tl, rest') ← parseAttrs n rest
      pure ({ key := k, value := v } :: tl, rest')
  | _, _ => none

def parseMedia : Nat → List String → Option (List (List Attr) × List String)
  | 0, rest => some ([], rest)
  | n + 1, cnt :: rest => do
      let cnt ← cnt.toNat?
      let (as, rest') ← parseAttrs cnt rest
      let (tl, rest'') ← parseMedia n rest'
      pure (as :: tl, rest'')
  | _, _ => none

def parseDesc (args : List String) : Option Desc :=
  match args with
  | ns :: rest => do
      let ns ← ns.toNat?
      let (sess, rest) ← parseAttrs ns rest
      match rest with
      | nm :: rest => do
          let nm ← nm.toNat?
          let (media, rest) ← parseMedia nm rest
          if rest.isEmpty then pure { attrs := sess, media := media } else none
      | [] => none
  | [] => none

def showExtract (d : Desc) : String :=
  match extractFingerprint d with
  | .ok (v, h) => s!"ok {hexS v} {hexS h}"
  | .error .noFingerprint => "nofp"
  | .error .invalidFingerprint => "badfp"

/-- digest table from the six op tokens -/
def digestOf (ds : List (List UInt8)) : Digest := fun a _ =>
  match a with
  | .md5 => ds.getD 0 [] | .sha1 => ds.getD 1 [] | .sha224 => ds.getD 2 []
  | .sha256 => ds.getD 3 [] | .sha384 => ds.getD 4 [] | .sha512 => ds.getD 5 []

def parseFps : Nat → List String → Option (List DtlsFp)
  | 0, [] => some []
  | n + 1, a :: v :: rest => do
      let a ← txt a
      let v ← txt v
      let tl ← parseFps n rest
      pure ({ algorithm := a, value := v } :: tl)
  | _, _ => none

def rawCertOf (tok : String) : Option RawCert :=
  if tok == "none" then some .none
  else match tok.toList with
    | 'x' :: _ => some (.unparsable [])
    | 'c' :: _ => some (.parsed [])
    | _ => none

structure ValOp where
  disabled : Bool
  peer : RawCert
  D : Digest
  fps : List DtlsFp

def parseVal (args : List String) : Option ValOp :=
  match args with
  | dis :: cert :: d0 :: d1 :: d2 :: d3 :: d4 :: d5 :: n :: rest => do
      let dis ← Wire.tokBool dis
      let peer ← rawCertOf cert
      let ds ← [d0, d1, d2, d3, d4, d5].mapM Wire.bytesOfHex
      let n ← n.toNat?
      let fps ← parseFps n rest
      pure { disabled := dis, peer, D := digestOf ds, fps }
  | _ => none

def showVerify : Except VerifyErr Unit → String
  | .ok () => "ok"
  | .error .noMatch => "nomatch"
  | .error .invalidHash => "badalgo"
  | .error .badCertificate => "badcert"
  | .error .noRemoteCertificate => "nocert"

/-! ### symbolic instance used for the end-to-end and `adv` lines -/

def digestLen : Algo → Nat
  | .md5 => 16 | .sha1 => 20 | .sha224 => 28 | .sha256 => 32 | .sha384 => 48 | .sha512 => 64

def algoIdx : Algo → Nat
  | .md5 => 0 | .sha1 => 1 | .sha224 => 2 | .sha256 => 3 | .sha384 => 4 | .sha512 => 5

/-- a stand-in digest: depends on the algorithm and on the certificate bytes, nothing else is used of it -/
def symD : Digest := fun a raw =>
  (List.range (digestLen a)).map (fun i => UInt8.ofNat (17 * algoIdx a + 31 * (raw.headD 0).toNat + 7 * i))

def peerRaw : Der := [1]
def otherRaw : Der := [2]

def fpLine (name : Str) (value : Str) : Attr := { key := kFingerprint, value := name ++ ' ' :: value }

/-- next hex digit, on the upper-case rendering -/
def nextHex (c : Char) : Char :=
  if c = '9' then 'A' else if c = 'F' then '0' else Char.ofNat (c.toNat + 1)

/-- replace the `i`-th hex digit (colons not counted) -/
def alterDigit (v : Str) (i : Nat) : Str :=
  let pos := i + i / 2
  match v[pos]? with
  | some c => v.set pos (nextHex c)
  | none => v

def midAttr (m : Str) : Attr := { key := kMid, value := m }

/-- the remote description the victim applies, for each variant (the untouched one has a single
    session-level `sha-256` fingerprint, BUNDLE 0 1, sections with mid 0 and 1) -/
def variantDesc (variant : String) (param : Option String) : Option Desc :=
  let good := toUpper (render (symD .sha256 peerRaw))
  let name := Algo.sha256.name
  let grp : Attr := { key := kGroup, value := sBundle ++ [' ', '0', ' ', '1'] }
  let mk (sess : List Attr) (m0 m1 : List Attr) : Desc :=
    { attrs := grp :: sess, media := [midAttr ['0'] :: m0, midAttr ['1'] :: m1] }
  let bad := alterDigit good 5
  match variant, param with
  | "ok", none => some (mk [fpLine name good] [] [])
  | "lower", none => some (mk [fpLine (name.map asciiUpper) (good.map asciiLower)] [] [])
  | "digit", some p => do let i ← p.toNat?; pure (mk [fpLine name (alterDigit good i)] [] [])
  | "name", some p => do let n ← txt p; pure (mk [fpLine n good] [] [])
  | "hashok", some p => do
      let n ← txt p
      let a ← hashFromString n
      pure (mk [fpLine n (toUpper (render (symD a peerRaw)))] [] [])
  | "absent", none => some (mk [] [] [])
  | "media", none => some (mk [] [fpLine name good] [fpLine name good])
  | "mediamaster", none => some (mk [] [fpLine name good] [])
  | "mediaother", none => some (mk [] [] [fpLine name good])
  | "sesswrong", none => some (mk [fpLine name bad] [fpLine name good] [fpLine name good])
  | "mediawrong", none => some (mk [fpLine name good] [fpLine name bad] [fpLine name bad])
  | "twofirstwrong", none => some (mk [fpLine name bad, fpLine name good] [] [])
  | "othercert", none => some (mk [fpLine name (toUpper (render (symD .sha256 otherRaw)))] [] [])
  | "nospace", none => some (mk [{ key := kFingerprint, value := name ++ good }] [] [])
  | "asis", some p => do   -- the description exactly as the peer wrote it (session- or media-level placement)
      let ml ← Wire.tokBool p
      let fps := getFingerprints symD { raw := peerRaw, key := 0 }
      pure (localDescription ml fps [grp] [[midAttr ['0']], [midAttr ['1']]])
  | _, _ => none

def showE2E (disabled : Bool) (d : Desc) : String :=
  let o := session disabled symD d (.parsed peerRaw) true
  let m := (allFingerprintValues d).any (matchesValue symD peerRaw)
  let srd := match o.srdError with
    | none => "ok" | some .noFingerprint => "nofp" | some .invalidFingerprint => "badfp"
  let c := o.dtls == .connected
  let b := Wire.boolTok
  -- when connected, every observable of the victim becomes true; otherwise none does
  s!"srd={srd} m={b m} dtlsconn={b c} dtlsfail={b (o.dtls == .failed)} pcconn={b c} open={b (c && o.haveConn)} msg={b (c && o.haveConn)} track={b (c && o.haveConn)} adv=1"

/-- certificates of the `adv` op: `gen` or a comma-separated list of pool indices -/
def cfgCerts (cfg : String) : Option (List Cert) :=
  if cfg == "gen" then some []
  else (cfg.splitOn ",").mapM (fun t => match t.toList with
    | 'c' :: ds => (String.ofList ds).toNat?.map (fun k => ({ raw := [UInt8.ofNat (k + 10)], key := k + 10 } : Cert))
    | _ => none)

def countFp (as : List Attr) : Nat := (as.filter (·.key = kFingerprint)).length

def run (args : List String) : String :=
  match args with
  | "ext" :: rest | "exts" :: rest =>
    match parseDesc rest with
    | some d => showExtract d
    | none => "bad-op"
  | "val" :: rest =>
    match parseVal rest with
    | some o =>
      let r := verifyPeerCertificate o.disabled o.D o.fps o.peer
      s!"{showVerify r} rec={Wire.boolTok (recordedCertificate o.peer).isSome} chain=ok"
    | none => "bad-op"
  | ["gfp", _cert, d256] =>
    match Wire.bytesOfHex d256 with
    | some d =>
      let fps := getFingerprints (fun _ _ => d) { raw := [], key := 0 }
      String.intercalate " " (toString fps.length :: (fps.map (fun f => s!"{hexS f.algorithm} {hexS f.value}")))
    | none => "bad-op"
  | ["adv", cfg, ml] =>
    match cfgCerts cfg, Wire.tokBool ml with
    | some supplied, some ml =>
      let pc := newPC supplied { raw := [200], key := 200 } { raw := [201], key := 201 }
      match advertised symD pc, presented pc with
      | some fps, some c =>
        let d := localDescription ml fps [] [[midAttr ['0']], [midAttr ['1']]]
        let want : List Attr := [fpLine Algo.sha256.name (toUpper (render (symD .sha256 c.raw)))]
        let got := d.attrs.filter (·.key = kFingerprint) ++ (d.media.map (·.filter (·.key = kFingerprint))).flatten
        let eq := got.all (fun a => want.contains a) && !got.isEmpty
        let first := match supplied.head? with
          | some s => Wire.boolTok (s.raw == c.raw)
          | none => "na"
        s!"s={countFp d.attrs} m={(d.media.filter (fun m => countFp m > 0)).length}/{d.media.length} eq={Wire.boolTok eq} first={first} aeq={Wire.boolTok eq}"
      | _, _ => "panic"
    | _, _ => "bad-op"
  | "e2e" :: _victim :: _cert :: dis :: variant :: rest =>
    match Wire.tokBool dis, variantDesc variant rest.head? with
    | some dis, some d => if rest.length ≤ 1 then showE2E dis d else "bad-op"
    | _, _ => "bad-op"
  | _ => "bad-op"

/-! ### judge: the property on observed outputs -/

/-- independent matching: table of names, plain lower-casing, plain hex rendering -/
def nameTable : List (String × Nat) :=
  [("md5", 0), ("sha-1", 1), ("sha-224", 2), ("sha-256", 3), ("sha-384", 4), ("sha-512", 5)]

def hexLower (bs : List UInt8) : String :=
  String.intercalate ":" (bs.map Wire.hexOfByte)

def entryMatches (ds : List (List UInt8)) (algo value : Str) : Bool :=
  match nameTable.lookup (String.ofList algo).toLower with
  | some i => (String.ofList value).toLower == hexLower (ds.getD i []) && !(ds.getD i []).isEmpty
  | none => false

def kv (s : String) : Option (String × String) :=
  match s.splitOn "=" with
  | [k, v] => some (k, v)
  | _ => none

def field (out : List String) (k : String) : Option String := (out.filterMap kv).lookup k

def judge (args out : List String) : String :=
  match args with
  | "ext" :: rest | "exts" :: rest =>
    match parseDesc rest, out with
    | some d, ["ok", v, h] =>
      match txt v, txt h with
      | some v, some h =>
        -- the extracted pair must literally be one of the description's a=fingerprint attributes
        if (allFingerprintValues d).contains (h ++ ' ' :: v) then "ok"
        else "violated extracted-not-in-description"
      | _, _ => "bad-judge"
    | some _, ["nofp"] => "ok"
    | some _, ["badfp"] => "ok"
    | _, _ => "bad-judge"
  | "val" :: dis :: cert :: d0 :: d1 :: d2 :: d3 :: d4 :: d5 :: n :: rest =>
    match Wire.tokBool dis, [d0, d1, d2, d3, d4, d5].mapM Wire.bytesOfHex, n.toNat?.bind (parseFps · rest), out with
    | some dis, some ds, some fps, [verdict, _rec, chain] =>
      -- the verdict for a leaf must not depend on further certificates in the presented chain
      if chain == "chain=bad" then "violated chain-certificate-accepted"
      else if verdict == "ok" then
        if dis then "ok"   -- verification explicitly disabled: the property does not constrain the outcome
        else if !cert.startsWith "c" then "violated accepted-without-certificate"
        else if fps.any (fun f => entryMatches ds f.algorithm f.value) then "ok"
        else "violated accepted-mismatch"
      else if ["nomatch", "badalgo", "badcert", "nocert"].contains verdict then "ok"
      else "bad-judge"
    | _, _, _, _ => "bad-judge"
  | ["gfp", _cert, d256] =>
    match Wire.bytesOfHex d256, out with
    | some d, [n, a, v] =>
      match txt a, txt v with
      | some a, some v =>
        if n == "1" && String.ofList a == "sha-256" && (String.ofList v).toLower == hexLower d then "ok"
        else "violated advertised-not-sha256-of-certificate"
      | _, _ => "bad-judge"
    | some _, _ => "violated advertised-not-sha256-of-certificate"
    | _, _ => "bad-judge"
  | ["adv", _cfg, _ml] =>
    match field out "eq", field out "first", field out "aeq" with
    | some e, some f, some ae =>
      -- only an observed inequality is a violation; `err` (no description could be produced) is not judged
      if e == "0" || f == "0" || ae == "0" then "violated advertised-not-presented" else "ok"
    | _, _, _ => "bad-judge"
  | "e2e" :: _victim :: _cert :: dis :: _ =>
    match out with
    | "inconclusive" :: _ => "ok"
    | _ =>
      match Wire.tokBool dis, field out "m", field out "dtlsconn", field out "pcconn", field out "open",
            field out "msg", field out "track", field out "adv" with
      | some dis, some m, some dc, some pcc, some op, some msg, some tr, some adv =>
        if adv != "1" then "violated advertised-not-presented"
        else if !dis && m == "0" then
          if dc == "1" || pcc == "1" then "violated connected-despite-mismatch"
          else if op == "1" || msg == "1" || tr == "1" then "violated delivered-despite-mismatch"
          else "ok"
        else "ok"
      | _, _, _, _, _, _, _, _ => "bad-judge"
  | _ => "bad-judge"

end WebrtcVerif.Drv.C14
