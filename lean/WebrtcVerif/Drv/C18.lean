import WebrtcVerif.Base.Wire
import WebrtcVerif.Model.DcId
/-! Driver handler for C18 (data channel stream ids).

  `pure [M<maxVal>] {r<lo>:<hi>:<step> | a<id>}* ; {g<role> | m<id>}*`
      a bare SCTPTransport whose `dataChannelIDsUsed` is pre-filled; `g<role>` calls
      generateAndSetDataChannelID with the raw DTLSRole byte, `m<id>` registers a remote channel through
      onDataChannel.
      → one token per op (`<id>` | `E` = ErrMaxDataChannelID | `H` = loop never exits | `.` for m) then
        `D <number of keys added to the map>`

  `hist <c|s> <tok>*`   two real PeerConnections a (offerer) and b; the letter is a's DTLS role.
      X ∈ {a,b}:  `Xu` CreateDataChannel without id · `Xv` same, negotiated · `Xe<id>` explicit id ·
      `Xn<id>` explicit id, negotiated · `Xk<j>` close X's j-th created channel · `Xr<j>` X closes the
      channel it accepted for the peer's j-th channel · `Xf<lo>:<hi>:<step>` pre-fill X's
      dataChannelIDsUsed (hook) · `connect` · `B:<tok>+<tok>…` the create tokens run concurrently.
      → `R <roleA> <roleB>` then for every token `| <ids a> / <ids b> / <accepted by a> / <accepted by b>`
        ids: comma list over the side's created channels (`-` no id yet, `E` CreateDataChannel failed),
        accepted: comma list `<peer's channel index>:<id>`; `_` = empty list.
-/
namespace WebrtcVerif.Drv.C18
open WebrtcVerif WebrtcVerif.DcId

def u16? (s : String) : Option UInt16 := do
  let n ← s.toNat?
  if n < 65536 then some (UInt16.ofNat n) else none

def parseRng (s : String) : Option Rng :=
  match s.splitOn ":" with
  | [lo, hi, st] => do
    let lo ← u16? lo; let hi ← u16? hi; let st ← u16? st
    pure ⟨lo, hi, st⟩
  | _ => none

def body (s : String) : String := String.ofList (s.toList.drop 1)

/-! ### pure -/

structure PureSt where
  maxVal : UInt16 := sctpMaxChannels
  used : Used := []

def parseSpec (st : PureSt) : List String → Option PureSt
  | [] => some st
  | t :: rest =>
    match t.toList with
    | 'M' :: _ => do let m ← u16? (body t); parseSpec { st with maxVal := m } rest
    | 'r' :: _ => do let r ← parseRng (body t); parseSpec { st with used := r :: st.used } rest
    | 'a' :: _ => do let v ← u16? (body t); parseSpec { st with used := st.used.insert v } rest
    | _ => none

inductive POp | gen (role : Role) | rem (id : UInt16)

def parsePOps : List String → Option (List POp)
  | [] => some []
  | t :: rest => do
    let tl ← parsePOps rest
    match t.toList with
    | 'g' :: _ => do
      let n ← (body t).toNat?
      if n < 256 then pure (.gen (UInt8.ofNat n) :: tl) else none
    | 'm' :: _ => do let v ← u16? (body t); pure (.rem v :: tl)
    | _ => none

def splitSemi (args : List String) : List String × List String :=
  (args.takeWhile (· ≠ ";"), (args.dropWhile (· ≠ ";")).drop 1)

def runPureOps (st : PureSt) (ops : List POp) : List String × Nat :=
  let rec go (u : Used) (ops : List POp) (acc : List String) (delta : Nat) : List String × Nat :=
    match ops with
    | [] => (acc.reverse, delta)
    | .gen role :: rest =>
      match generateWith st.maxVal role u with
      | .found g => go (u.insert g) rest (toString g.toNat :: acc) (delta + 1)
      | .exhausted => go u rest ("E" :: acc) delta
      | .diverged => go u rest ("H" :: acc) delta
    | .rem id :: rest =>
      go (u.insert id) rest ("." :: acc) (if isUsed u id then delta else delta + 1)
  go st.used ops [] 0

def runPure (args : List String) : String :=
  let (spec, ops) := splitSemi args
  match parseSpec {} spec, parsePOps ops with
  | some st, some ops =>
    let (outs, d) := runPureOps st ops
    String.intercalate " " (outs ++ ["D", toString d])
  | _, _ => "bad-op"

/-- the property on observed outputs of `pure`: every id handed out has the parity of the role it was
    asked for, is not 65535 and was not in the map (initial contents, earlier observed ids, remote ids) -/
def judgePure (args out : List String) : String :=
  let (spec, ops) := splitSemi args
  match parseSpec {} spec, parsePOps ops with
  | some st, some ops =>
    let rec go (u : Used) (ops : List POp) (out : List String) : String :=
      match ops, out with
      | [], "D" :: _ => "ok"
      | .gen role :: rest, t :: out' =>
        if t == "E" || t == "H" then go u rest out'
        else match u16? t with
          | none => "bad-judge"
          | some g =>
            -- the parity rule speaks about the client and the server role only
            if (role == roleClient || role == roleServer) && (g.toNat % 2 == 0) != (role == roleClient)
              then "violated wrong-parity"
            else if g.toNat == 65535 then "violated id-65535"
            else if isUsed u g then "violated duplicate-id"
            else go (u.insert g) rest out'
      | .rem id :: rest, _ :: out' => go (u.insert id) rest out'
      | _, _ => "bad-judge"
    go st.used ops out
  | _, _ => "bad-judge"

/-! ### hist: two transports, the SCTP streams between them -/

/-- yield points at which a goroutine can be parked: `dcid:create:registered` (CreateDataChannel, after the
    registration, before the `State()` test), `dcid:open:before-generate`, `dcid:open:before-store` -/
inductive Stage | reg | gen | store
  deriving DecidableEq

structure Parked where
  slot : Nat
  k : Nat
  stage : Stage
  neg : Bool

structure StartParked where
  stage : Stage
  k : Nat
  neg : Bool
  slot : Nat
  rest : List (Option (Nat × Bool) × Nat)

structure Side where
  st : St := init
  streams : List UInt16 := []              -- stream ids open on this end of the association
  slots : List (Option (Nat × Bool)) := []   -- created channels: (index in st.chans, negotiated) | none = no handle (E)
  arrived : List (Nat × Nat) := []          -- (peer's slot, index in st.chans) of accepted channels
  parked : List Parked := []               -- CreateDataChannel calls parked at a yield point
  armStart : Option Stage := none          -- a gate is armed for Start's open loop
  startParked : Option StartParked := none

inductive Tok
  | create (side : Bool) (eid : Option UInt16) (neg : Bool)   -- side: true = a
  | closeLocal (side : Bool) (j : Nat)
  | closeRemote (side : Bool) (j : Nat)
  | prefill (side : Bool) (r : Rng)
  | connect
  | burst (ts : List (Bool × Option UInt16 × Bool))
  | parkCreate (side : Bool) (stage : Stage) (eid : Option UInt16) (neg : Bool)
  | release (side : Bool) (j : Nat)
  | armStart (side : Bool) (stage : Stage)
  | releaseStart (side : Bool)

def parseCreate (t : String) : Option (Bool × Option UInt16 × Bool) :=
  match t.toList with
  | s :: k :: rest =>
    let side? := if s == 'a' then some true else if s == 'b' then some false else none
    let arg := String.ofList rest
    side?.bind fun side =>
      match k with
      | 'u' => if rest.isEmpty then some (side, none, false) else none
      | 'v' => if rest.isEmpty then some (side, none, true) else none
      | 'e' => (u16? arg).map fun v => (side, some v, false)
      | 'n' => (u16? arg).map fun v => (side, some v, true)
      | _ => none
  | _ => none

def parseStage (c : Char) : Option Stage :=
  if c == 'r' then some .reg else if c == 'g' then some .gen else if c == 's' then some .store else none

def parseTok (t : String) : Option Tok :=
  if t == "connect" then some .connect
  else if t.startsWith "B:" || t.startsWith "L:" then
    (((String.ofList (t.toList.drop 2)).splitOn "+").mapM parseCreate).map .burst
  else
    match parseCreate t with
    | some (s, e, n) => some (.create s e n)
    | none =>
      match t.toList with
      | s :: k :: rest =>
        let side? := if s == 'a' then some true else if s == 'b' then some false else none
        let arg := String.ofList rest
        side?.bind fun side =>
          match k with
          | 'k' => arg.toNat?.map (.closeLocal side)
          | 'r' => arg.toNat?.map (.closeRemote side)
          | 'f' => (parseRng arg).map (.prefill side)
          | 'q' => arg.toNat?.map (.release side)
          | 'y' => if rest.isEmpty then some (.releaseStart side) else none
          | 'z' => match rest with
            | [c] => (parseStage c).map (.armStart side)
            | _ => none
          | 'p' => match rest with
            | c :: cr => do
              let stage ← parseStage c
              let (_, e, n) ← parseCreate (String.ofList (s :: cr))
              pure (.parkCreate side stage e n)
            | _ => none
          | _ => none
      | _ => none

def roleOfTok (s : String) : Option Role :=
  if s == "c" then some roleClient else if s == "s" then some roleServer else none

def otherRole (r : Role) : Role := if r == roleClient then roleServer else roleClient

def setSlot (l : List (Option (Nat × Bool))) (j : Nat) : List (Option (Nat × Bool)) :=
  l.zipIdx.map fun (x, i) => if i == j then none else x

/-- `datachannel.Dial` for x's slot `slot` (channel `k`) after `open` ran.  `open` fails only when no id
    could be generated (`post` = called from CreateDataChannel: the error is returned and the caller gets no
    handle).  pion/sctp's OpenStream on an id that is already open on this end succeeds and reuses the
    stream.  An in-band channel sends DATA_CHANNEL_OPEN on the stream; the peer accepts a new channel (and
    registers its id) unless that stream is already open on its end. -/
def dial (x y : Side) (slot k : Nat) (neg post : Bool) : Side × Side :=
  match (x.st.chans[k]?).bind (·.id) with
  | none => (if post then { x with slots := setSlot x.slots slot } else x, y)
  | some i =>
    let x := if x.streams.contains i then x else { x with streams := i :: x.streams }
    if neg || y.streams.contains i then (x, y)
    else
      let yk := y.st.chans.length
      (x, { y with st := applyOp y.st (.remote i), streams := i :: y.streams, arrived := y.arrived ++ [(slot, yk)] })

inductive Outcome | skipped | parked | done

/-- one goroutine's `d.open(transport)` on channel `k`, optionally parking at a yield point: the atomic
    sections of the model, executed by this goroutine only if it passes the test-and-set -/
def threadOpen (st : St) (k : Nat) (stopAt : Option Stage) : St × Outcome :=
  if !st.assoc then (st, .skipped) else
  match st.chans[k]? with
  | none => (st, .skipped)
  | some c =>
    if c.tset then (st, .skipped) else
    let st1 := step st (.openBegin k)
    if c.id.isSome then (st1, .done) else
    match stopAt with
    | some .gen => (st1, .parked)
    | some .store =>
      let st2 := step st1 (.openGen k)
      match (st2.chans[k]?).map (·.pc) with
      | some (OpenPc.got _) => (st2, .parked)
      | _ => (st2, .done)   -- the generator failed: open returns before the yield point
    | _ => (DcId.run st1 [.openGen k, .openStore k], .done)

def threadResume (st : St) (k : Nat) : Stage → St
  | .gen => DcId.run st [.openGen k, .openStore k]
  | .store => DcId.run st [.openStore k]
  | .reg => st

def createOn (x y : Side) (eid : Option UInt16) (neg : Bool) (park : Option Stage) : Side × Side :=
  let k := x.st.chans.length
  let slot := x.slots.length
  let x := { x with st := step x.st (.create eid), slots := x.slots ++ [some (k, neg)] }
  if park == some .reg then ({ x with parked := x.parked ++ [⟨slot, k, .reg, neg⟩] }, y)
  else if x.st.assoc then
    let (st, o) := threadOpen x.st k park
    let x := { x with st := st }
    match o, park with
    | .parked, some stage => ({ x with parked := x.parked ++ [⟨slot, k, stage, neg⟩] }, y)
    | _, _ => dial x y slot k neg true
  else (x, y)

def releaseOn (x y : Side) (j : Nat) : Side × Side :=
  match x.parked.find? (·.slot == j) with
  | none => (x, y)
  | some p =>
    let x := { x with parked := x.parked.filter (·.slot != j) }
    match p.stage with
    | .reg =>
      let (st, o) := threadOpen x.st p.k none
      let x := { x with st := st }
      match o with
      | .done => dial x y p.slot p.k p.neg true
      | _ => (x, y)
    | stage => dial { x with st := threadResume x.st p.k stage } y p.slot p.k p.neg true

/-- Start's open loop over the channels registered when it took its snapshot, then the Dial of each
    channel it opened; it parks at the armed yield point the first time it reaches it -/
def startLoop (x y : Side) (stopAt : Option Stage) : List (Option (Nat × Bool) × Nat) → Side × Side
  | [] => (x, y)
  | (none, _) :: rest => startLoop x y stopAt rest
  | (some (k, neg), slot) :: rest =>
    match x.st.chans[k]? with
    | some c =>
      if c.connecting then
        let (st, o) := threadOpen x.st k stopAt
        let x := { x with st := st }
        match o, stopAt with
        | .parked, some stage => ({ x with startParked := some ⟨stage, k, neg, slot, rest⟩ }, y)
        | .done, _ => let (x, y) := dial x y slot k neg false; startLoop x y stopAt rest
        | _, _ => startLoop x y stopAt rest
      else startLoop x y stopAt rest
    | none => startLoop x y stopAt rest

def startOn (x y : Side) (role : Role) : Side × Side :=
  let x := { x with st := step x.st (.start role) }
  startLoop { x with armStart := none } y x.armStart x.slots.zipIdx

def releaseStartOn (x y : Side) : Side × Side :=
  match x.startParked with
  | none => (x, y)
  | some p =>
    let x := { x with st := threadResume x.st p.k p.stage, startParked := none }
    let (x, y) := dial x y p.slot p.k p.neg false
    startLoop x y none p.rest

structure Pair where
  a : Side := {}
  b : Side := {}
  connected : Bool := false
  roleA : Role := 0

def withSide (p : Pair) (side : Bool) (f : Side → Side → Side × Side) : Pair :=
  if side then let (x, y) := f p.a p.b; { p with a := x, b := y }
  else let (x, y) := f p.b p.a; { p with b := x, a := y }

def applyTok (p : Pair) : Tok → Pair
  | .create side eid neg => withSide p side fun x y => createOn x y eid neg none
  | .parkCreate side stage eid neg => withSide p side fun x y => createOn x y eid neg (some stage)
  | .release side j => withSide p side fun x y => releaseOn x y j
  | .armStart side stage => withSide p side fun x y => ({ x with armStart := some stage }, y)
  | .releaseStart side => withSide p side releaseStartOn
  | .burst ts => ts.foldl (fun p (side, eid, neg) => withSide p side fun x y => createOn x y eid neg none) p
  | .closeLocal side j => withSide p side fun x y =>
      if x.parked.any (·.slot == j) then (x, y) else   -- the caller has no handle yet
      match x.slots[j]? with
      | some (some (k, _)) => ({ x with st := applyOp x.st (.close k) }, y)
      | _ => (x, y)
  | .closeRemote side j => withSide p side fun x y =>
      match x.arrived.find? (·.1 == j) with
      | some (_, k) => ({ x with st := applyOp x.st (.close k) }, y)
      | none => (x, y)
  | .prefill side r => withSide p side fun x y => ({ x with st := { x.st with used := r :: x.st.used } }, y)
  | .connect =>
    if p.connected then p else
    let p := withSide p true fun x y => startOn x y p.roleA
    let p := withSide p false fun x y => startOn x y (otherRole p.roleA)
    { p with connected := true }

def commaOr (l : List String) : String := if l.isEmpty then "_" else String.intercalate "," l

/-- what the caller sees: nothing while its CreateDataChannel call has not returned -/
def showIds (x : Side) : String :=
  commaOr (x.slots.zipIdx.map fun
    | (none, _) => "E"
    | (some (k, _), j) =>
      if x.parked.any (·.slot == j) then "-" else
      match (x.st.chans[k]?).bind (·.id) with
      | some i => toString i.toNat
      | none => "-")

def insertBy (e : Nat × Nat) : List (Nat × Nat) → List (Nat × Nat)
  | [] => [e]
  | h :: t => if e.1 ≤ h.1 then e :: h :: t else h :: insertBy e t

def showArrived (x : Side) : String :=
  commaOr ((x.arrived.foldr insertBy []).map fun (j, k) =>
    match (x.st.chans[k]?).bind (·.id) with
    | some i => s!"{j}:{i.toNat}"
    | none => s!"{j}:-")

def snapshot (p : Pair) : List String :=
  ["|", showIds p.a, "/", showIds p.b, "/", showArrived p.a, "/", showArrived p.b]

def runHist (args : List String) : String :=
  match args with
  | r :: toks =>
    match roleOfTok r, toks.mapM parseTok with
    | some roleA, some toks =>
      let (p, out) := toks.foldl (fun (p, out) t => let p := applyTok p t; (p, out ++ snapshot p))
        (({ roleA := roleA } : Pair), ([] : List String))
      let roles := if p.connected then [toString roleA.toNat, toString (otherRole roleA).toNat] else ["0", "0"]
      String.intercalate " " ("R" :: roles ++ out)
    | _, _ => "bad-op"
  | _ => "bad-op"

def run (args : List String) : String :=
  match args with
  | "pure" :: rest => runPure rest
  | "hist" :: rest => runHist rest
  | _ => "bad-op"

/-! ### judge for `hist`: the property on the observed snapshots -/

inductive Cell | none | err | id (n : Nat)
  deriving DecidableEq

def parseCell (s : String) : Option Cell :=
  if s == "-" then some .none else if s == "E" then some .err else s.toNat?.map .id

def parseCells (s : String) : Option (List Cell) :=
  if s == "_" then some [] else (s.splitOn ",").mapM parseCell

def parseArr (s : String) : Option (List (Nat × Cell)) :=
  if s == "_" then some [] else
  (s.splitOn ",").mapM fun e =>
    match e.splitOn ":" with
    | [j, i] => do let j ← j.toNat?; let c ← parseCell i; pure (j, c)
    | _ => Option.none

structure Snap where
  a : List Cell
  b : List Cell
  ra : List (Nat × Cell)
  rb : List (Nat × Cell)

def parseSnaps : List String → Option (List Snap)
  | [] => some []
  | "|" :: a :: "/" :: b :: "/" :: ra :: "/" :: rb :: rest => do
    let a ← parseCells a; let b ← parseCells b; let ra ← parseArr ra; let rb ← parseArr rb
    let tl ← parseSnaps rest
    pure ({ a, b, ra, rb } :: tl)
  | _ => none

/-- per side, for every created channel in creation order: (was its id left to the PeerConnection?,
    index of the token that created it) -/
def slotKinds (toks : List Tok) (side : Bool) : List (Bool × Nat) :=
  toks.zipIdx.flatMap fun
    | (.create s eid _, t) => if s == side then [(eid.isNone, t)] else []
    | (.parkCreate s _ eid _, t) => if s == side then [(eid.isNone, t)] else []
    | (.burst ts, t) => ts.filterMap fun (s, eid, _) => if s == side then some (eid.isNone, t) else Option.none
    | _ => []

def idsOf (cells : List Cell) : List Nat := cells.filterMap fun | .id n => some n | _ => Option.none
def idsOfArr (arr : List (Nat × Cell)) : List Nat := arr.filterMap fun | (_, .id n) => some n | _ => Option.none

/-- One side, one step `t`.  `prev`/`cur`: the created channels before/after the step, `prevR`/`curR` the
    accepted ones.  `base w` = every id the side's channels (created or accepted) showed before step `w`.
    An id can only be assigned once the transport is connected and the creating call has started, i.e. not
    before step `w = max(created, connectStep)`; ids visible before `w` were certainly there first.  Ids of
    other assigned channels must differ whenever they appeared.  (An explicit id that shows up inside the
    window may have been chosen by the application after the assignment: not the PeerConnection's doing.) -/
def judgeSide (role : Nat) (kinds : List (Bool × Nat)) (connectStep : Nat) (base : Nat → List Nat)
    (prev cur : List Cell) (prevR curR : List (Nat × Cell)) : Option String :=
  let idx := List.range cur.length
  -- ids that are set never change
  let changed := idx.any fun j =>
    match prev[j]?, cur[j]? with
    | some (.id n), some c => c != .id n
    | _, _ => false
  let changedR := prevR.any fun (j, c) =>
    match c with
    | .id n => !(curR.any fun (j', c') => j' == j && c' == .id n)
    | _ => false
  if changed || changedR || cur.length < prev.length then some "violated id-changed" else
  -- newly visible ids of channels created without an id: (slot, id, window start)
  let fresh : List (Nat × Nat × Nat) := idx.filterMap fun j =>
    match kinds[j]?, prev[j]?, cur[j]? with
    | some (true, _), some (Cell.id _), _ => Option.none
    | some (true, created), _, some (Cell.id n) => some (j, n, max created connectStep)
    | _, _, _ => Option.none
  let assignedBefore : List (Nat × Nat) := idx.filterMap fun j =>
    match kinds[j]?, prev[j]? with
    | some (true, _), some (Cell.id n) => some (j, n)
    | _, _ => Option.none
  if fresh.any fun (_, n, _) => n == 65535 then some "violated id-65535"
  else if (role == 2 || role == 3) && fresh.any (fun (_, n, _) => (n % 2 == 0) != (role == 2)) then some "violated wrong-parity"
  else if fresh.any fun (_, n, w) => (base w).contains n then some "violated duplicate-id"
  else if fresh.any fun (j, n, _) => assignedBefore.any fun (j', n') => j != j' && n == n' then some "violated duplicate-id"
  else if fresh.any fun (j, n, _) => fresh.any fun (j', n', _) => j != j' && n == n' then some "violated duplicate-id"
  else Option.none

def judgeHist (args out : List String) : String :=
  match args, out with
  | _ :: toks, "R" :: ra :: rb :: rest =>
    match toks.mapM parseTok, ra.toNat?, rb.toNat?, parseSnaps rest with
    | some toks, some ra, some rb, some snaps =>
      if snaps.length != toks.length then "bad-judge" else
      let ka := slotKinds toks true
      let kb := slotKinds toks false
      let connectStep := (toks.findIdx? fun | .connect => true | _ => false).getD 0
      let baseA (w : Nat) : List Nat := if w == 0 then [] else
        match snaps[w - 1]? with | some s => idsOf s.a ++ idsOfArr s.ra | Option.none => []
      let baseB (w : Nat) : List Nat := if w == 0 then [] else
        match snaps[w - 1]? with | some s => idsOf s.b ++ idsOfArr s.rb | Option.none => []
      let rec go (prev : Snap) (snaps : List Snap) : String :=
        match snaps with
        | [] => "ok"
        | s :: rest =>
          match judgeSide ra ka connectStep baseA prev.a s.a prev.ra s.ra with
          | some v => v
          | Option.none =>
            match judgeSide rb kb connectStep baseB prev.b s.b prev.rb s.rb with
            | some v => v
            | Option.none => go s rest
      go { a := [], b := [], ra := [], rb := [] } snaps
    | _, _, _, _ => "bad-judge"
  | _, _ => "bad-judge"

def judge (args out : List String) : String :=
  match args with
  | "pure" :: rest => judgePure rest out
  | "hist" :: rest => judgeHist rest out
  | _ => "bad-judge"

end WebrtcVerif.Drv.C18
