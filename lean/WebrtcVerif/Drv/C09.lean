import WebrtcVerif.Drv.Jsep
/-! Driver handler for C09: histories of two PeerConnections (format in Drv/Jsep.lean); `run` is the shared
    Model.Jsep interpreter, `judge` evaluates C09 on the observed output. -/
namespace WebrtcVerif.Drv.C09

def run (args : List String) : String := WebrtcVerif.Drv.Jsep.run args

def judge (args out : List String) : String := WebrtcVerif.Drv.Jsep.judgeC09 args out

end WebrtcVerif.Drv.C09
