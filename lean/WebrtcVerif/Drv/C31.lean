import WebrtcVerif.Base.Wire
import WebrtcVerif.Model.SampleBuilder
/-! Driver handler for C31 (SampleBuilder).
  op:   h <kind> <depack> <maxLate> <maxLateTs> <op>*
          p<seq>,<ts>,<marker>,<payloadhex> = Push · o = Pop · f = Flush ; depack = fake | vp8 | opus
  out:  per op a boundary token P / O / F followed by that op's events
          r<id>  release handler called for the id-th Push
          n      Pop returned nil
          s<ts>,<prevDropped>,<ticks>,<seq+seq…>,<datahex>   Pop returned a sample
-/
namespace WebrtcVerif.Drv.C31
open WebrtcVerif WebrtcVerif.SampleBuilder

def splitOnChar (c : Char) : List Char → List (List Char)
  | [] => [[]]
  | x :: rest =>
    match splitOnChar c rest with
    | [] => [[]]
    | hd :: tl => if x = c then [] :: hd :: tl else (x :: hd) :: tl

def natOfChars (cs : List Char) : Option Nat :=
  if cs.isEmpty then none
  else cs.foldl (fun acc c => acc.bind fun n => if c.isDigit then some (n * 10 + (c.toNat - 48)) else none) (some 0)

def parseOps : List String → Nat → Option (List Op)
  | [], _ => some []
  | t :: rest, id =>
    match t.toList with
    | ['o'] => (parseOps rest id).map (Op.pop :: ·)
    | ['f'] => (parseOps rest id).map (Op.flush :: ·)
    | 'p' :: body =>
      match splitOnChar ',' body with
      | [sq, ts, m, hex] => do
        let sq ← natOfChars sq
        let ts ← natOfChars ts
        let m ← Wire.tokBool (String.ofList m)
        let pl ← Wire.bytesOfHex (String.ofList hex)
        if sq ≥ 65536 ∨ ts ≥ 4294967296 then none
        let tl ← parseOps rest (id + 1)
        pure (Op.push { id, seq := UInt16.ofNat sq, ts := UInt32.ofNat ts, marker := m, payload := pl } :: tl)
      | _ => none
    | _ => none

def depackOf (s : String) : Option Depack :=
  if s == "fake" then some Depack.fake
  else if s == "vp8" then some Depack.vp8
  else if s == "opus" then some Depack.opus
  else none

structure Hist where
  dp : Depack
  maxLate : Nat
  maxLateTs : Nat
  ops : List Op

def parseHist (args : List String) : Option Hist :=
  match args with
  | "h" :: _kind :: dp :: ml :: mlt :: rest => do
    let dp ← depackOf dp
    let ml ← ml.toNat?
    let mlt ← mlt.toNat?
    if ml ≥ 65536 ∨ mlt ≥ 4294967296 then none
    let ops ← parseOps rest 0
    pure { dp, maxLate := ml, maxLateTs := mlt, ops }
  | _ => none

def showSample (s : Sample) : String :=
  let seqs := if s.pkts.isEmpty then "-" else String.intercalate "+" (s.pkts.map (fun p => toString p.seq.toNat))
  s!"s{s.ts.toNat},{s.dropped.toNat},{s.ticks.toNat},{seqs},{Wire.hexOfBytes s.data}"

/-- runs the model over the ops; `acc` is the output in reverse -/
def exec (d : Depack) : List Op → State → List String → List String
  | [], s, acc =>
    let acc := if s.nilDeref then "NILDEREF" :: acc else acc
    let acc := if s.outOfFuel then "OUTOFFUEL" :: acc else acc
    acc.reverse
  | op :: rest, s, acc =>
    let s := { s with released := [] }
    match op with
    | .push p =>
      let s := push d s p
      exec d rest s (s.released.map (fun id => s!"r{id}") ++ ("P" :: acc))
    | .flush =>
      let s := flush d s
      exec d rest s (s.released.map (fun id => s!"r{id}") ++ ("F" :: acc))
    | .pop =>
      let (s, r) := pop d s
      let tok := match r with | some x => showSample x | none => "n"
      exec d rest s (tok :: (s.released.map (fun id => s!"r{id}") ++ ("O" :: acc)))

def run (args : List String) : String :=
  match parseHist args with
  | none => "bad-op"
  | some h =>
    String.intercalate " " (exec h.dp h.ops (State.new (UInt16.ofNat h.maxLate) (UInt32.ofNat h.maxLateTs)) [])

/-! ### judge — the property recomputed from the push log and the observed outputs only.
  It uses none of the model's SampleBuilder functions: only `Packet`, the depacketizer parameter and the
  `Buf` container. -/

structure SampleObs where
  ts : Nat
  seqs : List UInt16
  data : List UInt8
  deriving Repr

def parseSample (tok : String) : Option SampleObs :=
  match tok.toList with
  | 's' :: body =>
    match splitOnChar ',' body with
    | [ts, _dr, _tk, sq, hex] => do
      let ts ← natOfChars ts
      let data ← Wire.bytesOfHex (String.ofList hex)
      let seqs ← if sq = ['-'] then some [] else (splitOnChar '+' sq).mapM (fun c => (natOfChars c).map UInt16.ofNat)
      pure { ts, seqs, data }
    | _ => none
  | _ => none

/-- events of one op: (boundary, events) -/
def groupOut (toks : List String) : Option (List (String × List String)) :=
  let r := toks.foldr (fun t (acc : List (String × List String) × List String) =>
    if t == "P" || t == "O" || t == "F" then ((t, acc.2) :: acc.1, []) else (acc.1, t :: acc.2)) ([], [])
  if r.2.isEmpty then some r.1 else none

/-- signed offset of `x` from `base` in (−32768, 32767] — linear order inside a half-ring window -/
def off (base x : UInt16) : Int :=
  let d := (x - base).toNat
  if d < 32768 then (d : Int) else (d : Int) - 65536

/-- choose one pushed packet per sequence number such that the concatenated depacketized payloads are
    exactly `data`; `cands` lists, per sequence number of the run, the admissible pushes (oldest first) -/
def matchRun (d : Depack) : List (List Packet) → List UInt8 → Option (List Packet)
  | [], data => if data.isEmpty then some [] else none
  | cands :: rest, data =>
    cands.findSome? fun c =>
      match d.unmarshal c.payload with
      | none => none
      | some part =>
        if part.isPrefixOf data then (matchRun d rest (data.drop part.length)).map (c :: ·) else none

structure Emitted where
  seqs : List UInt16
  ids : List Nat
  /-- op index of the latest push among the chosen packets -/
  lastPush : Nat
  firstPush : Nat
  /-- op index of the Pop that returned it -/
  popAt : Nat := 0

structure J where
  t : Nat := 0
  pushes : Array Packet := #[]
  pushAt : Array Nat := #[]
  bySeq : Buf (List Packet) := Buf.empty
  used : Array Bool := #[]
  /-- push ids whose packet was released by the very Push that delivered it -/
  rejected : Array Bool := #[]
  /-- op index at which the release handler was called for a push id (0 = not yet) -/
  relAt : Array Nat := #[]
  /-- position in the release log at which the release handler was called for a push id (0 = not yet) -/
  relSeq : Array Nat := #[]
  relCount : Nat := 0
  /-- position in the release log of the last packet of the previously returned sample -/
  lastBuild : Nat := 0
  emitted : List Emitted := []     -- newest first
  flushes : Nat := 0
  pushAfterFlush : Bool := false
  flushAfterFlush : Bool := false
  lastPopNil : Bool := false
  verdict : Option String := none

def J.fail (j : J) (msg : String) : J :=
  match j.verdict with
  | some _ => j
  | none => { j with verdict := some msg }

def contiguous : List UInt16 → Bool
  | a :: b :: rest => b == a + 1 && contiguous (b :: rest)
  | _ => true

def applyRelease (j : J) (tok : String) : J :=
  match tok.toList with
  | 'r' :: n =>
    match natOfChars n with
    | none => j.fail "bad-judge"
    | some id =>
      match j.pushes[id]? with
      | none => j.fail "violated released-unknown-packet"
      | some _ => { j with relAt := j.relAt.setIfInBounds id j.t, relCount := j.relCount + 1,
                           relSeq := j.relSeq.setIfInBounds id (j.relCount + 1) }
  | _ => j.fail "bad-judge"

/-- checks of one emitted sample; `window` = all pushed sequence numbers of the history lie in a half ring
    starting at offset `lo` from `base` -/
def checkSample (d : Depack) (window : Option UInt16) (j : J) (o : SampleObs) : J :=
  if o.seqs.isEmpty then j.fail "violated empty-sample"
  else if !contiguous o.seqs then j.fail "violated not-contiguous"
  else
    let all := o.seqs.map (fun s => ((j.bySeq.get s).getD []).reverse)   -- oldest push first
    if all.any List.isEmpty then j.fail "violated unknown-packet"
    else
      let good (unusedOnly : Bool) (inBuildOrder : Bool) : List (List Packet) :=
        (all.zipIdx).map fun (cs, k) => cs.filter fun c =>
          c.ts.toNat == o.ts && (k != 0 || d.isHead c.payload) && (!unusedOnly || !(j.used[c.id]?.getD false))
            && (!inBuildOrder || j.lastBuild < (j.relSeq[c.id]?.getD 0))
      -- identical duplicates make the choice of the contributing push ambiguous; samples are returned in the order
      -- they were built and their packets are released when they are built, so pushes released after the
      -- previous sample's (by position in the release log) are tried first (a preference only: every unused
      -- push is tried next)
      match (matchRun d (good true true) o.data).orElse (fun _ => matchRun d (good true false) o.data) with
      | some chosen =>
        let ids := chosen.map (·.id)
        let ats := ids.map (fun i => j.pushAt[i]?.getD 0)
        let e : Emitted := { seqs := o.seqs, ids, lastPush := ats.foldl max 0, firstPush := (ats.head?).getD 0, popAt := j.t }
        let j := { j with used := ids.foldl (fun u i => u.setIfInBounds i true) j.used,
                          lastBuild := ids.foldl (fun m i => max m (j.relSeq[i]?.getD 0)) 0 }
        -- order / re-use, judged where sequence numbers have a linear order
        let j := match window with
          | none => j
          | some base =>
            let uFirst := off base (o.seqs.head?.getD 0)
            let behind := j.emitted.filter (fun (a : Emitted) => uFirst ≤ off base (a.seqs.getLast?.getD 0))
            if behind.isEmpty then j
            else
              -- had every packet of every overtaken sample already left the buffer (release handler called)
              -- when this run's first packet was pushed?  Then the builder had no trace of them any more.
              let afterRelease := behind.all (fun (a : Emitted) => a.ids.all (fun i =>
                let r := j.relAt[i]?.getD 0
                r != 0 && r < e.firstPush))
              if afterRelease then j.fail "violated late-packet-emitted-behind-frontier"
              else if behind.any (fun (a : Emitted) => a.seqs.any (o.seqs.contains ·)) then j.fail "violated duplicate-emitted"
              else j.fail "violated out-of-order"
        { j with emitted := e :: j.emitted }
      | none =>
        match matchRun d (good false false) o.data with
        | some _ => j.fail "violated packet-in-two-samples"
        | none =>
          let newest := all.filterMap List.getLast?
          if newest.any (fun c => c.ts.toNat != o.ts) then j.fail "violated mixed-timestamp"
          else if !(newest.head?.map (fun c => d.isHead c.payload)).getD false then j.fail "violated not-partition-head"
          else j.fail "violated data-mismatch"

def stepJ (d : Depack) (window : Option UInt16) (j : J) (op : Op) (g : String × List String) : J :=
  let j := { j with t := j.t + 1 }
  match op, g with
  | .push p, ("P", ev) =>
    let j := if j.flushes > 0 then { j with pushAfterFlush := true } else j
    let j := { j with pushes := j.pushes.push p, pushAt := j.pushAt.push j.t, used := j.used.push false,
                      rejected := j.rejected.push (ev.contains s!"r{p.id}"), relAt := j.relAt.push 0, relSeq := j.relSeq.push 0,
                      bySeq := j.bySeq.set p.seq (some (p :: (j.bySeq.get p.seq).getD [])) }
    ev.foldl applyRelease j
  | .flush, ("F", ev) =>
    let j := { j with flushAfterFlush := j.flushes > 0, flushes := j.flushes + 1 }
    ev.foldl applyRelease j
  | .pop, ("O", ev) =>
    match ev.getLast? with
    | none => j.fail "bad-judge"
    | some r =>
      let j := ev.dropLast.foldl applyRelease j
      if r == "n" then { j with lastPopNil := true }
      else match parseSample r with
        | none => j.fail "bad-judge"
        | some o => checkSample d window { j with lastPopNil := false } o
  | _, _ => j.fail "bad-judge"

def walk (d : Depack) (window : Option UInt16) : J → List Op → List (String × List String) → J
  | j, [], [] => j
  | j, op :: ops, g :: gs => walk d window (stepJ d window j op g) ops gs
  | j, _, _ => j.fail "bad-judge"

/-- insertion of (key, value) pairs sorted by key -/
def insertSorted (x : Int × Packet) : List (Int × Packet) → List (Int × Packet)
  | [] => [x]
  | y :: rest => if x.1 ≤ y.1 then x :: y :: rest else y :: insertSorted x rest

structure Frame where
  pkts : List Packet
  /-- every packet whose arrival proves the frame complete: its packets, plus the next packet when the
      last one carries no tail signal -/
  evidence : List Packet
  complete : Bool

/-- cut a sequence-ordered loss-free packet list into frames: a frame runs to its first tail-flagged
    packet, or to just before the first packet with another timestamp -/
def cutFrames (d : Depack) : Nat → List Packet → List Packet → List Frame
  | 0, _, _ => []
  | _, [], [] => []
  | _, cur, [] => [{ pkts := cur.reverse, evidence := cur.reverse, complete := false }]
  | fuel + 1, [], p :: rest =>
    if d.isTail p.marker p.payload then { pkts := [p], evidence := [p], complete := true } :: cutFrames d fuel [] rest
    else cutFrames d fuel [p] rest
  | fuel + 1, c :: cur, p :: rest =>
    if p.ts != c.ts then
      { pkts := (c :: cur).reverse, evidence := (p :: c :: cur).reverse, complete := true } :: cutFrames d fuel [] (p :: rest)
    else if d.isTail p.marker p.payload then
      { pkts := (p :: c :: cur).reverse, evidence := (p :: c :: cur).reverse, complete := true } :: cutFrames d fuel [] rest
    else cutFrames d fuel (p :: c :: cur) rest

/-- Clause 4.  Precondition (decided here, from the op line alone): no max-time-delay; one Flush, after every
    Push, then Pops ending in nil; the pushed sequence numbers are distinct and form one contiguous range
    inside a half ring; cut into frames every frame starts at a partition head and depacketizes; and the
    delivery is "reordered within maxLate": when a packet y arrives, every frame whose first sequence number
    is ≤ y − maxLate has already arrived completely (with the packet that terminates it, if it has no tail
    flag).  Then every complete frame must have been emitted. -/
def clause4 (h : Hist) (window : Option UInt16) (j : J) : Option String :=
  match window with
  | none => none
  | some base =>
    if h.maxLateTs != 0 || j.flushes != 1 || j.pushAfterFlush || !j.lastPopNil || j.pushes.isEmpty then none
    else
      let sorted := j.pushes.foldl (fun acc p => insertSorted (off base p.seq, p) acc) []
      let us := sorted.map (·.1)
      let consecutive := (us.zip (us.drop 1)).all (fun (a, b) => b == a + 1)
      if !consecutive then none
      else
        let frames := cutFrames h.dp (2 * sorted.length + 2) [] (sorted.map (·.2))
        if !(frames.all fun f => (f.pkts.head?.map (fun p => h.dp.isHead p.payload)).getD false
              && f.pkts.all (fun p => (h.dp.unmarshal p.payload).isSome)) then none
        else
          -- arrival index = push id (every op line pushes ids in order)
          let inWindowOrder := frames.all fun f =>
            match f.pkts.head? with
            | none => true
            | some fp =>
              if !f.complete then true
              else
                let need := f.evidence.foldl (fun m p => max m p.id) 0
                -- first arrival whose sequence number is ≥ first + maxLate
                match j.pushes.find? (fun y => off base y.seq ≥ off base fp.seq + (h.maxLate : Int)) with
                | none => true
                | some y => need ≤ y.id
          if !inWindowOrder then none
          else
            let got := j.emitted.map (·.seqs)
            -- walk the frames in order; a missing frame has a known cause when one of its packets (or of the
            -- packet that terminates it) was discarded by the Push that delivered it — it arrived below the
            -- position a previous Pop / purge had already read up to — or when the frame right before it is
            -- missing for a known cause (the purge loop drops one more packet after a run it cannot use)
            let r := frames.foldl (fun (acc : Bool × Bool × Bool) f =>
              let (taint, known, unknown) := acc
              let missing := f.complete && !(got.contains (f.pkts.map (·.seq)))
              if !missing then (false, known, unknown)
              else if taint || f.evidence.any (fun p => j.rejected[p.id]?.getD false) then (true, true, unknown)
              else (false, known, true)) (false, false, false)
            if r.2.2 then some "violated complete-frame-not-emitted"
            else if r.2.1 then some "violated complete-frame-not-emitted:arrived-behind-read-position"
            else none

/-- all pushed sequence numbers within a half ring: returns the base (lowest) sequence number -/
def windowOf (ops : List Op) : Option UInt16 :=
  let seqs := ops.filterMap (fun o => match o with | .push p => some p.seq | _ => none)
  match seqs with
  | [] => none
  | s0 :: _ =>
    let offs := seqs.map (off s0)
    let lo := offs.foldl min 0
    let hi := offs.foldl max 0
    if hi - lo < 32768 then some (s0 + UInt16.ofNat ((lo + 65536).toNat % 65536)) else none

def judge (args out : List String) : String :=
  match parseHist args, groupOut out with
  | some h, some groups =>
    let window := windowOf h.ops
    let j := walk h.dp window {} h.ops groups
    match j.verdict with
    | some v => v
    | none =>
      match clause4 h window j with
      | some v => v
      | none => "ok"
  | _, _ => "bad-judge"

end WebrtcVerif.Drv.C31
