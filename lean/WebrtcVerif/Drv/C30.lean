import WebrtcVerif.Base.Wire
import WebrtcVerif.Model.RemoteInput
/-! Driver handler for C30.
  search ops (the model predicts only that the process survives):
    s <sem> <mode> <k> <candHex>{k} {<type> <sdpHex>}+     → survived
    rp <midID> <ridID> <rsidID> <pktHex>                   → survived
  helper ops (differential; D… is a parsed description):
    h <helper> <params…> D <nSA> {<k> <v>}* <nM> { <media> <nF> <f>* <nA> {<k> <v>}* }*
      td      → ok <n> {<mid> <kind> <stream> <id> <k> <ssrc>* <rtx|-> <fec|-> <r> <rid>*}*  | ambiguous
      enc     → ok <n> {<k> {<rid> <ssrc> <rtx> <fec>}*}*                                    | ambiguous
      rids    → ok {<k> {<id> <paused>}*}*            (per media section)
      bundle  → ok <id>
      fp      → ok <value> <hash> | none | invalid
      dir     → ok <d>*                               (per media section)
      sel     → none | ok <mid> <index>
      ice <nC> {<candValue> <class>}*  → ok <ufrag> <pwd> <n> | err-cand | err-ufrag | err-pwd
      planb   → ok <isPlanB> <possiblyPlanB>
      codecs <mediaIdx> <nO> {<pt> <name> <clock> <enc> <fmtp> <nfb> <fb>*}*
              → err | ok <n> {<pt> <mime> <clock> <channels> <fmtp> <nfb> {<type> <param>}*}*
      rtpr <planB> <closed>   → survived
      undecl  → ok {rid | ssrc-err | add <kind> <stream> <id>}*   (per media section)
      pt <n>  → none | ok <index>
      uin <isAnswer> <withoutAnswer> <midOK> <ridOK> <ptKnown> <audioOK> <videoOK> <ssrc> <pktHex|->
              → declared | add <kind> <stream> <id> | ssrc-err | err-add | err-peek | err-codec | err-early
                | err-mid-required | err-rid-required | beyond | ambiguous      (handleIncomingSSRC, real SRTP stream)
      cut <nK> <pt>* <pktHex> → short | unknown | updated <pt> | unchanged
    h probe <isAnswer> <withoutAnswer> <midOK> <ridOK> <ptKnown> <audioOK> <videoOK> <ssrc> <pt> <midID> <ridID> <rsidID>
            <nT> {<shape> <kind> <mid> <nR> <rid>*}* <nP> {<mid> <rid> <rsid> <pad>}* D…
              → (uin outcomes) | rid <i> | rtx <i> | notfound | eof | read-err | failed | ambiguous
              (whole handleIncomingSSRC incl. the probing loop; shape 0 send-only without receiver, 1 recvonly,
               2 sendrecv, 3/4 the same but stopped)
    h rt <idx> <bound>*       → read <i> | err                      (RTPReceiver.readRTP for track idx)
    h rr <bound>*             → read <i> | err                      (RTPReceiver.Read on tracks with/without bound RTCP readers)
    h ext <rawHex>            → ok <n> {<key> <value>}* | err      (exportExtensions; a key "fail" is refused)
    p <variant> <semB> <modeB> <n> {r<pktHex>|c<pktHex>}*  → survived   (connected pair, raw RTP/RTCP; search)
  strings are hex of their bytes (`-` = empty).  A Go panic is printed as `panic …`. -/
namespace WebrtcVerif.Drv.C30
open WebrtcVerif WebrtcVerif.RemoteInput

def strOfHex (t : String) : Option Str := (Wire.bytesOfHex t).map (·.map UInt8.toNat)
def hexOfStr (s : Str) : String := Wire.hexOfBytes (s.map UInt8.ofNat)

/-- parser state: remaining tokens -/
abbrev P (α : Type) := List String → Option (α × List String)

def pNat : P Nat
  | t :: rest => t.toNat?.map (·, rest)
  | [] => none

def pStr : P Str
  | t :: rest => (strOfHex t).map (·, rest)
  | [] => none

def pMany {α : Type} (p : P α) : Nat → P (List α)
  | 0, ts => some ([], ts)
  | n + 1, ts => do
    let (a, ts1) ← p ts
    let (as, ts2) ← pMany p n ts1
    pure (a :: as, ts2)

def pCounted {α : Type} (p : P α) : P (List α) := fun ts => do
  let (n, ts1) ← pNat ts
  if n > ts1.length then none else pMany p n ts1

def pAttr : P Attr := fun ts => do
  let (k, ts1) ← pStr ts
  let (v, ts2) ← pStr ts1
  pure ({ key := k, value := v }, ts2)

def pMedia : P Media := fun ts => do
  let (m, ts1) ← pStr ts
  let (fs, ts2) ← pCounted pStr ts1
  let (as, ts3) ← pCounted pAttr ts2
  pure ({ media := m, formats := fs, attrs := as }, ts3)

def pSession : P Session := fun ts => do
  let (sa, ts1) ← pCounted pAttr ts
  let (ms, ts2) ← pCounted pMedia ts1
  pure ({ attrs := sa, medias := ms }, ts2)

/-- split the tokens after the helper name into params and the description -/
def splitD (ts : List String) : Option (List String × Session) :=
  let params := ts.takeWhile (· ≠ "D")
  match (ts.dropWhile (· ≠ "D")) with
  | _ :: rest =>
    match pSession rest with
    | some (s, []) => some (params, s)
    | _ => none
  | [] => none

def optNat : Option Nat → String
  | some n => toString n
  | none => "-"

def showTrack (t : TrackDetails) : List String :=
  [hexOfStr t.mid, toString t.kind, hexOfStr t.streamID, hexOfStr t.id, toString t.ssrcs.length]
    ++ t.ssrcs.map toString ++ [optNat t.rtx, optNat t.fec, toString t.rids.length] ++ t.rids.map hexOfStr

def join (l : List String) : String := String.intercalate " " l

/-- Two `a=ssrc-group` lines of the same semantics in one section naming the same base with different
    repair SSRCs: Go iterates a map to pick one, so the real result is not determined. Evaluated the same
    way by the harness, which then prints `ambiguous` too. -/
def groupPairs (sem : Str) (m : Media) : List (Nat × Nat) :=
  m.attrs.filterMap fun a =>
    if a.key == kSsrcGroup then
      match split a.value cSpace with
      | [s0, x, y] =>
        if s0 == sem then
          match parseUint x 32, parseUint y 32 with
          | some b, some r => some (b, r)
          | _, _ => none
        else none
      | _ => none
    else none

def ambiguousPairs (ps : List (Nat × Nat)) : Bool :=
  ps.any fun p => ps.any fun q => p.1 == q.1 && p.2 != q.2

def ambiguous (s : Session) : Bool :=
  s.medias.any fun m => ambiguousPairs (groupPairs kFID m) || ambiguousPairs (groupPairs kFECFR m)

/-- `extmap` entries as (id, uri): id = first token up to `/`, uri = second token. When one id names two
    URIs or one URI has two ids the MediaEngine's answer depends on Go map iteration order (not C30's
    subject); the harness evaluates the same predicate and prints `ambiguous` too. -/
def extEntries (s : Session) : List (Str × Str) :=
  (s.medias.map fun m => m.attrs.filterMap fun a =>
    if a.key == [101, 120, 116, 109, 97, 112] then
      let f := split a.value cSpace
      let id := (split (f.headD []) cSlash).headD []
      some (id, (f.drop 1).headD [])
    else none).flatten

def ambiguousExt (s : Session) : Bool :=
  let es := extEntries s
  es.any fun p => es.any fun q => (p.1 == q.1) != (p.2 == q.2)

def resStr {α : Type} (r : Res α) (f : α → String) : String :=
  match r with
  | .val a => f a
  | .panic => "panic model"

def pCodecOracleEntry : P (Nat × SdpCodec) := fun ts => do
  let (pt, ts1) ← pNat ts
  let (name, ts2) ← pStr ts1
  let (clock, ts3) ← pNat ts2
  let (enc, ts4) ← pStr ts3
  let (fmtp, ts5) ← pStr ts4
  let (fb, ts6) ← pCounted pStr ts5
  pure ((pt, { name := name, clockRate := clock, encodingParameters := enc, fmtp := fmtp, rtcpFeedback := fb }), ts6)

def pCandEntry : P (Str × Nat) := fun ts => do
  let (v, ts1) ← pStr ts
  let (c, ts2) ← pNat ts1
  pure ((v, c), ts2)

def showCodec (c : CodecParams) : List String :=
  [toString c.payloadType, hexOfStr c.mime, toString c.clockRate, toString c.channels, hexOfStr c.fmtp,
   toString c.feedback.length] ++ (c.feedback.map fun p => [hexOfStr p.1, hexOfStr p.2]).flatten

def runHelper (name : String) (params : List String) (s : Session) : String :=
  match name, params with
  | "td", [] =>
    if ambiguous s then "ambiguous" else
    resStr (trackDetailsFromSDP s) fun ts => join (["ok", toString ts.length] ++ (ts.map showTrack).flatten)
  | "enc", [] =>
    if ambiguous s then "ambiguous" else
    resStr (trackDetailsFromSDP s) fun ts =>
      let encs := ts.map fun t => resStr (receiveEncodings t) fun es =>
        join ([toString es.length] ++ (es.map fun e => [hexOfStr e.1, toString e.2.1, toString e.2.2.1, toString e.2.2.2]).flatten)
      join (["ok", toString ts.length] ++ encs)
  | "rids", [] =>
    join ("ok" :: s.medias.map fun m => resStr (getRids m) fun rs =>
      join ([toString rs.length] ++ (rs.map fun r => [hexOfStr r.id, Wire.boolTok r.paused]).flatten))
  | "bundle", [] => resStr (extractBundleID s) fun b => "ok " ++ hexOfStr b
  | "fp", [] => resStr (extractFingerprint s) fun
      | .ok v h => s!"ok {hexOfStr v} {hexOfStr h}"
      | .errNone => "none"
      | .errInvalid => "invalid"
  | "dir", [] => join ("ok" :: s.medias.map fun m => toString (getPeerDirection m))
  | "sel", [] => resStr (selectCandidateMediaSection s) fun
      | some (_, mid, i) => s!"ok {hexOfStr mid} {i}"
      | none => "none"
  | "ice", ps =>
    match pCounted pCandEntry ps with
    | some (tbl, []) =>
      let oracle : CandOracle := fun v => match tbl.find? (·.1 == v) with | some p => p.2 | none => 2
      resStr (extractICEDetails oracle s) fun
        | .ok u p n => s!"ok {hexOfStr u} {hexOfStr p} {n}"
        | .errCandidate => "err-cand"
        | .errUfrag => "err-ufrag"
        | .errPwd => "err-pwd"
    | _ => "bad-op"
  | "planb", [] =>
    resStr (descriptionIsPlanB (some s)) fun b =>
      s!"ok {Wire.boolTok b} {Wire.boolTok (descriptionPossiblyPlanB (some s))}"
  | "codecs", mi :: ps =>
    match mi.toNat?, pCounted pCodecOracleEntry ps with
    | some i, some (tbl, []) =>
      match s.medias[i]? with
      | none => "bad-op"
      | some m =>
        let oracle : CodecOracle := fun pt => (tbl.find? (·.1 == pt)).map (·.2)
        resStr (codecsFromMediaDescription oracle m) fun
          | none => "err"
          | some cs => join (["ok", toString cs.length] ++ (cs.map showCodec).flatten)
    | _, _ => "bad-op"
  | "rtpr", [planB, closed] =>
    match Wire.tokBool planB, Wire.tokBool closed with
    | some pb, some cl =>
      resStr (startRTPReceivers warnNew (fun _ => false) (fun _ => cl) pb s) fun _ => "survived"
    | _, _ => "bad-op"
  | "undecl", [] =>
    join ("ok" :: s.medias.map fun m => resStr (handleUndeclaredSSRC m) fun
      | .notHandledRid => "rid"
      | .errExplicitSSRC => "ssrc-err"
      | .add k sid id => s!"add {k} {hexOfStr sid} {hexOfStr id}")
  | "uin", [ia, wa, mo, ro, pk, ao, vo, ssrc, pkt] =>
    match [ia, wa, mo, ro, pk, ao, vo].mapM Wire.tokBool, ssrc.toNat?, strOfHex pkt with
    | some [ia, wa, mo, ro, pk, ao, vo], some ssrc, some b =>
      if ambiguous s || ambiguousExt s then "ambiguous" else
      let peek := if b.length ≥ 12 then some b else none
      resStr (handleIncomingSSRCHead s ia wa mo ro (fun _ => pk) (fun k => if k == 1 then ao else vo) ssrc peek) fun
        | .declared => "declared"
        | .added k sid id => s!"add {k} {hexOfStr sid} {hexOfStr id}"
        | .ssrcErr => "ssrc-err"
        | .errAdd => "err-add"
        | .errPeek => "err-peek"
        | .errCodec => "err-codec"
        | .errEarly => "err-early"
        | .errMidRequired => "err-mid-required"
        | .errRidRequired => "err-rid-required"
        | .beyond => "beyond"
    | _, _, _ => "bad-op"
  | "pt", [n] =>
    match n.toNat? with
    | some pt =>
      match findMediaSectionByPayloadType pt s.medias 0 with
      | some i => s!"ok {i}"
      | none => "none"
    | none => "bad-op"
  | _, _ => "bad-op"

def pProbeTr : P ProbeTr := fun ts => do
  let (shape, ts1) ← pNat ts
  let (_kind, ts2) ← pNat ts1
  let (mid, ts3) ← pStr ts2
  let (rids, ts4) ← pCounted pStr ts3
  pure ({ mid := mid, receiver := if shape == 0 then none else some (decide (shape ≥ 3), rids) }, ts4)

def pPktIds : P PktIds := fun ts => do
  let (mid, ts1) ← pStr ts
  let (rid, ts2) ← pStr ts1
  let (rsid, ts3) ← pStr ts2
  let (pad, ts4) ← pNat ts3
  pure ({ mid := mid, rid := rid, rsid := rsid, paddingOnly := pad != 0 }, ts4)

def showIncoming : IncomingResult → String
  | .declared => "declared"
  | .added k sid id => s!"add {k} {hexOfStr sid} {hexOfStr id}"
  | .ssrcErr => "ssrc-err"
  | .errAdd => "err-add"
  | .errPeek => "err-peek"
  | .errCodec => "err-codec"
  | .errEarly => "err-early"
  | .errMidRequired => "err-mid-required"
  | .errRidRequired => "err-rid-required"
  | .beyond => "beyond"

/-- probe <isAnswer> <withoutAnswer> <midOK> <ridOK> <ptKnown> <audioOK> <videoOK> <ssrc> <pt> <midID> <ridID>
    <rsidID> <nT> {<shape> <kind> <mid> <nR> <rid>*}* <nP> {<mid> <rid> <rsid> <pad>}* -/
def runProbe (params : List String) (s : Session) : String :=
  match params with
  | ia :: wa :: mo :: ro :: pk :: ao :: vo :: rest =>
    match [ia, wa, mo, ro, pk, ao, vo].mapM Wire.tokBool, pMany pNat 5 rest with
    | some [ia, wa, mo, ro, pk, ao, vo], some ([ssrc, pt, midID, ridID, rsidID], rest1) =>
      match pCounted pProbeTr rest1 with
      | some (trs, rest2) =>
        match pCounted pPktIds rest2 with
        | some (pkts, []) =>
          if ambiguous s || ambiguousExt s then "ambiguous" else
          -- an extension whose id is not negotiated (0) is never seen by handleUnknownRTPPacket
          let pkts := pkts.map fun p =>
            { p with mid := if midID == 0 then [] else p.mid, rid := if ridID == 0 then [] else p.rid,
                     rsid := if rsidID == 0 then [] else p.rsid }
          let peek := if pkts.isEmpty then none else some [128, pt, 0, 0, 0, 0, 0, 0, 0, 0, 0, 0]
          resStr (handleIncomingSSRCHead s ia wa mo ro (fun _ => pk) (fun k => if k == 1 then ao else vo) ssrc peek) fun
            | .beyond =>
              match pkts with
              | [] => "err-peek"
              | first :: more =>
                resStr (probe trs first more) fun
                  | .rid i => s!"rid {i}"
                  | .rtx i => s!"rtx {i}"
                  | .notFound => "notfound"
                  | .eof => "eof"
                  | .readErr => "read-err"
                  | .failed => "failed"
            | r => showIncoming r
        | _ => "bad-op"
      | none => "bad-op"
    | _, _ => "bad-op"
  | _ => "bad-op"

def runCut (ts : List String) : String :=
  match pCounted pNat ts with
  | some (known, [pkt]) =>
    match strOfHex pkt with
    | some b =>
      resStr (checkAndUpdateTrack (fun pt => known.contains pt) 0 false b) fun
        | .errTooShort => "short"
        | .errUnknownCodec => "unknown"
        | .unchanged => "unchanged"
        | .updated pt _ => s!"updated {pt}"
    | none => "bad-op"
  | _ => "bad-op"

def run (args : List String) : String :=
  match args with
  | "s" :: _ => "survived"
  | "rp" :: _ => "survived"
  | "p" :: _ => "survived"
  | "h" :: "cut" :: rest => runCut rest
  | "h" :: "rt" :: idx :: bits =>
    match idx.toNat?, bits.mapM Wire.tokBool with
    | some i, some bs =>
      let tracks := (List.range bs.length).zip bs |>.map fun p => if p.2 then some p.1 else none
      resStr (receiverReadRTP tracks i) fun
        | none => "err"
        | some k => s!"read {k}"
    | _, _ => "bad-op"
  | "h" :: "rr" :: bits =>
    match bits.mapM Wire.tokBool with
    | some bs =>
      let tracks := (List.range bs.length).zip bs |>.map fun p => if p.2 then some p.1 else none
      resStr (receiverRead tracks) fun
        | none => "err"
        | some i => s!"read {i}"
    | none => "bad-op"
  | ["h", "ext", raw] =>
    match strOfHex raw with
    | some e =>
      resStr (exportExtensions e (fun k _ => k == [102, 97, 105, 108])) fun
        | none => "err"
        | some ps => join (["ok", toString ps.length] ++ (ps.map fun p => [hexOfStr p.1, hexOfStr p.2]).flatten)
    | none => "bad-op"
  | "h" :: "probe" :: rest =>
    match splitD rest with
    | some (params, s) => runProbe params s
    | none => "bad-op"
  | "h" :: name :: rest =>
    match splitD rest with
    | some (params, s) => runHelper name params s
    | none => "bad-op"
  | _ => "bad-op"

/-- The property on an observed output: the process (or the helper) must not have panicked, and must not
    hang. Written without reference to the model functions. -/
def judge (args out : List String) : String :=
  match args with
  | [] => "bad-judge"
  | _ =>
    match out with
    | "panic" :: _ => "violated remote-input-panic"
    | "child-failed" :: _ => "violated remote-input-panic"
    | "timeout" :: _ => "violated remote-input-hang"
    | "hang" :: _ => "violated remote-input-hang"
    | "bad-op" :: _ => "bad-judge"
    | [] => "bad-judge"
    | _ => "ok"

end WebrtcVerif.Drv.C30
