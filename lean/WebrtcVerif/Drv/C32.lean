import WebrtcVerif.Base.Wire
import WebrtcVerif.Model.Ivf
/-! Driver handler for C32 (ivfwriter → ivfreader).
  ops:
    w <tag> <codec:8|9|a|d> <width|-> <height|-> <num|-> <den|-> <direct> <sink:b|s|f|n> <n> {<ts> <marker> <rawHex> <desc>}*
        tag    free label (generator stream), ignored
        codec  d = no WithCodec option (VP8)
        `-`    for width/height or num/den = option not passed (defaults 640x480, 1/30)
        sink   b plain io.Writer · s in-memory io.WriteSeeker · f *os.File through NewWith · n ivfwriter.New(fileName)
        desc   what pion/rtp's depacketizer returned for the packet (extracted by the harness):
               `-` raw payload empty · `e` Unmarshal error · `<a><b>:<off>` payload = raw[off:] ·
               `<a><b>=<hex>` payload given literally     (a,b: VP8 S,0 · VP9 P,B · AV1 N,0)
    raw <fileHex>
  output:
    w   → W <ok|eT|p<k>> <nerr> D<1|0> B <filelen> <filehash> T <k|-> {<len> <hash> <pts>}* R …
            (T = the frames handed to the sink by writeFrame, captured by a tee; `-` for sink n)
    raw → R …
    R … = R ok <fourccHex> <w> <h> <den> <num> <numFrames> <n> {<len> <hash> <timestamp>}* <eof|incomplete-frame-header|incomplete-frame-data|panic>
        | R <eof|incomplete-file-header|signature-mismatch|unknown-version|invalid-timebase|panic>
-/
namespace WebrtcVerif.Drv.C32
open WebrtcVerif WebrtcVerif.Bytes WebrtcVerif.Ivf

structure Op where
  cfg : Config
  sink : String
  pkts : List Pkt
  raws : List Bs

def optNat (s : String) (dflt : Nat) : Option Nat := if s == "-" then some dflt else s.toNat?

def parseDesc (raw : Bs) (d : String) : Option (Bool × Desc) :=
  if d == "-" then (if raw.isEmpty then some (true, .err) else none)
  else if d == "e" then some (raw.isEmpty, .err)
  else
    match d.toList with
    | a :: b' :: ':' :: rest => do
        let a ← Wire.tokBool (String.singleton a)
        let b' ← Wire.tokBool (String.singleton b')
        let off ← (String.ofList rest).toNat?
        if off ≤ raw.length then pure (raw.isEmpty, .ok a b' (raw.drop off)) else none
    | a :: b' :: '=' :: rest => do
        let a ← Wire.tokBool (String.singleton a)
        let b' ← Wire.tokBool (String.singleton b')
        let pl ← Wire.bytesOfHex (String.ofList rest)
        pure (raw.isEmpty, .ok a b' pl)
    | _ => none

def parsePkts : Nat → List String → Option (List (Pkt × Bs))
  | 0, [] => some []
  | n + 1, ts :: m :: raw :: d :: rest => do
      let ts ← ts.toNat?
      let m ← Wire.tokBool m
      let raw ← Wire.bytesOfHex raw
      let (empty, desc) ← parseDesc raw d
      let tl ← parsePkts n rest
      if ts < two32 then pure (({ ts, marker := m, empty, desc }, raw) :: tl) else none
  | _, _ => none

def parseW (args : List String) : Option Op :=
  match args with
  | _tag :: codec :: w :: h :: num :: den :: direct :: sink :: n :: rest => do
      let codec ← if codec == "8" || codec == "d" then some Codec.vp8 else if codec == "9" then some Codec.vp9
                  else if codec == "a" then some Codec.av1 else none
      let w ← optNat w 640
      let h ← optNat h 480
      let num ← optNat num 1
      let den ← optNat den 30
      let direct ← Wire.tokBool direct
      let n ← n.toNat?
      let ps ← parsePkts n rest
      if w < 65536 && h < 65536 && num < two32 && den < two32 && ["b", "s", "f", "n"].contains sink then
        pure { cfg := { codec, width := w, height := h, num, den, direct }, sink, pkts := ps.map (·.1), raws := ps.map (·.2) }
      else none
  | _ => none

def showHash (bs : Bs) : String := s!"{bs.length} {(fnv64 bs).toNat}"

def showRErr : RErr → String
  | .eof => "eof" | .incompleteFileHeader => "incomplete-file-header" | .signatureMismatch => "signature-mismatch"
  | .unknownVersion => "unknown-version" | .invalidTimebase => "invalid-timebase"
  | .incompleteFrameHeader => "incomplete-frame-header" | .incompleteFrameData => "incomplete-frame-data"

def showEnd : End → String
  | .err e => showRErr e
  | .panic => "panic"

def showRead (file : Bs) : String :=
  match readFile file with
  | .err e => "R " ++ showRErr e
  | .panic => "R panic"
  | .ok (h, fs, e) =>
    String.intercalate " " (["R", "ok", Wire.hexOfBytes h.fourCC, toString h.width, toString h.height, toString h.den,
      toString h.num, toString h.numFrames, toString fs.length]
      ++ fs.map (fun (pl, fh) => s!"{showHash pl} {fh.timestamp}") ++ [showEnd e])

def seekable (sink : String) : Bool := sink != "b"

def run (args : List String) : String :=
  match args with
  | "w" :: rest =>
    match parseW rest with
    | none => "bad-op"
    | some op =>
      let (w0, okNew) := newWith op.cfg
      if !okNew then
        s!"W eT 0 D1 B {showHash w0.out} T " ++ (if op.sink == "n" then "-" else "0") ++ " " ++ showRead w0.out
      else
        let r := runFrom op.cfg w0 op.pkts 0 0
        let file := close (seekable op.sink) r.st
        let st := match r.panicAt with | none => "ok" | some k => s!"p{k}"
        let tee := if op.sink == "n" then "-" else
          String.intercalate " " (toString r.st.log.length :: r.st.log.map (fun e => s!"{showHash e.frame} {e.pts}"))
        s!"W {st} {r.errs} D1 B {showHash file} T {tee} {showRead file}"
  | ["raw", hex] =>
    match Wire.bytesOfHex hex with
    | some f => showRead f
    | none => "bad-op"
  | _ => "bad-op"

/-! ### judge: the property evaluated on an observed output, from the op line and the spec only
    (no use of the writer / reader model functions). -/

/-- observed `(len, hash, value)` triples -/
def triples : Nat → List String → Option (List (Nat × Nat × Nat) × List String)
  | 0, rest => some ([], rest)
  | n + 1, l :: h :: v :: rest => do
      let l ← l.toNat?; let h ← h.toNat?; let v ← v.toNat?
      let (tl, rest') ← triples n rest
      pure ((l, h, v) :: tl, rest')
  | _, _ => none

/-- the depacketized payload / flags of a packet, `none` when the packet is not a clean media packet -/
def cleanDesc (p : Pkt) : Option (Bool × Bool × Bs) :=
  if p.empty then none else match p.desc with | .err => none | .ok a b' pl => some (a, b', pl)

/-- split a packet list into groups, each ending with its marker packet; `none` if the last group is open -/
def groups : List Pkt → List Pkt → Option (List (List Pkt))
  | [], [] => some []
  | [], _ :: _ => none
  | p :: ps, acc =>
    if p.marker then (groups ps []).map ((acc ++ [p]) :: ·) else groups ps (acc ++ [p])

/-- spec: does this packet, taken alone, look like the first packet of a key frame / of a frame -/
def keyish (c : Codec) (a _b : Bool) (pl : Bs) : Bool :=
  match c with
  | .vp8 => match pl with | x :: _ => x.toNat % 2 == 0 | [] => false
  | .vp9 => !a
  | .av1 => a || (match pl with | x :: _ => (x.toNat / 8) % 16 == 1 | [] => false)
def startish (c : Codec) (a b' : Bool) : Bool :=
  match c with | .vp8 => a | .vp9 => b' | .av1 => true

structure SFrame where
  key : Bool
  ts : Nat
  bytes : Bs

/-- one group as a well-formed frame of the codec (what pion's payloaders produce), or `none` -/
def frameOfGroup (c : Codec) (g : List Pkt) : Option SFrame := do
  let ds ← g.mapM cleanDesc
  match g, ds with
  | p0 :: _, (a0, b0, pl0) :: rest =>
    let sameTs := g.all (·.ts == p0.ts)
    let nonEmpty := c == .av1 || !pl0.isEmpty          -- VP8/VP9: the opening packet carries data
    let key := keyish c a0 b0 pl0
    let noLateKey := key || ds.all (fun (a, b', pl) => !(keyish c a b' pl && startish c a b'))
    let contOk := match c with
      | .vp9 => rest.all (fun (a, _, _) => a == a0)      -- P is a property of the frame
      | _ => true
    if sameTs && nonEmpty && startish c a0 b0 && noLateKey && contOk then
      let body := (ds.map (fun (_, _, pl) => pl)).flatten
      some { key, ts := p0.ts, bytes := if c == .av1 then [18, 0] ++ body else body }
    else none
  | _, _ => none

/-- the stream as well-formed frames -/
def framesOf (c : Codec) (ps : List Pkt) : Option (List SFrame) := do
  let gs ← groups ps []
  gs.mapM (frameOfGroup c)

/-- the writer's PTS computation, from the property's reading of `WriteRTP`/`writeFrame` -/
def specPts (cfg : Config) (ts first : Nat) : Nat :=
  let diff := (ts + two32 - first) % two32
  if cfg.direct then diff else (1000 * diff / 90000) * cfg.num / cfg.den

def lenHash (t : List (Nat × Nat × Nat)) : List (Nat × Nat) := t.map (fun (l, hh, _) => (l, hh))
def vals (t : List (Nat × Nat × Nat)) : List Nat := t.map (fun (_, _, v) => v)
/-- reader timestamp = (pts · den mod 2^64) / num for every frame -/
def tsAgree (cfg : Config) (ptss tss : List Nat) : Bool :=
  (ptss.zip tss).all (fun (pts, ts) => ts == (pts * cfg.den % two64) / cfg.num)

def judgeW (op : Op) (out : List String) : String :=
  match out with
  | "W" :: st :: nerr :: d :: "B" :: _flen :: _fhash :: "T" :: k :: rest =>
    if d != "D1" then "bad-judge" else
    if st.startsWith "p" then "violated writer-panicked" else   -- the process dies instead of producing the file
    let cfg := op.cfg
    if cfg.den == 0 || cfg.num == 0 then "ok"        -- not a frame rate: outside the property
    else
    let wf := framesOf cfg.codec op.pkts
    -- tee'd frames
    let teeParsed : Option (Option (List (Nat × Nat × Nat)) × List String) :=
      if k == "-" then some (none, rest) else
        (k.toNat?.bind (fun k => triples k rest)).map (fun (t, rest') => (some t, rest'))
    match teeParsed with
    | none => "bad-judge"
    | some (tee, rd) =>
      if wf.isSome && (st != "ok" || nerr != "0") then "violated writer-failed-on-valid-stream" else
      if st != "ok" then "ok"
      else
      match rd with
      | "R" :: "ok" :: fcc :: w :: h :: den :: num :: nf :: n :: rest2 =>
        match n.toNat?.bind (fun n => triples n rest2) with
        | some (rfs, [e]) =>
          if fcc != Wire.hexOfBytes (fourCC cfg.codec) || w != toString cfg.width || h != toString cfg.height
              || den != toString cfg.den || num != toString cfg.num then "violated header-mismatch"
          else
          let nWritten := match tee with | some t => t.length | none => rfs.length
          if seekable op.sink && nf != toString (nWritten % two32) then "violated frame-count-not-patched"
          else if e != "eof" then "violated readback-mismatch"
          else if (match tee with
                   | some t => lenHash t != lenHash rfs
                   | none => false) then "violated readback-mismatch"
          else if (match tee with
                   | some t => !tsAgree cfg (vals t) (vals rfs)
                   | none => false) then "violated timestamp-not-pts"
          else
          match wf with
          | some fs =>
            if (match fs with | f :: _ => f.key | [] => true) then
              -- the stream starts with a key frame: the file holds exactly the frames sent
              let first := match fs with | f :: _ => f.ts | [] => 0
              let want : List (Nat × Nat × Nat) := fs.map (fun (f : SFrame) => (f.bytes.length, (fnv64 f.bytes).toNat, specPts cfg f.ts first))
              if lenHash want != lenHash rfs then "violated frames-not-as-sent"
              else if !tsAgree cfg (vals want) (vals rfs) then "violated pts-mismatch"
              else if (match tee with
                       | some t => vals t != vals want
                       | none => false) then "violated pts-mismatch"
              else "ok"
            else "ok"
          | none => "ok"
        | _ => "bad-judge"
      | "R" :: _ => "violated header-mismatch"       -- the reader refused the writer's file
      | _ => "bad-judge"
  | _ => "bad-judge"

/-- spec-level IVF parse of a complete file: header fields and records, `none` unless the file is exactly a
    valid header followed by complete records -/
def specRecords : Nat → Bs → Option (List (Nat × Nat × Nat))
  | 0, _ => none
  | fuel + 1, s =>
    match s with
    | [] => some []
    | s0 :: s1 :: s2 :: s3 :: p0 :: p1 :: p2 :: p3 :: p4 :: p5 :: p6 :: p7 :: rest =>
      let size := rd32le s0 s1 s2 s3
      let pts := rd32le p0 p1 p2 p3 + rd32le p4 p5 p6 p7 * two32
      if size ≤ rest.length then
        (specRecords fuel (rest.drop size)).map (((rest.take size).length, (fnv64 (rest.take size)).toNat, pts) :: ·)
      else none
    | _ => none

def judgeRaw (f : Bs) (out : List String) : String :=
  match f with
  | 68 :: 75 :: 73 :: 70 :: 0 :: 0 :: _ :: _ :: c0 :: c1 :: c2 :: c3 :: w0 :: w1 :: h0 :: h1
      :: d0 :: d1 :: d2 :: d3 :: n0 :: n1 :: n2 :: n3 :: f0 :: f1 :: f2 :: f3 :: _ :: _ :: _ :: _ :: body =>
    let den := rd32le d0 d1 d2 d3
    let num := rd32le n0 n1 n2 n3
    if den == 0 || num == 0 then "ok" else
    match specRecords (body.length + 1) body with
    | none => "ok"
    | some recs =>
      -- a complete, valid IVF file: the reader must return exactly its header fields and records
      let want := ["R", "ok", Wire.hexOfBytes [c0, c1, c2, c3], toString (rd16le w0 w1), toString (rd16le h0 h1),
        toString den, toString num, toString (rd32le f0 f1 f2 f3), toString recs.length]
        ++ (recs.map (fun (l, hh, pts) => [toString l, toString hh, toString ((pts * den % two64) / num)])).flatten
        ++ ["eof"]
      if out == want then "ok" else "violated valid-file-misread"
  | _ => "ok"

def judge (args out : List String) : String :=
  match args with
  | "w" :: rest =>
    match parseW rest with
    | none => "bad-judge"
    | some op => judgeW op out
  | ["raw", hex] =>
    match Wire.bytesOfHex hex with
    | none => "bad-judge"
    | some f => judgeRaw f out
  | _ => "bad-judge"

end WebrtcVerif.Drv.C32
