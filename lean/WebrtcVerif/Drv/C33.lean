import WebrtcVerif.Base.Wire
import WebrtcVerif.Model.Ogg
import WebrtcVerif.Model.OggSpec
/-! Driver handler for C33 (oggwriter / oggreader).
  ops:
    s <fd:0|1> <rate> <channels> <serial> <nops> {sop}*            single-track OggWriter (New / NewWith)
        sop: C (Close) | N (nil packet) | <payloadSpec>
    m <seekable:0|1> <nwopts> {opt}* <ntracks> {<ssrc> <nopts> {opt}*}* <nops> {mop}*     multi-track Writer
        mop: C | L<ssrc>.<serial> (late NewTrack) | <i>:N | <i>:M<payloadSpec> (wrong SSRC) | <i>:<payloadSpec>
    raw <doChecksum:0|1> <hex>      oggreader on arbitrary bytes
    head <hex> | tags <hex>         ParseOpusHead / ParseOpusTags on arbitrary bytes
  A final Close is always performed after the listed ops.
  opt: r<rate> | c<channels> | m<family>.<streams>.<coupled>.<mappingHex> | v<vendorHex> |
       u<nameHex>.<valueHex>(,<nameHex>.<valueHex>)* (u- = no comments) | s<serial>
  payloadSpec: x<hex> literal | p<toc>.<b1>.<len>.<seed> generated (byte i = (seed + 7·i + i/256) mod 256,
       byte 0 := toc, byte 1 := b1)
  output:
    s → E <err> | W <statuses> F <fileHex> R <npages> <end> <hash> H n=<hdr> h=<head> t=<tags>
    m → E <err> | T <trackStatuses> W <statuses> F <fileHex> R … H n=<hdr> {h=<head> t=<tags>}*
    statuses: comma-separated, one per op: k written | z skipped | c close | n not applicable (no such track) | e:<err>
-/
namespace WebrtcVerif.Drv.C33
open WebrtcVerif WebrtcVerif.Bytes WebrtcVerif.Ogg

/-! ### tokens -/

/-- tail-recursive hex decoder (files of several hundred kB travel on one line) -/
def hexLoop : List Char → List UInt8 → Option (List UInt8)
  | [], acc => some acc.reverse
  | [_], _ => none
  | a :: c :: rest, acc =>
    match Wire.hexVal a, Wire.hexVal c with
    | some x, some y => hexLoop rest (UInt8.ofNat (x * 16 + y) :: acc)
    | _, _ => none

def unhex (s : String) : Option Bs := if s == "-" then some [] else hexLoop s.toList []

def genPayload (len seed : Nat) : Bs := (List.range len).map (fun i => b (seed + 7 * i + i / 256))

def payloadOfSpec (s : String) : Option Bs :=
  match s.toList with
  | 'x' :: rest => unhex (String.ofList rest)
  | 'p' :: rest =>
    match ((String.ofList rest).splitOn ".").mapM String.toNat? with
    | some [toc, b1, len, seed] =>
      let g := genPayload len seed
      some (match g with
        | _ :: _ :: tl => b toc :: b b1 :: tl
        | [_] => [b toc]
        | [] => [])
    | _ => none
  | _ => none

def parseComment (s : String) : Option (Bs × Bs) :=
  match s.splitOn "." with
  | [k, v] => do pure ((← unhex k), (← unhex v))
  | _ => none

def parseOpt (s : String) : Option Opt :=
  match s.toList with
  | 'r' :: rest => (String.ofList rest).toNat?.map Opt.sampleRate
  | 'c' :: rest => (String.ofList rest).toNat?.map Opt.channelCount
  | 's' :: rest => (String.ofList rest).toNat?.map Opt.serial
  | 'v' :: rest => (unhex (String.ofList rest)).map Opt.vendor
  | 'm' :: rest =>
    match (String.ofList rest).splitOn "." with
    | [f, sc, cc, m] => do
      pure (Opt.channelMapping (b (← f.toNat?)) (b (← sc.toNat?)) (b (← cc.toNat?)) (← unhex m))
    | _ => none
  | 'u' :: rest =>
    let body := String.ofList rest
    if body == "-" then some (Opt.userComments []) else ((body.splitOn ",").mapM parseComment).map Opt.userComments
  | _ => none

def takeOpts (n : Nat) (toks : List String) : Option (List Opt × List String) :=
  if toks.length < n then none else do pure ((← (toks.take n).mapM parseOpt), toks.drop n)

inductive SOp | close | nil | pkt (p : Bs)

def parseSOp (s : String) : Option SOp :=
  if s == "C" then some .close else if s == "N" then some .nil else (payloadOfSpec s).map .pkt

inductive MOp | close | late (ssrc serial : Nat) | nil (i : Nat) | wrongSSRC (i : Nat) (p : Bs) | pkt (i : Nat) (p : Bs)

def parseMOp (s : String) : Option MOp :=
  if s == "C" then some .close
  else match s.toList with
    | 'L' :: rest =>
      match ((String.ofList rest).splitOn ".").mapM String.toNat? with
      | some [ssrc, serial] => some (.late ssrc serial)
      | _ => none
    | _ =>
      match s.splitOn ":" with
      | [i, body] => do
        let i ← i.toNat?
        if body == "N" then pure (.nil i)
        else match body.toList with
          | 'M' :: rest => pure (.wrongSSRC i (← payloadOfSpec (String.ofList rest)))
          | _ => pure (.pkt i (← payloadOfSpec body))
      | _ => none

structure SingleCase where
  fd : Bool
  rate : Nat
  channels : Nat
  serial : Nat
  ops : List SOp

def parseSingle : List String → Option SingleCase
  | fd :: rate :: ch :: serial :: n :: rest => do
    let fd ← Wire.tokBool fd
    let n ← n.toNat?
    if rest.length != n then none
    pure { fd, rate := (← rate.toNat?), channels := (← ch.toNat?), serial := (← serial.toNat?), ops := (← rest.mapM parseSOp) }
  | _ => none

structure MultiCase where
  seekable : Bool
  wopts : List Opt
  tracks : List (Nat × List Opt)
  ops : List MOp

def parseTracks : Nat → List String → Option (List (Nat × List Opt) × List String)
  | 0, toks => some ([], toks)
  | n + 1, ssrc :: k :: rest => do
    let (opts, rest) ← takeOpts (← k.toNat?) rest
    let (tl, rest) ← parseTracks n rest
    pure (((← ssrc.toNat?), opts) :: tl, rest)
  | _, _ => none

def parseMulti : List String → Option MultiCase
  | seek :: nw :: rest => do
    let seekable ← Wire.tokBool seek
    let (wopts, rest) ← takeOpts (← nw.toNat?) rest
    match rest with
    | nt :: rest =>
      let (tracks, rest) ← parseTracks (← nt.toNat?) rest
      match rest with
      | n :: rest =>
        if rest.length != (← n.toNat?) then none
        pure { seekable, wopts, tracks, ops := (← rest.mapM parseMOp) }
      | _ => none
    | _ => none
  | _ => none

/-! ### rendering -/

def showErr : Err → String
  | .invalidChannelCount => "channel-count" | .invalidChannelMap => "channel-map" | .invalidOpusTags => "opus-tags"
  | .fileNotOpened => "file-not-opened" | .outputNotOpened => "output-not-opened" | .nilPacket => "nil-packet"
  | .duplicateSSRC => "dup-ssrc" | .duplicateSerial => "dup-serial" | .tracksStarted => "tracks-started"
  | .ssrcMismatch => "ssrc-mismatch" | .invalidOpusPacket => "opus-packet"

def showStatus : Status → String
  | .written => "k" | .skipped => "z" | .failed e => "e:" ++ showErr e

def joinStatuses (xs : List String) : String := if xs.isEmpty then "-" else String.intercalate "," xs

def fnvOfString (s : String) : Nat := (fnv64 s.toUTF8.toList).toNat

/-- read pages with the model of `ParseNextPage` until it fails -/
def readPages (doChecksum : Bool) : Nat → Bs → List (PageHeader × Bs) → List (PageHeader × Bs) × String
  | 0, _, acc => (acc.reverse, "fuel")
  | fuel + 1, s, acc =>
    match parseNextPage doChecksum s with
    | .ok payload hdr rest => readPages doChecksum fuel rest ((hdr, payload) :: acc)
    | .eof => (acc.reverse, "eof")
    | .unexpectedEOF => (acc.reverse, "unexpected")
    | .checksumMismatch => (acc.reverse, "checksum")
    | .panic => (acc.reverse, "panic")

def pageSummary (ht : UInt8) (granule serial index nseg : Nat) (payload : Bs) : String :=
  s!"{ht.toNat},{granule},{serial},{index},{nseg},{payload.length},{(fnv64 payload).toNat};"

def showRead (pages : List (PageHeader × Bs)) (end_ : String) : String :=
  let body := String.join (pages.map fun (h, p) =>
    pageSummary h.headerType h.granulePosition h.serial h.index h.segmentsCount.toNat p)
  s!"R {pages.length} {end_} {fnvOfString body}"

def showHead : HeadResult → String
  | .ok h => s!"ok.{h.version.toNat}.{h.channels.toNat}.{h.preSkip}.{h.sampleRate}.{h.outputGain}.{h.channelMap.toNat}.{h.streamCount.toNat}.{h.coupledCount.toNat}.{Wire.hexOfBytes h.channelMapping}"
  | .badIDPageLength => "badlen" | .unsupportedFamily => "family" | .badIDPageSignature => "badsig"
  | .badIDPageType => "badtype" | .badIDPagePayloadSignature => "badpayloadsig" | .readErr _ => "readerr"
  | .panic => "panic"

def canonComments (cs : List (Bs × Bs)) : String :=
  String.join (cs.map fun (k, v) => Wire.hexOfBytes k ++ "=" ++ Wire.hexOfBytes v ++ ";")

def showTagsOk (t : Tags) : String :=
  s!"ok.{t.vendor.length}.{(fnv64 t.vendor).toNat}.{t.comments.length}.{fnvOfString (canonComments t.comments)}"

def showTags : TagsResult → String
  | .ok t => showTagsOk t
  | .badSignature => "badsig"
  | .panic => "panic"

/-- header packets of one stream as the harness collects them from `ParseNextPage` results: first page's
    payload; second page's payload joined with the following pages that carry the continuation flag -/
def headerPackets (serial : Nat) (pages : List (PageHeader × Bs)) : Option (Bs × Bs) :=
  match pages.filter (fun (h, _) => h.serial == serial) with
  | (_, head) :: (_, t0) :: rest =>
    some (head, t0 ++ ((rest.takeWhile (fun (h, _) => h.headerType &&& 1 != 0)).map (·.2)).flatten)
  | _ => none

def showHeaders (serials : List Nat) (file : Bs) (pages : List (PageHeader × Bs)) : String :=
  let n := showHead (readOpusHeader true file).1
  let per := serials.map fun s =>
    match headerPackets s pages with
    | some (h, t) => s!" h={showHead (parseOpusHead h)} t={showTags (parseOpusTags t)}"
    | none => " h=none t=none"
  s!"H n={n}" ++ String.join per

def showFile (serials : List Nat) (file : Bs) : String :=
  let (pages, end_) := readPages true (file.length + 1) file []
  s!"F {Wire.hexOfBytes file} {showRead pages end_} {showHeaders serials file pages}"

/-! ### run -/

def runSingle (c : SingleCase) : String :=
  match OggWriter.new c.fd c.rate c.channels c.serial with
  | .error e => "E " ++ showErr e
  | .ok w =>
    let (w, sts) := c.ops.foldl (fun (w, sts) op =>
      match op with
      | .close => (w.close, "c" :: sts)
      | .nil => let r := w.writeRTP none; (r.1, showStatus r.2 :: sts)
      | .pkt p => let r := w.writeRTP (some p); (r.1, showStatus r.2 :: sts)) (w, [])
    let w := w.close
    s!"W {joinStatuses sts.reverse} {showFile [c.serial] w.out}"

def showNewTrack : Option Err → String
  | none => "k"
  | some e => "e:" ++ showErr e

def runMulti (c : MultiCase) : String :=
  match Writer.new c.seekable c.wopts with
  | .error e => "E " ++ showErr e
  | .ok w =>
    let (w, tsts) := c.tracks.foldl (fun (w, sts) (ssrc, opts) =>
      let r := w.newTrack ssrc opts; (r.1, showNewTrack r.2 :: sts)) (w, [])
    let (w, sts) := c.ops.foldl (fun (w, sts) op =>
      match op with
      | .close => (w.close, "c" :: sts)
      | .late ssrc serial => let r := w.newTrack ssrc [Opt.serial serial]; (r.1, showNewTrack r.2 :: sts)
      | .nil i => if i < w.tracks.length then (let r := w.writeRTP i none true; (r.1, showStatus r.2 :: sts)) else (w, "n" :: sts)
      | .wrongSSRC i p => if i < w.tracks.length then (let r := w.writeRTP i (some p) false; (r.1, showStatus r.2 :: sts)) else (w, "n" :: sts)
      | .pkt i p => if i < w.tracks.length then (let r := w.writeRTP i (some p) true; (r.1, showStatus r.2 :: sts)) else (w, "n" :: sts))
      (w, [])
    let w := w.close
    s!"T {joinStatuses tsts.reverse} W {joinStatuses sts.reverse} {showFile (w.tracks.map (·.t.serial)) w.out}"

def runRaw (doChecksum : Bool) (file : Bs) : String :=
  let (pages, end_) := readPages doChecksum (file.length + 1) file []
  s!"{showRead pages end_} N " ++ (if doChecksum then showHead (readOpusHeader true file).1 else "skipped")

def run (args : List String) : String :=
  match args with
  | "s" :: rest => match parseSingle rest with | some c => runSingle c | none => "bad-op"
  | "m" :: rest => match parseMulti rest with | some c => runMulti c | none => "bad-op"
  | ["raw", ck, hex] =>
    match Wire.tokBool ck, unhex hex with
    | some ck, some f => runRaw ck f
    | _, _ => "bad-op"
  | ["head", hex] => match unhex hex with | some p => showHead (parseOpusHead p) | none => "bad-op"
  | ["tags", hex] => match unhex hex with | some p => showTags (parseOpusTags p) | none => "bad-op"
  | _ => "bad-op"

/-! ### judge: the property evaluated on the observed output (spec functions only) -/

open OggSpec in
/-- what one logical stream must look like -/
structure Expect where
  serial : Nat
  head : Bs              -- OpusHead packet (RFC 7845 §5.1)
  tags : Bs              -- OpusTags packet (RFC 7845 §5.2)
  headShow : String      -- the fields as oggreader must report them
  tagsShow : String
  packets : List Bs      -- accepted audio packets, in order

/-- effective configuration after a list of options (later options win, comments accumulate) -/
structure Cfg where
  rate : Nat := 48000
  family : Nat := 0
  channels : Nat := 2
  streams : Nat := 1
  coupled : Nat := 1
  mapping : Bs := []
  vendor : Bs := [112, 105, 111, 110]
  comments : List (Bs × Bs) := []

def Cfg.apply (c : Cfg) : Opt → Cfg
  | .sampleRate n => { c with rate := n }
  | .channelCount n => { c with family := 0, channels := n, streams := 1, coupled := n - 1, mapping := [] }
  | .channelMapping f sc cc m => { c with family := f.toNat, channels := m.length, streams := sc.toNat, coupled := cc.toNat, mapping := m }
  | .vendor v => { c with vendor := v }
  | .userComments cs => { c with comments := c.comments ++ cs }
  | .serial _ => c

def specHead (c : Cfg) : Bs :=
  [79, 112, 117, 115, 72, 101, 97, 100, 1, b c.channels] ++ le16 3840 ++ le32 c.rate ++ [0, 0, b c.family]
    ++ (if c.family = 0 then [] else [b c.streams, b c.coupled] ++ c.mapping)

def specTags (c : Cfg) : Bs :=
  [79, 112, 117, 115, 84, 97, 103, 115] ++ le32 c.vendor.length ++ c.vendor ++ le32 c.comments.length
    ++ (c.comments.map fun (k, v) => le32 (k.length + 1 + v.length) ++ k ++ [61] ++ v).flatten

def Cfg.expect (c : Cfg) (serial : Nat) (packets : List Bs) : Expect :=
  { serial, head := specHead c, tags := specTags c, packets
    headShow := s!"ok.1.{c.channels}.3840.{c.rate}.0.{c.family}." ++
      (if c.family = 0 then "0.0.-" else s!"{c.streams}.{c.coupled}.{Wire.hexOfBytes c.mapping}")
    tagsShow := showTagsOk { vendor := c.vendor, comments := c.comments } }

open OggSpec in
def checkStream (variant : String) (pages : List Page) (e : Expect) : Option String :=
  let ps := streamOf e.serial pages
  let all := e.head :: e.tags :: e.packets
  let cum := fun k => cumSamples e.packets (k - 2)
  if ps.isEmpty then some "missing-stream"
  else if !bosOk ps then some "bos-flag"
  else if !seqFrom 0 ps then some "seq-gap"
  else if !contFrom false ps then some "continuation-flag"
  else if !ps.any isEOS then some ("no-eos:" ++ variant)
  else if !eosOk ps then some "eos-not-last"
  else if (packetsOf ps).take 2 != [e.head, e.tags] then some "header-packets-mismatch"
  else if packetsOf ps != all then some "packets-mismatch"
  else if !granulesFrom cum 0 ps then some "granule-mismatch"
  else if !granuleMonotoneFrom 0 ps then some "granule-decrease"
  else none

def splitAtTok (t : String) (xs : List String) : List String × List String :=
  (xs.takeWhile (· ≠ t), (xs.dropWhile (· ≠ t)).drop 1)

open OggSpec in
/-- everything after the statuses: file, reader summary, header fields -/
def judgeFile (variant : String) (es : List Expect) (rest : List String) : String :=
  match rest with
  | "F" :: hex :: "R" :: rn :: rend :: rhash :: "H" :: hs =>
    match unhex hex with
    | none => "bad-judge"
    | some file =>
      match splitPages file.length file with
      | none => "violated unparseable-output"
      | some pcs =>
        if !pcs.all (·.2) then "violated bad-crc"
        else
          let pages := pcs.map (·.1)
          if pages.any (fun p => !es.any (fun e => e.serial == p.serial)) then "violated stray-serial"
          else
            match es.findSome? (checkStream variant pages) with
            | some key => "violated " ++ key
            | none =>
              -- the real reader must see exactly these pages and then a clean end of file
              let body := String.join (pages.map fun p => pageSummary p.headerType p.granule p.serial p.index p.segs.length p.payload)
              if [rn, rend, rhash] != [toString pages.length, "eof", toString (fnvOfString body)] then
                "violated reader-disagrees"
              else
                -- header fields as reported by oggreader
                let wantN := match es with | e :: _ => "n=" ++ e.headShow | [] => "n=readerr"
                let want := wantN :: (es.map fun e => ["h=" ++ e.headShow, "t=" ++ e.tagsShow]).flatten
                if hs.take 1 != [wantN] then "violated head-mismatch:reader-newwith"
                else if hs != want then
                  (if (hs.filter (·.startsWith "h=")) != (want.filter (·.startsWith "h=")) then "violated head-mismatch"
                   else "violated tags-mismatch")
                else "ok"
  | _ => "bad-judge"

/-- expected status letter: k / z / e / c / n -/
def statusClass (s : String) : String := if s.startsWith "e:" then "e" else s

def compareStatuses (want got : List String) : Option String :=
  if want.length != got.length then some "status-count"
  else
    (want.zip got).findSome? fun (w, g) =>
      if w == g then none
      else if w == "k" then some "valid-packet-refused"
      else if g == "k" then some "invalid-packet-written"
      else some ("status-mismatch:" ++ w ++ "/" ++ g)

def splitStatuses (s : String) : List String := if s == "-" then [] else (s.splitOn ",").map statusClass

def judgeSingle (c : SingleCase) (out : List String) : String :=
  let valid := c.channels == 1 || c.channels == 2
  match out with
  | ["E", _] => if valid then "violated valid-config-refused" else "ok"
  | ["X", key] => "violated " ++ key
  | "W" :: sts :: rest =>
    if !valid then "violated invalid-config-accepted"
    else
      -- spec walk over the ops
      let (_, want, written) := c.ops.foldl (fun (open_, want, written) op =>
        match op with
        | .close => (false, "c" :: want, written)
        | .nil => (open_, "e" :: want, written)
        | .pkt p =>
          if !open_ then (open_, "e" :: want, written)
          else if p.isEmpty then (open_, "z" :: want, written)
          else if (OggSpec.packetSamples p).isSome then (open_, "k" :: want, p :: written)
          else (open_, "e" :: want, written)) (true, [], [])
      match compareStatuses want.reverse (splitStatuses sts) with
      | some key => "violated " ++ key
      | none =>
        let cfg : Cfg := { rate := c.rate, channels := c.channels, coupled := c.channels - 1 }
        judgeFile (if c.fd then "single-track-seekable" else "single-track-nonseekable")
          [cfg.expect c.serial written.reverse] rest
  | _ => "bad-judge"

structure JTrack where
  ssrc : Nat
  serial : Nat
  cfg : Cfg
  written : List Bs      -- reversed

def judgeMulti (c : MultiCase) (out : List String) : String :=
  match out with
  | ["E", _] => "ok"       -- option validation is not part of the property; compared with the model only
  | "T" :: tsts :: "W" :: sts :: rest =>
    let wcfg := c.wopts.foldl Cfg.apply {}
    let tst := splitStatuses tsts
    if tst.length != c.tracks.length then "violated status-count"
    else
      let tracks : List JTrack := ((c.tracks.zip tst).filter (·.2 == "k")).map fun ((ssrc, opts), _) =>
        { ssrc, serial := (opts.foldl (fun s o => match o with | .serial n => some n | _ => s) none).getD 0
          cfg := opts.foldl Cfg.apply wcfg, written := [] }
      let addWritten (ts : List JTrack) (i : Nat) (p : Bs) : List JTrack :=
        ts.mapIdx fun j t => if j == i then { t with written := p :: t.written } else t
      let (_, _, tracks, want) := c.ops.foldl (fun (open_, started, ts, want) op =>
        match op with
        | .close => (false, true, ts, "c" :: want)
        | .late ssrc serial =>
          if !open_ || started || ts.any (fun t => t.ssrc == ssrc || t.serial == serial) then (open_, started, ts, "e" :: want)
          else (open_, started, ts ++ [{ ssrc, serial, cfg := wcfg, written := [] }], "k" :: want)
        | .nil i => if i < ts.length then (open_, started, ts, "e" :: want) else (open_, started, ts, "n" :: want)
        | .wrongSSRC i _ => if i < ts.length then (open_, started, ts, "e" :: want) else (open_, started, ts, "n" :: want)
        | .pkt i p =>
          if i ≥ ts.length then (open_, started, ts, "n" :: want)
          else if !open_ then (open_, started, ts, "e" :: want)
          else if p.isEmpty then (open_, started, ts, "z" :: want)
          else if (OggSpec.packetSamples p).isSome then (open_, true, addWritten ts i p, "k" :: want)
          else (open_, true, ts, "e" :: want)) (true, false, tracks, [])
      match compareStatuses want.reverse (splitStatuses sts) with
      | some key => "violated " ++ key
      | none =>
        judgeFile (if c.seekable then "multi-track-seekable" else "multi-track-nonseekable")
          (tracks.map fun t => t.cfg.expect t.serial t.written.reverse) rest
  | _ => "bad-judge"

def judge (args out : List String) : String :=
  match args with
  | "s" :: rest => match parseSingle rest with | some c => judgeSingle c out | none => "bad-judge"
  | "m" :: rest => match parseMulti rest with | some c => judgeMulti c out | none => "bad-judge"
  | "raw" :: _ | "head" :: _ | "tags" :: _ =>
    if out.isEmpty then "bad-judge"
    else if out.any (fun t => t == "panic" || t.startsWith "panic") then "violated reader-panic" else "ok"
  | _ => "bad-judge"

end WebrtcVerif.Drv.C33
