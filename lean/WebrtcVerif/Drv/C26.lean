import WebrtcVerif.Base.Wire
import WebrtcVerif.Model.Rtp
import WebrtcVerif.Model.Rtx
/-! Driver handler for C26 (RTX unwrapping).
  ops:
    one <mtu> <pt> <ssrc> <start> <carried> <readLen> <n> <image>
    seq <mtu> <pt> <ssrc> <start> { f <carried> <n> <image> | r <readLen> | p <pkthex> | s <ssrc> | c }*
  p       a packet arrives on the primary stream (TrackRemote.Read returns it once no unwrapped RTX packet
          waits; checkAndUpdateTrack then adopts its payload type if the hook's MediaEngine knows a codec:
          every payload type except 7, 15, …, 127)
  s       receiveForRid binds the primary stream again, with this SSRC
  c       RTPReceiver.Stop; no repair read may follow
  mtu     length of the pooled buffers the repair reader fills (SettingEngine receive MTU)
  pt/ssrc payload type and SSRC of the primary stream (the track) at the start
  start   1: reader started by receiveForRtx, 0: by the first TrackRemote.Read (same observable behaviour)
  carried 1: the repair interceptor hands over non-nil attributes (they must survive)
  n       what the repair interceptor's Read returns
  image   what it leaves in the pooled buffer: segments joined by `+`, `x<hex>` literal bytes,
          `g<len>:<seed>` generated (byte i = (seed + 7·i + i/256) mod 256); cut / zero-extended to mtu
  output, per TrackRemote.Read:
    none                                                           the read went to the primary stream
    eof                                                            the receiver is stopped
    pri | pri-too-short | pri-unknown-codec  <len> <fnv64> <first ≤96 bytes hex>     a primary packet (and
                                                                   checkAndUpdateTrack's verdict)
    rtx <len> <fnv64> <first ≤96 bytes hex> <carried> <rtxPT> <rtxSeq> <rtxSsrc>
  `one` prints that of its single read, `seq` prints `seq` and its reads separated by `|`;
  `panic` when the model says the reader goroutine dies.
-/
namespace WebrtcVerif.Drv.C26
open WebrtcVerif WebrtcVerif.Bytes WebrtcVerif.Rtx

def genBytes (len seed : Nat) : Bs := (List.range len).map (fun i => b (seed + 7 * i + i / 256))

def segment (s : String) : Option Bs :=
  match s.toList with
  | 'x' :: rest => Wire.bytesOfHex (String.ofList rest)
  | 'g' :: rest =>
    match (String.ofList rest).splitOn ":" with
    | [l, sd] => do let l ← l.toNat?; let sd ← sd.toNat?; pure (genBytes l sd)
    | _ => none
  | _ => none

def imageOf (mtu : Nat) (spec : String) : Option Bs := do
  let segs ← (spec.splitOn "+").mapM segment
  let raw := segs.flatten.take mtu
  pure (raw ++ List.replicate (mtu - raw.length) 0)

def headLen : Nat := 96

def showItem (it : Item) : String :=
  s!"rtx {it.pkt.length} {(fnv64 it.pkt).toNat} {Wire.hexOfBytes (it.pkt.take headLen)} {Wire.boolTok it.carried} {it.attrs.rtxPT} {it.attrs.rtxSeq} {it.attrs.rtxSsrc}"

structure Cfg where
  mtu : Nat
  pt : Nat
  ssrc : Nat

inductive Step where
  | feed (carried : Bool) (n : Nat) (img : Bs)
  | read (readLen : Nat)
  | primary (pkt : Bs)
  | rebind (ssrc : Nat)
  | close

def parseCfg : List String → Option (Cfg × List String)
  | mtu :: pt :: ssrc :: start :: rest => do
      let mtu ← mtu.toNat?
      let pt ← pt.toNat?
      let ssrc ← ssrc.toNat?
      let _ ← Wire.tokBool start
      if pt < 256 ∧ ssrc < 4294967296 ∧ 76 ≤ mtu ∧ mtu ≤ 65535 then pure ({ mtu, pt, ssrc }, rest) else none
  | _ => none

def parseSteps (mtu : Nat) : Nat → List String → Option (List Step)
  | _, [] => some []
  | 0, _ => none
  | fuel + 1, "f" :: c :: n :: img :: rest => do
      let c ← Wire.tokBool c
      let n ← n.toNat?
      let img ← imageOf mtu img
      if n > mtu then none
      let tl ← parseSteps mtu fuel rest
      pure (.feed c n img :: tl)
  | fuel + 1, "r" :: l :: rest => do
      let l ← l.toNat?
      let tl ← parseSteps mtu fuel rest
      pure (.read l :: tl)
  | fuel + 1, "p" :: pkt :: rest => do
      let pkt ← Wire.bytesOfHex pkt
      let tl ← parseSteps mtu fuel rest
      pure (.primary pkt :: tl)
  | fuel + 1, "s" :: ssrc :: rest => do
      let ssrc ← ssrc.toNat?
      if ssrc ≥ 4294967296 then none
      let tl ← parseSteps mtu fuel rest
      pure (.rebind ssrc :: tl)
  | fuel + 1, "c" :: rest => do
      let tl ← parseSteps mtu fuel rest
      if tl.any (fun s => match s with | .feed .. => true | _ => false) then none
      pure (.close :: tl)
  | _ + 1, _ => none

def parseOp (args : List String) : Option (Cfg × List Step) :=
  match args with
  | "one" :: rest => do
      let (cfg, rest) ← parseCfg rest
      match rest with
      | [c, l, n, img] => do
          let st ← parseSteps cfg.mtu 3 ["f", c, n, img, "r", l]
          pure (cfg, st)
      | _ => none
  | "seq" :: rest => do
      let (cfg, rest) ← parseCfg rest
      let st ← parseSteps cfg.mtu (rest.length + 1) rest
      if (st.filter (fun s => match s with | .primary _ => true | _ => false)).length > 1000 then none
      pure (cfg, st)
  | _ => none

/-- the MediaEngine of the hook (`VerifRTXCodecKnown`) -/
def codecKnown (p : Byte) : Bool := p.toNat < 128 && p.toNat % 8 != 7

def showPri (kind : String) (pkt : Bs) (len : Nat) : String :=
  let v := pkt.take len
  s!"{kind} {v.length} {(fnv64 v).toNat} {Wire.hexOfBytes (v.take headLen)}"

def showObs : Obs → String
  | .eof => "eof"
  | .none => "none"
  | .rtx it len => showItem { it with pkt := it.pkt.take len }
  | .pri pkt len => showPri "pri" pkt len
  | .priTooShort pkt len => showPri "pri-too-short" pkt len
  | .priUnknownCodec pkt len => showPri "pri-unknown-codec" pkt len

def evOf : Step → Ev
  | .feed c n img => .feed { buf := img, n, carried := c }
  | .read l => .read l
  | .primary pkt => .primary pkt
  | .rebind ssrc => .rebind ssrc
  | .close => .stop

def run (args : List String) : String :=
  match parseOp args with
  | none => "bad-op"
  | some (cfg, steps) =>
    match Rtx.run codecKnown { pt := b cfg.pt, ssrc := cfg.ssrc, q := [], prim := [], closed := false }
        (steps.map evOf) with
    | none => "panic"
    | some (_, obs, _) =>
      let outs := obs.map showObs
      match args with
      | "one" :: _ => String.intercalate " " outs
      | _ => if outs.isEmpty then "seq" else "seq " ++ String.intercalate " | " outs

/-! ### judge: the property evaluated on observed outputs

Written from the property text over the RFC 3550 parser `Rtp.parse` / `Rtp.serialize`; it does not call
`Rtx.unwrap`. -/

inductive Expect where
  | deliver (pkt : Bs) (a : Attrs)     -- a retransmission packet: must come out as this original packet
  | drop                               -- too short to carry an OSN: must not come out
  | free                               -- neither (malformed in another way, or a payload type ≥ 128 configured)

def expectOf (cfg : Cfg) (img : Bs) (n : Nat) : Expect :=
  let s := img.take n
  match Rtp.parse s with
  | some p =>
    match p.payload with
    | o0 :: o1 :: body =>
      if cfg.pt < 128 then
        .deliver (Rtp.serialize { p with seq := rd16be o0 o1, ssrc := cfg.ssrc, pt := cfg.pt, payload := body })
          { rtxPT := p.pt, rtxSeq := p.seq, rtxSsrc := p.ssrc }
      else .free
    | _ => .drop
  | none => if Rtp.tooShortForOSN s then .drop else .free

/-- compare one observed read with the packet that must come out; the key names the first header
    field that differs. `oldPTs` / `oldSSRCs` are values the primary stream had earlier in the history:
    a packet carrying one of those instead of the current one is reported as stale. -/
def checkDelivered (want : Bs) (a : Attrs) (carried : Bool) (readLen : Nat) (oldPTs oldSSRCs : List Nat)
    (obs : List String) : String :=
  match obs with
  | ["rtx", len, hash, head, c, rpt, rseq, rssrc] =>
    let w := want.take readLen
    match Wire.bytesOfHex head with
    | none => "bad-judge"
    | some h =>
      let wh := w.take headLen
      if len != toString w.length then "violated wrong-length"
      else if h.take 1 != wh.take 1 then "violated flags-changed"
      else if (h.drop 1).take 1 != (wh.drop 1).take 1 then
        (match (h.drop 1).head?, (wh.drop 1).head? with
         | some x, some y =>
           if x.toNat / 128 == y.toNat / 128 && oldPTs.contains (x.toNat % 128) then "violated stale-payload-type"
           else "violated wrong-payload-type-or-marker"
         | _, _ => "violated wrong-payload-type-or-marker")
      else if (h.drop 2).take 2 != (wh.drop 2).take 2 then "violated wrong-sequence-number"
      else if (h.drop 4).take 4 != (wh.drop 4).take 4 then "violated timestamp-changed"
      else if (h.drop 8).take 4 != (wh.drop 8).take 4 then
        (match (h.drop 8).take 4 with
         | [x, y, z, w] => if oldSSRCs.contains (rd32be x y z w) then "violated stale-ssrc" else "violated wrong-ssrc"
         | _ => "violated wrong-ssrc")
      else if h != wh then "violated header-or-payload-changed"
      else if hash != toString (fnv64 w).toNat then "violated wrong-payload"
      else if rpt != toString a.rtxPT || rseq != toString a.rtxSeq || rssrc != toString a.rtxSsrc then
        "violated wrong-attributes"
      else if c != Wire.boolTok carried then "violated attributes-lost"
      else "ok"
  | ["none"] => "violated rtx-not-delivered"
  | "pri" :: _ | "pri-too-short" :: _ | "pri-unknown-codec" :: _ => "violated rtx-not-delivered"
  | _ => "bad-judge"

def splitReads (out : List String) : List (List String) :=
  let rec go : List String → List String → List (List String) → List (List String)
    | [], cur, acc => (cur.reverse :: acc).reverse
    | "|" :: rest, cur, acc => go rest [] (cur.reverse :: acc)
    | t :: rest, cur, acc => go rest (t :: cur) acc
  go out [] []

/-- what the judge knows about the primary stream while it walks a history: its current payload type
    and SSRC (those of `cfg`) and the ones it had before -/
structure JSt where
  cfg : Cfg
  oldPTs : List Nat
  oldSSRCs : List Nat
  pending : List (Bs × Attrs × Bool)

/-- Walk a history. `pending` are the packets that must come out, oldest first, each computed with the
    payload type and SSRC the primary stream had when the packet arrived on the repair stream. The
    primary stream's payload type is read off the OBSERVED primary packets (`pri …` with no error); its
    SSRC changes with `s`. Once something unconstrained happened (a `free` packet, more than the channel
    holds waiting, a primary packet the track could not digest, Stop) the rest of the history is only
    checked for crashes. -/
def judgeSteps : JSt → List Step → List (List String) → String
  | _, [], _ => "ok"
  | _, .close :: _, _ => "ok"          -- the property does not speak about a stopped receiver
  | st, .primary _ :: rest, obs => judgeSteps st rest obs
  | st, .rebind ssrc :: rest, obs =>
    judgeSteps { st with cfg := { st.cfg with ssrc := ssrc }, oldSSRCs := st.cfg.ssrc :: st.oldSSRCs } rest obs
  | st, .feed c n img :: rest, obs =>
    match expectOf st.cfg img n with
    | .free => "ok"
    | .drop => judgeSteps st rest obs
    | .deliver pkt a =>
      if st.pending.length ≥ chanCap then "ok"
      else judgeSteps { st with pending := st.pending ++ [(pkt, a, c)] } rest obs
  | st, .read l :: rest, obs =>
    match obs with
    | [] => "bad-judge"
    | o :: obs' =>
      match st.pending with
      | [] =>
        match o with
        | ["none"] => judgeSteps st rest obs'
        | ["pri", _, _, head] =>
          match Wire.bytesOfHex head with
          | some (_ :: b1 :: _) =>
            let p := b1.toNat % 128
            if p == st.cfg.pt then judgeSteps st rest obs'
            else judgeSteps { st with cfg := { st.cfg with pt := p }, oldPTs := st.cfg.pt :: st.oldPTs } rest obs'
          | _ => "ok"
        | "pri-too-short" :: _ => "ok"
        | "pri-unknown-codec" :: _ => "ok"
        | "rtx" :: _ => "violated short-rtx-delivered"
        | _ => "bad-judge"
      | (pkt, a, c) :: pending' =>
        let v := checkDelivered pkt a c l (st.oldPTs.filter (· != st.cfg.pt)) (st.oldSSRCs.filter (· != st.cfg.ssrc)) o
        if v == "ok" then judgeSteps { st with pending := pending' } rest obs' else v

def judge (args out : List String) : String :=
  match parseOp args with
  | none => "bad-judge"
  | some (cfg, steps) =>
    match out with
    | "panic" :: _ => "violated crash"
    | ["timeout"] => "violated crash"
    | _ =>
      let obs := match args, out with
        | "one" :: _, o => [o]
        | _, "seq" :: o => splitReads o
        | _, _ => []
      let nreads := (steps.filter (fun s => match s with | .read _ => true | _ => false)).length
      if obs.length != nreads && !(nreads == 0 && obs == [[]]) then "bad-judge"
      else judgeSteps { cfg, oldPTs := [], oldSSRCs := [], pending := [] } steps (if nreads == 0 then [] else obs)

end WebrtcVerif.Drv.C26
