import WebrtcVerif.Base.Wire
import WebrtcVerif.Model.AnnexB
/-! Driver handler for C34 (Annex-B readers h264reader / h265reader).
  ops:
    nals <codec:4|5> <sei:0|1> <extra> <sched> <n> {<width:3|4> <nalspec>}*
    raw  <codec:4|5> <sei:0|1> <extra> <sched> <streamHex>
  nalspec: `x<hex>` literal bytes | `g<len>:<seed>:<hdrHex>` generated (see `genNal`: header bytes followed by
           LCG bytes biased towards 0/1/2/3, rewritten so that no `00 00 01` appears and the last byte is not 0)
  sched  : how the stream is cut into `Read` results: `-` (4096-byte chunks) | `o:<items>` (items once, rest in
           4096-byte chunks) | `r:<items>` (items repeated).  item: `d<k>` k≥1 data bytes | `z` (0, nil) |
           `e<k>` k bytes together with io.EOF | `f<k>` k bytes together with another error.  k is clamped to 4096.
  extra  : number of further NextNAL calls after the first error
  output : one group per NextNAL call, until the (1+extra)-th error:
           `N <hdrHex≤2B> <F> <refIdc> <type> <len> <fnv>`            (H.264)
           `N <hdrHex≤2B> <F> <type> <layer> <tid> <len> <fnv>`       (H.265)
           `E eof|notstream|other`
-/
namespace WebrtcVerif.Drv.C34
open WebrtcVerif WebrtcVerif.Bytes WebrtcVerif.AnnexB

/-! ### op-line decoding (shared by `run` and `judge`; no model function is used here) -/

/-- generated unit: `hdr` then LCG bytes, sanitised to be free of `00 00 01` and of a trailing zero -/
def genBody : Nat → Nat → UInt8 → UInt8 → Bs → Bs
  | 0, _, _, _, acc => acc.reverse
  | n + 1, s, p2, p1, acc =>
    let s := (s * 1103515245 + 12345) % 2147483648
    let sel := (s / 65536) % 16
    let v : Nat := if sel < 5 then 0 else if sel < 8 then 1 else if sel < 10 then 2 else if sel < 11 then 3
                   else (s / 256) % 256
    let v := if v == 1 && p1 == 0 && p2 == 0 then 3 else v
    let v := if n == 0 && v == 0 then 128 else v
    genBody n s p1 (b v) (b v :: acc)

def genNal (len seed : Nat) (hdr : Bs) : Bs :=
  if len ≤ hdr.length then hdr.take len
  else
    let r := hdr.reverse
    let p1 := r.headD 255
    let p2 := (r.drop 1).headD 255
    hdr ++ genBody (len - hdr.length) seed p2 p1 []

def nalOfSpec (s : String) : Option Bs :=
  match s.toList with
  | 'x' :: rest => Wire.bytesOfHex (String.ofList rest)
  | 'g' :: rest =>
    match (String.ofList rest).splitOn ":" with
    | [l, sd, h] => do
      let l ← l.toNat?; let sd ← sd.toNat?; let h ← Wire.bytesOfHex h
      pure (genNal l sd h)
    | _ => none
  | _ => none

inductive Item | d (k : Nat) | z | e (k : Nat) | f (k : Nat)
  deriving Repr

def itemOfTok (s : String) : Option Item :=
  match s.toList with
  | ['z'] => some .z
  | 'd' :: k => do let k ← (String.ofList k).toNat?; if k = 0 then none else some (.d k)
  | 'e' :: k => do let k ← (String.ofList k).toNat?; some (.e k)
  | 'f' :: k => do let k ← (String.ofList k).toNat?; some (.f k)
  | _ => none

structure Sched where
  repeating : Bool
  items : List Item
  deriving Repr

def schedOfTok (s : String) : Option Sched :=
  if s == "-" then some { repeating := false, items := [] }
  else
    match s.splitOn ":" with
    | [m, its] => do
      let rep ← if m == "o" then some false else if m == "r" then some true else none
      let items ← (its.splitOn ",").mapM itemOfTok
      pure { repeating := rep, items }
    | _ => none

/-- a schedule that only delivers non-empty data chunks (what the property calls "chunk sizes") -/
def Sched.clean (s : Sched) : Bool := s.items.all (fun | .d _ => true | _ => false)

def clamp (k : Nat) : Nat := if k < 4096 then k else 4096

/-- one pass over the items; events accumulate reversed -/
def playItems : List Item → Bs → List Ev → Bs × List Ev
  | [], bs, acc => (bs, acc)
  | .d k :: rest, bs, acc =>
    if bs.isEmpty then playItems rest bs acc
    else playItems rest (bs.drop (clamp k)) (.data (bs.take (clamp k)) :: acc)
  | .z :: rest, bs, acc => playItems rest bs (.data [] :: acc)
  | .e k :: rest, bs, acc => playItems rest (bs.drop (clamp k)) (.fail (bs.take (clamp k)) true :: acc)
  | .f k :: rest, bs, acc => playItems rest (bs.drop (clamp k)) (.fail (bs.take (clamp k)) false :: acc)

def cycle (items : List Item) : Nat → Bs → List Ev → Bs × List Ev
  | 0, bs, acc => (bs, acc)
  | n + 1, bs, acc =>
    if bs.isEmpty then (bs, acc)
    else
      let (bs', acc') := playItems items bs acc
      cycle items n bs' acc'

def chunkRest : Nat → Bs → List Ev → List Ev
  | 0, _, acc => acc
  | n + 1, bs, acc => if bs.isEmpty then acc else chunkRest n (bs.drop 4096) (.data (bs.take 4096) :: acc)

def mkEvents (s : Sched) (bs : Bs) : List Ev :=
  let (bs1, acc1) := playItems s.items bs []
  let (bs2, acc2) := if s.repeating then cycle s.items (bs.length + 1) bs1 acc1 else (bs1, acc1)
  (chunkRest (bs2.length + 1) bs2 acc2).reverse

def startCode (w : Nat) : Bs := if w == 4 then [0, 0, 0, 1] else [0, 0, 1]

def parseUnits : Nat → List String → Option (List (Nat × Bs))
  | 0, [] => some []
  | n + 1, w :: spec :: rest => do
    let w ← w.toNat?
    if w ≠ 3 ∧ w ≠ 4 then none
    let nal ← nalOfSpec spec
    let tl ← parseUnits n rest
    pure ((w, nal) :: tl)
  | _, _ => none

structure Op where
  codec : Codec
  sei : Bool
  extra : Nat
  sched : Sched
  units : Option (List (Nat × Bs))   -- `nals` verb
  stream : Bs

def parseOp (args : List String) : Option Op :=
  match args with
  | verb :: codec :: sei :: extra :: sched :: rest => do
    let codec ← if codec == "4" then some Codec.h264 else if codec == "5" then some Codec.h265 else none
    let sei ← Wire.tokBool sei
    let extra ← extra.toNat?
    let sched ← schedOfTok sched
    if verb == "nals" then
      match rest with
      | n :: us => do
        let n ← n.toNat?
        let units ← parseUnits n us
        let stream := (units.map (fun (w, nal) => startCode w ++ nal)).flatten
        pure { codec, sei, extra, sched, units := some units, stream }
      | _ => none
    else if verb == "raw" then
      match rest with
      | [hex] => do
        let stream ← Wire.bytesOfHex hex
        pure { codec, sei, extra, sched, units := none, stream }
      | _ => none
    else none
  | _ => none

/-! ### run: the model -/

def showErr : Err → String
  | .eof => "eof" | .notStream => "notstream" | .other => "other"

def showNal (c : Codec) (n : NAL) : List String :=
  let common := ["N", Wire.hexOfBytes (n.data.take 2), Wire.boolTok n.forbidden]
  let fields := match c with
    | .h264 => [toString n.refIdc.toNat, toString n.unitType.toNat]
    | .h265 => [toString n.unitType.toNat, toString n.layerId.toNat, toString n.tid.toNat]
  common ++ fields ++ [toString n.data.length, toString (fnv64 n.data).toNat]

/-- call `nextNAL` until the (1+extra)-th error -/
def calls : Nat → Nat → Reader → List String → List String
  | 0, _, _, acc => acc.reverse
  | fuel + 1, errsLeft, r, acc =>
    match nextNAL r with
    | (.nal n, r') => calls fuel errsLeft r' ((showNal r.codec n).reverse ++ acc)
    | (.err e, r') =>
      let acc := showErr e :: "E" :: acc
      if errsLeft = 0 then acc.reverse else calls fuel (errsLeft - 1) r' acc
    | (.panic, _) => ("panic" :: acc).reverse

def run (args : List String) : String :=
  match parseOp args with
  | none => "bad-op"
  | some op =>
    let evs := mkEvents op.sched op.stream
    -- fuel ≥ Reader.size + errors allowed (every returned unit decreases Reader.size: nextNAL_progress)
    String.intercalate " " (calls (evs.length + op.stream.length + op.extra + 2) op.extra (init op.codec op.sei evs) [])

/-! ### judge: the property evaluated on an observed output (written from the property text) -/

/-- "no emulated start codes, no trailing zero byte" (and non-empty) -/
def hasStartCode : Bs → Bool
  | 0 :: 0 :: 1 :: _ => true
  | _ :: rest => hasStartCode rest
  | [] => false

def wellFormed (n : Bs) : Bool := !n.isEmpty && n.getLast? != some 0 && !hasStartCode n

/-- SEI by the standards' header layout: H.264 type = low 5 bits = 6; H.265 type = bits 1..6 ∈ {39, 40} -/
def isSEIByte (c : Codec) (f : Nat) : Bool :=
  match c with
  | .h264 => f % 32 == 6
  | .h265 => f / 2 % 64 == 39 || f / 2 % 64 == 40

/-- header fields by arithmetic on the header bytes -/
def expectFields (c : Codec) (hdr : List Nat) : Option (List String) :=
  match c, hdr with
  | .h264, f :: _ => some [if f ≥ 128 then "1" else "0", toString (f / 32 % 4), toString (f % 32)]
  | .h265, [_] => some ["0", "0", "0", "0"]     -- a one-byte unit has no complete header: nothing is parsed
  | .h265, f :: s :: _ =>
    some [if f ≥ 128 then "1" else "0", toString (f / 2 % 64), toString (f % 2 * 32 + s / 8), toString (s % 8)]
  | _, _ => none

structure Res where
  isNal : Bool
  hdr : List Nat := []
  fields : List String := []
  len : String := ""
  hash : String := ""
  err : String := ""

def parseOut (c : Codec) : Nat → List String → Option (List Res)
  | _, [] => some []
  | 0, _ => none
  | fuel + 1, "E" :: e :: rest => do
    let tl ← parseOut c fuel rest
    pure ({ isNal := false, err := e } :: tl)
  | fuel + 1, "N" :: hdr :: rest => do
    let hb ← Wire.bytesOfHex hdr
    let k := match c with | .h264 => 3 | .h265 => 4
    if rest.length < k + 2 then none
    let fields := rest.take k
    match rest.drop k with
    | len :: hash :: rest' =>
      let tl ← parseOut c fuel rest'
      pure ({ isNal := true, hdr := hb.map (·.toNat), fields, len, hash } :: tl)
    | _ => none
  | _, _ => none

def judge (args out : List String) : String :=
  match parseOp args with
  | none => "bad-judge"
  | some op =>
    if out.head? == some "panic" || out.getLast? == some "panic" then "violated panic"
    else if out == ["timeout"] then "violated timeout"
    else
    match parseOut op.codec (out.length + 1) out with
    | none => "bad-judge"
    | some res =>
      let nals := res.filter (·.isNal)
      -- clause "with SEI inclusion off, SEI units are skipped wherever they occur" (any stream)
      let seiIdx := if op.sei then none else res.findIdx? (fun r => r.isNal && isSEIByte op.codec (r.hdr.headD 0))
      -- clause "the parsed header fields match the unit's header bytes" (any stream)
      let hdrBad := nals.any (fun r => expectFields op.codec r.hdr != some r.fields)
      match seiIdx with
      | some i =>
        if (res.drop (i + 1)).all (fun r => !r.isNal) then "violated trailing-sei-returned"
        else "violated sei-returned"
      | none =>
      if hdrBad then "violated header-mismatch"
      else
        match op.units with
        | none => "ok"
        | some units =>
          if !(units.all (fun u => wellFormed u.2) && op.sched.clean) then "ok"
          else
            -- clause "the reader returns exactly those NAL units in order, whatever chunk sizes"
            let want := (units.map (·.2)).filter (fun n => op.sei || !isSEIByte op.codec (n.headD 0).toNat)
            let gotN := res.takeWhile (·.isNal)
            let tail := res.dropWhile (·.isNal)
            if gotN.length < want.length then "violated nal-missing"
            else if gotN.length > want.length then "violated nal-extra"
            else if !(gotN.zip want).all (fun (g, w) =>
                g.len == toString w.length && g.hash == toString (fnv64 w).toNat
                  && g.hdr == (w.take 2).map (·.toNat)) then "violated nal-data-mismatch"
            else if tail.isEmpty || !tail.all (fun r => !r.isNal && r.err == "eof") then "violated end-not-eof"
            else "ok"

end WebrtcVerif.Drv.C34
