import WebrtcVerif.Drv.PcWire
/-! Driver handler for C10 (each generated media section is internally consistent).
    Line protocol and model run: Drv/PcWire.lean.  The judge evaluates the property's clauses on every observed
    m-section; it reads the op line only to name the cause of a violation. -/
namespace WebrtcVerif.Drv.C10
open WebrtcVerif WebrtcVerif.Codec WebrtcVerif.SectionSdp WebrtcVerif.PcSections WebrtcVerif.Drv.PcWire

def run (args : List String) : String := PcWire.run args

/-! ### the property on one observed section -/

def hasDup : List Nat → Option Nat
  | [] => none
  | x :: xs => if xs.contains x then some x else hasDup xs

def hasDupStr : List Str → Option Str
  | [] => none
  | x :: xs => if xs.contains x then some x else hasDupStr xs

/-- value of the `apt` parameter of an fmtp line: parameters separated by ';', blanks trimmed, key compared
    without case; an optional sign is accepted -/
def aptOf (fmtp : Str) : Option Nat :=
  let ps := (splitOn ';' fmtp).map (fun p => splitKV (trimSpace p))
  match ps.reverse.find? (fun kv => lower kv.1 == "apt".toList) with
  | some (_, some v) =>
    let ds := match v with | '+' :: r => r | r => r
    if ds.isEmpty || !ds.all isDigit then none else some (digitsVal ds)
  | _ => none

inductive Bad
  | dupFormat (pt : Nat)
  | attrUnlisted (what : String) (pt : Nat)
  | rtxApt (pt : Nat) (apt : Option Nat)
  | dupExtId (id : Nat)
  | extIdRange (id : Nat)
  | dupExtUri (uri : Str)

/-- the clauses of C10 on one section, in the order of the property text -/
def checkSection (s : ObsSection) : Option Bad :=
  match hasDup s.formats with
  | some pt => some (.dupFormat pt)
  | none =>
  match s.rtpmaps.find? (fun r => !s.formats.contains r.1) with
  | some r => some (.attrUnlisted "rtpmap" r.1)
  | none =>
  match s.fmtps.find? (fun r => !s.formats.contains r.1) with
  | some r => some (.attrUnlisted "fmtp" r.1)
  | none =>
  match s.fbs.find? (fun r => !s.formats.contains r.1) with
  | some r => some (.attrUnlisted "rtcp-fb" r.1)
  | none =>
  -- every RTX payload's apt names a listed payload type
  let rtx := s.rtpmaps.filter (fun r => equalFold r.2.1 "rtx".toList)
  let badRtx := rtx.findSome? (fun r =>
    let apt := (s.fmtps.find? (fun f => f.1 == r.1)).bind (fun f => aptOf f.2)
    match apt with
    | some n => if s.formats.contains n then none else some (Bad.rtxApt r.1 (some n))
    | none => some (Bad.rtxApt r.1 none))
  match badRtx with
  | some b => some b
  | none =>
  match hasDup (s.extmaps.map (·.1)) with
  | some id => some (.dupExtId id)
  | none =>
  match s.extmaps.find? (fun e => e.1 < 1 || e.1 > 14) with
  | some e => some (.extIdRange e.1)
  | none =>
  match hasDupStr (s.extmaps.map (·.2)) with
  | some u => some (.dupExtUri u)
  | none => none

/-! ### naming the cause (reads the op line; no model function involved) -/

def remoteSections (op : Op) : List RSection :=
  op.steps.flatMap (fun s => match s with | .sro d => d.secs | _ => [])

def prefCodecs (op : Op) : List CodecP :=
  op.steps.flatMap (fun s => match s with | .pref _ cs => cs | _ => [])

def allCodecs (op : Op) : List CodecP :=
  op.audio ++ op.video ++ prefCodecs op ++ (remoteSections op).flatMap (fun s => s.codecs.getD [])

def prefLists (op : Op) : List (List CodecP) :=
  op.steps.filterMap (fun s => match s with | .pref _ cs => some cs | _ => none)

def isRtxName (mime : Str) : Bool := equalFold (encodingName mime) "rtx".toList

def cause (op : Op) : Bad → String
  | .dupFormat pt =>
    -- a preference list that names the payload type twice, or names it and leaves another codec's payload
    -- type open (0 = "take the engine's"), or leaves two open
    if (prefLists op).any (fun l =>
        let explicit := (l.filter (fun c => c.pt == pt)).length
        let open_ := (l.filter (fun c => c.pt == 0)).length
        explicit ≥ 2 || (explicit ≥ 1 && open_ ≥ 1) || open_ ≥ 2) then "duplicate-payload-type:user-preference"
    else if (remoteSections op).any (fun s =>
        (s.codecs.getD []).any (fun c => c.pt == 0) && (s.codecs.getD []).length ≥ 2) then
      "duplicate-payload-type:payload-type-zero"
    else "duplicate-payload-type"
  | .attrUnlisted what _ => "attribute-for-unlisted-payload-type:" ++ what
  | .rtxApt rtxPt apt =>
    -- the RTX codec is one that filterUnattachedRTX does not recognise (mime type other than video/rtx)
    if (allCodecs op).any (fun c => c.pt == rtxPt && isRtxName c.mime && !equalFold c.mime mimeRTX) ||
       (prefCodecs op).any (fun c => c.pt == 0 && isRtxName c.mime && !equalFold c.mime mimeRTX) then
      "rtx-apt-unlisted:audio-rtx"
    else
    match apt with
    | none => "rtx-apt-unlisted:no-apt"
    | some n =>
      if (allCodecs op).any (fun c => c.pt == n && isRtxName c.mime) then "rtx-apt-unlisted:rtx-chain"
      else "rtx-apt-unlisted"
  | .dupExtId _ => "duplicate-extmap-id"
  | .extIdRange id =>
    if (remoteSections op).any (fun s => s.exts.any (fun e => e.2 == id)) then "extmap-id-out-of-range:remote-id"
    else "extmap-id-out-of-range"
  | .dupExtUri u =>
    let ids := ((remoteSections op).flatMap (fun s => s.exts.filter (fun e => e.1 == u))).map (·.2)
    if ids.any (fun i => ids.any (fun j => i != j)) then "duplicate-extmap-uri:remote-remapped-id"
    else "duplicate-extmap-uri"

def detail : Bad → String
  | .dupFormat pt => s!"pt={pt}"
  | .attrUnlisted _ pt => s!"pt={pt}"
  | .rtxApt pt apt => s!"rtx={pt} apt={apt.getD 999}"
  | .dupExtId id => s!"id={id}"
  | .extIdRange id => s!"id={id}"
  | .dupExtUri u => s!"uri={String.ofList u}"

def sectionsOf (items : List ObsItem) : List ObsSection :=
  items.flatMap (fun i => match i with | .offer s => s | .answer s => s | .other _ => [])

def judge (args out : List String) : String :=
  match parseAll pOp args, parseObs out with
  | some op, some items =>
    if items.any (fun i => match i with
        | .other t => !(["a0", "a1", "p0", "p1", "r-ok", "r-err", "r-nomid", "r-state", "l-ok", "l-skip", "l-err", "end", "O-err", "A-err"].contains t)
        | _ => false) then "bad-judge"
    else
      match (sectionsOf items).findSome? checkSection with
      | some b => "violated " ++ cause op b ++ " " ++ detail b
      | none => "ok"
  | _, _ => "bad-judge"

end WebrtcVerif.Drv.C10
