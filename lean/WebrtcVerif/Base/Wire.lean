/-
  Line-protocol helpers shared by every driver handler (core Lean only).
  Bytes travel as lower-case hex; "-" stands for the empty byte string.
-/
namespace WebrtcVerif.Wire

def hexDigit (n : Nat) : Char :=
  if n < 10 then Char.ofNat (48 + n) else Char.ofNat (87 + n)

def hexOfByte (b : UInt8) : String :=
  String.ofList [hexDigit (b.toNat / 16), hexDigit (b.toNat % 16)]

def hexOfBytes (bs : List UInt8) : String :=
  if bs.isEmpty then "-" else String.join (bs.map hexOfByte)

def hexVal (c : Char) : Option Nat :=
  if '0' ≤ c ∧ c ≤ '9' then some (c.toNat - 48)
  else if 'a' ≤ c ∧ c ≤ 'f' then some (c.toNat - 87)
  else if 'A' ≤ c ∧ c ≤ 'F' then some (c.toNat - 55)
  else none

def bytesOfHexChars : List Char → Option (List UInt8)
  | [] => some []
  | [_] => none
  | a :: b :: rest => do
      let x ← hexVal a
      let y ← hexVal b
      let tl ← bytesOfHexChars rest
      pure (UInt8.ofNat (x * 16 + y) :: tl)

def bytesOfHex (s : String) : Option (List UInt8) :=
  if s == "-" then some [] else bytesOfHexChars s.toList

/-- text is carried as hex of its UTF-8 bytes -/
def textOfHex (s : String) : Option String := do
  let bs ← bytesOfHex s
  String.fromUTF8? (ByteArray.mk bs.toArray)

def hexOfText (s : String) : String := hexOfBytes s.toUTF8.toList

def tokens (line : String) : List String :=
  (line.splitOn " ").filter (· ≠ "")

def natList (xs : List String) : Option (List Nat) := xs.mapM String.toNat?

def boolTok (b : Bool) : String := if b then "1" else "0"

def tokBool (s : String) : Option Bool :=
  if s == "1" then some true else if s == "0" then some false else none

end WebrtcVerif.Wire
