/-
  Byte-level encoders/decoders shared by the container models (core Lean only).
  Integers are `Nat`; an n-byte encoder keeps the low 8·n bits (Go's uintN conversions).
-/
namespace WebrtcVerif.Bytes

abbrev Byte := UInt8
abbrev Bs := List UInt8

def b (n : Nat) : Byte := UInt8.ofNat n

@[simp] theorem b_toNat (n : Nat) : (b n).toNat = n % 256 := by simp [b]

def be16 (n : Nat) : Bs := [b (n / 256), b n]
def be32 (n : Nat) : Bs := [b (n / 16777216), b (n / 65536), b (n / 256), b n]
def le16 (n : Nat) : Bs := [b n, b (n / 256)]
def le32 (n : Nat) : Bs := [b n, b (n / 256), b (n / 65536), b (n / 16777216)]
def le64 (n : Nat) : Bs := le32 n ++ le32 (n / 4294967296)

def rd16be (x y : Byte) : Nat := x.toNat * 256 + y.toNat
def rd32be (x y z w : Byte) : Nat := x.toNat * 16777216 + y.toNat * 65536 + z.toNat * 256 + w.toNat
def rd16le (x y : Byte) : Nat := y.toNat * 256 + x.toNat
def rd32le (x y z w : Byte) : Nat := w.toNat * 16777216 + z.toNat * 65536 + y.toNat * 256 + x.toNat

theorem rd16be_lt (x y : Byte) : rd16be x y < 65536 := by
  have := x.toNat_lt; have := y.toNat_lt; unfold rd16be; omega
theorem rd32be_lt (x y z w : Byte) : rd32be x y z w < 4294967296 := by
  have := x.toNat_lt; have := y.toNat_lt; have := z.toNat_lt; have := w.toNat_lt; unfold rd32be; omega
theorem rd32le_lt (x y z w : Byte) : rd32le x y z w < 4294967296 := by
  have := x.toNat_lt; have := y.toNat_lt; have := z.toNat_lt; have := w.toNat_lt; unfold rd32le; omega

theorem rd16be_be16 (n : Nat) : rd16be (b (n / 256)) (b n) = n % 65536 := by
  simp [rd16be]; omega
theorem rd32be_be32 (n : Nat) :
    rd32be (b (n / 16777216)) (b (n / 65536)) (b (n / 256)) (b n) = n % 4294967296 := by
  simp [rd32be]; omega
theorem rd16le_le16 (n : Nat) : rd16le (b n) (b (n / 256)) = n % 65536 := by
  simp [rd16le]; omega
theorem rd32le_le32 (n : Nat) :
    rd32le (b n) (b (n / 256)) (b (n / 65536)) (b (n / 16777216)) = n % 4294967296 := by
  simp [rd32le]; omega

@[simp] theorem be16_length (n : Nat) : (be16 n).length = 2 := rfl
@[simp] theorem be32_length (n : Nat) : (be32 n).length = 4 := rfl
@[simp] theorem le16_length (n : Nat) : (le16 n).length = 2 := rfl
@[simp] theorem le32_length (n : Nat) : (le32 n).length = 4 := rfl
@[simp] theorem le64_length (n : Nat) : (le64 n).length = 8 := rfl

/-- `io.ReadFull(r, make([]byte, n))` on the remaining bytes of a stream. -/
inductive ReadFull where
  | ok (got rest : Bs)
  | eof            -- no byte available (io.EOF)
  | short          -- some but fewer than n (io.ErrUnexpectedEOF)
  deriving Repr, DecidableEq

def readFull (n : Nat) (s : Bs) : ReadFull :=
  if n ≤ s.length then .ok (s.take n) (s.drop n)
  else if s.length = 0 then .eof else .short

theorem readFull_append (p rest : Bs) : readFull p.length (p ++ rest) = .ok p rest := by
  simp [readFull]

/-- FNV-1a 64 — used only to abbreviate long byte strings on the wire (driver ⇄ harness). -/
def fnv64 (bs : Bs) : UInt64 :=
  bs.foldl (fun h x => (h ^^^ x.toUInt64) * 1099511628211) 14695981039346656037

end WebrtcVerif.Bytes
