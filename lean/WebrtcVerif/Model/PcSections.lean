import WebrtcVerif.Model.Codec
import WebrtcVerif.Model.AnswerCodecs
import WebrtcVerif.Model.SectionSdp
/-
  A small model of the PeerConnection, just large enough to say which media sections (codec and header
  extension content) CreateOffer / CreateAnswer write (properties C10, C16):

    mediaengine.go     updateFromRemoteDescription (codecs: Model.Codec; header extensions: Model.SectionSdp)
    peerconnection.go  AddTransceiverFromKind, SetRemoteDescription(offer) (transceiver matching: findByMid,
                       satisfyTypeAndDirection, new receive-only transceiver with
                       setCodecPreferencesFromRemoteDescription, direction adjustment, mid assignment),
                       CreateOffer (mid numbering, generateUnmatchedSDP), CreateAnswer (generateMatchedSDP)
    sdp.go             populateSDP (port 0 for sections outside the remote BUNDLE group), addTransceiverSDP

  The model follows the tree with the JSEP repairs made for C02-C09 (rejected sections keep their mid, a section
  without direction attribute counts as sendrecv, an unsupported media type is rejected in place, new mids are
  numbered above every mid in use, SetRemoteDescription validates mids first, CreateAnswer narrows directions).

  Scope: unified plan, no data channels, no simulcast; the only local description ever applied is the answer
  just created (SetLocalDescription(answer): have-remote-offer → stable, the pending remote offer becomes the
  current one, senders are bound).  Everything else about a description (ICE, DTLS, directions, msid, …) is
  other properties' subject.
-/
namespace WebrtcVerif.PcSections
open WebrtcVerif.Codec WebrtcVerif.AnswerCodecs WebrtcVerif.SectionSdp

inductive TDir | sendrecv | sendonly | recvonly | inactive
  deriving DecidableEq, Repr, Inhabited

/-- `RTPTransceiver` as far as section generation looks at it -/
structure Tr where
  kind : Kind
  mid : Str := []                 -- "" = not set
  hasSender : Bool := false
  hasReceiver : Bool := false
  dir : TDir := .recvonly
  prefs : List CodecP := []       -- t.codecs
  track : Option CodecP := none   -- capability of the sender's track (payload type 0)
  negotiated : Bool := false      -- RTPSender.negotiated (a section was generated for the sender)
  sent : Bool := false            -- RTPSender.Send was called
  deriving Repr, Inhabited

/-- one remote m-section as the code reads it -/
structure RSection where
  media : Str
  mid : Str
  dir : Option TDir                       -- getPeerDirection (none = no direction attribute)
  codecs : Option (List CodecP)           -- codecsFromMediaDescription (none = error)
  exts : List (Str × Nat)                 -- extmap attributes in order: URI, id
  deriving Repr, Inhabited

structure RDesc where
  bundle : List Str                       -- mids of the a=group:BUNDLE line ([] = no such line)
  secs : List RSection
  deriving Repr, Inhabited

structure Pc where
  eng : Engine := {}
  xe : ExtEngine := {}
  trs : List Tr := []
  greaterMid : Int := -1
  remote : Option RDesc := none           -- pendingRemoteDescription (an offer)
  current : Option RDesc := none          -- currentRemoteDescription
  localMids : List Str := []              -- mids of the m-sections of currentLocalDescription (the last applied answer)
  haveAnswer : Bool := false              -- CreateAnswer succeeded since the pending offer was set
  deriving Repr, Inhabited

def RSection.toSection (s : RSection) : Section := { media := s.media, codecs := s.codecs }

/-! ### MediaEngine.updateFromRemoteDescription with header extensions -/

/-- the part of the loop body after the first `switch`: codecs, then (only after a successful push) extensions -/
def codecPart (e : Engine) (x : ExtEngine) (s : RSection) (typ : Kind) : (Engine × ExtEngine) × Option Err :=
  match s.codecs with
  | none => ((e, x), some .sdp)
  | some remote =>
    match matchSection (e.locals typ) remote with
    | .error er => ((e, x), some er)
    | .ok (ex, pa) =>
      if ex.isEmpty && pa.isEmpty then ((e, x), none)
      else
        let (neg, err) := pushCodecs (e.negCodecs typ) (chosen ex pa)
        if err then ((e.setNeg typ neg, x), some .dup)
        else ((e.setNeg typ neg, updateHeaderExtensions x typ s.exts), none)

/-- body of the `for _, media := range desc.MediaDescriptions` loop -/
def updateSectionX (e : Engine) (x : ExtEngine) (s : RSection) : (Engine × ExtEngine) × Option Err :=
  let typ := kindOf s.media
  let first := typ != .other && !e.negFlag typ
  if first then codecPart (e.setFlag typ) x s typ
  else
    -- "update header extensions from remote sdp if codec is negotiated"
    let x := updateHeaderExtensions x typ s.exts
    if !e.multi || typ == .other then ((e, x), none) else codecPart e x s typ

def updateX (e : Engine) (x : ExtEngine) : List RSection → (Engine × ExtEngine) × Option Err
  | [] => ((e, x), none)
  | s :: rest =>
    match updateSectionX e x s with
    | (ex, some er) => (ex, some er)
    | ((e', x'), none) => updateX e' x' rest

/-! ### transceivers -/

def isNegotiated (e : Engine) (k : Kind) : Bool := e.negFlag k

def Tr.directions (t : Tr) : List XDir :=
  (if t.hasSender then [XDir.send] else []) ++ (if t.hasReceiver then [XDir.recv] else [])

/-- `TrackLocalStaticRTP.Kind`: decided by the (case-sensitive) prefix of the track codec's mime type -/
def mimeKind (mime : Str) : Kind :=
  if "audio/".toList.isPrefixOf mime then .audio
  else if "video/".toList.isPrefixOf mime then .video
  else .other

/-- `AddTransceiverFromKind(kind, {Direction})` for sendrecv / sendonly / recvonly; `none` = error.
    With a sender the transceiver's kind is the kind of the track made from the first codec of the kind. -/
def addTransceiver (pc : Pc) (kind : Kind) (dir : TDir) : Option Pc :=
  match dir with
  | .inactive => none
  | .recvonly => some { pc with trs := pc.trs ++ [{ kind, hasReceiver := true, dir := .recvonly }] }
  | d =>
    match pc.eng.codecsByKind kind with
    | [] => none    -- ErrNoCodecsAvailable
    | c :: _ =>
      some { pc with trs := pc.trs ++ [{ kind := mimeKind c.mime, hasSender := true, hasReceiver := d == .sendrecv,
                                         dir := d, track := some { c with pt := 0 } }] }

/-- `t.SetCodecPreferences(codecs)` on transceiver `idx`; `(pc, error?)` -/
def setPrefs (pc : Pc) (idx : Nat) (codecs : List CodecP) : Pc × Bool :=
  match pc.trs[idx]? with
  | none => (pc, true)
  | some t =>
    let (p, err) := setCodecPreferences (pc.eng.codecsByKind t.kind) t.prefs codecs
    ({ pc with trs := setAt pc.trs idx { t with prefs := p } }, err)

/-- `strconv.Atoi` on a mid (values beyond what matters are clipped) -/
def atoiMid (s : Str) : Option Int :=
  match s with
  | '-' :: ds => if ds.isEmpty || !ds.all isDigit then none else some (-(digitsVal ds : Int))
  | '+' :: ds => if ds.isEmpty || !ds.all isDigit then none else some (digitsVal ds)
  | ds => if ds.isEmpty || !ds.all isDigit then none else some (digitsVal ds)

def showInt (i : Int) : Str := (toString i).toList

/-- the mid numbering loop of CreateOffer (no current remote description) -/
def assignMids : List Tr → Int → List Tr × Int
  | [], g => ([], g)
  | t :: ts, g =>
    if t.mid ≠ [] then
      let g := match atoiMid t.mid with
        | some n => if n > g then n else g
        | none => g
      let (ts', g') := assignMids ts g
      (t :: ts', g')
    else
      let g := g + 1
      let (ts', g') := assignMids ts g
      ({ t with mid := showInt g } :: ts', g')

/-- what addTransceiverSDP does for one transceiver: `none` = ErrSenderWithNoCodecs -/
def sectionFor (e : Engine) (x : ExtEngine) (t : Tr) (matchExtensions : Option (List Str)) : Option SdpSection :=
  let codecs := getCodecs (e.codecsByKind t.kind) t.prefs
  if codecs.isEmpty && t.hasSender then none
  else some (mediaSection codecs x (isNegotiated e t.kind) t.kind t.directions matchExtensions)

/-- a generated m-section: mid, kind, port 0?, content -/
structure OutSection where
  mid : Str
  kind : Kind
  portZero : Bool
  dir : TDir                -- the direction attribute: the transceiver's direction
  sec : SdpSection
  deriving Repr, Inhabited

def mapM' {α β} (f : α → Option β) : List α → Option (List β)
  | [] => some []
  | a :: as => match f a with
    | none => none
    | some b => match mapM' f as with
      | none => none
      | some bs => some (b :: bs)

/-- `findByMid` over a working list of indices into `pc.trs` -/
def findByMid (trs : List Tr) (mid : Str) : List Nat → Option Nat × List Nat
  | [] => (none, [])
  | i :: is =>
    if (trs[i]?.map (·.mid)) == some mid then (some i, is)
    else let (r, rest) := findByMid trs mid is; (r, i :: rest)

def preferredDirections : TDir → List TDir
  | .sendrecv => [.recvonly, .sendrecv, .sendonly]
  | .sendonly => [.recvonly]
  | .recvonly => [.sendonly, .sendrecv]
  | .inactive => []

def pluck (p : Nat → Bool) : List Nat → Option Nat × List Nat
  | [] => (none, [])
  | i :: is => if p i then (some i, is) else let (r, rest) := pluck p is; (r, i :: rest)

/-- `satisfyTypeAndDirection` -/
def satisfyTypeAndDirection (trs : List Tr) (kind : Kind) (dir : TDir) (work : List Nat) : Option Nat × List Nat :=
  (preferredDirections dir).foldl (fun (acc : Option Nat × List Nat) d =>
    match acc.1 with
    | some _ => acc
    | none => pluck (fun i => match trs[i]? with
        | some t => t.mid == [] && t.kind == kind && t.dir == d
        | none => false) acc.2) (none, work)

/-- the direction adjustment `switch` of SetRemoteDescription for an existing transceiver -/
def adjustDirection (remote : TDir) (local_ : TDir) : TDir :=
  match remote, local_ with
  | .recvonly, .sendrecv => .sendonly
  | .recvonly, .recvonly => .inactive
  | .sendrecv, .sendonly => .sendrecv
  | .sendrecv, .inactive => .recvonly
  | .sendonly, .inactive => .recvonly
  | .sendonly, .sendrecv => .recvonly
  | .sendonly, .sendonly => .inactive
  | _, l => l

/-- `getPeerDirection`, with sendrecv as the default when no direction attribute is present -/
def RSection.direction (s : RSection) : TDir := s.dir.getD .sendrecv

/-- `answerDirection`: narrow the local direction to a legal answer to the offered direction -/
def answerDirection (offered local_ : TDir) : TDir :=
  let send := (local_ == .sendrecv || local_ == .sendonly) && (offered == .sendrecv || offered == .recvonly)
  let recv := (local_ == .sendrecv || local_ == .recvonly) && (offered == .sendrecv || offered == .sendonly)
  if send && recv then .sendrecv else if send then .sendonly else if recv then .recvonly else .inactive

/-- the per-section body of the transceiver loop of SetRemoteDescription(offer); `none` = error (no mid) -/
def applyRemoteSection (pc : Pc) (work : List Nat) (s : RSection) : Option (Pc × List Nat) :=
  if s.mid == [] then none
  else if s.media == "application".toList then some (pc, work)
  else
    let kind := kindOf s.media
    let dir := s.direction
    if kind == .other then some (pc, work)
    else
      let (found, work) := findByMid pc.trs s.mid work
      let (found, work, stopped) : Option Nat × List Nat × Bool := match found with
        | some i => (some i, work, dir == TDir.inactive)
        | none => let (r, w) := satisfyTypeAndDirection pc.trs kind dir work; (r, w, false)
      match found with
      | none =>
        let localDir := match dir with
          | .recvonly => TDir.sendonly
          | .inactive => TDir.inactive
          | _ => TDir.recvonly
        let t : Tr := { kind, hasReceiver := true, dir := localDir, mid := s.mid,
                        prefs := setCodecPreferencesFromRemote (pc.eng.codecsByKind kind) [] s.codecs }
        some ({ pc with trs := pc.trs ++ [t] }, work)
      | some i =>
        match pc.trs[i]? with
        | none => some (pc, work)
        | some t =>
          let t := if stopped then { t with dir := .inactive } else t
          let t := { t with dir := adjustDirection dir t.dir }
          let t := if t.mid == [] then { t with mid := s.mid } else t
          some ({ pc with trs := setAt pc.trs i t }, work)

def applyRemoteSections (pc : Pc) (work : List Nat) : List RSection → Option Pc
  | [] => some pc
  | s :: rest =>
    match applyRemoteSection pc work s with
    | none => none
    | some (pc', work') => applyRemoteSections pc' work' rest

inductive SrdResult | ok | engineError (e : Err) | noMid | wrongState
  deriving Repr

/-- `SetRemoteDescription(offer)` as far as codecs, header extensions and transceivers are concerned.  After an
    error the scenario ends (what the PeerConnection looks like then is C03's subject). -/
def setRemoteOffer (pc : Pc) (d : RDesc) : Pc × SrdResult :=
  if pc.remote.isSome then (pc, .wrongState)     -- have-remote-offer: SetRemote(offer) is refused, nothing changes
  else if d.secs.any (fun s => s.mid == []) then (pc, .noMid)   -- validated before anything is applied
  else
  match updateX pc.eng pc.xe d.secs with
  | ((e, x), some er) => ({ pc with eng := e, xe := x, remote := some d }, .engineError er)
  | ((e, x), none) =>
    let pc := { pc with eng := e, xe := x, remote := some d, haveAnswer := false }
    match applyRemoteSections pc (List.range pc.trs.length) d.secs with
    | none => (pc, .noMid)
    | some pc' => (pc', .ok)

/-- mark the senders of the listed transceivers (indices, counted from `i`) as negotiated -/
def flagFrom : Nat → List Tr → List Nat → List Tr
  | _, [], _ => []
  | i, t :: ts, idxs => (if idxs.contains i then { t with negotiated := true } else t) :: flagFrom (i + 1) ts idxs

def flagNegotiated (trs : List Tr) (idxs : List Nat) : List Tr := flagFrom 0 trs idxs

/-- the media loop of generateMatchedSDP: the transceiver (index) found for every remote section that is
    answered; `(pairs, rest of the working list, error?)`.  On an error (no mid / no transceiver with the mid)
    the pairs found so far are still returned: their senders were already flagged. -/
def matchSections (trs : List Tr) : List Nat → List RSection → List (RSection × Nat) × List Nat × Bool
  | work, [] => ([], work, false)
  | work, s :: rest =>
    if s.mid == [] then ([], work, true)
    else if s.media == "application".toList then matchSections trs work rest
    else if kindOf s.media == .other then matchSections trs work rest   -- rejected in place (not an audio/video section)
    else
      match findByMid trs s.mid work with
      | (none, _) => ([], work, true)
      | (some i, work') =>
        let (ps, w, err) := matchSections trs work' rest
        ((s, i) :: ps, w, err)

/-- sections of generateMatchedSDP + populateSDP.  `bundle = none`: every mid counts as bundled (offers). -/
def matchedSections (pc : Pc) (bundle : Option (List Str)) (pairs : List (RSection × Nat)) (unmatched : List Nat) :
    Option (List OutSection) :=
  let fromRemote := mapM' (fun (p : RSection × Nat) =>
    match pc.trs[p.2]? with
    | none => none
    | some t =>
      (sectionFor pc.eng pc.xe t (some ((extensionMap p.1.exts).map (·.1)))).map (fun sec =>
        ({ mid := p.1.mid, kind := t.kind, dir := t.dir,
           portZero := sec.rejected || (match bundle with | some b => !b.contains p.1.mid | none => false),
           sec } : OutSection))) pairs
  let own := mapM' (fun (i : Nat) =>
    match pc.trs[i]? with
    | none => none
    | some t => (sectionFor pc.eng pc.xe t none).map (fun sec =>
        ({ mid := t.mid, kind := t.kind, dir := t.dir, portZero := sec.rejected, sec } : OutSection))) unmatched
  match fromRemote, own with
  | some a, some b => some (a ++ b)
  | _, _ => none

/-- the transceivers generateMatchedSDP pairs with the sections of the pending remote offer -/
def answerPlan (pc : Pc) : List (RSection × Nat) × List Nat × Bool :=
  match pc.remote with
  | none => ([], [], true)
  | some d => matchSections pc.trs (List.range pc.trs.length) d.secs

/-- the sections of an answer; `none` = CreateAnswer fails -/
def answerSections (pc : Pc) : Option (List OutSection) :=
  match pc.remote with
  | none => none
  | some d =>
    let (pairs, _, err) := answerPlan pc
    if err then none else matchedSections pc (some d.bundle) pairs []

/-- the answering branch of generateMatchedSDP on the paired transceivers: the direction is narrowed to a legal
    answer to the offered one, the sender is flagged as negotiated -/
def prepareAnswer : List Tr → List (RSection × Nat) → List Tr
  | trs, [] => trs
  | trs, (s, i) :: rest =>
    match trs[i]? with
    | none => prepareAnswer trs rest
    | some t => prepareAnswer (setAt trs i { t with dir := answerDirection s.direction t.dir, negotiated := true }) rest

/-- CreateAnswer: `(pc, sections or error)`.  The paired transceivers are prepared (direction, negotiated flag)
    even when the call fails later. -/
def createAnswer (pc : Pc) : Pc × Option (List OutSection) :=
  let pc := { pc with trs := prepareAnswer pc.trs (answerPlan pc).1 }
  let r := answerSections pc
  ({ pc with haveAnswer := pc.haveAnswer || r.isSome }, r)

/-- the `greaterMid` update of CreateOffer from the mids of the current remote description -/
def remoteGreaterMid (g : Int) : List RSection → Int
  | [] => g
  | s :: rest =>
    let g := if s.mid == [] then g else match atoiMid s.mid with
      | some n => if n > g then n else g
      | none => g
    remoteGreaterMid g rest

/-- the m-sections of a generated offer in document order, as far as `getByMid` is concerned: the mid and, for an
    audio/video section, what was written; `none` for the sections that answer a remote application section or a
    remote section of an unsupported media type in place (they carry the remote mid and no direction) -/
def layoutOf : List RSection → List OutSection → List (Str × Option OutSection)
  | [], outs => outs.map (fun o => (o.mid, some o))
  | s :: rest, outs =>
    if s.media == "application".toList || kindOf s.media == .other then (s.mid, none) :: layoutOf rest outs
    else match outs with
      | o :: os => (o.mid, some o) :: layoutOf rest os
      | [] => layoutOf rest []

/-- `hasLocalDescriptionChanged`: some transceiver's mid is on no section, or the first section with that mid
    has another direction (two transceivers with the same mid) or none (a rejected section, a section rejected
    in place, a data section) -/
def descriptionChanged (trs : List Tr) (layout : List (Str × Option OutSection)) : Bool :=
  trs.any (fun t =>
    match layout.find? (fun e => e.1 == t.mid) with
    | none => true
    | some (_, none) => true
    | some (_, some s) => s.sec.rejected || s.dir != t.dir)

/-- which transceivers an offer describes: without a current remote description all of them
    (generateUnmatchedSDP); otherwise (generateMatchedSDP, includeUnmatched) those paired with the sections of
    the pending — else the current — remote description, then the rest -/
def offerPlan (pc : Pc) : List (RSection × Nat) × List Nat × Bool :=
  match pc.current with
  | none => ([], List.range pc.trs.length, false)
  | some cur => matchSections pc.trs (List.range pc.trs.length) (pc.remote.getD cur).secs

/-- the remote sections an offer is generated against (none without a current remote description) -/
def offeredAgainst (pc : Pc) : List RSection :=
  match pc.current with
  | none => []
  | some cur => (pc.remote.getD cur).secs

/-- the sections of an offer; `none` = CreateOffer fails.
    When `hasLocalDescriptionChanged` holds, the offer is recomputed (to the same result) 128 times and
    CreateOffer fails with errExcessiveRetries: in particular an offer with a rejected section does not exist. -/
def offerSections (pc : Pc) : Option (List OutSection) :=
  let (pairs, rest, err) := offerPlan pc
  if err then none
  else
    match matchedSections pc none pairs rest with
    | none => none
    | some secs => if descriptionChanged pc.trs (layoutOf (offeredAgainst pc) secs) then none else some secs

/-- CreateOffer: `(pc, sections or error)`: mids are numbered, the senders of the described transceivers are
    flagged as negotiated (those paired before a failure too), then the sections are written -/
def createOffer (pc : Pc) : Pc × Option (List OutSection) :=
  -- new mids are numbered above every numeric mid in use: descriptions held, and all transceivers
  let g := (pc.current.map (·.secs)).getD [] |> remoteGreaterMid pc.greaterMid
  let g := (pc.remote.map (·.secs)).getD [] |> remoteGreaterMid g
  let g := pc.localMids.foldl (fun g m => match atoiMid m with
    | some n => if n > g then n else g
    | none => g) g
  let g := pc.trs.foldl (fun g t => if t.mid == [] then g else match atoiMid t.mid with
    | some n => if n > g then n else g
    | none => g) g
  let (trs, g) := assignMids pc.trs g
  let pc := { pc with trs := trs, greaterMid := g }
  let (pairs, rest, err) := offerPlan pc
  let pc := { pc with trs := flagNegotiated pc.trs (pairs.map (·.2) ++ (if err then [] else rest)) }
  (pc, offerSections pc)

/-- `payloaderForCodec` knows the codec -/
def hasPayloader (mime : Str) : Bool :=
  ["video/h264", "video/h265", "audio/opus", "video/vp8", "video/vp9", "video/av1", "audio/g722", "audio/pcmu",
   "audio/pcma"].any (fun m => lower mime == m.toList)

/-- `startRTPSenders`: every negotiated sender that has not sent yet binds its track against the engine's
    codecs of the track's kind; the first failure (ErrUnsupportedCodec, ErrNoPayloaderForCodec) aborts.  `none` = error. -/
def startSenders (e : Engine) : List Tr → Option (List Tr)
  | [] => some []
  | t :: ts =>
    if t.hasSender && t.negotiated && !t.sent then
      match t.track with
      | none => none
      | some c =>
        -- TrackLocalStaticSample.Bind: a codec of the engine must match, and it needs a payloader
        let (m, mt) := fuzzySearch c (e.codecsByKind (mimeKind c.mime))
        if mt = .mNone || !hasPayloader m.mime then none
        else (startSenders e ts).map (fun r => { t with sent := true } :: r)
    else (startSenders e ts).map (fun r => t :: r)

inductive SldResult | ok | skipped | sendError
  deriving Repr

/-- `SetLocalDescription(last answer)`; skipped (not attempted) unless an answer to the pending offer exists -/
def setLocalAnswer (pc : Pc) : Pc × SldResult :=
  match pc.remote with
  | none => (pc, .skipped)
  | some d =>
    if !pc.haveAnswer then (pc, .skipped)
    else
      match startSenders pc.eng pc.trs with
      | none => (pc, .sendError)
      | some trs => ({ pc with trs := trs, current := some d, remote := none, haveAnswer := false,
                               localMids := d.secs.map (·.mid) }, .ok)

/-! ### histories -/

/-- the calls a scenario is made of -/
inductive Action
  | add (k : Kind) (d : TDir)
  | pref (idx : Nat) (codecs : List CodecP)
  | offer
  | answer
  | sla
  | sro (d : RDesc)
  deriving Repr

/-- the PeerConnection after a call (a failed call leaves what the code leaves) -/
def step (pc : Pc) : Action → Pc
  | .add k d => (addTransceiver pc k d).getD pc
  | .pref i cs => (setPrefs pc i cs).1
  | .offer => (createOffer pc).1
  | .answer => (createAnswer pc).1
  | .sla => (setLocalAnswer pc).1
  | .sro d => (setRemoteOffer pc d).1

/-- the PeerConnection right after NewPeerConnection on a MediaEngine configured with the listed
    RegisterCodec / RegisterHeaderExtension calls (in order, errors ignored): the engine is copied, nothing is
    negotiated -/
def freshPc (multi : Bool) (codecs : List (Kind × CodecP)) (exts : List (Str × Kind × List XDir)) : Pc :=
  { eng := codecs.foldl (fun (e : Engine) kc => (e.register kc.1 kc.2).1) { multi := multi }
    xe := { exts := exts.foldl (fun xs r => registerExt xs r.1 r.2.1 r.2.2) [] } }

end WebrtcVerif.PcSections
