import WebrtcVerif.Base.Bytes
/-
  Model of pkg/media/rtpdump (rtpdump.go, writer.go, reader.go) — property C36 (and C37's rtpdump part).
  Times are integer nanoseconds (time.Time.UnixNano / time.Duration).
-/
namespace WebrtcVerif.Rtpdump
open WebrtcVerif.Bytes

inductive Err | malformed | unrepresentable | eof
  deriving DecidableEq, Repr

structure Header where
  startNanos : Int                 -- h.Start.UnixNano()
  source : Option (Byte × Byte × Byte × Byte)   -- h.Source.To4(); none for nil / IPv6
  port : Nat                       -- uint16
  deriving DecidableEq, Repr

structure Packet where
  offsetNanos : Int                -- time.Duration
  isRTCP : Bool
  payload : Bs
  deriving DecidableEq, Repr

def second : Int := 1000000000
def maxU32 : Int := 4294967295
def maxPayloadLen : Nat := 65527

/-! ### writer -/

/-- `Header.Marshal` -/
def Header.marshal (h : Header) : Except Err Bs :=
  if h.startNanos < 0 ∨ h.startNanos / second > maxU32 then .error .unrepresentable
  else
    let sec := (h.startNanos / second).toNat
    let usec := ((h.startNanos % second) / 1000).toNat
    let src : Bs := match h.source with
      | some (a, b', c, d) => [a, b', c, d]
      | none => [0, 0, 0, 0]
    .ok (be32 sec ++ be32 usec ++ src ++ be16 h.port ++ [0, 0])

/-- `#!rtpplay1.0 ` -/
def magic : Bs := [35, 33, 114, 116, 112, 112, 108, 97, 121, 49, 46, 48, 32]

/-- decimal rendering (`%d`) of a number below 100000 (ports and address octets) -/
def digits (n : Nat) : Bs :=
  if n < 10 then [b (48 + n)]
  else if n < 100 then [b (48 + n / 10), b (48 + n % 10)]
  else if n < 1000 then [b (48 + n / 100), b (48 + n / 10 % 10), b (48 + n % 10)]
  else if n < 10000 then [b (48 + n / 1000), b (48 + n / 100 % 10), b (48 + n / 10 % 10), b (48 + n % 10)]
  else [b (48 + n / 10000 % 10), b (48 + n / 1000 % 10), b (48 + n / 100 % 10), b (48 + n / 10 % 10), b (48 + n % 10)]

/-- `"#!rtpplay1.0 %s/%d\n"` with the dotted-quad form of the IPv4 source -/
def preamble (a b' c d : Byte) (port : Nat) : Bs :=
  magic ++ digits a.toNat ++ [46] ++ digits b'.toNat ++ [46] ++ digits c.toNat ++ [46] ++ digits d.toNat
    ++ [47] ++ digits port ++ [10]

/-- `NewWriter`: what is written for the header, or the error. -/
def newWriter (h : Header) : Except Err Bs :=
  match h.source with
  | none => .error .unrepresentable
  | some (a, b', c, d) =>
    match h.marshal with
    | .error e => .error e
    | .ok hd => .ok (preamble a b' c d h.port ++ hd)

/-- `Packet.Marshal` -/
def Packet.marshal (p : Packet) : Except Err Bs :=
  if p.payload.length > maxPayloadLen then .error .unrepresentable
  else if p.offsetNanos < 0 ∨ p.offsetNanos / 1000000 > maxU32 then .error .unrepresentable
  else
    let plen := if p.isRTCP then 0 else p.payload.length
    .ok (be16 (p.payload.length + 8) ++ be16 plen ++ be32 (p.offsetNanos / 1000000).toNat ++ p.payload)

/-- `WritePacket` for each packet in turn; stops at the first error (index reported). -/
def writePackets : List Packet → Nat → Bs → Bs × Option Nat
  | [], _, acc => (acc, none)
  | p :: ps, i, acc =>
    match p.marshal with
    | .error _ => (acc, some i)
    | .ok d => writePackets ps (i + 1) (acc ++ d)

/-! ### reader -/

def isDigit (x : Byte) : Bool := 48 ≤ x.toNat && x.toNat ≤ 57

/-- `\d{1,k}` followed by a non-digit literal: consume 1..k digits (greedy; the literal that follows is
    not a digit, so no backtracking is possible). -/
def digitsUpTo : Nat → Bs → Option Bs
  | 0, _ => none
  | k + 1, x :: rest =>
    if isDigit x then
      match rest with
      | y :: _ => if isDigit y then digitsUpTo k rest else some rest
      | [] => some rest
    else none
  | _ + 1, [] => none

def lit (l : Bs) (s : Bs) : Option Bs := if l.isPrefixOf s then some (s.drop l.length) else none

/-- the preamble regular expression, anchored at the head of `s` -/
def matchPreambleHere (s : Bs) : Bool :=
  (do
    let s ← lit magic s
    let s ← digitsUpTo 3 s; let s ← lit [46] s
    let s ← digitsUpTo 3 s; let s ← lit [46] s
    let s ← digitsUpTo 3 s; let s ← lit [46] s
    let s ← digitsUpTo 3 s; let s ← lit [47] s
    let s ← digitsUpTo 5 s; let _ ← lit [10] s
    pure ()).isSome

/-- `regexp.Match` is unanchored: some suffix of the peeked window matches at its head -/
def matchPreamble : Bs → Bool
  | [] => false
  | s@(_ :: t) => matchPreambleHere s || matchPreamble t

/-- bufio `ReadLine`: drop through the first `\n` (there is one inside the window when the regexp matched) -/
def dropLine : Bs → Bs
  | [] => []
  | x :: rest => if x = 10 then rest else dropLine rest

/-- `Header.Unmarshal` of exactly 16 bytes -/
def Header.unmarshal : Bs → Option Header
  | [s0, s1, s2, s3, u0, u1, u2, u3, a, b', c, d, p0, p1, _, _] =>
    some { startNanos := (rd32be s0 s1 s2 s3 : Int) * second + (rd32be u0 u1 u2 u3 : Int) * 1000,
           source := some (a, b', c, d), port := rd16be p0 p1 }
  | _ => none

def preambleLen : Nat := 36

/-- `NewReader` -/
def newReader (s : Bs) : Except Err (Header × Bs) :=
  if s.length < preambleLen then .error .malformed           -- Peek(36) → io.EOF
  else if !matchPreamble (s.take preambleLen) then .error .malformed
  else
    match readFull 16 (dropLine s) with
    | .ok hb rest =>
      match Header.unmarshal hb with
      | some h => .ok (h, rest)
      | none => .error .malformed
    | _ => .error .malformed

/-- `Reader.Next` -/
def next (s : Bs) : Except Err (Packet × Bs) :=
  match readFull 8 s with
  | .eof => .error .eof
  | .short => .error .malformed
  | .ok hb rest =>
    match hb with
    | [l0, l1, q0, q1, o0, o1, o2, o3] =>
      let length := rd16be l0 l1
      let plen := rd16be q0 q1
      if length < 8 then .error .malformed
      else
        match readFull (length - 8) rest with
        | .eof => .error .eof              -- ReadFull returns io.EOF when nothing at all follows
        | .short => .error .malformed
        | .ok payload rest' =>
          .ok ({ offsetNanos := (rd32be o0 o1 o2 o3 : Int) * 1000000, isRTCP := plen == 0, payload }, rest')
    | _ => .error .malformed

theorem next_progress (s : Bs) (p : Packet) (r : Bs) (h : next s = .ok (p, r)) : r.length < s.length := by
  unfold next at h
  cases hr : readFull 8 s with
  | eof => simp [hr] at h
  | short => simp [hr] at h
  | ok hb rest =>
    have hlen : rest.length + 8 = s.length ∧ hb.length = 8 := by
      unfold readFull at hr
      split at hr
      · rename_i hle
        injection hr with h1 h2
        subst h1; subst h2
        simp [List.length_take, List.length_drop]; omega
      · split at hr <;> cases hr
    rw [hr] at h
    simp only at h
    match hb, hlen.2 with
    | [l0, l1, q0, q1, o0, o1, o2, o3], _ =>
      simp only at h
      split at h
      · cases h
      · cases hr2 : readFull (rd16be l0 l1 - 8) rest with
        | eof => simp [hr2] at h
        | short => simp [hr2] at h
        | ok payload rest' =>
          rw [hr2] at h
          simp only at h
          injection h with h; injection h with _ h2
          subst h2
          unfold readFull at hr2
          split at hr2
          · injection hr2 with _ h3
            subst h3
            simp [List.length_drop]; omega
          · split at hr2 <;> cases hr2

/-- read until error / end of stream: returns the packets and the terminating status -/
def readAll (s : Bs) : List Packet × Err :=
  match h : next s with
  | .error e => ([], e)
  | .ok (p, r) =>
    have : r.length < s.length := next_progress s p r h
    let (ps, e) := readAll r
    (p :: ps, e)
termination_by s.length

end WebrtcVerif.Rtpdump
