import WebrtcVerif.Model.Codec
/-
  Model of what pion/webrtc writes into one media section for codecs and header extensions (property C10):

    mediaengine.go   RegisterHeaderExtension, updateHeaderExtension(FromMediaSection),
                     getRTPParametersByKind (header-extension id assignment)
    sdp.go           addTransceiverSDP: codec emission (MediaDescription.WithCodec + rtcp-fb lines), rejected
                     section, extmap emission with the matchExtensions filter

  Go maps (`negotiatedHeaderExtensions`, the local `mediaHeaderExtensions`) are association lists with unique
  keys; insertion overwrites.  Go iterates maps in an unspecified order, the model in list order; the theorems
  of C10 hold for every list, hence for every order.  `pion/sdp` is a parameter: an attribute is represented by
  the values the code hands to it.
-/
namespace WebrtcVerif.SectionSdp
open WebrtcVerif.Codec

/-! ### association lists keyed by a header-extension id -/

abbrev IdMap (β : Type) := List (Nat × β)

def IdMap.get? {β} (m : IdMap β) (k : Nat) : Option β := (m.find? (fun kv => kv.1 == k)).map (·.2)

def IdMap.has {β} (m : IdMap β) (k : Nat) : Bool := m.any (fun kv => kv.1 == k)

def IdMap.insert {β} : IdMap β → Nat → β → IdMap β
  | [], k, v => [(k, v)]
  | (k', v') :: rest, k, v => if k' = k then (k, v) :: rest else (k', v') :: IdMap.insert rest k v

/-! ### header extensions of the MediaEngine -/

/-- the two values `allowedDirections` may hold -/
inductive XDir | send | recv
  deriving DecidableEq, Repr, Inhabited

/-- `mediaEngineHeaderExtension` -/
structure HdrExt where
  uri : Str := []
  isAudio : Bool := false
  isVideo : Bool := false
  dirs : List XDir := []
  deriving DecidableEq, Repr, Inhabited

/-- `headerExtensions` and `negotiatedHeaderExtensions` of a MediaEngine (a nil map behaves as the empty map
    in every function modelled here) -/
structure ExtEngine where
  exts : List HdrExt := []
  neg : IdMap HdrExt := []
  deriving Repr, Inhabited

/-- overwrite entry `i` -/
def setAt {α} : List α → Nat → α → List α
  | [], _, _ => []
  | _ :: xs, 0, v => v :: xs
  | x :: xs, i + 1, v => x :: setAt xs i v

/-- index of the LAST entry with this URI (the loop of RegisterHeaderExtension has no `break`) -/
def lastIndexOfUri (exts : List HdrExt) (uri : Str) : Option Nat :=
  (List.range exts.length).foldl (fun acc i =>
    match exts[i]? with
    | some e => if e.uri == uri then some i else acc
    | none => acc) none

/-- `RegisterHeaderExtension(extension, typ, allowedDirections...)` (directions are valid by typing) -/
def registerExt (exts : List HdrExt) (uri : Str) (typ : Kind) (dirs : List XDir) : List HdrExt :=
  let dirs := if dirs.isEmpty then [XDir.recv, XDir.send] else dirs
  let (exts, idx) := match lastIndexOfUri exts uri with
    | some i => (exts, i)
    | none => (exts ++ [({} : HdrExt)], exts.length)
  let e : HdrExt := exts[idx]?.getD {}
  let e := match typ with
    | .audio => { e with isAudio := true }
    | .video => { e with isVideo := true }
    | .other => e
  setAt exts idx { e with uri := uri, dirs := dirs }

/-- `updateHeaderExtension(id, extension, typ)` -/
def updateHeaderExtension (x : ExtEngine) (id : Nat) (uri : Str) (typ : Kind) : ExtEngine :=
  x.exts.foldl (fun x l =>
    if l.uri == uri then
      let h : HdrExt := (x.neg.get? id).getD { uri := uri, dirs := l.dirs }
      let h := if l.isAudio && typ == .audio then { h with isAudio := true }
               else if l.isVideo && typ == .video then { h with isVideo := true }
               else h
      { x with neg := x.neg.insert id h }
    else x) x

/-- `rtpExtensionsFromMediaDescription`: the `map[uri]id` built from the extmap attributes in order (a URI
    listed twice keeps its last id) -/
def extensionMap (attrs : List (Str × Nat)) : List (Str × Nat) :=
  attrs.foldl (fun m a =>
    if m.any (fun kv => kv.1 == a.1) then m.map (fun kv => if kv.1 == a.1 then (kv.1, a.2) else kv)
    else m ++ [a]) []

/-- `updateHeaderExtensionFromMediaSection` for a section of kind `typ` whose extmap attributes are `attrs` -/
def updateHeaderExtensions (x : ExtEngine) (typ : Kind) (attrs : List (Str × Nat)) : ExtEngine :=
  match typ with
  | .other => x
  | _ => (extensionMap attrs).foldl (fun x a => updateHeaderExtension x a.2 a.1 typ) x

def dirOk (h : HdrExt) (dirs : List XDir) : Bool := dirs.any (fun d => h.dirs.contains d)

def kindOk (h : HdrExt) (typ : Kind) : Bool :=
  (h.isAudio && typ == .audio) || (h.isVideo && typ == .video)

/-- first id in 1..14 that is neither used in `m` nor negotiated -/
def firstFreeId (m neg : IdMap HdrExt) : Option Nat :=
  (List.range' 1 14).find? (fun id => !m.has id && !neg.has id)

/-- the local map `mediaHeaderExtensions` built by the not-yet-negotiated branch of getRTPParametersByKind -/
def assignIds (x : ExtEngine) : IdMap HdrExt :=
  x.exts.foldl (fun m ext =>
    match x.neg.find? (fun kv => kv.2.uri == ext.uri) with
    | some (id, _) => m.insert id ext
    | none =>
      match firstFreeId m x.neg with
      | some id => m.insert id ext
      | none => m) []

/-- header-extension part of `getRTPParametersByKind(typ, directions)`; `negotiated` is
    `(negotiatedVideo && typ == video) || (negotiatedAudio && typ == audio)` -/
def headerExtensionParams (x : ExtEngine) (negotiated : Bool) (typ : Kind) (dirs : List XDir) : List (Nat × Str) :=
  let src := if negotiated then x.neg else assignIds x
  (src.filter (fun kv => dirOk kv.2 dirs && kindOk kv.2 typ)).map (fun kv => (kv.1, kv.2.uri))

/-! ### one media section -/

/-- what addTransceiverSDP writes for codecs and header extensions -/
structure SdpSection where
  rejected : Bool := false                       -- port 0, single format "0", no attributes
  formats : List Nat := []                       -- the `m=` line's format list
  rtpmaps : List (Nat × Str × Nat × Nat) := []   -- payload type, encoding name, clock rate, channels (0 = not written)
  fmtps : List (Nat × Str) := []
  fbs : List (Nat × Str) := []                   -- payload type, "type" or "type parameter"
  extmaps : List (Nat × Str) := []
  deriving DecidableEq, Repr, Inhabited

/-- `strings.TrimPrefix` -/
def trimPrefix (pre s : Str) : Str := if pre.isPrefixOf s then s.drop pre.length else s

/-- the rtpmap encoding name: the mime type without a leading "audio/" and then without a leading "video/" -/
def encodingName (mime : Str) : Str := trimPrefix "video/".toList (trimPrefix "audio/".toList mime)

def fbValue (f : Feedback) : Str := if f.param.isEmpty then f.typ else f.typ ++ [' '] ++ f.param

/-- the codec loop of addTransceiverSDP -/
def emitCodecs (codecs : List CodecP) (extmaps : List (Nat × Str)) : SdpSection :=
  { formats := codecs.map (·.pt)
    rtpmaps := codecs.map (fun c => (c.pt, encodingName c.mime, c.clock, c.channels))
    fmtps := codecs.filterMap (fun c => if c.fmtp.isEmpty then none else some (c.pt, c.fmtp))
    fbs := codecs.flatMap (fun c => c.fb.map (fun f => (c.pt, fbValue f)))
    extmaps := extmaps }

/-- "Explicitly reject track if we don't have the codec" -/
def rejectedSection : SdpSection := { rejected := true, formats := [0] }

/-- the extmap loop of addTransceiverSDP: `matchExtensions` (the URIs of the remote section) filters when present -/
def filterExtensions (params : List (Nat × Str)) (matchExtensions : Option (List Str)) : List (Nat × Str) :=
  match matchExtensions with
  | none => params
  | some uris => params.filter (fun p => uris.contains p.2)

/-- codec and extension content of the section addTransceiverSDP writes for a transceiver whose `getCodecs()`
    returned `codecs` (non-empty: otherwise the section is rejected, or the call fails for a sender) -/
def mediaSection (codecs : List CodecP) (x : ExtEngine) (negotiated : Bool) (typ : Kind) (dirs : List XDir)
    (matchExtensions : Option (List Str)) : SdpSection :=
  if codecs.isEmpty then rejectedSection
  else emitCodecs codecs (filterExtensions (headerExtensionParams x negotiated typ dirs) matchExtensions)

end WebrtcVerif.SectionSdp
