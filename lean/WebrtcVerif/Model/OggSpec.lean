import WebrtcVerif.Model.Ogg
/-
  Specification side of C33: an Ogg page parser, packet reassembly from lacing values, Opus packet
  durations and the per-stream well-formedness predicates, all written from RFC 3533 / RFC 7845 /
  RFC 6716 and NOT from the Go code (bitwise CRC, lacing-driven packet boundaries, duration table by
  configuration number).  Shared by the theorems (Props/C33.lean) and the judge (Drv/C33.lean).
-/
namespace WebrtcVerif.OggSpec
open WebrtcVerif.Bytes WebrtcVerif.Ogg

/-! ### CRC-32 of RFC 3533: polynomial 0x04c11db7, MSB first, initial value and final xor 0 -/

def crcBit (c : UInt32) : UInt32 :=
  if c &&& 0x80000000 != 0 then (c <<< 1) ^^^ 0x04c11db7 else c <<< 1

def crcByte (c : UInt32) (v : UInt8) : UInt32 :=
  crcBit (crcBit (crcBit (crcBit (crcBit (crcBit (crcBit (crcBit (c ^^^ (v.toUInt32 <<< 24)))))))))

def crc32 (bs : Bs) : UInt32 := bs.foldl crcByte 0

/-! ### pages -/

/-- the fixed part of a page (27 bytes), split into fields; `none` unless capture pattern and version 0 -/
def splitHeader : Bs → Option (UInt8 × Nat × Nat × Nat × Nat × Nat × Bs)
  | 79 :: 103 :: 103 :: 83 :: 0 :: ht :: g0 :: g1 :: g2 :: g3 :: g4 :: g5 :: g6 :: g7 :: n0 :: n1 :: n2 :: n3 ::
      i0 :: i1 :: i2 :: i3 :: c0 :: c1 :: c2 :: c3 :: nseg :: rest =>
    some (ht, rd32le g0 g1 g2 g3 + rd32le g4 g5 g6 g7 * 4294967296, rd32le n0 n1 n2 n3, rd32le i0 i1 i2 i3,
          rd32le c0 c1 c2 c3, nseg.toNat, rest)
  | _ => none

def lacingSum (segs : List UInt8) : Nat := (segs.map UInt8.toNat).sum

/-- one page off the front: the page, whether its checksum is right, and what follows -/
def splitPage (s : Bs) : Option (Page × Bool × Bs) :=
  match splitHeader s with
  | none => none
  | some (ht, granule, serial, index, storedCrc, nseg, rest) =>
    let segs := rest.take nseg
    if segs.length < nseg then none
    else
      let rest2 := rest.drop nseg
      let n := lacingSum segs
      let payload := rest2.take n
      if payload.length < n then none
      else
        let zeroed := s.take 22 ++ [0, 0, 0, 0] ++ (s.drop 26).take (1 + nseg + n)
        some ({ headerType := ht, granule, serial, index, segs, payload },
              (crc32 zeroed).toNat == storedCrc, rest2.drop n)

/-- the whole byte string as a sequence of pages (checksums reported, not enforced) -/
def splitPages : Nat → Bs → Option (List (Page × Bool))
  | _, [] => some []
  | 0, _ :: _ => none
  | fuel + 1, s =>
    match splitPage s with
    | none => none
    | some (p, okc, rest) =>
      match splitPages fuel rest with
      | none => none
      | some ps => some ((p, okc) :: ps)

/-- strict reading: every page well-formed with a correct checksum, nothing left over -/
def parsePages (s : Bs) : Option (List Page) :=
  match splitPages s.length s with
  | none => none
  | some ps => if ps.all (·.2) then some (ps.map (·.1)) else none

/-! ### packets from lacing values (RFC 3533 §5: a packet ends at the first lacing value below 255) -/

def packetLens : Nat → List UInt8 → List Nat
  | _, [] => []
  | acc, s :: ss => if s.toNat < 255 then (acc + s.toNat) :: packetLens 0 ss else packetLens (acc + 255) ss

def splitBy : List Nat → Bs → List Bs
  | [], _ => []
  | n :: ns, bs => bs.take n :: splitBy ns (bs.drop n)

/-- the packets of one logical stream, continued pages joined -/
def packetsOf (pages : List Page) : List Bs :=
  splitBy (packetLens 0 (pages.flatMap (·.segs))) (pages.flatMap (·.payload))

def streamOf (serial : Nat) (pages : List Page) : List Page := pages.filter (·.serial == serial)

def isBOS (p : Page) : Bool := p.headerType &&& 2 != 0
def isEOS (p : Page) : Bool := p.headerType &&& 4 != 0
def isCont (p : Page) : Bool := p.headerType &&& 1 != 0

/-- first page and only the first page carries beginning-of-stream -/
def bosOk : List Page → Bool
  | [] => false
  | p :: rest => isBOS p && rest.all (fun q => !isBOS q)

/-- last page and only the last page carries end-of-stream -/
def eosOk : List Page → Bool
  | [] => false
  | [p] => isEOS p
  | p :: rest => !isEOS p && eosOk rest

/-- page sequence numbers count up by one from `k` (a 32-bit field) -/
def seqFrom : Nat → List Page → Bool
  | _, [] => true
  | k, p :: rest => p.index == k % 4294967296 && seqFrom (k + 1) rest

/-- is a packet still open after this page? (last lacing value 255; a page without segments changes nothing) -/
def endsOpen (open_ : Bool) (p : Page) : Bool :=
  match p.segs.getLast? with
  | some s => s == 255
  | none => open_

/-- the continuation flag is set exactly on pages that start inside a packet -/
def contFrom : Bool → List Page → Bool
  | _, [] => true
  | open_, p :: rest => isCont p == open_ && contFrom (endsOpen open_ p) rest

def noGranule : Nat := 18446744073709551615

/-- how many packets end on a page -/
def completions (p : Page) : Nat := (p.segs.filter (fun s => s.toNat < 255)).length

/-- granule positions: `cum k` is the sample count after `k` packets of the stream.  A page on which a
    packet ends carries the count after the last packet ending on it; a page on which none ends carries
    either "no position" (−1) or the count so far. -/
def granulesFrom (cum : Nat → Nat) : Nat → List Page → Bool
  | _, [] => true
  | k, p :: rest =>
    let c := completions p
    (if c = 0 then p.granule == noGranule || p.granule == cum k % 18446744073709551616
     else p.granule == cum (k + c) % 18446744073709551616) && granulesFrom cum (k + c) rest

/-- positions that are present never decrease -/
def granuleMonotoneFrom : Nat → List Page → Bool
  | _, [] => true
  | g, p :: rest =>
    if p.granule == noGranule then granuleMonotoneFrom g rest else g ≤ p.granule && granuleMonotoneFrom p.granule rest

/-! ### Opus packet duration in 48 kHz samples (RFC 6716 §3.1, table 2) -/

def frameSamples (toc : UInt8) : Nat :=
  let config := toc.toNat / 8
  if config < 12 then [480, 960, 1920, 2880].getD (config % 4) 0
  else if config < 16 then [480, 960].getD (config % 2) 0
  else [120, 240, 480, 960].getD (config % 4) 0

/-- `none`: not a packet the Opus framing allows (empty, code 3 without a count byte or with zero frames,
    or longer than 120 ms) -/
def packetSamples : Bs → Option Nat
  | [] => none
  | toc :: rest =>
    let frames : Option Nat :=
      match toc.toNat % 4 with
      | 0 => some 1
      | 1 => some 2
      | 2 => some 2
      | _ => match rest with
        | [] => none
        | x :: _ => if x.toNat % 64 = 0 then none else some (x.toNat % 64)
    match frames with
    | none => none
    | some f => if frameSamples toc * f ≤ 5760 then some (frameSamples toc * f) else none

def cumSamples (packets : List Bs) (k : Nat) : Nat :=
  ((packets.take k).map (fun p => (packetSamples p).getD 0)).sum

end WebrtcVerif.OggSpec
