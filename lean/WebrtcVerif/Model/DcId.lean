/-
  Model of data channel stream-id assignment (property C18):
    sctptransport.go : generateAndSetDataChannelID, onDataChannel, Start (critical section + open loop)
    peerconnection.go: CreateDataChannel (registration under sctpTransport.lock, open when connected)
    datachannel.go   : open (test-and-set of d.sctpTransport, id generation outside d.mu, `d.id = dcID`),
                       close (readyState leaves `connecting`, so Start skips the channel)

  uint16 arithmetic is `UInt16` (wrapping), exactly as in Go.  The concurrent code is a transition
  system whose actions are the lock-delimited atomic sections of the Go code; a sequential API call is
  a fixed list of such actions (`Op.actions`), a concurrent execution is any interleaving of them.
-/
namespace WebrtcVerif.DcId

/-! ### the set `dataChannelIDsUsed` -/

/-- An arithmetic progression of ids `lo, lo+step, … ≤ hi` (a single id is `⟨v, v, 1⟩`).  The Go map only
    ever grows (there is no `delete`), so a list of insertions represents it; progressions keep nearly
    full sets small. -/
structure Rng where
  lo : UInt16
  hi : UInt16
  step : UInt16
  deriving DecidableEq, Repr

def Rng.has (r : Rng) (v : UInt16) : Bool :=
  r.lo ≤ v && v ≤ r.hi && (v.toNat - r.lo.toNat) % (if r.step = 0 then 1 else r.step.toNat) == 0

abbrev Used := List Rng

/-- `_, ok := r.dataChannelIDsUsed[id]` -/
def isUsed (u : Used) (v : UInt16) : Bool := u.any (·.has v)

def single (v : UInt16) : Rng := ⟨v, v, 1⟩

/-- `r.dataChannelIDsUsed[id] = struct{}{}` -/
def Used.insert (u : Used) (v : UInt16) : Used := single v :: u

/-! ### generateAndSetDataChannelID -/

/-- Go's `DTLSRole` byte: 0 unknown, 1 auto, 2 client, 3 server. -/
abbrev Role := UInt8
def roleClient : Role := 2
def roleServer : Role := 3

/-- `const sctpMaxChannels = uint16(65535)`; `MaxChannels()` always returns it. -/
def sctpMaxChannels : UInt16 := 65535

inductive Gen
  | found (id : UInt16)     -- `*idOut = &id`, registered, `return nil`
  | exhausted               -- `ErrMaxDataChannelID`
  | diverged                -- the `for` loop never exits (cannot happen for maxVal = 65535: theorem)
  deriving DecidableEq, Repr

/-- `for ; id < bound; id += 2 { if used[id] { continue }; return id }` with wrapping `id += 2`.
    One unit of fuel per evaluation of the loop condition. -/
def genLoop (u : Used) (bound : UInt16) : Nat → UInt16 → Gen
  | 0, _ => .diverged
  | fuel + 1, id =>
    if id < bound then
      if isUsed u id then genLoop u bound fuel (id + 2) else .found id
    else .exhausted

/-- The loop condition is evaluated at most 32768 times before `id` would repeat a value; running out of
    this fuel therefore means the Go loop spins forever. -/
def genFuel : Nat := 32769

/-- `var id uint16; if dtlsRole != DTLSRoleClient { id++ }` -/
def startId (role : Role) : UInt16 := if role != roleClient then (0 : UInt16) + 1 else 0

/-- `generateAndSetDataChannelID` up to the registration (which the caller of this function models by
    `Used.insert`): the bound is `maxVal-1` in uint16 arithmetic. -/
def generateWith (maxVal : UInt16) (role : Role) (u : Used) : Gen :=
  genLoop u (maxVal - 1) genFuel (startId role)

def generate (role : Role) (u : Used) : Gen := generateWith sctpMaxChannels role u

/-! ### channels and the transport -/

inductive Origin
  | auto       -- CreateDataChannel without `ID`: the PeerConnection assigns the id
  | explicit   -- CreateDataChannel with `ID`: chosen by the application
  | remote     -- created by acceptDataChannels for a channel the peer opened
  deriving DecidableEq, Repr

/-- Where the (only) goroutine that passed the test-and-set of `open` stands. -/
inductive OpenPc
  | idle
  | wantGen            -- `d.mu.Unlock()` done, about to call generateAndSetDataChannelID
  | got (g : UInt16)   -- holds `dcID`, about to `d.mu.Lock(); d.id = dcID`
  deriving DecidableEq, Repr

structure Chan where
  origin : Origin
  id : Option UInt16          -- `d.id`
  tset : Bool                 -- `d.sctpTransport != nil`
  pc : OpenPc := .idle
  connecting : Bool := true   -- `ReadyState() == DataChannelStateConnecting` as far as `close` changes it
  deriving DecidableEq, Repr

structure St where
  started : Bool := false     -- `r.isStarted`
  assoc : Bool := false       -- `r.sctpAssociation != nil` / `r.state == Connected`
  role : Role := 0            -- what `dtlsTransport.role()` returns once DTLS has started
  used : Used := []
  chans : List Chan := []     -- `r.dataChannels` (append only)
  deriving Repr

def updAt (l : List Chan) (k : Nat) (f : Chan → Chan) : List Chan :=
  match l, k with
  | [], _ => []
  | c :: t, 0 => f c :: t
  | c :: t, k + 1 => c :: updAt t k f

/-- The atomic sections. -/
inductive Action
  | create (eid : Option UInt16)   -- CreateDataChannel: `lock; append; if ID != nil { used[ID] }; unlock`
  | start (role : Role)            -- Start: `isStarted` guard; `lock; association = …; state = Connected; unlock`
  | openBegin (k : Nat)            -- open: association test; `d.mu.Lock(); if d.sctpTransport != nil {return}; d.sctpTransport = t; if d.id == nil {d.mu.Unlock() …`
  | openGen (k : Nat)              -- open: `generateAndSetDataChannelID(role(), &dcID)` (under r.lock)
  | openStore (k : Nat)            -- open: `d.mu.Lock(); d.id = dcID`
  | remote (id : UInt16)           -- onDataChannel: `lock; append; used[*dc.ID()]; unlock`
  | close (k : Nat)                -- DataChannel.close: readyState leaves `connecting`
  deriving DecidableEq, Repr

def beginChan (c : Chan) : Chan :=
  if c.tset then c   -- "already open"
  else { c with tset := true, pc := if c.id.isNone then .wantGen else .idle }

def storeChan (c : Chan) : Chan :=
  match c.pc with
  | .got g => { c with id := some g, pc := .idle }   -- unconditional `d.id = dcID`
  | _ => c

def step (s : St) : Action → St
  | .create eid =>
    { s with
      chans := s.chans ++ [{ origin := if eid.isSome then .explicit else .auto, id := eid, tset := false }]
      used := match eid with | some i => s.used.insert i | none => s.used }
  | .start role =>
    if s.started then s else { s with started := true, assoc := true, role := role }
  | .openBegin k =>
    if s.assoc then { s with chans := updAt s.chans k beginChan } else s   -- else errSCTPNotEstablished
  | .openGen k =>
    match s.chans[k]? with
    | some c =>
      if c.pc = .wantGen then
        match generate s.role s.used with
        | .found g => { s with used := s.used.insert g, chans := updAt s.chans k (fun c => { c with pc := .got g }) }
        | _ => { s with chans := updAt s.chans k (fun c => { c with pc := .idle }) }   -- `return err`; d.sctpTransport stays set
      else s
    | none => s
  | .openStore k => { s with chans := updAt s.chans k storeChan }
  | .remote id =>
    { s with chans := s.chans ++ [{ origin := .remote, id := some id, tset := true }], used := s.used.insert id }
  | .close k => { s with chans := updAt s.chans k (fun c => { c with connecting := false }) }

def run (s : St) (as : List Action) : St := as.foldl step s

/-- The three atomic sections of one `d.open(transport)` call on channel `k`. -/
def openActions (k : Nat) : List Action := [.openBegin k, .openGen k, .openStore k]

/-- indices (from `base`) of the channels Start will try to open: `d.ReadyState() == Connecting` -/
def connectingIdx : List Chan → Nat → List Nat
  | [], _ => []
  | c :: t, base => if c.connecting then base :: connectingIdx t (base + 1) else connectingIdx t (base + 1)

/-- Sequential API calls. -/
inductive Op
  | create (eid : Option UInt16)   -- pc.CreateDataChannel(label, {ID: eid})
  | connect (role : Role)          -- SCTPTransport.Start with the local DTLS role `role`
  | remote (id : UInt16)           -- the peer's channel `id` is accepted
  | close (k : Nat)                -- channel k `.Close()`
  deriving DecidableEq, Repr

/-- The atomic sections a call executes when nothing else runs in between. -/
def Op.actions (s : St) : Op → List Action
  | .create eid => .create eid :: (if s.assoc then openActions s.chans.length else [])
  | .connect role =>
    if s.started then [] else .start role :: (connectingIdx s.chans 0).flatMap openActions
  | .remote id => [.remote id]
  | .close k => [.close k]

def applyOp (s : St) (op : Op) : St := run s (op.actions s)

def runOps (s : St) (ops : List Op) : St := ops.foldl applyOp s

/-- the trace of atomic sections of a sequential history -/
def opsTrace : St → List Op → List Action
  | _, [] => []
  | s, op :: rest => op.actions s ++ opsTrace (applyOp s op) rest

/-- a fresh transport; `u` stands for ids registered before the history starts (the model of the
    verification hook that pre-fills `dataChannelIDsUsed`; the real constructor starts with `[]`) -/
def initWith (u : Used) : St := { used := u }

def init : St := initWith []

/-- ids a channel holds: stored in `d.id`, or generated and about to be stored -/
def Chan.held (c : Chan) : Option UInt16 :=
  match c.id with
  | some i => some i
  | none => match c.pc with | .got g => some g | _ => none

end WebrtcVerif.DcId
