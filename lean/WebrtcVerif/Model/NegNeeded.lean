/-
  Model of the negotiation-needed machinery of peerconnection.go / operations.go (property C04):

    onNegotiationNeeded · negotiationNeededOp · checkNegotiationNeeded · the `isNegotiationNeeded` reset in
    setDescription · the end-of-chain flag of operations.start (updateNegotiationNeededFlagOnEmptyChain)

  together with as much of AddTrack / RemoveTrack / AddTransceiverFromKind / CreateDataChannel / CreateOffer /
  CreateAnswer / SetLocalDescription / SetRemoteDescription / Close as decides what checkNegotiationNeeded
  reads: the transceivers (mid, direction, currentDirection, currentRemoteDirection, sender and its track),
  the number of data channels, and the current local / remote descriptions abstracted to their m-sections
  (mid, application?, direction attribute, msid).

  The operations queue is the sequential consequence of C05 (Model/Ops.lean: one worker, FIFO, every accepted
  operation runs exactly once, the end-of-chain flag re-triggers onNegotiationNeeded): a list `queue`, the
  operation the worker is inside (`running`: only the two operations that can block, startTransports waiting
  for ICE/DTLS and startRTP waiting for the SCTP handshake, are ever observed there), and the flag.

  One PeerConnection is a transition system `PC.step : PC → Act → Option PC`:
    * `call op`   an API call, up to the point where SetLocal/SetRemoteDescription(answer) returned from
                  setDescription (every other call is one atomic step: it holds `pc.mu`, or it runs in a
                  signaling state in which negotiationNeededOp cannot get past its stable test);
    * `tail`      the rest of SetLocalDescription(answer) / SetRemoteDescription(answer): current directions,
                  startRTPSenders, `ops.Enqueue(startRTP / startTransports)`;
    * `work env`  one step of the queue's worker goroutine: the blocked operation returns (`env = some ok`: the
                  outside world lets it succeed / fail; `none`: it stays blocked), or the next operation is popped
                  and run, or — queue empty — the flag is handled.
  The worker may run between `call` and `tail`: that is the real race between negotiationNeededOp (started by
  setDescription) and the tail of the API call.  The theorems of Props/C04.lean quantify over every action
  sequence, hence over every such schedule and every sequence of API calls, with arbitrary remote descriptions.

  `World` puts two PeerConnections back to back (what the harness runs): remote descriptions are the peer's
  last created offer / answer, and a blocked operation finishes when the peer got far enough (`envFor`).

  Not modelled (outside the property's alphabet): SetCodecPreferences and codec mismatch
  (both ends register the default codecs, so no m-section is rejected), Plan-B, simulcast, Transceiver.Stop
  called by the application, GracefulClose (the queue is never closed).
-/
namespace WebrtcVerif.NegNeeded

inductive Sig | stable | haveLocalOffer | haveRemoteOffer | haveLocalPranswer | haveRemotePranswer | closed
  deriving DecidableEq, Repr, Inhabited

inductive Dir | sendrecv | sendonly | recvonly | inactive
  deriving DecidableEq, Repr, Inhabited

inductive Kind | audio | video
  deriving DecidableEq, Repr, Inhabited

/-- RTPTransceiverDirection.Revers -/
def Dir.revers : Dir → Dir
  | .sendonly => .recvonly
  | .recvonly => .sendonly
  | d => d

def Dir.sending : Dir → Bool
  | .sendrecv => true
  | .sendonly => true
  | _ => false

/-- RTPSender as far as it matters here. `track = none`: ReplaceTrack(nil) happened (Stop of a sender that had
    been started). -/
structure Sender where
  id : Nat
  track : Option Nat
  negotiated : Bool := false
  sent : Bool := false
  stopped : Bool := false
  deriving DecidableEq, Repr

structure Tr where
  kind : Kind
  mid : Option Nat := none               -- "" = none; all mids of pion-generated descriptions are decimal
  dir : Dir
  curDir : Option Dir := none            -- none = RTPTransceiverDirectionUnknown
  curRemoteDir : Option Dir := none
  sender : Option Sender := none
  deriving DecidableEq, Repr

/-- one m-section of a description, reduced to what is read back -/
structure Sec where
  mid : Nat
  app : Bool                              -- m=application
  kind : Kind                             -- meaningless when `app`
  dir : Dir                               -- the direction attribute (`a=sendrecv` on application sections)
  msid : Option Nat                       -- `a=msid:<stream> <track>` identified by the track
  deriving DecidableEq, Repr

structure Desc where
  offer : Bool                            -- SDPTypeOffer / SDPTypeAnswer
  secs : List Sec
  deriving DecidableEq, Repr

/-- what sits in the operations queue -/
inductive QOp
  | nn                                    -- negotiationNeededOp
  | st (rtp : Option Bool)                -- startTransports; `some app`: followed by startRTP in the same closure
  | rtp (app : Bool)                      -- startRTP; `app`: the remote description has an application section
  deriving DecidableEq, Repr

/-- the operation the worker is blocked in -/
inductive Running
  | st (rtp : Option Bool)                -- inside iceTransport.Start / dtlsTransport.Start
  | sctp                                  -- inside sctpTransport.Start (sctp.Client handshake)
  deriving DecidableEq, Repr

inductive Ev
  | fire                                  -- the OnNegotiationNeeded handler was invoked
  | stable                                -- setDescription(answer) succeeded with next state stable: an exchange completed
  | rolledBack                            -- setDescription(rollback) succeeded (next state stable)
  | withdrawn                             -- negotiationNeededOp cleared a set [[NegotiationNeeded]] (4.7.3.2.4)
  deriving DecidableEq, Repr

/-- handler invocation: what `SignalingState()`, `isClosed` and `checkNegotiationNeeded()` were at that moment -/
structure FireRec where
  sig : Sig
  closed : Bool
  needed : Bool
  deriving DecidableEq, Repr

/-- the part of SetLocal/SetRemoteDescription(answer) that follows setDescription -/
inductive Tail
  | localAnswer (ans : Desc) (remote : Desc)
  | remoteAnswer (ans : Desc) (isRenegotiation : Bool)
  deriving DecidableEq, Repr

inductive Res | ok | err | errLate
  deriving DecidableEq, Repr

structure PC where
  -- negotiation-needed machinery
  sig : Sig := .stable
  closed : Bool := false
  isNN : Bool := false                    -- isNegotiationNeeded
  updFlag : Bool := false                 -- updateNegotiationNeededFlagOnEmptyChain
  queue : List QOp := []
  running : Option Running := none
  tail : Option Tail := none
  fired : List FireRec := []
  events : List Ev := []
  -- what checkNegotiationNeeded and the description generators read
  trs : List Tr := []
  dcs : Nat := 0                          -- len(sctpTransport.dataChannels) = dataChannelsRequested (own channels)
  curLocal : Option Desc := none
  curRemote : Option Desc := none
  pendLocal : Option Desc := none
  pendRemote : Option Desc := none
  lastOffer : Option Desc := none
  lastAnswer : Option Desc := none
  nextMid : Nat := 0                      -- greaterMid + 1
  nextId : Nat := 0                       -- fresh sender / track ids
  handed : List Nat := []                 -- ids of the senders handed to the application, in order
  -- transports
  gathered : Bool := false                -- a SetLocalDescription succeeded (gathering was started)
  stFromOffer : Option Bool := none       -- what enqueued the first startTransports: an applied offer (true) or an
                                          -- applied (provisional) answer (false); roles are derived from it
  stEntered : Bool := false               -- startTransports was entered
  connected : Bool := false               -- startTransports finished: ICE and DTLS are up
  sctpStarted : Bool := false             -- sctpTransport.isStarted
  sctpUp : Bool := false                  -- the SCTP association came up (SCTPTransportStateConnected)
  dcOpenFailed : Bool := false            -- ghost: a CreateDataChannel call failed in dataChannel.open
  deriving Repr

/-! ### the operations queue and negotiationNeededOp -/

/-- `pc.ops.Enqueue(op)` (the queue is never closed: only GracefulClose does that) -/
def enqueue (pc : PC) (op : QOp) : PC := { pc with queue := pc.queue ++ [op] }

/-- `onNegotiationNeeded` (4.7.3.1): queue not empty ⇒ set the flag; else enqueue negotiationNeededOp.
    `IsEmpty` looks at the list only, not at the operation in progress.  (Written as one record update so
    that the untouched fields reduce by `rfl`.) -/
def onNN (pc : PC) : PC :=
  { pc with queue := if pc.queue.isEmpty then [.nn] else pc.queue,
            updFlag := if pc.queue.isEmpty then pc.updFlag else true }

/-- `getByMid`: the first m-section carrying that mid; a transceiver without mid matches nothing -/
def getByMid (m : Option Nat) (d : Desc) : Option Sec :=
  match m with
  | none => none
  | some m => d.secs.find? (fun s => s.mid == m)

/-- the body of the transceiver loop of `checkNegotiationNeeded` (steps 5.2, 5.3.1 – 5.3.3) -/
def trNeeds (l : Desc) (r : Option Desc) (t : Tr) : Bool :=
  match getByMid t.mid l with
  | none => true                                                        -- 5.2
  | some sec =>
    let byType : Bool :=
      if l.offer then
        match r.bind (getByMid t.mid) with                              -- 5.3.2
        | none => true
        | some rm => sec.dir != t.dir && rm.dir != t.dir.revers
      else sec.dir != t.dir                                             -- 5.3.3
    if t.dir.sending then                                               -- 5.3.1
      match t.sender with
      | none => true
      | some s =>
        match s.track with
        | none => false                                                 -- `continue`
        | some trk => if sec.msid != some trk then true else byType
    else byType

/-- `checkNegotiationNeeded` -/
def check (pc : PC) : Bool :=
  match pc.curLocal with
  | none => true                                                        -- step 3
  | some l =>
    (pc.dcs != 0 && !l.secs.any (·.app))                                -- step 4
      || pc.trs.any (trNeeds l pc.curRemote)                            -- step 5

/-- `negotiationNeededOp`, entered after the worker popped it (so `queue` is what is still waiting) -/
def nnOp (pc : PC) : PC :=
  if pc.closed then pc                                                  -- 4.7.3.2.1
  else if !pc.queue.isEmpty then { pc with updFlag := true }            -- 4.7.3.2.2
  else if pc.sig != .stable then pc                                     -- 4.7.3.2.3
  else if !check pc then                                                -- 4.7.3.2.4
    { pc with isNN := false, events := if pc.isNN then pc.events ++ [.withdrawn] else pc.events }
  else if pc.isNN then pc                                               -- 4.7.3.2.5
  else { pc with isNN := true,                                          -- 4.7.3.2.6, 4.7.3.2.7
                 fired := pc.fired ++ [{ sig := pc.sig, closed := pc.closed, needed := check pc }],
                 events := pc.events ++ [.fire] }

/-- `startRTP`: only the SCTP start can block (sctp.Client returns when the peer's association answers) -/
def startRTP (pc : PC) (app : Bool) : PC :=
  { pc with sctpStarted := pc.sctpStarted || app,
            running := if app && !pc.sctpStarted && pc.connected && !pc.closed then some .sctp   -- sctp.Client
                       else pc.running }                                -- else errSCTPTransportDTLS / no-op

def afterST (pc : PC) : Option Bool → PC
  | none => pc
  | some app => startRTP pc app

/-- the worker calls a popped operation -/
def runOp (pc : PC) : QOp → PC
  | .nn => nnOp pc
  | .st rtp =>
    if pc.closed || pc.stEntered then afterST pc rtp                    -- iceTransport.Start fails at once (closed / not new)
    else { pc with running := some (.st rtp), stEntered := true }
  | .rtp app => startRTP pc app

/-- one step of the worker goroutine. `env` is what the outside world does to a blocked operation:
    `none` keeps it blocked, `some true` lets it succeed, `some false` makes it return with an error. -/
def work (pc : PC) (env : Option Bool) : Option PC :=
  match pc.running with
  | some (.st rtp) =>
    match env with
    | none => none
    | some ok => some (afterST { pc with running := none, connected := ok } rtp)
  | some .sctp =>
    match env with
    | none => none
    | some ok => some { pc with running := none, sctpUp := ok }
  | none =>
    match pc.queue with
    | op :: rest => some (runOp { pc with queue := rest } op)
    | [] => if pc.updFlag then some (onNN { pc with updFlag := false }) else none

/-! ### transceivers -/

/-- RTPTransceiver.Stop -/
def Tr.stop (t : Tr) : Tr :=
  { t with dir := .inactive, curDir := some .inactive,
           sender := t.sender.map fun s =>
             if s.stopped then s
             else { s with stopped := true, track := if s.sent then none else s.track } }

def isSendAllowed (t : Tr) (k : Kind) : Bool :=
  t.kind == k && t.sender.isNone
    && !(t.curDir == some .sendrecv || t.curDir == some .sendonly)
    && !(t.curRemoteDir == some .sendonly || t.curRemoteDir == some .inactive)

/-- `setSendingTrack(track)` with a track, after `setSender` -/
def Tr.attach (t : Tr) (s : Sender) : Tr :=
  { t with sender := some s,
           dir := match t.dir with
             | .recvonly => .sendrecv
             | .inactive => .sendonly
             | d => d }

def attachFirst (k : Kind) (s : Sender) : List Tr → Option (List Tr)
  | [] => none
  | t :: ts =>
    if isSendAllowed t k then some (t.attach s :: ts)
    else (attachFirst k s ts).map (t :: ·)

/-- `addRTPTransceiver` -/
def addTransceiverRaw (pc : PC) (t : Tr) : PC := onNN { pc with trs := pc.trs ++ [t] }

def addTrack (pc : PC) (k : Kind) (trk : Nat) : PC × Res :=
  if pc.closed then (pc, .err) else
  let s : Sender := { id := pc.nextId, track := some trk }
  let pc1 := { pc with nextId := pc.nextId + 1, handed := pc.handed ++ [pc.nextId] }
  match attachFirst k s pc.trs with
  | some trs => (onNN { pc1 with trs := trs }, .ok)
  | none => (addTransceiverRaw pc1 { kind := k, dir := .sendrecv, sender := some s }, .ok)

/-- RemoveTrack on the first transceiver holding that sender: `some (trs, ok)`; `ok = false` is the
    errRTPTransceiverSetSendingInvalidState path (the sender is detached all the same) -/
def detach (sid : Nat) : List Tr → Option (List Tr × Bool)
  | [] => none
  | t :: ts =>
    if (t.sender.map (·.id)) == some sid then
      match t.dir with
      | .sendrecv => some ({ t with sender := none, dir := .recvonly } :: ts, true)
      | .sendonly => some ({ t with sender := none, dir := .inactive } :: ts, true)
      | _ => some ({ t with sender := none } :: ts, false)
    else (detach sid ts).map fun r => (t :: r.1, r.2)

def removeTrack (pc : PC) (sid : Nat) : PC × Res :=
  if pc.closed then (pc, .err) else
  match detach sid pc.trs with
  | none => (pc, .err)                                                  -- ErrSenderNotCreatedByConnection
  | some (trs, true) => (onNN { pc with trs := trs }, .ok)
  | some (trs, false) => ({ pc with trs := trs }, .err)

def addTransceiver (pc : PC) (k : Kind) (d : Dir) : PC × Res :=
  if pc.closed then (pc, .err) else
  match d with
  | .inactive => (pc, .err)                                             -- errPeerConnAddTransceiverFromKindSupport
  | .recvonly => (addTransceiverRaw pc { kind := k, dir := .recvonly }, .ok)
  | d =>
    let s : Sender := { id := pc.nextId, track := some (1000 + pc.nextId) }
    (addTransceiverRaw { pc with nextId := pc.nextId + 1, handed := pc.handed ++ [pc.nextId] }
      { kind := k, dir := d, sender := some s }, .ok)

/-- `openFails`: the association is gone (the peer closed), `dataChannel.open` returns an error — after the
    channel was appended and counted, before onNegotiationNeeded -/
def createDataChannel (pc : PC) (openFails : Bool) : PC × Res :=
  if pc.closed then (pc, .err)
  else if pc.sctpUp && openFails then ({ pc with dcs := pc.dcs + 1, dcOpenFailed := true }, .err)
  else (onNN { pc with dcs := pc.dcs + 1 }, .ok)

/-! ### description generation -/

def Tr.markNegotiated (t : Tr) : Tr :=
  { t with sender := t.sender.map fun s => { s with negotiated := true } }

def secOf (t : Tr) (mid : Nat) : Sec :=
  { mid := mid, app := false, kind := t.kind, dir := t.dir, msid := t.sender.bind (·.track) }

def dataSec (mid : Nat) : Sec :=
  { mid := mid, app := true, kind := .audio, dir := .sendrecv, msid := none }

/-- the mid loop of CreateOffer over the transceivers (`nm` = greaterMid + 1, already above every mid in use) -/
def assignMids : Nat → List Tr → Nat × List Tr
  | nm, [] => (nm, [])
  | nm, t :: ts =>
    match t.mid with
    | some _ =>
      let r := assignMids nm ts
      (r.1, t :: r.2)
    | none =>
      let r := assignMids (nm + 1) ts
      (r.1, { t with mid := some nm } :: r.2)

/-- `updateGreaterMid` over the m-sections of a description -/
def bumpMids (nm : Nat) (secs : List Sec) : Nat := secs.foldl (fun nm s => max nm (s.mid + 1)) nm

/-- … over the descriptions held and over every transceiver, whatever its position -/
def bumpAll (pc : PC) : Nat :=
  let nm := [pc.curRemote, pc.pendRemote, pc.curLocal, pc.pendLocal].foldl
    (fun nm d => match d with
      | some d => bumpMids nm d.secs
      | none => nm) pc.nextMid
  pc.trs.foldl (fun nm t => match t.mid with
    | some m => max nm (m + 1)
    | none => nm) nm

/-- `answerDirection`: the answer sends only if the offer receives and receives only if the offer sends -/
def answerDirection (offered local_ : Dir) : Dir :=
  let send := local_.sending && (offered == .sendrecv || offered == .recvonly)
  let recv := (local_ == .sendrecv || local_ == .recvonly) && (offered == .sendrecv || offered == .sendonly)
  match send, recv with
  | true, true => .sendrecv
  | true, false => .sendonly
  | false, true => .recvonly
  | false, false => .inactive

/-- `dataMediaSectionMid`: the number of sections so far, or the next number no section uses as its mid -/
def dataMid (secs : List Sec) : Nat :=
  (((List.range (secs.length + 1)).map (· + secs.length)).find? fun c => !secs.any (·.mid == c)).getD
    (2 * secs.length + 1)

/-- generateMatchedSDP, the loop over the remote m-sections. `used` lists the positions already consumed
    (`localTransceivers` shrinks in the Go code). `narrow` (answering): the matched transceiver's direction is
    narrowed to a legal answer, in the transceiver itself. `none` = errPeerConnTranscieverMidNil. -/
def genMatched (narrow : Bool) : List Tr → List Sec → List Nat → Option (List Sec × List Nat × List Tr)
  | trs, [], used => some ([], used, trs)
  | trs, s :: rest, used =>
    if s.app then
      (genMatched narrow trs rest used).map fun r => (dataSec s.mid :: r.1, r.2)
    else
      match (List.range trs.length).find? (fun i => !used.contains i && (trs[i]?.map (·.mid)) == some (some s.mid)) with
      | none => none
      | some i =>
        match trs[i]? with
        | none => none
        | some t =>
          let t' : Tr := if narrow then { t with dir := answerDirection s.dir t.dir } else t
          (genMatched narrow (trs.set i t') rest (i :: used)).map fun r => (secOf t' s.mid :: r.1, r.2)

/-- sections of the transceivers at positions not in `used`, in order (includeUnmatched) -/
def unmatchedSecs (trs : List Tr) (used : List Nat) : List Sec :=
  (List.range trs.length).filterMap fun i =>
    if used.contains i then none
    else match trs[i]? with
      | some t => t.mid.map (secOf t)
      | none => none

/-- generateMatchedSDP: the sections, and the transceivers (directions narrowed when answering) -/
def matchedSecs (pc : PC) (trs : List Tr) (r : Desc) (includeUnmatched : Bool) : Option (List Sec × List Tr) :=
  match genMatched (!includeUnmatched) trs r.secs [] with
  | none => none
  | some (secs, used, trs') =>
    let secs := if includeUnmatched then secs ++ unmatchedSecs trs used else secs
    let haveApp := r.secs.any (·.app)
    if includeUnmatched && pc.dcs != 0 && !haveApp then some (secs ++ [dataSec (dataMid secs)], trs')
    else some (secs, trs')

/-- `setNegotiated` on every sender whose transceiver is described by `secs` -/
def markDescribed (trs : List Tr) (secs : List Sec) : List Tr :=
  trs.map fun t =>
    match t.mid with
    | some m => if secs.any (fun s => !s.app && s.mid == m) then t.markNegotiated else t
    | none => t

/-- hasLocalDescriptionChanged -/
def localChanged (trs : List Tr) (d : Desc) : Bool :=
  trs.any fun t =>
    match getByMid t.mid d with
    | none => true
    | some s => s.dir != t.dir

def remoteDesc (pc : PC) : Option Desc :=
  match pc.pendRemote with
  | some d => some d
  | none => pc.curRemote

def createOffer (pc : PC) : PC × Res :=
  if pc.closed then (pc, .err) else
  let am := assignMids (bumpAll pc) pc.trs
  let pc1 := { pc with nextMid := am.1, trs := am.2 }
  let secs? : Option (List Sec) :=
    match pc.curRemote with
    | none =>                                                            -- generateUnmatchedSDP
      let secs := unmatchedSecs am.2 []
      some (if pc.dcs != 0 then secs ++ [dataSec (dataMid secs)] else secs)
    | some cr => (matchedSecs pc am.2 ((remoteDesc pc).getD cr) true).map (·.1)
  match secs? with
  | none => (pc1, .err)
  | some secs =>
    let d : Desc := { offer := true, secs := secs }
    let pc2 := { pc1 with trs := markDescribed pc1.trs secs }
    if localChanged pc2.trs d then (pc2, .err)                           -- errExcessiveRetries after 128 identical rounds
    else ({ pc2 with lastOffer := some d }, .ok)

def createAnswer (pc : PC) : PC × Res :=
  match remoteDesc pc with
  | none => (pc, .err)                                                   -- ErrNoRemoteDescription
  | some r =>
    if pc.closed then (pc, .err)
    else if pc.sig != .haveRemoteOffer && pc.sig != .haveLocalPranswer then (pc, .err)  -- ErrIncorrectSignalingState
    else
      match matchedSecs pc pc.trs r false with
      | none => (pc, .err)
      | some (secs, trs) =>
        ({ pc with trs := markDescribed trs secs, lastAnswer := some { offer := false, secs := secs } }, .ok)

/-! ### setDescription -/

/-- SDPType of what is handed to SetLocal/SetRemoteDescription -/
inductive Ty | offer | pranswer | answer | rollback
  deriving DecidableEq, Repr

/-- the type a description is applied with: an offer is an offer; an answer's text may be applied as a
    provisional answer (`prov`) -/
def descTy (d : Desc) (prov : Bool) : Ty :=
  if d.offer then .offer else if prov then .pranswer else .answer

/-- `checkNextSignalingState` (setDescription proposes `stable` for answers and rollbacks) -/
def checkNext (cur : Sig) (isLocal : Bool) (ty : Ty) : Option Sig :=
  match cur, isLocal, ty with
  | .stable, true, .offer => some .haveLocalOffer
  | .stable, false, .offer => some .haveRemoteOffer
  | .haveLocalOffer, false, .answer => some .stable
  | .haveLocalOffer, false, .pranswer => some .haveRemotePranswer
  | .haveRemotePranswer, false, .answer => some .stable
  | .haveRemoteOffer, true, .answer => some .stable
  | .haveRemoteOffer, true, .pranswer => some .haveLocalPranswer
  | .haveLocalPranswer, true, .answer => some .stable
  | .haveLocalOffer, true, .rollback => some .stable
  | .haveLocalPranswer, true, .rollback => some .stable
  | .haveRemoteOffer, false, .rollback => some .stable
  | .haveRemotePranswer, false, .rollback => some .stable
  | _, _, _ => none

/-- `sd.SDP != pc.lastOffer` / `pc.lastAnswer`: before the first CreateOffer / CreateAnswer the remembered text
    is "", which is what an empty description (it parses, to no m-sections) carries -/
def matchesLast (d : Desc) : Option Desc → Bool
  | some l => d == l
  | none => d.secs.isEmpty

/-- the assignments to the four description slots in `setDescription` -/
def commitDesc (pc : PC) (isLocal : Bool) (ty : Ty) (d : Desc) : PC :=
  match isLocal, ty with
  | true, .answer =>
    { pc with curLocal := some d, curRemote := pc.pendRemote, pendRemote := none, pendLocal := none }
  | _, .rollback => { pc with pendLocal := none, pendRemote := none }     -- the rolled-back descriptions go
  | true, _ => { pc with pendLocal := some d }                            -- offer, pranswer
  | false, .answer =>
    { pc with curRemote := some d, curLocal := pc.pendLocal, pendRemote := none, pendLocal := none }
  | false, _ => { pc with pendRemote := some d }                          -- offer, pranswer

/-- the end of `setDescription`: checkNextSignalingState, the slot assignments, the new state; on reaching
    stable — by an answer or by a rollback — [[NegotiationNeeded]] is cleared and the check is queued -/
def applyChecked (pc : PC) (isLocal : Bool) (ty : Ty) (d : Desc) : Option PC :=
  match checkNext pc.sig isLocal ty with
  | none => none
  | some next =>
    let pc1 := commitDesc pc isLocal ty d
    if next == .stable then
      some (onNN { pc1 with sig := next, isNN := false,
                            events := pc1.events ++ [if ty == .rollback then .rolledBack else .stable] })
    else some { pc1 with sig := next }

/-- `setDescription` for a description; `none` = error, nothing changed -/
def setDescription (pc : PC) (isLocal : Bool) (d : Desc) (prov : Bool) : Option PC :=
  if pc.closed then none
  else if isLocal && d.offer && !matchesLast d pc.lastOffer then none     -- errSDPDoesNotMatchOffer
  else if isLocal && !d.offer && !matchesLast d pc.lastAnswer then none   -- errSDPDoesNotMatchAnswer (answer, pranswer)
  else applyChecked pc isLocal (descTy d prov) d

/-- SetLocalDescription / SetRemoteDescription with type rollback: the SDP text is ignored, nothing but
    `setDescription` runs (no gathering, no transceiver loop, nothing is enqueued, transceivers and mids created by
    the rolled-back remote offer stay as they are) -/
def rollback (pc : PC) (isLocal : Bool) : PC × Res :=
  if pc.closed then (pc, .err) else
  match applyChecked pc isLocal .rollback { offer := false, secs := [] } with
  | none => (pc, .err)
  | some pc1 => (pc1, .ok)

/-- `setRTPTransceiverCurrentDirection`; stops at the first m-section without a transceiver -/
def setCurDirs (weOffer : Bool) : List Sec → List Nat → List Tr → List Tr
  | [], _, trs => trs
  | s :: rest, used, trs =>
    if s.app then setCurDirs weOffer rest used trs
    else
      match (List.range trs.length).find? (fun i => !used.contains i && (trs[i]?.map (·.mid)) == some (some s.mid)) with
      | none => trs
      | some i =>
        let d0 := if weOffer then s.dir.revers else s.dir
        let trs' := trs.modify i fun t =>
          let d := if !weOffer && d0 == .sendonly && t.sender.isNone then Dir.inactive else d0
          { t with curDir := some d }
        setCurDirs weOffer rest (i :: used) trs'

/-- `startRTPSenders`: `none` = errRTPSenderTrackRemoved -/
def startSenders : List Tr → Option (List Tr)
  | [] => some []
  | t :: ts =>
    match t.sender with
    | some s =>
      if s.negotiated && !s.sent then
        match s.track with
        | none => none
        | some _ => (startSenders ts).map ({ t with sender := some { s with sent := true } } :: ·)
      else (startSenders ts).map (t :: ·)
    | none => (startSenders ts).map (t :: ·)

def setLocal (pc : PC) (d : Desc) (prov : Bool) : PC × Res :=
  if pc.closed then (pc, .err) else
  match setDescription pc true d prov with
  | none => (pc, .err)
  | some pc1 =>
    if descTy d prov != .answer then ({ pc1 with gathered := true }, .ok)  -- `weAnswer` is false
    else
      match remoteDesc pc1 with
      | some r => ({ pc1 with tail := some (.localAnswer d r) }, .ok)
      | none => ({ pc1 with gathered := true }, .ok)

/-- the direction adjustment switch of SetRemoteDescription for a matched transceiver -/
def adjustDir (remote : Dir) (local_ : Dir) : Dir :=
  match remote, local_ with
  | .recvonly, .sendrecv => .sendonly
  | .recvonly, .recvonly => .inactive
  | .sendrecv, .sendonly => .sendrecv
  | .sendrecv, .inactive => .recvonly
  | .sendonly, .inactive => .recvonly
  | .sendonly, .sendrecv => .recvonly
  | .sendonly, .sendonly => .inactive
  | _, d => d

/-- satisfyTypeAndDirection: position of the transceiver to pluck -/
def satisfy (trs : List Tr) (used : List Nat) (k : Kind) (remote : Dir) : Option Nat :=
  let prefs : List Dir :=
    match remote with
    | .sendrecv => [.recvonly, .sendrecv, .sendonly]
    | .sendonly => [.recvonly]
    | .recvonly => [.sendonly, .sendrecv]
    | .inactive => []
  prefs.findSome? fun p =>
    (List.range trs.length).find? fun i =>
      !used.contains i && match trs[i]? with
        | some t => t.mid.isNone && t.kind == k && t.dir == p
        | none => false

/-- the m-section loop of SetRemoteDescription(offer). `n` = number of transceivers that existed when the
    loop started (only those can be matched). -/
def applyRemoteOffer (n : Nat) : List Sec → List Nat → PC → PC
  | [], _, pc => pc
  | s :: rest, used, pc =>
    if s.app then applyRemoteOffer n rest used pc
    else
      let byMid := (List.range n).find? (fun i => !used.contains i && (pc.trs[i]?.map (·.mid)) == some (some s.mid))
      let found : Option (Nat × Bool) :=
        match byMid with
        | some i => some (i, true)
        | none => (satisfy (pc.trs.take n) used s.kind s.dir).map (·, false)
      match found with
      | some (i, viaMid) =>
        let trs := pc.trs.modify i fun t =>
          let t := if viaMid && s.dir == .inactive then t.stop else t
          let t := { t with curRemoteDir := some s.dir, dir := adjustDir s.dir t.dir }
          if t.mid.isNone then { t with mid := some s.mid } else t
        applyRemoteOffer n rest (i :: used) { pc with trs := trs }
      | none =>
        let localDir : Dir :=
          match s.dir with
          | .recvonly => .sendonly
          | .inactive => .inactive
          | _ => .recvonly
        let t : Tr := { kind := s.kind, mid := some s.mid, dir := localDir, curRemoteDir := some s.dir }
        applyRemoteOffer n rest used (addTransceiverRaw pc t)

def setRemote (pc : PC) (d : Desc) (prov : Bool) : PC × Res :=
  if pc.closed then (pc, .err) else
  let isRenegotiation := pc.curRemote.isSome
  -- what can reject the description by looking at it alone runs before setDescription: a description without
  -- m-sections (an empty SDP text, or an offer/answer of a PeerConnection with nothing to describe) carries no
  -- ICE credentials (ErrSessionDescriptionMissingIceUfrag); pion-generated sections always have mid, ICE
  -- credentials and a fingerprint
  if d.secs.isEmpty then (pc, .err) else
  match setDescription pc false d prov with
  | none => (pc, .err)
  | some pc1 =>
    -- `weOffer := desc.Type == SDPTypeAnswer`: a provisional answer takes the path of an offer (the m-section
    -- loop adjusts the transceivers; startTransports is enqueued when there is no current remote description)
    if descTy d prov != .answer then
      let pc2 := applyRemoteOffer pc1.trs.length d.secs [] pc1
      if isRenegotiation then (pc2, .ok)
      else (enqueue { pc2 with stFromOffer := pc2.stFromOffer.orElse fun _ => some d.offer } (.st none), .ok)
    else ({ pc1 with tail := some (.remoteAnswer d isRenegotiation) }, .ok)

/-- the rest of SetLocalDescription(answer) / SetRemoteDescription(answer) -/
def runTail (pc : PC) : Tail → PC × Res
  | .localAnswer ans remote =>
    let trs := setCurDirs false ans.secs [] pc.trs
    match startSenders trs with
    | none => ({ pc with tail := none, trs := trs }, .errLate)
    | some trs => ({ enqueue { pc with tail := none, trs := trs } (.rtp (remote.secs.any (·.app))) with gathered := true }, .ok)
  | .remoteAnswer ans isRenegotiation =>
    let trs := setCurDirs true ans.secs [] pc.trs
    match startSenders trs with
    | none => ({ pc with tail := none, trs := trs }, .errLate)
    | some trs =>
      let app := ans.secs.any (·.app)
      if isRenegotiation then (enqueue { pc with tail := none, trs := trs } (.rtp app), .ok)
      else (enqueue { pc with tail := none, trs := trs, stFromOffer := pc.stFromOffer.orElse fun _ => some false }
              (.st (some app)), .ok)

/-- Close(): the first call closes; a blocked operation is released by stopping the transports -/
def close (pc : PC) : PC × Res :=
  if pc.closed then (pc, .ok) else
  let pc1 := { pc with closed := true, sig := .closed, trs := pc.trs.map Tr.stop }
  match pc.running with
  | some (.st rtp) => (afterST { pc1 with running := none } rtp, .ok)
  | some .sctp => ({ pc1 with running := none }, .ok)
  | none => (pc1, .ok)

/-! ### one PeerConnection as a transition system -/

inductive Api
  | addTrack (k : Kind) (trk : Nat)
  | removeTrack (sid : Nat)
  | addTransceiver (k : Kind) (d : Dir)
  | createDataChannel (openFails : Bool)
  | createOffer
  | createAnswer
  | setLocal (d : Desc) (prov : Bool)
  | setRemote (d : Desc) (prov : Bool)
  | rollback (isLocal : Bool)
  | close
  deriving Repr

def api (pc : PC) : Api → PC × Res
  | .addTrack k trk => addTrack pc k trk
  | .removeTrack sid => removeTrack pc sid
  | .addTransceiver k d => addTransceiver pc k d
  | .createDataChannel openFails => createDataChannel pc openFails
  | .createOffer => createOffer pc
  | .createAnswer => createAnswer pc
  | .setLocal d prov => setLocal pc d prov
  | .setRemote d prov => setRemote pc d prov
  | .rollback isLocal => rollback pc isLocal
  | .close => close pc

inductive Act
  | call (op : Api)
  | tail
  | work (env : Option Bool)
  deriving Repr

/-- `none`: the action is not enabled (an API call while the previous one has not returned; no tail pending;
    worker blocked or nothing to do) -/
def PC.step (pc : PC) : Act → Option PC
  | .call op => if pc.tail.isSome then none else some (api pc op).1
  | .tail =>
    match pc.tail with
    | some t => some (runTail pc t).1
    | none => none
  | .work env => work pc env

inductive Reach : PC → Prop
  | init : Reach {}
  | step {pc pc' : PC} (a : Act) : Reach pc → pc.step a = some pc' → Reach pc'

def PC.run (pc : PC) : List Act → Option PC
  | [] => some pc
  | a :: as => (pc.step a).bind (·.run as)

/-- nothing left to do and nothing in progress -/
def PC.quiescent (pc : PC) : Bool :=
  pc.tail.isNone && pc.queue.isEmpty && pc.running.isNone && !pc.updFlag

/-- no transceiver, no data channel, no local description: nothing has asked for a negotiation yet -/
def PC.pristine (pc : PC) : Bool :=
  pc.trs.isEmpty && pc.dcs == 0 && pc.curLocal.isNone

/-! ### two PeerConnections back to back -/

inductive Side | a | b
  deriving DecidableEq, Repr

structure World where
  a : PC := {}
  b : PC := {}
  deriving Repr

def World.get (w : World) : Side → PC
  | .a => w.a
  | .b => w.b

def World.set (w : World) (s : Side) (pc : PC) : World :=
  match s with
  | .a => { w with a := pc }
  | .b => { w with b := pc }

def Side.other : Side → Side
  | .a => .b
  | .b => .a

/-- what the peer `y` does to the operation `x` is blocked in.  startTransports succeeds once both ends have
    gathered and the peer has entered startTransports too and is not closed.  The SCTP handshake succeeds
    once the peer has started its association, and fails when the peer goes away (the DTLS close-notify ends
    it with an error). -/
def envFor (x y : PC) : Option Bool :=
  match x.running with
  | some (.st _) =>
    -- two ends that both started their transports from an applied offer (one of them rolled back since) both take
    -- the DTLS client role against an actpass peer: the handshake never happens
    if x.gathered && y.gathered && y.stEntered && !y.closed
        && !(x.stFromOffer == some true && y.stFromOffer == some true) then some true else none
  | some .sctp => if y.closed then some false else if y.sctpStarted then some true else none
  | none => none

/-- API calls as the harness issues them: remote descriptions are the peer's last offer / answer (an empty
    description of that type while there is none) -/
inductive WApi
  | addTrack (k : Kind) (trk : Nat)
  | removeTrack (k : Nat)                 -- the k-th sender handed out on that side
  | addTransceiver (k : Kind) (d : Dir)
  | createDataChannel
  | createOffer
  | createAnswer
  | setLocalOffer | setLocalAnswer | setRemoteOffer | setRemoteAnswer
  | setLocalPranswer | setRemotePranswer  -- the last answer's text applied with type pranswer
  | rollbackLocal | rollbackRemote
  | close
  deriving Repr, DecidableEq

/-- `none`: the harness skips the call (RemoveTrack of a sender that was never handed out) -/
def WApi.toApi (x y : PC) : WApi → Option Api
  | .addTrack k trk => some (.addTrack k trk)
  | .removeTrack k => (x.handed[k]?).map .removeTrack
  | .addTransceiver k d => some (.addTransceiver k d)
  | .createDataChannel => some (.createDataChannel y.closed)
  | .createOffer => some .createOffer
  | .createAnswer => some .createAnswer
  | .setLocalOffer => some (.setLocal (x.lastOffer.getD { offer := true, secs := [] }) false)
  | .setLocalAnswer => some (.setLocal (x.lastAnswer.getD { offer := false, secs := [] }) false)
  | .setRemoteOffer => some (.setRemote (y.lastOffer.getD { offer := true, secs := [] }) false)
  | .setRemoteAnswer => some (.setRemote (y.lastAnswer.getD { offer := false, secs := [] }) false)
  | .setLocalPranswer => some (.setLocal (x.lastAnswer.getD { offer := false, secs := [] }) true)
  | .setRemotePranswer => some (.setRemote (y.lastAnswer.getD { offer := false, secs := [] }) true)
  | .rollbackLocal => some (.rollback true)
  | .rollbackRemote => some (.rollback false)
  | .close => some .close

inductive WAct
  | call (s : Side) (op : WApi)
  | tail (s : Side)
  | work (s : Side)
  deriving Repr

/-- the single-PC action a world action amounts to on its side -/
def WAct.local (w : World) : WAct → Option (Side × Act)
  | .call s op => ((op.toApi (w.get s) (w.get s.other)).map fun a => (s, Act.call a))
  | .tail s => some (s, .tail)
  | .work s => some (s, .work (envFor (w.get s) (w.get s.other)))

def World.step (w : World) (a : WAct) : Option World :=
  match a.local w with
  | none => none
  | some (s, act) => ((w.get s).step act).map (w.set s)

inductive WReach : World → Prop
  | init : WReach {}
  | step {w w' : World} (a : WAct) : WReach w → w.step a = some w' → WReach w'

/-- run both workers until neither can move (the harness waits for exactly this) -/
def World.drain : Nat → World → World
  | 0, w => w
  | n + 1, w =>
    match w.step (.work .a) with
    | some w' => drain n w'
    | none =>
      match w.step (.work .b) with
      | some w' => drain n w'
      | none => w

end WebrtcVerif.NegNeeded
