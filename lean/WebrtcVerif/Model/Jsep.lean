/-
  Model.Jsep — the part of pion/webrtc's JSEP machinery that properties C06, C07 and C09 observe:
  which m-sections a generated description has, in which order, with which mid, which of them are
  accepted, and what the BUNDLE group lists.

  Mirrors, branch by branch (file:function), the code AFTER the fix commits
    62545c3 (dataMediaSectionMid: a new application section takes the first free number >= section count)
    1e29db3 (a rejected m-section keeps its a=mid)
    a3a3c09 (a remote m-section without direction attribute is sendrecv)
    f46bced (a remote m-section of an unsupported media type is rejected in place)
    ce37316 (CreateOffer raises greaterMid from all four descriptions and all transceivers, then numbers)
  and the other agents' fix commits that touch this code:
    55c599d (SetRemoteDescription checks mid presence, ICE credentials and fingerprint BEFORE setDescription)
    266f843 (direction adjustment switch: a sendonly remote section turns sendrecv into recvonly, sendonly
             into inactive)
    1a4f4ff (generateMatchedSDP, when answering, narrows each matched transceiver's direction with
             answerDirection before emitting it — a state change made by CreateAnswer):
    peerconnection.go: CreateOffer (updateGreaterMid scans, numbering loop, hasLocalDescriptionChanged retry loop),
      CreateAnswer, setDescription + signalingstate.go:checkNextSignalingState (offer/answer transitions),
      SetLocalDescription, SetRemoteDescription (m-section loop: findByMid, satisfyTypeAndDirection, new
      transceivers, direction adjustment switch, SetMid; extractICEDetails / extractFingerprint outcome),
      setRTPTransceiverCurrentDirection, generateUnmatchedSDP, generateMatchedSDP, AddTrack,
      AddTransceiverFromKind, RemoveTrack, CreateDataChannel (only dataChannelsRequested)
    sdp.go: populateSDP (BUNDLE construction, bundleMatchFromRemote, port 0 outside the remote group),
      addTransceiverSDP (rejection path for codec-less transceivers), addDataMediaSection,
      addUnsupportedMediaSection, dataMediaSectionMid, getMidValue, getPeerDirection,
      descriptionPossiblyPlanB, extractBundleID, selectCandidateMediaSection
    rtptransceiver.go: SetMid, Stop, setSendingTrack, isSendAllowed, findByMid, satisfyTypeAndDirection,
      getCodecs / setCodecPreferencesFromRemoteDescription (reduced, see below)
    mediaengine.go: updateFromRemoteDescription / getCodecsByKind with multi-codec negotiation (the default),
      reduced to which of opus, PCMU, VP8 the negotiated lists hold

  Abstractions (what the harness maps real SDP to):
    * a mid is `Mid.num n` when its text is the canonical decimal of a natural number (what
      strconv.Itoa prints), otherwise `Mid.other text`; so Itoa is injective and Atoi ∘ Itoa = id by
      construction.  Go's `int` is 64 bit: Atoi fails above 2^63-1 and `greaterMid++` wraps (modelled).
    * a media section is reduced to media name, mid, port = 0, the list of direction attributes, presence
      of ice-ufrag / ice-pwd / fingerprint, the setup value, whether it lists opus (audio) / VP8 (video), and
      whether it lists PCMU — by rtpmap or as the static payload type 0 that the format list of a rejected
      m-section ("0") denotes.
  Not modelled: SSRC-based Plan-B detection (descriptionIsPlanB; no generated description has two tracks
  under one mid), ICE / DTLS start-up (asynchronous, never completes without candidates), errors of
  RTPSender.Send (raised after every state change modelled here; the harness reports them as success),
  pranswer / rollback, session-level ICE credentials, a=setup other than actpass in remote descriptions.
-/
namespace WebrtcVerif.Jsep

inductive Kind | audio | video
  deriving DecidableEq, Repr, Inhabited

inductive Dir | sendrecv | sendonly | recvonly | inactive
  deriving DecidableEq, Repr, Inhabited

/-- `num n` is the text `strconv.Itoa(n)`; `other s` is any other non-empty text. -/
inductive Mid | num (n : Nat) | other (s : String)
  deriving DecidableEq, Repr, Inhabited

inductive Sem | unified | fallback | planB
  deriving DecidableEq, Repr, Inhabited

inductive Sig | stable | haveLocalOffer | haveRemoteOffer
  deriving DecidableEq, Repr, Inhabited

inductive SdpType | offer | answer
  deriving DecidableEq, Repr, Inhabited

inductive Setup | actpass | active | passive | other
  deriving DecidableEq, Repr, Inhabited

inductive Err
  | noMid        -- errPeerConnRemoteDescriptionWithoutMidValue
  | midNil       -- errPeerConnTranscieverMidNil
  | semantics    -- ErrIncorrectSDPSemantics
  | senderNoCodecs -- ErrSenderWithNoCodecs
  | retries      -- errExcessiveRetries
  | state        -- signaling state / no remote description
  | mismatch     -- errSDPDoesNotMatchOffer / Answer
  | noCodecs     -- ErrNoCodecsAvailable
  | direction    -- errPeerConnAddTransceiverFromKindSupport / errRTPTransceiverSetSendingInvalidState
  | parse        -- pion/sdp refuses the text (media name outside audio|video|text|application|message)
  | ice          -- ErrSessionDescriptionMissingIceUfrag / MissingIcePwd
  | fingerprint  -- ErrSessionDescriptionNoFingerprint
  deriving DecidableEq, Repr, Inhabited

/-! ### Go integers and mids -/

def maxInt64 : Int := 9223372036854775807
def minInt64 : Int := -9223372036854775808

def digitVal (c : Char) : Option Nat :=
  if '0' ≤ c ∧ c ≤ '9' then some (c.toNat - 48) else none

/-- value of a non-empty all-digit list -/
def digitsVal : List Char → Option Nat
  | [] => none
  | cs => cs.foldl (fun acc c => match acc, digitVal c with
                                  | some a, some d => some (a * 10 + d)
                                  | _, _ => none) (some 0)

/-- strconv.Atoi on arbitrary text: optional sign, at least one ASCII digit, no underscores, int64 range. -/
def parseGoInt (s : String) : Option Int :=
  let r : Bool × List Char := match s.toList with
    | '-' :: r => (true, r)
    | '+' :: r => (false, r)
    | r => (false, r)
  match digitsVal r.2 with
  | none => none
  | some v =>
    let i : Int := if r.1 then -(v : Int) else (v : Int)
    if minInt64 ≤ i ∧ i ≤ maxInt64 then some i else none

/-- strconv.Atoi -/
def Mid.atoi : Mid → Option Int
  | .num n => if (n : Int) ≤ maxInt64 then some (n : Int) else none
  | .other s => parseGoInt s

/-- strconv.Itoa -/
def itoa (i : Int) : Mid := if 0 ≤ i then .num i.toNat else .other (toString i)

/-- `pc.greaterMid++` on a 64-bit int -/
def wrapInc (g : Int) : Int := if g = maxInt64 then minInt64 else g + 1

/-- `if numericMid > pc.greaterMid { pc.greaterMid = numericMid }` for a mid that may not be numeric -/
def bump (g : Int) (m : Mid) : Int :=
  match m.atoi with
  | some n => if n > g then n else g
  | none => g

/-! ### Media names -/

/-- NewRTPCodecType / the switch of updateFromRemoteDescription: strings.EqualFold against "audio" / "video"
    (no letter of either word has a non-ASCII case-fold partner, so ASCII lower-casing is exact). -/
def kindOf (media : String) : Option Kind :=
  if media.toLower = "audio" then some .audio
  else if media.toLower = "video" then some .video
  else none

def Kind.name : Kind → String
  | .audio => "audio" | .video => "video"

def mediaApplication : String := "application"

/-! ### Transceivers -/

structure Tr where
  kind : Kind
  /-- `none` = Go's "" (not set) -/
  mid : Option Mid := none
  dir : Dir
  /-- `none` = RTPTransceiverDirectionUnknown -/
  curDir : Option Dir := none
  curRemoteDir : Option Dir := none
  hasSender : Bool
  /-- `t.codecs` (set by setCodecPreferencesFromRemoteDescription when the transceiver is created for a
      remote m-section), reduced to (opus or VP8, PCMU); (false, false) = empty = use the engine's list -/
  pref : Bool × Bool := (false, false)
  deriving DecidableEq, Repr, Inhabited

/-- RTPTransceiver.Stop -/
def Tr.stop (t : Tr) : Tr := { t with dir := .inactive, curDir := some .inactive }

/-- RTPTransceiver.SetMid succeeds only on an unset mid; every caller tests `Mid() == ""` first. -/
def Tr.setMidIfUnset (t : Tr) (m : Mid) : Tr :=
  match t.mid with
  | none => { t with mid := some m }
  | some _ => t

/-- rtptransceiver.go:isSendAllowed -/
def Tr.isSendAllowed (t : Tr) (k : Kind) : Bool :=
  t.kind = k && !t.hasSender
    && !(t.curDir = some .sendrecv || t.curDir = some .sendonly)
    && !(t.curRemoteDir = some .sendonly || t.curRemoteDir = some .inactive)

/-- setSendingTrack(track) with track ≠ nil: direction switch (no error case is reachable) -/
def Tr.attachTrack (t : Tr) : Tr :=
  { t with hasSender := true,
           dir := match t.dir with
                  | .recvonly => .sendrecv
                  | .inactive => .sendonly
                  | d => d }

/-- setSendingTrack(nil): sender removed; `none` for the direction = errRTPTransceiverSetSendingInvalidState -/
def Tr.detachTrack (t : Tr) : Tr × Bool :=
  match t.dir with
  | .sendrecv => ({ t with hasSender := false, dir := .recvonly }, true)
  | .sendonly => ({ t with hasSender := false, dir := .inactive }, true)
  | _ => ({ t with hasSender := false }, false)

/-! ### Abstract descriptions -/

structure Sec where
  media : String
  mid : Option Mid
  port0 : Bool
  dirs : List Dir
  ufrag : Bool
  pwd : Bool
  setup : Option Setup
  fp : Bool
  /-- lists opus (audio section) / VP8 (video section), the codec every reference media engine of its
      kind registers -/
  codecOK : Bool
  /-- audio section that lists PCMU, by rtpmap or as the static payload type 0 — which is what the
      format list "0" of a rejected m-section means to codecsFromMediaDescription -/
  pcmu : Bool := false
  deriving DecidableEq, Repr, Inhabited

structure Desc where
  typ : SdpType
  /-- members of the first session-level `a=group:BUNDLE …` attribute -/
  bundle : Option (List Mid)
  sessFp : Bool
  secs : List Sec
  deriving DecidableEq, Repr, Inhabited

def Desc.mids (d : Desc) : List (Option Mid) := d.secs.map (·.mid)

/-- sdp.go:descriptionPossiblyPlanB — a mid matching (?i)^(audio|video|data)$ -/
def possiblyPlanB (d : Desc) : Bool :=
  d.secs.any fun s => match s.mid with
    | some (.other m) => m.toLower = "audio" || m.toLower = "video" || m.toLower = "data"
    | _ => false

/-! ### PeerConnection state -/

structure Cfg where
  sem : Sem := .unified
  /-- SettingEngine.SetSDPMediaLevelFingerprints -/
  mediaFp : Bool := false
  /-- Configuration.AlwaysNegotiateDataChannels -/
  alwaysDC : Bool := false
  /-- codecs registered in the MediaEngine: opus, VP8, PCMU (RegisterDefaultCodecs has all three) -/
  engAudio : Bool := true
  engVideo : Bool := true
  engPCMU : Bool := true
  deriving DecidableEq, Repr, Inhabited

structure St where
  cfg : Cfg := {}
  trs : List Tr := []
  /-- sctpTransport.dataChannelsRequested != 0 -/
  dcReq : Bool := false
  greaterMid : Int := -1
  sig : Sig := .stable
  curLocal : Option Desc := none
  pendLocal : Option Desc := none
  curRemote : Option Desc := none
  pendRemote : Option Desc := none
  /-- serial numbers stand for the SDP text compared by setDescription (every text is unique: the origin
      version increases) -/
  serial : Nat := 0
  lastOffer : Option Nat := none
  lastAnswer : Option Nat := none
  /-- the last and the one-before-last description this peer created, with their serial numbers -/
  created : Option (Nat × Desc) := none
  createdPrev : Option (Nat × Desc) := none
  /-- MediaEngine.negotiatedAudio: `some (opus, pcmu)` once negotiated = which of the two the negotiated
      list holds -/
  negAudio : Option (Bool × Bool) := none
  /-- MediaEngine.negotiatedVideo: `some b` once negotiated, b = the negotiated list holds VP8 -/
  negVideo : Option Bool := none
  deriving Repr, Inhabited

/-- getCodecsByKind(audio), reduced to (has opus, has PCMU) -/
def St.audioCodecs (st : St) : Bool × Bool :=
  match st.negAudio with
  | some c => c
  | none => (st.cfg.engAudio, st.cfg.engPCMU)

/-- `len(getCodecsByKind(kind)) != 0`, which (codec preferences only ever hold matched codecs) is also
    `len(transceiver.getCodecs()) != 0` -/
def St.hasCodecs (st : St) : Kind → Bool
  | .audio => st.audioCodecs.1 || st.audioCodecs.2
  | .video => match st.negVideo with | some b => b | none => st.cfg.engVideo

/-- getCodecsByKind(kind), reduced to (has opus / VP8, has PCMU) -/
def St.kindCodecs (st : St) : Kind → Bool × Bool
  | .audio => st.audioCodecs
  | .video => (st.hasCodecs .video, false)

/-- RTPTransceiver.getCodecs, reduced the same way: the preferences that still match the engine's list,
    or the engine's list when there are none -/
def St.listed (st : St) (t : Tr) : Bool × Bool :=
  if t.pref = (false, false) then st.kindCodecs t.kind
  else (t.pref.1 && (st.kindCodecs t.kind).1, t.pref.2 && (st.kindCodecs t.kind).2)

/-- PeerConnection.RemoteDescription(): pending, else current -/
def St.remoteDesc (st : St) : Option Desc :=
  match st.pendRemote with
  | some d => some d
  | none => st.curRemote

/-! ### MediaEngine.updateFromRemoteDescription (multi-codec negotiation on, the default) -/

/-- The first m-section of a kind switches that kind to its negotiated codec list; every m-section of the
    kind (the first and, with multi-codec negotiation, the later ones) pushes the codecs it shares with
    the registered ones onto that list.  Nothing is ever removed. -/
def engineStep (st : St) (s : Sec) : St :=
  match kindOf s.media with
  | some .audio =>
    let c := st.negAudio.getD (false, false)
    { st with negAudio := some (c.1 || (st.cfg.engAudio && s.codecOK), c.2 || (st.cfg.engPCMU && s.pcmu)) }
  | some .video =>
    { st with negVideo := some ((st.negVideo.getD false) || (st.cfg.engVideo && s.codecOK)) }
  | none => st

def engineUpdate (st : St) (d : Desc) : St := d.secs.foldl engineStep st

/-! ### Plucking transceivers from the list of not yet matched ones -/

/-- remove and return the first element satisfying `p` (`append(l[:i], l[i+1:]...)`) -/
def pluck (p : Tr → Bool) : List Tr → Option (Tr × List Tr)
  | [] => none
  | t :: ts =>
    if p t then some (t, ts)
    else match pluck p ts with
      | some (x, r) => some (x, t :: r)
      | none => none

/-- rtptransceiver.go:findByMid -/
def findByMid (m : Mid) (l : List Tr) : Option (Tr × List Tr) := pluck (fun t => t.mid = some m) l

/-- preference lists of satisfyTypeAndDirection -/
def prefDirs : Dir → List Dir
  | .sendrecv => [.recvonly, .sendrecv, .sendonly]
  | .sendonly => [.recvonly]
  | .recvonly => [.sendonly, .sendrecv]
  | .inactive => []

def firstSome {α β : Type} (f : α → Option β) : List α → Option β
  | [] => none
  | a :: as => match f a with
    | some b => some b
    | none => firstSome f as

/-- rtptransceiver.go:satisfyTypeAndDirection -/
def satisfy (k : Kind) (d : Dir) (l : List Tr) : Option (Tr × List Tr) :=
  firstSome (fun pd => pluck (fun t => t.mid = none && t.kind = k && t.dir = pd) l) (prefDirs d)

/-! ### Generating a description -/

/-- sdp.go:mediaSection, reduced -/
inductive MSec
  /-- a media section generated from (the first of) its transceiver(s) -/
  | tr (id : Mid) (t : Tr)
  /-- the application section -/
  | data (id : Mid)
  /-- a remote m-section of a media type that is neither audio, video nor application: rejected in place -/
  | unsupported (id : Mid) (media : String)
  deriving DecidableEq, Repr, Inhabited

def MSec.id : MSec → Mid
  | .tr id _ => id
  | .data id => id
  | .unsupported id _ => id

/-- getPeerDirection: the first direction attribute -/
def Sec.peerDir (s : Sec) : Option Dir := s.dirs.head?

/-- the direction a remote offer's m-section asks for: sendrecv when it has no direction attribute
    (RFC 3264 S5.1) -/
def Sec.offeredDir (s : Sec) : Dir := s.peerDir.getD .sendrecv

/-- Plan-B branch of generateMatchedSDP: pluck every local transceiver that satisfies (kind, direction);
    returns the first one (the only one the section attributes depend on), or an inactive stand-in. -/
def gatherPlanB (k : Kind) (d : Dir) : Nat → List Tr → Option Tr → Tr × List Tr
  | 0, l, first => (first.getD { kind := k, dir := .inactive, hasSender := false }, l)
  | fuel + 1, l, first =>
    match satisfy k d l with
    | none => (first.getD { kind := k, dir := .inactive, hasSender := false }, l)
    | some (t, l') => gatherPlanB k d fuel l' (some (first.getD t))

/-- rtptransceiver.go:answerDirection — the local direction narrowed to a legal answer (RFC 3264 S6.1) -/
def answerDirection (offered local_ : Dir) : Dir :=
  let send := (local_ = .sendrecv || local_ = .sendonly) && (offered = .sendrecv || offered = .recvonly)
  let recv := (local_ = .sendrecv || local_ = .recvonly) && (offered = .sendrecv || offered = .sendonly)
  if send && recv then .sendrecv else if send then .sendonly else if recv then .recvonly else .inactive

/-- `if !includeUnmatched { transceiver.setDirection(answerDirection(direction, transceiver.Direction())) }` -/
def Tr.narrow (ans : Bool) (offered : Dir) (t : Tr) : Tr :=
  if ans then { t with dir := answerDirection offered t.dir } else t

/-- `mediaSections = append(mediaSections, …)` seen from the front of the loop: prepend to what the rest of
    the loop produces -/
def pushSec (m : MSec) (isApp : Bool) :
    Except Err (List MSec × List Tr × Bool) → Except Err (List MSec × List Tr × Bool)
  | .ok (ms, l, app) => .ok (m :: ms, l, app || isApp)
  | .error e => .error e

/-- the m-section loop of generateMatchedSDP.  Returns the sections, the transceivers left over and
    `alreadyHaveApplicationMediaSection`. -/
def matchLoop (sem : Sem) (detectedPlanB : Bool) (ans : Bool) :
    List Sec → List Tr → Except Err (List MSec × List Tr × Bool)
  | [], loc => .ok ([], loc, false)
  | s :: rest, loc =>
    match s.mid with
    | none => .error .noMid
    | some m =>
      if s.media = mediaApplication then pushSec (.data m) true (matchLoop sem detectedPlanB ans rest loc)
      else
        match kindOf s.media with
        | none => pushSec (.unsupported m s.media) false (matchLoop sem detectedPlanB ans rest loc)
        | some k =>
          if sem = .planB || (sem = .fallback && detectedPlanB) then
            if !detectedPlanB then .error .semantics
            else
              let r := gatherPlanB k s.offeredDir loc.length loc none
              pushSec (.tr m r.1) false (matchLoop sem detectedPlanB ans rest r.2)
          else
            if detectedPlanB then .error .semantics
            else match findByMid m loc with
              | none => .error .midNil
              | some (t, loc') => pushSec (.tr m (t.narrow ans s.offeredDir)) false (matchLoop sem detectedPlanB ans rest loc')

/-- bundleMatchFromRemote: nil ⇒ everything matches; otherwise membership in the remote group
    (an absent group attribute gives the tag list [""] that no mid equals) -/
def bundleMatch (grp : Option (Option (List Mid))) (m : Mid) : Bool :=
  match grp with
  | none => true
  | some none => false
  | some (some l) => l.contains m

/-- one media section of populateSDP: the emitted section and whether its id joins the BUNDLE group -/
def populateOne (st : St) (role : Setup) (grp : Option (Option (List Mid))) : MSec → Except Err (Sec × Bool)
  | .data id =>
    let inB := bundleMatch grp id
    .ok ({ media := mediaApplication, mid := some id, port0 := !inB, dirs := [.sendrecv], ufrag := true, pwd := true,
           setup := some role, fp := st.cfg.mediaFp, codecOK := false }, inB)
  | .tr id t =>
    if st.hasCodecs t.kind then
      let inB := bundleMatch grp id
      .ok ({ media := t.kind.name, mid := some id, port0 := !inB, dirs := [t.dir], ufrag := true, pwd := true,
             setup := some role, fp := st.cfg.mediaFp,
             codecOK := (st.listed t).1, pcmu := (st.listed t).2 }, inB)
    else if t.hasSender then .error .senderNoCodecs
    else
      -- "Explicitly reject track if we don't have the codec": m=<kind> 0 … 0 with a c= line and its mid
      .ok ({ media := t.kind.name, mid := some id, port0 := true, dirs := [], ufrag := false, pwd := false,
             setup := none, fp := false, codecOK := false, pcmu := t.kind = .audio }, false)
  | .unsupported id media =>
    -- addUnsupportedMediaSection: the remote media line with port 0, a c= line and the mid
    .ok ({ media := media, mid := some id, port0 := true, dirs := [], ufrag := false, pwd := false,
           setup := none, fp := false, codecOK := false, pcmu := false }, false)

/-- prepend one emitted section (and its id, when it joins the group) to the rest -/
def pushPop (id : Mid) (r : Sec × Bool) : Except Err (List Sec × List Mid) → Except Err (List Sec × List Mid)
  | .ok (ss, b) => .ok (r.1 :: ss, if r.2 then id :: b else b)
  | .error e => .error e

def populateSecs (st : St) (role : Setup) (grp : Option (Option (List Mid))) :
    List MSec → Except Err (List Sec × List Mid)
  | [] => .ok ([], [])
  | m :: ms =>
    match populateOne st role grp m with
    | .error e => .error e
    | .ok r => pushPop m.id r (populateSecs st role grp ms)

/-- sdp.go:populateSDP -/
def populate (st : St) (typ : SdpType) (role : Setup) (grp : Option (Option (List Mid))) (ms : List MSec) :
    Except Err Desc :=
  match populateSecs st role grp ms with
  | .error e => .error e
  | .ok (ss, b) =>
    .ok { typ := typ, bundle := if b.isEmpty then none else some b, sessFp := !st.cfg.mediaFp, secs := ss }

/-- the loop of dataMediaSectionMid: the first candidate from `n` upwards that is no section's id.  The Go
    loop is unbounded; among `fuel + 1` consecutive numbers one is free when there are `fuel` ids, so the
    bound is never what stops it (`firstFree_fresh` in Proofs/JsepLemmas). -/
def firstFree (ids : List Mid) : Nat → Nat → Nat
  | 0, n => n
  | fuel + 1, n => if ids.contains (.num n) then firstFree ids fuel (n + 1) else n

/-- sdp.go:dataMediaSectionMid — the mid of a freshly added application section -/
def dataMid (ms : List MSec) : Mid := .num (firstFree (ms.map MSec.id) ms.length ms.length)

def wantsData (st : St) : Bool := st.cfg.alwaysDC || st.dcReq

/-- peerconnection.go:generateUnmatchedSDP -/
def generateUnmatched (st : St) : Except Err Desc :=
  let ms : List MSec :=
    if st.cfg.sem = .planB then
      let video := st.trs.filter (·.kind = .video)
      let audio := st.trs.filter (·.kind = .audio)
      (match video with | t :: _ => [MSec.tr (.other "video") t] | [] => [])
        ++ (match audio with | t :: _ => [MSec.tr (.other "audio") t] | [] => [])
        ++ (if wantsData st then [MSec.data (.other "data")] else [])
    else
      let base := st.trs.map fun t => MSec.tr (t.mid.getD (.other "")) t
      base ++ (if wantsData st then [MSec.data (dataMid base)] else [])
  populate st .offer .actpass none ms

/-- peerconnection.go:generateMatchedSDP -/
def generateMatched (st : St) (remote : Desc) (includeUnmatched : Bool) (role : Setup) : Except Err Desc :=
  let detectedPlanB := st.cfg.sem != .unified && possiblyPlanB remote
  match matchLoop st.cfg.sem detectedPlanB (!includeUnmatched) remote.secs st.trs with
  | .error e => .error e
  | .ok (ms, left, haveApp) =>
    if includeUnmatched then
      let ms1 := if detectedPlanB then ms else ms ++ left.map fun t => MSec.tr (t.mid.getD (.other "")) t
      let ms2 :=
        if wantsData st && !haveApp then
          ms1 ++ [MSec.data (if detectedPlanB then .other "data" else dataMid ms1)]
        else ms1
      populate st .offer role none ms2
    else
      populate st .answer role (some remote.bundle) ms

/-! ### CreateOffer -/

/-- updateGreaterMid over the m-sections of one description -/
def scanSecs (g : Int) : List Sec → Int
  | [] => g
  | s :: rest =>
    match s.mid with
    | some m => scanSecs (bump g m) rest
    | none => scanSecs g rest

def scanDesc (g : Int) : Option Desc → Int
  | some d => scanSecs g d.secs
  | none => g

/-- updateGreaterMid over the transceivers that have a mid -/
def scanTrs (g : Int) : List Tr → Int
  | [] => g
  | t :: ts =>
    match t.mid with
    | some m => scanTrs (bump g m) ts
    | none => scanTrs g ts

/-- the numbering loop: every transceiver without a mid gets the next number -/
def allocMids (g : Int) : List Tr → Int × List Tr
  | [] => (g, [])
  | t :: ts =>
    match t.mid with
    | some _ =>
      let r := allocMids g ts
      (r.1, t :: r.2)
    | none =>
      let g' := wrapInc g
      let r := allocMids g' ts
      (r.1, { t with mid := some (itoa g') } :: r.2)

/-- greaterMid after looking at all four descriptions and all transceivers -/
def scanAll (st : St) : Int :=
  scanTrs (scanDesc (scanDesc (scanDesc (scanDesc st.greaterMid st.curRemote) st.pendRemote) st.curLocal) st.pendLocal)
    st.trs

/-- sdp.go:getByMid on an abstract description -/
def getByMid (m : Option Mid) (d : Desc) : Option Sec :=
  match m with
  | none => none
  | some _ => d.secs.find? (fun s => s.mid = m)

/-- peerconnection.go:hasLocalDescriptionChanged -/
def hasLocalDescriptionChanged (trs : List Tr) (d : Desc) : Bool :=
  trs.any fun t => match getByMid t.mid d with
    | none => true
    | some s => s.peerDir != some t.dir

/-- the state registers a newly created description -/
def St.register (st : St) (d : Desc) : St :=
  let n := st.serial
  let st := { st with serial := n + 1, createdPrev := st.created, created := some (n, d) }
  match d.typ with
  | .offer => { st with lastOffer := some n }
  | .answer => { st with lastAnswer := some n }

/-- `isPlanB` of CreateOffer: the configured semantics, re-examined on the current remote description -/
def offerIsPlanB (st : St) : Bool :=
  match st.curRemote with
  | some r => if st.cfg.sem = .planB then possiblyPlanB r else false
  | none => st.cfg.sem = .planB

/-- the state after CreateOffer's numbering loop (skipped for Plan B) -/
def offerState (st : St) : St :=
  if offerIsPlanB st then st
  else { st with greaterMid := (allocMids (scanAll st) st.trs).1, trs := (allocMids (scanAll st) st.trs).2 }

/-- generateUnmatchedSDP without, generateMatchedSDP with a current remote description -/
def offerDesc (st : St) : Except Err Desc :=
  match st.curRemote with
  | none => generateUnmatched st
  | some _ =>
    match st.remoteDesc with
    | some r => generateMatched st r true .actpass
    | none => .error .state

/-- peerconnection.go:CreateOffer.  The retry loop re-runs the same computation (nothing else runs in
    between), so a description that "changed" once changes 128 times: errExcessiveRetries. -/
def createOffer (st : St) : St × Except Err Desc :=
  match offerDesc (offerState st) with
  | .error e => (offerState st, .error e)
  | .ok d =>
    if !offerIsPlanB st && hasLocalDescriptionChanged (offerState st).trs d then (offerState st, .error .retries)
    else ((offerState st).register d, .ok d)

/-! ### CreateAnswer -/

/-- update the first not yet matched transceiver satisfying `p` -/
def updFirst (p : Tr → Bool) (f : Tr → Tr) : List (Tr × Bool) → Option (List (Tr × Bool))
  | [] => none
  | (t, used) :: rest =>
    if !used && p t then some ((f t, true) :: rest)
    else match updFirst p f rest with
      | some r => some ((t, used) :: r)
      | none => none

/-- the direction narrowing that generateMatchedSDP performs on the PeerConnection's own transceivers while
    it answers (Unified-Plan path): section by section, on the first not yet matched transceiver with the
    section's mid; it stops where the loop returns an error -/
def narrowLoop : List Sec → List (Tr × Bool) → List (Tr × Bool)
  | [], w => w
  | s :: rest, w =>
    match s.mid with
    | none => w
    | some m =>
      if s.media = mediaApplication then narrowLoop rest w
      else match kindOf s.media with
        | none => narrowLoop rest w
        | some _ =>
          match updFirst (fun t => t.mid = some m) (Tr.narrow true s.offeredDir) w with
          | none => w
          | some w' => narrowLoop rest w'

/-- the state CreateAnswer leaves behind whether or not it succeeds (once it got as far as generateMatchedSDP) -/
def answerState (st : St) (r : Desc) : St :=
  let detectedPlanB := st.cfg.sem != .unified && possiblyPlanB r
  if st.cfg.sem = .planB || detectedPlanB then st
  else { st with trs := (narrowLoop r.secs (st.trs.map fun t => (t, false))).map (·.1) }

/-- peerconnection.go:CreateAnswer (the remote descriptions of the generators all carry a=setup:actpass
    and no a=ice-lite, so the answering role is the default `active`) -/
def createAnswer (st : St) : St × Except Err Desc :=
  match st.remoteDesc with
  | none => (st, .error .state)
  | some r =>
    if st.sig != .haveRemoteOffer then (st, .error .state)
    else match generateMatched st r false .active with
      | .error e => (answerState st r, .error e)
      | .ok d => ((answerState st r).register d, .ok d)

/-! ### setRTPTransceiverCurrentDirection -/

/-- update the first not yet visited transceiver carrying mid `m` -/
def updByMid (m : Mid) (f : Tr → Tr) : List (Tr × Bool) → Option (List (Tr × Bool))
  | [] => none
  | (t, used) :: rest =>
    if !used && t.mid = some m then some ((f t, true) :: rest)
    else match updByMid m f rest with
      | some r => some ((t, used) :: r)
      | none => none

def curDirLoop (weOffer : Bool) : List Sec → List (Tr × Bool) → List (Tr × Bool)
  | [], w => w
  | s :: rest, w =>
    match s.mid with
    | none => w                     -- return errPeerConnRemoteDescriptionWithoutMidValue (ignored by callers)
    | some m =>
      if s.media = mediaApplication then curDirLoop weOffer rest w
      else
        let f : Tr → Tr := fun t =>
          match s.peerDir with
          | none => t
          | some d =>
            let d := if weOffer then
                (match d with | .sendonly => Dir.recvonly | .recvonly => Dir.sendonly | x => x) else d
            let d := if !weOffer && d = .sendonly && !t.hasSender then Dir.inactive else d
            { t with curDir := some d }
        match updByMid m f w with
        | none => w                 -- return errPeerConnTranscieverMidNil (ignored by callers)
        | some w' => curDirLoop weOffer rest w'

def setCurrentDirections (answer : Desc) (weOffer : Bool) (trs : List Tr) : List Tr :=
  (curDirLoop weOffer answer.secs (trs.map fun t => (t, false))).map (·.1)

/-! ### setDescription (offer / answer transitions of checkNextSignalingState) -/

def setDescLocal (st : St) (serial : Nat) (d : Desc) : Except Err St :=
  match d.typ with
  | .offer =>
    if st.lastOffer != some serial then .error .mismatch
    else if st.sig = .stable then .ok { st with sig := .haveLocalOffer, pendLocal := some d }
    else .error .state
  | .answer =>
    if st.lastAnswer != some serial then .error .mismatch
    else if st.sig = .haveRemoteOffer then
      .ok { st with sig := .stable, curLocal := some d, curRemote := st.pendRemote, pendRemote := none, pendLocal := none }
    else .error .state

def setDescRemote (st : St) (d : Desc) : Except Err St :=
  match d.typ with
  | .offer =>
    if st.sig = .stable then .ok { st with sig := .haveRemoteOffer, pendRemote := some d }
    else .error .state
  | .answer =>
    if st.sig = .haveLocalOffer then
      .ok { st with sig := .stable, curRemote := some d, curLocal := st.pendLocal, pendRemote := none, pendLocal := none }
    else .error .state

/-! ### SetLocalDescription -/

def setLocal (st : St) (serial : Nat) (d : Desc) : St × Except Err Unit :=
  match setDescLocal st serial d with
  | .error e => (st, .error e)
  | .ok st1 =>
    if d.typ = .answer && st1.remoteDesc.isSome then
      ({ st1 with trs := setCurrentDirections d false st1.trs }, .ok ())
    else (st1, .ok ())

/-! ### SetRemoteDescription -/

/-- the direction adjustment switch for an existing transceiver -/
def adjustDir (remote : Dir) (local_ : Dir) : Dir :=
  match remote, local_ with
  | .recvonly, .sendrecv => .sendonly
  | .recvonly, .recvonly => .inactive
  | .sendrecv, .sendonly => .sendrecv
  | .sendrecv, .inactive => .recvonly
  | .sendonly, .inactive => .recvonly
  | .sendonly, .sendrecv => .recvonly
  | .sendonly, .sendonly => .inactive
  | _, l => l

/-- what happens to a transceiver found by mid -/
def onFoundByMid (m : Mid) (d : Dir) (t : Tr) : Tr :=
  let t := if d = .inactive then t.stop else t
  let t := { t with curRemoteDir := some d }
  let t := { t with dir := adjustDir d t.dir }
  t.setMidIfUnset m

/-- what happens to a transceiver found by kind and direction -/
def onSatisfied (m : Mid) (d : Dir) (t : Tr) : Tr :=
  let t := { t with curRemoteDir := some d }
  let t := { t with dir := adjustDir d t.dir }
  t.setMidIfUnset m

/-- the transceiver created for a remote section nobody matches -/
def newFromRemote (k : Kind) (m : Mid) (d : Dir) (pref : Bool × Bool) : Tr :=
  { kind := k, mid := some m,
    dir := match d with | .recvonly => .sendonly | .inactive => .inactive | _ => .recvonly,
    curDir := none, curRemoteDir := some d, hasSender := false, pref := pref }

def satisfyUpd (k : Kind) (d : Dir) (m : Mid) (w : List (Tr × Bool)) : Option (List (Tr × Bool)) :=
  firstSome (fun pd => updFirst (fun t => t.mid = none && t.kind = k && t.dir = pd) (onSatisfied m d) w) (prefDirs d)

/-- one remote m-section in SetRemoteDescription (offer, not Plan B) -/
def remoteSecStep (st : St) (s : Sec) (w : List (Tr × Bool)) : Except Err (List (Tr × Bool)) :=
  match s.mid with
  | none => .error .noMid
  | some m =>
    if s.media = mediaApplication then .ok w
    else match kindOf s.media with
      | none => .ok w
      | some k =>
        let d := s.offeredDir
        match updFirst (fun t => t.mid = some m) (onFoundByMid m d) w with
        | some w' => .ok w'
        | none =>
          match satisfyUpd k d m w with
          | some w' => .ok w'
          | none =>
            -- setCodecPreferencesFromRemoteDescription: the section's codecs that the engine has negotiated
            let eng := st.kindCodecs k
            .ok (w ++ [(newFromRemote k m d (s.codecOK && eng.1, s.pcmu && eng.2), true)])

/-- the whole loop; on an error the transceivers changed so far stay changed -/
def remoteLoop (st : St) : List Sec → List (Tr × Bool) → List (Tr × Bool) × Bool
  | [], w => (w, true)
  | s :: rest, w =>
    match remoteSecStep st s w with
    | .error _ => (w, false)
    | .ok w' => remoteLoop st rest w'

/-- pion/sdp's unmarshalMediaDescription accepts exactly these media names -/
def parsableMedia (m : String) : Bool :=
  m = "audio" || m = "video" || m = "text" || m = "application" || m = "message"

/-- sdp.go:extractBundleID -/
def Desc.bundleId (d : Desc) : Option Mid :=
  match d.bundle with
  | some (b :: _) => some b
  | _ => none

/-- sdp.go:selectCandidateMediaSection: the BUNDLE master section, without a group the first section -/
def Desc.candidateSec (d : Desc) : Option Sec :=
  match d.bundleId with
  | some b => d.secs.find? (fun s => s.mid = some b)
  | none => d.secs.head?

/-- sdp.go:extractICEDetails succeeds (no description here has session-level credentials) -/
def iceOK (d : Desc) : Bool :=
  match d.candidateSec with
  | some s => s.ufrag && s.pwd
  | none => false

/-- sdp.go:extractFingerprint finds one: session level, else the BUNDLE master section, else (no group)
    any section -/
def fingerprintOK (d : Desc) : Bool :=
  d.sessFp ||
    match d.bundleId with
    | some b => d.secs.any (fun s => s.mid = some b && s.fp)
    | none => d.secs.any (·.fp)

/-- the transceivers after the m-section loop of SetRemoteDescription (run for offers that are not taken for
    Plan B) and whether the loop ran to its end -/
def remoteTrs (st : St) (d : Desc) : List Tr × Bool :=
  if d.typ != .answer && !(st.cfg.sem != .unified && possiblyPlanB d) then
    ((remoteLoop st d.secs (st.trs.map fun t => (t, false))).1.map (·.1),
     (remoteLoop st d.secs (st.trs.map fun t => (t, false))).2)
  else (st.trs, true)

def setRemote (st : St) (d : Desc) : St × Except Err Unit :=
  if !d.secs.all (fun s => parsableMedia s.media) then (st, .error .parse)
  -- checked on the description alone, before setDescription changes anything (55c599d)
  else if d.typ != .answer && !(st.cfg.sem != .unified && possiblyPlanB d) && d.secs.any (·.mid.isNone) then
    (st, .error .noMid)
  else if !iceOK d then (st, .error .ice)
  else if st.curRemote.isNone && !fingerprintOK d then (st, .error .fingerprint)
  else
  match setDescRemote st d with
  | .error e => (st, .error e)
  | .ok st1 =>
    let st3 : St := { engineUpdate st1 d with trs := (remoteTrs (engineUpdate st1 d) d).1 }
    if !(remoteTrs (engineUpdate st1 d) d).2 then (st3, .error .noMid)
    else if d.typ = .answer then ({ st3 with trs := setCurrentDirections d true st3.trs }, .ok ())
    else (st3, .ok ())

/-! ### Local operations -/

/-- update the first element satisfying `p` -/
def updWhere (p : Tr → Bool) (f : Tr → Tr) : List Tr → Option (List Tr)
  | [] => none
  | t :: ts =>
    if p t then some (f t :: ts)
    else match updWhere p f ts with
      | some r => some (t :: r)
      | none => none

/-- PeerConnection.AddTrack -/
def addTrack (st : St) (k : Kind) : St :=
  match updWhere (·.isSendAllowed k) Tr.attachTrack st.trs with
  | some trs => { st with trs := trs }
  | none => { st with trs := st.trs ++ [{ kind := k, dir := .sendrecv, hasSender := true }] }

/-- PeerConnection.AddTransceiverFromKind -/
def addTransceiver (st : St) (k : Kind) (d : Dir) : St × Except Err Unit :=
  match d with
  | .sendrecv | .sendonly =>
    if st.hasCodecs k then
      ({ st with trs := st.trs ++ [{ kind := k, dir := d, hasSender := true }] }, .ok ())
    else (st, .error .noCodecs)
  | .recvonly => ({ st with trs := st.trs ++ [{ kind := k, dir := .recvonly, hasSender := false }] }, .ok ())
  | .inactive => (st, .error .direction)

def modifyNth (f : Tr → Tr) : Nat → List Tr → List Tr
  | _, [] => []
  | 0, t :: ts => f t :: ts
  | n + 1, t :: ts => t :: modifyNth f n ts

/-- PeerConnection.RemoveTrack(transceiver i's sender); `none` = that transceiver has no sender (the
    harness does not call RemoveTrack then) -/
def removeTrack (st : St) (i : Nat) : Option (St × Except Err Unit) :=
  match st.trs[i]? with
  | none => none
  | some t =>
    if !t.hasSender then none
    else
      some ({ st with trs := modifyNth (fun x => x.detachTrack.1) i st.trs },
            if t.detachTrack.2 then .ok () else .error .direction)

/-- RTPTransceiver.Stop on transceiver i -/
def stopTransceiver (st : St) (i : Nat) : Option St :=
  match st.trs[i]? with
  | none => none
  | some _ => some { st with trs := modifyNth Tr.stop i st.trs }

/-- PeerConnection.CreateDataChannel, as far as descriptions can tell -/
def createDataChannel (st : St) : St := { st with dcReq := true }

/-! ### Two peers and histories -/

inductive Peer | a | b
  deriving DecidableEq, Repr, Inhabited

inductive Op
  | addTrack (p : Peer) (k : Kind)
  | addTransceiver (p : Peer) (k : Kind) (d : Dir)
  | createDC (p : Peer)
  | removeTrack (p : Peer) (i : Nat)
  | stop (p : Peer) (i : Nat)
  | createOffer (p : Peer)
  | createAnswer (p : Peer)
  /-- SetLocalDescription of the last (or, `old`, the one-before-last) description this peer created -/
  | setLocal (p : Peer) (old : Bool)
  /-- SetRemoteDescription of the last description the other peer created -/
  | setRemote (p : Peer)
  /-- SetRemoteDescription of a synthetic offer -/
  | setRemoteSyn (p : Peer) (d : Desc)
  deriving Repr, Inhabited

inductive Res
  | ok
  | err (e : Err)
  | skip
  | desc (d : Desc)
  deriving Repr, Inhabited

structure World where
  a : St := {}
  b : St := {}
  deriving Repr, Inhabited

def World.get (w : World) : Peer → St
  | .a => w.a | .b => w.b

def World.set (w : World) : Peer → St → World
  | .a, s => { w with a := s }
  | .b, s => { w with b := s }

def Peer.other : Peer → Peer
  | .a => .b | .b => .a

def resOfUnit : Except Err Unit → Res
  | .ok _ => .ok
  | .error e => .err e

def resOfDesc : Except Err Desc → Res
  | .ok d => .desc d
  | .error e => .err e

def Op.peer : Op → Peer
  | .addTrack p _ | .addTransceiver p _ _ | .createDC p | .removeTrack p _ | .stop p _
  | .createOffer p | .createAnswer p | .setLocal p _ | .setRemote p | .setRemoteSyn p _ => p

def step (w : World) : Op → World × Res
  | .addTrack p k => (w.set p (addTrack (w.get p) k), .ok)
  | .addTransceiver p k d =>
    let r := addTransceiver (w.get p) k d
    (w.set p r.1, resOfUnit r.2)
  | .createDC p => (w.set p (createDataChannel (w.get p)), .ok)
  | .removeTrack p i =>
    match removeTrack (w.get p) i with
    | none => (w, .skip)
    | some r => (w.set p r.1, resOfUnit r.2)
  | .stop p i =>
    match stopTransceiver (w.get p) i with
    | none => (w, .skip)
    | some s => (w.set p s, .ok)
  | .createOffer p =>
    let r := createOffer (w.get p)
    (w.set p r.1, resOfDesc r.2)
  | .createAnswer p =>
    let r := createAnswer (w.get p)
    (w.set p r.1, resOfDesc r.2)
  | .setLocal p old =>
    match (if old then (w.get p).createdPrev else (w.get p).created) with
    | none => (w, .skip)
    | some (n, d) =>
      let r := setLocal (w.get p) n d
      (w.set p r.1, resOfUnit r.2)
  | .setRemote p =>
    match (w.get p.other).created with
    | none => (w, .skip)
    | some (_, d) =>
      let r := setRemote (w.get p) d
      (w.set p r.1, resOfUnit r.2)
  | .setRemoteSyn p d =>
    let r := setRemote (w.get p) d
    (w.set p r.1, resOfUnit r.2)

/-- run a history, collecting per step the result and the acting peer's transceivers afterwards -/
def runOps : World → List Op → List (Res × List Tr)
  | _, [] => []
  | w, op :: ops =>
    let r := step w op
    (r.2, (r.1.get op.peer).trs) :: runOps r.1 ops

def finalWorld : World → List Op → World
  | w, [] => w
  | w, op :: ops => finalWorld (step w op).1 ops

end WebrtcVerif.Jsep
