import WebrtcVerif.Base.Bytes
/-
  Model of this repository's data-channel glue (property C19):
    * DataChannel.open        — reliability parameters → DCEP channel type + reliability parameter
    * acceptDataChannels      — DCEP channel type + reliability parameter → reliability parameters
    * DataChannel.readLoop    — buffer doubling on io.ErrShortBuffer, copy-out, text/binary flag
    * Send / SendText guard   — only an open channel writes
  The SCTP/DTLS/ICE stack underneath (pion/sctp, pion/datachannel, …) is NOT modelled: the transport is
  the parameter `wire : List Msg` that the read loop consumes.
-/
namespace WebrtcVerif.DcParams
open WebrtcVerif.Bytes

inductive ChannelType
  | reliable | reliableUnordered | rexmit | rexmitUnordered | timed | timedUnordered
  deriving DecidableEq, Repr

/-- the reliability part of DataChannelParameters -/
structure Rel where
  ordered : Bool
  maxRetransmits : Option Nat       -- *uint16
  maxPacketLifeTime : Option Nat    -- *uint16
  deriving DecidableEq, Repr

/-- `DataChannel.open`: the `switch` choosing channelType / reliabilityParameter (uint32) -/
def toWire (p : Rel) : ChannelType × Nat :=
  match p.maxPacketLifeTime, p.maxRetransmits with
  | none, none => (if p.ordered then .reliable else .reliableUnordered, 0)
  | _, some r => (if p.ordered then .rexmit else .rexmitUnordered, r)
  | some t, none => (if p.ordered then .timed else .timedUnordered, t)

/-- `acceptDataChannels`: `val := uint16(ReliabilityParameter)` and the `switch` on the channel type -/
def fromWire (ct : ChannelType) (rp : Nat) : Rel :=
  let val := rp % 65536
  match ct with
  | .reliable => { ordered := true, maxRetransmits := none, maxPacketLifeTime := none }
  | .reliableUnordered => { ordered := false, maxRetransmits := none, maxPacketLifeTime := none }
  | .rexmit => { ordered := true, maxRetransmits := some val, maxPacketLifeTime := none }
  | .rexmitUnordered => { ordered := false, maxRetransmits := some val, maxPacketLifeTime := none }
  | .timed => { ordered := true, maxRetransmits := none, maxPacketLifeTime := some val }
  | .timedUnordered => { ordered := false, maxRetransmits := none, maxPacketLifeTime := some val }

/-- what `CreateDataChannel` accepts: not both limits, each a uint16 -/
def Rel.valid (p : Rel) : Prop :=
  ¬ (p.maxRetransmits.isSome ∧ p.maxPacketLifeTime.isSome) ∧
  (∀ r, p.maxRetransmits = some r → r < 65536) ∧ (∀ t, p.maxPacketLifeTime = some t → t < 65536)

/-! ### read loop -/

structure Msg where
  data : Bs
  isString : Bool
  deriving DecidableEq, Repr

inductive Recv
  | delivered (m : Msg) (buf : Nat)   -- OnMessage got a copy; buffer length afterwards
  | closed                            -- error path: setReadyState(closed), onError, onClose
  deriving DecidableEq, Repr

/-- one message through `readLoop`: while the buffer is too short `ReadDataChannel(buffer)` returns
    `(0, false, io.ErrShortBuffer)` — pion/datachannel zeroes `n` on every error — and the message stays
    queued; the loop doubles the buffer while `n < maxMessageSize`, i.e. while `0 < maxMessageSize`, and
    gives up otherwise. `fuel` bounds the doublings. -/
def recvOne (max : Nat) (m : Msg) : Nat → Nat → Recv
  | 0, _ => .closed
  | fuel + 1, buf =>
    if m.data.length ≤ buf then .delivered m buf
    else if 0 < max then recvOne max m fuel (buf + buf)
    else .closed

/-- doublings needed never exceed the message length when the buffer is non-empty -/
def fuelFor (m : Msg) : Nat := m.data.length + 2

/-- the whole loop over what the transport hands up, in order; stops at the first failure -/
def readLoop (max : Nat) : Nat → List Msg → List Msg × Bool
  | _, [] => ([], true)
  | buf, m :: rest =>
    match recvOne max m (fuelFor m) buf with
    | .closed => ([], false)
    | .delivered m' buf' =>
      let (ms, ok) := readLoop max buf' rest
      (m' :: ms, ok)

def initialBuffer : Nat := 65535      -- sctpMaxMessageSizeUnsetValue = math.MaxUint16

/-- `Send` / `SendText`: `ensureOpen` -/
inductive DcState | connecting | open_ | closing | closed
  deriving DecidableEq, Repr

def send (st : DcState) (wire : List Msg) (m : Msg) : List Msg × Bool :=
  if st = .open_ then (wire ++ [m], true) else (wire, false)

end WebrtcVerif.DcParams
