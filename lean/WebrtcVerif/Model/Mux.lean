/-
  Model of internal/mux (muxfunc.go, mux.go, the part of endpoint.go that touches the Mux) — property C27.

  Part 1: the match functions, literally (`MatchRange`, `MatchDTLS`, `MatchSRTPOrSRTCP`, `isRTCP`,
  `MatchSRTP`, `MatchSRTCP`, `MatchAll`) over `List UInt8`.

  Part 2: the Mux as a transition system.  The Go code touches the shared state (`endpoints`,
  `pendingPackets`, `isClosed`) only inside `m.lock` critical sections; an endpoint's packet buffer has
  its own lock.  Every critical section / buffer call is one atomic `Action`; the transition system
  allows ANY interleaving of the enabled actions of the one readLoop (dispatch = `arrive` then, if an
  endpoint was found, `write` — the buffer write happens after `m.lock` is released), any number of
  `NewEndpoint` / `Endpoint.Close` (= `epClose` then `remove`) / `Mux.Close` callers and the consumers
  reading from the endpoints.

  `NewEndpoint` is ONE action: since the repair (`fix: mux delivers pending packets before the new
  endpoint becomes visible to dispatch`) registration and the flush of the pending packets happen in the
  same critical section.  (`LegacyStep` at the end keeps the two-action version of the unrepaired code,
  only to document the schedule that the repair removed.)
-/
namespace WebrtcVerif.Mux

abbrev Pkt := List UInt8

/-! ### muxfunc.go -/

/-- `MatchRange(lower, upper, buf)` -/
def matchRange (lower upper : UInt8) : Pkt → Bool
  | [] => false                                   -- len(buf) < 1
  | b :: _ => decide (b ≥ lower) && decide (b ≤ upper)

/-- `MatchDTLS` -/
def matchDTLS (b : Pkt) : Bool := matchRange 20 63 b

/-- `MatchSRTPOrSRTCP` -/
def matchSRTPOrSRTCP (b : Pkt) : Bool := matchRange 128 191 b

/-- `isRTCP` -/
def isRTCP (buf : Pkt) : Bool :=
  if buf.length < 4 then false                    -- not long enough to determine RTP/RTCP
  else match buf with
    | _ :: b1 :: _ => decide (b1 ≥ 192) && decide (b1 ≤ 223)
    | _ => false                                  -- (unreachable: length ≥ 4)

/-- `MatchSRTP` -/
def matchSRTP (buf : Pkt) : Bool := matchSRTPOrSRTCP buf && !isRTCP buf

/-- `MatchSRTCP` -/
def matchSRTCP (buf : Pkt) : Bool := matchSRTPOrSRTCP buf && isRTCP buf

/-- `MatchAll` -/
def matchAll (_ : Pkt) : Bool := true

/-- the `MatchFunc`s an endpoint can be created with (as data, so that states are comparable) -/
inductive Matcher
  | dtls | srtp | srtcp | rtpOrRtcp | all
  | range (lower upper : UInt8)
  deriving DecidableEq, Repr

def Matcher.eval : Matcher → Pkt → Bool
  | .dtls => matchDTLS
  | .srtp => matchSRTP
  | .srtcp => matchSRTCP
  | .rtpOrRtcp => matchSRTPOrSRTCP
  | .all => matchAll
  | .range lo hi => matchRange lo hi

/-! ### mux.go -/

def maxBufferSize : Nat := 1000 * 1000
def maxPendingPackets : Nat := 15

/-- a datagram with its arrival number (ghost: the Go code holds only the bytes) -/
structure Dg where
  seq : Nat
  data : Pkt
  deriving DecidableEq, Repr

/-- why a datagram was not delivered (ghost bookkeeping; each is a `Warnf`/`Infof`/error branch) -/
inductive Drop
  | empty        -- dispatch: zero length packet
  | queueFull    -- dispatch: no endpoint, pending queue has maxPendingPackets entries
  | muxClosed    -- dispatch: no endpoint, Mux closed
  | bufFull      -- Buffer.Write: packetio.ErrFull
  | bufClosed    -- Buffer.Write: io.ErrClosedPipe
  | tooBig       -- Buffer.Write: errPacketTooBig (len ≥ 0x10000)
  deriving DecidableEq, Repr

/-- an `*Endpoint` with its `packetio.Buffer` -/
structure Ep where
  m : Matcher
  registered : Bool := true          -- key of `m.endpoints`
  bufClosed : Bool := false          -- `buffer.closed`
  limit : Nat := maxBufferSize       -- `buffer.limitSize`
  got : List Dg := []                -- packets successfully written to the buffer, in write order
  nread : Nat := 0                   -- how many of them the consumer has read (FIFO)
  regAt : Nat := 0                   -- ghost: number of datagrams that had arrived at registration
  deriving DecidableEq, Repr

structure St where
  eps : List Ep := []                      -- every endpoint ever created, in creation order
  pending : List Dg := []                  -- `m.pendingPackets`
  isClosed : Bool := false                 -- `m.isClosed`
  inflight : Option (Nat × Dg) := none     -- dispatch found endpoint #k, released the lock, has not written yet
  loopDead : Bool := false                 -- readLoop returned because dispatch returned an error
  arrivals : List Dg := []                 -- ghost: every datagram read so far, in order
  lost : List (Dg × Drop) := []            -- ghost: datagrams dropped, with the branch that dropped them
  deriving DecidableEq, Repr

inductive Action
  | arrive (d : Pkt) (target : Option Nat) -- dispatch, the `m.lock` section; `target` = what the map iteration found
  | write                                  -- dispatch, `endpoint.buffer.Write(buf)` after the unlock
  | newEndpoint (m : Matcher)              -- NewEndpoint: register + handlePendingPackets, one critical section
  | epClose (k : Nat)                      -- Endpoint.Close: `e.buffer.Close()`
  | remove (k : Nat)                       -- RemoveEndpoint (second half of Endpoint.Close)
  | muxClose                               -- Mux.Close: the critical section
  | read (k : Nat)                         -- a consumer reads one packet from endpoint #k
  | setLimit (k : Nat) (n : Nat)           -- buffer.SetLimitSize (tests / verification only)
  deriving DecidableEq, Repr

/-- bytes occupied in the ring: two length bytes per unread packet plus the packet -/
def Ep.used (e : Ep) : Nat := ((e.got.drop e.nread).map (fun d => 2 + d.data.length)).sum

inductive WriteRes
  | ok | full | closed | tooBig
  deriving DecidableEq, Repr

/-- `packetio.Buffer.Write`, outcome only -/
def bufWrite (e : Ep) (p : Pkt) : WriteRes :=
  if p.length ≥ 65536 then .tooBig
  else if e.bufClosed then .closed
  else if e.limit > 0 ∧ e.used + 2 + p.length > e.limit then .full
  else .ok

def WriteRes.drop : WriteRes → Drop
  | .ok => .bufFull       -- (not used)
  | .full => .bufFull
  | .closed => .bufClosed
  | .tooBig => .tooBig

/-- the write loop of `handlePendingPackets` over the matching packets: errors are logged, the packet is gone -/
def writeAll (e : Ep) : List Dg → Ep × List (Dg × Drop)
  | [] => (e, [])
  | d :: rest =>
    match bufWrite e d.data with
    | .ok => writeAll { e with got := e.got ++ [d] } rest
    | r => let (e', lost) := writeAll e rest; (e', (d, r.drop) :: lost)

/-- some registered endpoint matches `d` -/
def anyMatch (eps : List Ep) (d : Pkt) : Bool := eps.any (fun e => e.registered && e.m.eval d)

def closeEp (e : Ep) : Ep := if e.registered then { e with bufClosed := true, registered := false } else e

/-- one atomic step; `none` = the action is not enabled in this state -/
def step (s : St) : Action → Option St
  | .arrive d target =>
      if s.inflight.isSome || s.loopDead then none else    -- one readLoop, inside no other dispatch
      let dg : Dg := ⟨s.arrivals.length, d⟩
      let s1 := { s with arrivals := s.arrivals ++ [dg] }
      if d.isEmpty then
        match target with
        | none => some { s1 with lost := s.lost ++ [(dg, .empty)] }
        | some _ => none
      else
        match target with
        | some k =>
            match s.eps[k]? with
            | some e => if e.registered && e.m.eval d then some { s1 with inflight := some (k, dg) } else none
            | none => none
        | none =>
            if anyMatch s.eps d then none
            else if s.isClosed then some { s1 with lost := s.lost ++ [(dg, .muxClosed)] }
            else if s.pending.length ≥ maxPendingPackets then some { s1 with lost := s.lost ++ [(dg, .queueFull)] }
            else some { s1 with pending := s.pending ++ [dg] }
  | .write =>
      match s.inflight with
      | none => none
      | some (k, dg) =>
        match s.eps[k]? with
        | none => none
        | some e =>
          match bufWrite e dg.data with
          | .ok => some { s with inflight := none, eps := s.eps.set k { e with got := e.got ++ [dg] } }
          | .full => some { s with inflight := none, lost := s.lost ++ [(dg, .bufFull)] }
          | .closed => some { s with inflight := none, lost := s.lost ++ [(dg, .bufClosed)], loopDead := true }
          | .tooBig => some { s with inflight := none, lost := s.lost ++ [(dg, .tooBig)], loopDead := true }
  | .newEndpoint m =>
      let e0 : Ep := { m := m, regAt := s.arrivals.length }
      let (e1, lost) := writeAll e0 (s.pending.filter (fun d => m.eval d.data))
      some { s with eps := s.eps ++ [e1], pending := s.pending.filter (fun d => !m.eval d.data), lost := s.lost ++ lost }
  | .epClose k =>
      match s.eps[k]? with
      | some e => some { s with eps := s.eps.set k { e with bufClosed := true } }
      | none => none
  | .remove k =>
      match s.eps[k]? with
      | some e => some { s with eps := s.eps.set k { e with registered := false } }
      | none => none
  | .muxClose => some { s with eps := s.eps.map closeEp, isClosed := true }
  | .read k =>
      match s.eps[k]? with
      | some e => if e.nread < e.got.length then some { s with eps := s.eps.set k { e with nread := e.nread + 1 } } else none
      | none => none
  | .setLimit k n =>
      match s.eps[k]? with
      | some e => some { s with eps := s.eps.set k { e with limit := n } }
      | none => none

def init : St := {}

def runActions (s : St) : List Action → Option St
  | [] => some s
  | a :: as => (step s a).bind (fun s' => runActions s' as)

/-- every state some interleaving can reach -/
inductive Reachable : St → Prop
  | init : Reachable init
  | step {s s' : St} (a : Action) : Reachable s → step s a = some s' → Reachable s'

/-! ### `m.lock` made explicit around NewEndpoint's critical section

  `NewEndpoint` calls the caller-supplied `MatchFunc` once per pending packet while it holds `m.lock`.  A
  MatchFunc that takes its time keeps the creator INSIDE the critical section; every other section that takes
  `m.lock` has to wait.  `lstep` is the system above with that section split into `enter` (lock, register,
  loop begins) · one `matchCall` per pending packet · `leave` (queue updated, unlock): while a creator is
  inside, the lock-taking actions of everybody else are disabled; what takes no `m.lock` (the buffer write of
  a dispatch that already found its endpoint, `buffer.Close`, reads, dispatch of a zero-length datagram) goes on.
  Nothing the creator does inside is visible to the others before `leave` (the endpoint is unknown outside, the
  pending queue is only touched under the lock), so the whole effect is the core `newEndpoint` action at `leave`. -/

/-- does this action take `m.lock`? -/
def Action.takesLock : Action → Bool
  | .arrive d _ => !d.isEmpty          -- dispatch returns before the lock for a zero-length packet
  | .write => false
  | .newEndpoint _ => true
  | .epClose _ => false
  | .remove _ => true
  | .muxClose => true
  | .read _ => false
  | .setLimit _ _ => false

structure LSt where
  st : St := {}
  holder : Option (Nat × Matcher × Nat) := none   -- creator id, its matcher, MatchFunc calls still to make
  deriving DecidableEq, Repr

inductive LAction
  | enter (c : Nat) (m : Matcher)     -- NewEndpoint: `m.lock.Lock()`, registration, the loop over the pending packets begins
  | matchCall (c : Nat)               -- one `matchFunc(buf)` call of that loop
  | leave (c : Nat)                   -- loop done: `m.pendingPackets = …`, `m.lock.Unlock()`
  | free (a : Action)                 -- any action of the core system
  deriving DecidableEq, Repr

def lstep (s : LSt) : LAction → Option LSt
  | .enter c m =>
      match s.holder with
      | some _ => none                                   -- blocked on m.lock
      | none => some { s with holder := some (c, m, s.st.pending.length) }
  | .matchCall c =>
      match s.holder with
      | some (c', m, n + 1) => if c = c' then some { s with holder := some (c', m, n) } else none
      | _ => none
  | .leave c =>
      match s.holder with
      | some (c', m, 0) => if c = c' then (step s.st (.newEndpoint m)).map (fun st => { st := st, holder := none }) else none
      | _ => none
  | .free a =>
      if s.holder.isSome && a.takesLock then none        -- blocked on m.lock
      else (step s.st a).map (fun st => { s with st := st })

def linit : LSt := {}

inductive LReachable : LSt → Prop
  | init : LReachable linit
  | step {s s' : LSt} (a : LAction) : LReachable s → lstep s a = some s' → LReachable s'

/-! ### the unrepaired NewEndpoint, for the record

  Before the repair `NewEndpoint` only registered the endpoint under the lock and started
  `go m.handlePendingPackets(...)`, which took the lock again.  `LegacyStep` adds these two actions to the
  system above; it is used by one documentation theorem only. -/

inductive LegacyAction
  | cur (a : Action)
  | registerOnly (m : Matcher)      -- `m.endpoints[endpoint] = matchFunc` under the lock
  | flush (k : Nat)                 -- the goroutine: handlePendingPackets under the lock
  deriving DecidableEq, Repr

def legacyStep (s : St) : LegacyAction → Option St
  | .cur a => step s a
  | .registerOnly m => some { s with eps := s.eps ++ [{ m := m, regAt := s.arrivals.length }] }
  | .flush k =>
      match s.eps[k]? with
      | none => none
      | some e =>
        let (e1, lost) := writeAll e (s.pending.filter (fun d => e.m.eval d.data))
        some { s with eps := s.eps.set k e1, pending := s.pending.filter (fun d => !e.m.eval d.data), lost := s.lost ++ lost }

def legacyRun (s : St) : List LegacyAction → Option St
  | [] => some s
  | a :: as => (legacyStep s a).bind (fun s' => legacyRun s' as)

end WebrtcVerif.Mux
