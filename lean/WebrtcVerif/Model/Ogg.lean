import WebrtcVerif.Base.Bytes
/-
  Model of pkg/media/oggwriter/oggwriter.go and pkg/media/oggreader/oggreader.go — property C33
  (and the Ogg part of C37: `parseNextPage`, `parseOpusHead`, `parseOpusTags` are modelled on ARBITRARY
  bytes, with an explicit `.panic` outcome wherever the Go code indexes or slices).

  Conventions: byte strings are `List UInt8`; Go strings are byte strings; uint32/uint64 counters are
  `Nat` reduced modulo 2^32 / 2^64 where Go wraps; `int` is 64 bit.  The output stream is the list of
  bytes written so far; a seekable output (`*os.File`, `WithSeekableOutput`) is that same list with
  `WriteAt` = in-place splice and `Seek(0, io.SeekCurrent)` = its length.  Stream write errors are not
  modelled (every `Write`/`WriteAt` succeeds).
-/
namespace WebrtcVerif.Ogg
open WebrtcVerif.Bytes

def two32 : Nat := 4294967296
def two64 : Nat := 18446744073709551616

/-! ### checksum (identical code in writer and reader: `generateChecksumTable`) -/

def poly : UInt32 := 0x04c11db7

/-- one iteration of the inner `for range 8` loop -/
def tableStep (r : UInt32) : UInt32 :=
  if r &&& 0x80000000 != 0 then (r <<< 1) ^^^ poly else r <<< 1

def tableEntry (i : Nat) : UInt32 :=
  tableStep (tableStep (tableStep (tableStep (tableStep (tableStep (tableStep (tableStep
    (UInt32.ofNat i <<< 24))))))))

def checksumTable : Array UInt32 := (Array.range 256).map tableEntry

/-- `checksum = (checksum << 8) ^ table[byte(checksum>>24) ^ v]` -/
def crcStep (c : UInt32) (v : UInt8) : UInt32 :=
  (c <<< 8) ^^^ checksumTable.getD ((c >>> 24).toUInt8 ^^^ v).toNat 0

def crc (bs : Bs) : UInt32 := bs.foldl crcStep 0

/-! ### pages -/

/-- `oggPage` (plus the segment table it was built with; `data` is `Page.encode`) -/
structure Page where
  headerType : UInt8
  granule : Nat          -- uint64
  serial : Nat           -- uint32
  index : Nat            -- uint32
  segs : List UInt8
  payload : Bs
  deriving DecidableEq, Repr

def oggS : Bs := [79, 103, 103, 83]

def pageHeaderTypeContinuationOfPacket : UInt8 := 1
def pageHeaderTypeBeginningOfStream : UInt8 := 2
def pageHeaderTypeEndOfStream : UInt8 := 4
def noGranulePosition : Nat := two64 - 1
def maxOggPageSegments : Nat := 255

/-- the 22 bytes before the checksum field -/
def pagePrefix (ht : UInt8) (granule serial index : Nat) : Bs :=
  oggS ++ [0, ht] ++ le64 granule ++ le32 serial ++ le32 index

/-- `createPageForSerialWithSegments` -/
def createPage (payload : Bs) (segs : List UInt8) (ht : UInt8) (granule serial index : Nat) : Bs :=
  let pre := pagePrefix ht granule serial index
  let post := b segs.length :: (segs ++ payload)
  let c := crc (pre ++ [0, 0, 0, 0] ++ post)
  pre ++ le32 c.toNat ++ post

def Page.encode (p : Page) : Bs := createPage p.payload p.segs p.headerType p.granule p.serial p.index

/-- result of the inner lacing loop of `createPagesForSerial` -/
structure Lace where
  segs : List UInt8
  size : Nat             -- pagePayloadSize
  remaining : Nat        -- remainingPayload afterwards
  complete : Bool        -- packetComplete
  deriving DecidableEq, Repr

/-- `for len(segmentTable) < maxOggPageSegments { … }` with `slots` free entries left -/
def laceLoop : Nat → Nat → Lace
  | 0, r => { segs := [], size := 0, remaining := r, complete := false }
  | k + 1, r =>
    if 255 ≤ r then
      let l := laceLoop k (r - 255)
      { segs := 255 :: l.segs, size := 255 + l.size, remaining := l.remaining, complete := l.complete }
    else { segs := [b r], size := r, remaining := 0, complete := true }

/-- `packetPageHeaderType` -/
def packetPageHeaderType (ht : UInt8) (first complete : Bool) : UInt8 :=
  if first then (if complete then ht else ht &&& ~~~pageHeaderTypeEndOfStream)
  else if complete then pageHeaderTypeContinuationOfPacket ||| (ht &&& pageHeaderTypeEndOfStream)
  else pageHeaderTypeContinuationOfPacket

/-- the outer `for` loop of `createPagesForSerial`; `payload` is what is left of the packet -/
def createPagesLoop : Nat → Bs → UInt8 → Nat → Nat → Nat → Bool → List Page
  | 0, _, _, _, _, _, _ => []
  | fuel + 1, payload, ht, granule, serial, index, first =>
    let l := laceLoop maxOggPageSegments payload.length
    let page : Page :=
      { headerType := packetPageHeaderType ht first l.complete
        granule := if l.complete then granule else noGranulePosition
        serial := serial, index := index, segs := l.segs, payload := payload.take l.size }
    if l.complete then [page]
    else page :: createPagesLoop fuel (payload.drop l.size) ht granule serial ((index + 1) % two32) false

/-- `createPagesForSerial` (one more page than full 255×255 blocks) -/
def createPages (payload : Bs) (ht : UInt8) (granule serial index : Nat) : List Page :=
  createPagesLoop (payload.length / 65025 + 1) payload ht granule serial index true

def flat (ps : List Page) : Bs := ps.flatMap Page.encode

/-- `createPageForSerial` -/
def createPageForSerial (payload : Bs) (ht : UInt8) (granule serial index : Nat) : Bs :=
  flat (createPages payload ht granule serial index)

/-! ### Opus durations -/

inductive Err
  | invalidChannelCount | invalidChannelMap | invalidOpusTags | fileNotOpened | outputNotOpened
  | nilPacket | duplicateSSRC | duplicateSerial | tracksStarted | ssrcMismatch | invalidOpusPacket
  deriving DecidableEq, Repr

def maxOpusPacketSamples : Nat := 5760

/-- `opusSamplesPerFrame` -/
def opusSamplesPerFrame (toc : UInt8) : Nat :=
  if toc &&& 0x80 != 0 then (48000 <<< ((toc >>> 3) &&& 3).toNat) / 400
  else if toc &&& 0x60 == 0x60 then (if toc &&& 0x08 != 0 then 960 else 480)
  else
    let fs := (toc >>> 3) &&& 3
    if fs == 3 then 2880 else (48000 <<< fs.toNat) / 100

/-- `opusPacketFrameCount` (payload non-empty) -/
def opusPacketFrameCount (toc : UInt8) (rest : Bs) : Except Err Nat :=
  let code := toc &&& 3
  if code == 0 then .ok 1
  else if code == 1 || code == 2 then .ok 2
  else
    match rest with
    | [] => .error .invalidOpusPacket
    | x :: _ =>
      let fc := x &&& 0x3f
      if fc == 0 then .error .invalidOpusPacket else .ok fc.toNat

/-- `opusPacketSampleCount` -/
def opusPacketSampleCount (payload : Bs) : Except Err Nat :=
  match payload with
  | [] => .error .invalidOpusPacket
  | toc :: rest =>
    match opusPacketFrameCount toc rest with
    | .error e => .error e
    | .ok fc =>
      let n := opusSamplesPerFrame toc * fc
      if n > maxOpusPacketSamples then .error .invalidOpusPacket else .ok n

/-! ### configuration -/

structure ChannelMapping where
  family : UInt8
  channelCount : UInt8
  streamCount : UInt8
  coupledCount : UInt8
  mapping : Bs
  deriving DecidableEq, Repr

structure Tags where
  vendor : Bs
  comments : List (Bs × Bs)
  deriving DecidableEq, Repr

/-- `defaultChannelMapping` -/
def defaultChannelMapping (channelCount : Nat) : Except Err ChannelMapping :=
  if channelCount = 1 then .ok { family := 0, channelCount := 1, streamCount := 1, coupledCount := 0, mapping := [] }
  else if channelCount = 2 then .ok { family := 0, channelCount := 2, streamCount := 1, coupledCount := 1, mapping := [] }
  else .error .invalidChannelCount

/-- `validateChannelMapping` (family, layout, family-specific, in this order) -/
def validateChannelMapping (family streamCount coupledCount : UInt8) (mapping : Bs) : Except Err ChannelMapping :=
  if !(family == 1 || family == 2 || family == 255) then .error .invalidChannelMap
  else if mapping.length = 0 ∨ mapping.length > 255 then .error .invalidChannelCount
  else if streamCount != 1 then .error .invalidChannelMap
  else if coupledCount > streamCount then .error .invalidChannelMap
  else if mapping.any (fun c => c != 255 && c.toNat ≥ streamCount.toNat + coupledCount.toNat) then
    .error .invalidChannelMap
  else if family == 1 &&
      !((mapping.length = 1 && streamCount == 1 && coupledCount == 0 && mapping == [0]) ||
        (mapping.length = 2 && streamCount == 1 && coupledCount == 1 && mapping == [0, 1])) then
    .error .invalidChannelMap
  else if family == 2 && !(mapping.length = 1 && streamCount == 1 && coupledCount == 0 && mapping == [0]) then
    .error .invalidChannelMap
  else .ok { family, channelCount := b mapping.length, streamCount, coupledCount, mapping }

def isCont (x : UInt8) : Bool := 0x80 ≤ x && x ≤ 0xBF

/-- `utf8.ValidString` -/
def validUTF8 : Bs → Bool
  | [] => true
  | a :: rest =>
    if a < 0x80 then validUTF8 rest
    else if 0xC2 ≤ a && a ≤ 0xDF then
      match rest with
      | x :: r => isCont x && validUTF8 r
      | _ => false
    else if 0xE0 ≤ a && a ≤ 0xEF then
      match rest with
      | x :: y :: r =>
        (if a == 0xE0 then 0xA0 ≤ x && x ≤ 0xBF else if a == 0xED then 0x80 ≤ x && x ≤ 0x9F else isCont x)
          && isCont y && validUTF8 r
      | _ => false
    else if 0xF0 ≤ a && a ≤ 0xF4 then
      match rest with
      | x :: y :: z :: r =>
        (if a == 0xF0 then 0x90 ≤ x && x ≤ 0xBF else if a == 0xF4 then 0x80 ≤ x && x ≤ 0x8F else isCont x)
          && isCont y && isCont z && validUTF8 r
      | _ => false
    else false

def maxUint32Length : Nat := two32 - 1
def maxInt : Nat := 9223372036854775807

/-- `validateOpusTagString` -/
def validTagString (s : Bs) : Bool := validUTF8 s && s.length ≤ maxUint32Length

/-- `isValidCommentName` -/
def isValidCommentName (s : Bs) : Bool :=
  !s.isEmpty && s.all (fun x => !(x < 0x20 || x > 0x7d || x == 61))

/-- `validateUserComment` -/
def validUserComment (c : Bs × Bs) : Bool :=
  isValidCommentName c.1 && validTagString c.2 && c.1.length + 1 + c.2.length ≤ maxUint32Length

/-- `validateOpusTagsHeaderLen` -/
def validHeaderLen (maxLen : Nat) : Nat → List (Bs × Bs) → Bool
  | headerLen, [] => headerLen ≤ maxLen
  | headerLen, c :: cs =>
    headerLen ≤ maxLen &&
      (let fieldLen := 4 + (c.1.length + 1 + c.2.length)
       if fieldLen > maxLen - headerLen then false else validHeaderLen maxLen (headerLen + fieldLen) cs)

/-- `validateOpusTags` -/
def validOpusTags (t : Tags) : Bool :=
  validTagString t.vendor && t.comments.length ≤ maxUint32Length && t.comments.all validUserComment
    && validHeaderLen maxInt (8 + 4 + t.vendor.length + 4) t.comments

def defaultTags : Tags := { vendor := [112, 105, 111, 110], comments := [] }

/-! ### header packets -/

def opusHeadSig : Bs := [79, 112, 117, 115, 72, 101, 97, 100]
def opusTagsSig : Bs := [79, 112, 117, 115, 84, 97, 103, 115]
def defaultPreSkip : Nat := 3840

/-- `buildIDHeader` -/
def buildIDHeader (sampleRate : Nat) (preSkip : Nat) (m : ChannelMapping) : Bs :=
  let base := opusHeadSig ++ [1, m.channelCount] ++ le16 preSkip ++ le32 sampleRate ++ [0, 0] ++ [m.family]
  if m.family != 0 then
    let cp := m.mapping.take m.channelCount.toNat           -- copy(dst[21:], mapping) into a zeroed buffer
    base ++ [m.streamCount, m.coupledCount] ++ cp ++ List.replicate (m.channelCount.toNat - cp.length) 0
  else base

def encodeComment (c : Bs × Bs) : Bs := le32 (c.1.length + 1 + c.2.length) ++ c.1 ++ [61] ++ c.2

/-- `buildCommentHeader` -/
def buildCommentHeader (t : Tags) : Bs :=
  opusTagsSig ++ le32 t.vendor.length ++ t.vendor ++ le32 t.comments.length ++ t.comments.flatMap encodeComment

/-! ### per-track writer state and the shared page-writing core -/

/-- `oggTrack` -/
structure Track where
  sampleRate : Nat
  mapping : ChannelMapping
  preSkip : Nat
  serial : Nat
  tags : Tags
  pageIndex : Nat := 0
  previousGranulePosition : Nat := 0
  lastPayload : Bs := []
  lastGranulePosition : Nat := 0
  lastPageIndex : Nat := 0
  lastPageOffset : Nat := 0
  lastPageHeaderType : UInt8 := 0
  lastPageWritten : Bool := false
  deriving DecidableEq, Repr

/-- `newTrackState` -/
def newTrackState (sampleRate : Nat) (m : ChannelMapping) (serial : Nat) (tags : Tags) : Track :=
  { sampleRate, mapping := m, preSkip := defaultPreSkip, serial, tags }

/-- `writePage`: `rewriter` says whether a page rewriter is present -/
def writePage (out : Bs) (rewriter : Bool) (t : Track) (payload : Bs) (ht : UInt8) (granule : Nat) : Bs × Track :=
  let pages := createPages payload ht granule t.serial t.pageIndex
  let t1 : Track :=
    if rewriter then
      match pages.getLast? with
      | some p =>
        { t with lastPageOffset := out.length + (flat pages.dropLast).length
                 lastPayload := p.payload, lastGranulePosition := p.granule, lastPageIndex := p.index
                 lastPageHeaderType := p.headerType, lastPageWritten := true }
      | none => t
    else t
  (out ++ flat pages, { t1 with pageIndex := (t.pageIndex + pages.length) % two32 })

/-- `writeOpusPayload` -/
def writeOpusPayload (out : Bs) (rewriter : Bool) (t : Track) (payload : Bs) : Except Err (Bs × Track) :=
  match opusPacketSampleCount payload with
  | .error e => .error e
  | .ok n =>
    let g := (t.previousGranulePosition + n) % two64
    .ok (writePage out rewriter { t with previousGranulePosition := g } payload 0 g)

/-- `io.WriterAt.WriteAt` inside the bytes written so far -/
def writeAt (out data : Bs) (off : Nat) : Bs := out.take off ++ data ++ out.drop (off + data.length)

/-- `markTrackEndOfStream` -/
def markTrackEndOfStream (out : Bs) (t : Track) : Bs :=
  if !t.lastPageWritten then out
  else
    writeAt out
      (createPageForSerial t.lastPayload (t.lastPageHeaderType ||| pageHeaderTypeEndOfStream)
        t.lastGranulePosition t.serial t.lastPageIndex)
      t.lastPageOffset

/-- `writeNilEndOfStreamPage` -/
def writeNilEndOfStreamPage (out : Bs) (t : Track) : Bs × Track :=
  if t.pageIndex = 0 then (out, t)
  else
    (out ++ createPage [] [] pageHeaderTypeEndOfStream t.previousGranulePosition t.serial t.pageIndex,
     { t with pageIndex := (t.pageIndex + 1) % two32 })

def writeTrackIDHeader (out : Bs) (rewriter : Bool) (t : Track) : Bs × Track :=
  writePage out rewriter t (buildIDHeader t.sampleRate t.preSkip t.mapping) pageHeaderTypeBeginningOfStream 0

def writeTrackCommentHeader (out : Bs) (rewriter : Bool) (t : Track) : Bs × Track :=
  writePage out rewriter t (buildCommentHeader t.tags) 0 0

/-- what a `WriteRTP` call did -/
inductive Status
  | written            -- nil error, pages written
  | skipped            -- nil error, empty payload: nothing written
  | failed (e : Err)
  deriving DecidableEq, Repr

/-! ### single-track `OggWriter` -/

structure OggWriter where
  out : Bs
  hasFd : Bool           -- w.fd != nil (`New`); `NewWith` has none
  streamOpen : Bool      -- w.stream != nil
  track : Track
  deriving DecidableEq, Repr

/-- `New` (hasFd) / `NewWith` (¬hasFd), with the serial number the random generator produced -/
def OggWriter.new (hasFd : Bool) (sampleRate channelCount serial : Nat) : Except Err OggWriter :=
  match defaultChannelMapping channelCount with
  | .error e => .error e
  | .ok m =>
    if !validOpusTags defaultTags then .error .invalidOpusTags
    else
      let t := newTrackState sampleRate m serial defaultTags
      let (o1, t1) := writeTrackIDHeader [] hasFd t
      let (o2, t2) := writeTrackCommentHeader o1 hasFd t1
      .ok { out := o2, hasFd, streamOpen := true, track := t2 }

/-- `(*OggWriter).WriteRTP`; `none` is a nil packet, `some p` a packet with payload `p` -/
def OggWriter.writeRTP (w : OggWriter) (pkt : Option Bs) : OggWriter × Status :=
  if !w.streamOpen then (w, .failed .fileNotOpened)
  else
    match pkt with
    | none => (w, .failed .nilPacket)
    | some [] => (w, .skipped)
    | some payload =>
      match writeOpusPayload w.out w.hasFd w.track payload with
      | .error e => (w, .failed e)
      | .ok (o, t) => ({ w with out := o, track := t }, .written)

/-- `(*OggWriter).Close` -/
def OggWriter.close (w : OggWriter) : OggWriter :=
  if !w.hasFd then
    if !w.streamOpen then w
    else
      let (o, t) := writeNilEndOfStreamPage w.out w.track
      { w with out := o, track := t, streamOpen := false }
  else
    { w with out := markTrackEndOfStream w.out w.track, hasFd := false, streamOpen := false }

/-- one call on a single-track writer -/
inductive SOp
  | write (pkt : Option Bs)
  | close
  deriving DecidableEq, Repr

/-- a history of calls: the writer afterwards and the payloads of the calls that wrote an Ogg packet -/
def OggWriter.session : OggWriter → List SOp → OggWriter × List Bs
  | w, [] => (w, [])
  | w, .close :: ops => OggWriter.session w.close ops
  | w, .write pkt :: ops =>
    let r := w.writeRTP pkt
    let r2 := OggWriter.session r.1 ops
    (r2.1, match r.2, pkt with
      | .written, some p => p :: r2.2
      | _, _ => r2.2)

/-! ### multi-track `Writer` -/

/-- options of `NewWriter` / `NewTrack`, applied in the order given -/
inductive Opt
  | sampleRate (n : Nat)
  | channelCount (n : Nat)
  | channelMapping (family streamCount coupledCount : UInt8) (mapping : Bs)
  | vendor (v : Bs)
  | userComments (cs : List (Bs × Bs))
  | serial (n : Nat)           -- `WithSerial` (tracks only)
  deriving DecidableEq, Repr

/-- `writerConfig` / `trackConfig` -/
structure Config where
  sampleRate : Nat
  mapping : ChannelMapping
  tags : Tags
  serial : Option Nat := none
  deriving DecidableEq, Repr

/-- one option; the numeric arguments have the width of their Go types (uint32, uint16) -/
def applyOpt (c : Config) : Opt → Except Err Config
  | .sampleRate n => .ok { c with sampleRate := n % two32 }
  | .channelCount n =>
    match defaultChannelMapping (n % 65536) with
    | .error e => .error e
    | .ok m => .ok { c with mapping := m }
  | .channelMapping f sc cc m =>
    match validateChannelMapping f sc cc m with
    | .error e => .error e
    | .ok m => .ok { c with mapping := m }
  | .vendor v => if validTagString v then .ok { c with tags := { c.tags with vendor := v } } else .error .invalidOpusTags
  | .userComments cs =>
    if cs.all validUserComment then .ok { c with tags := { c.tags with comments := c.tags.comments ++ cs } }
    else .error .invalidOpusTags
  | .serial n => .ok { c with serial := some (n % two32) }

def applyOpts : Config → List Opt → Except Err Config
  | c, [] => .ok c
  | c, o :: os =>
    match applyOpt c o with
    | .error e => .error e
    | .ok c' => applyOpts c' os

/-- `Track` (of a `Writer`) -/
structure MTrack where
  ssrc : Nat
  t : Track
  deriving DecidableEq, Repr

structure Writer where
  out : Bs
  seekable : Bool        -- w.pageRewriter != nil
  streamOpen : Bool      -- w.stream != nil
  sampleRate : Nat
  mapping : ChannelMapping
  tags : Tags
  tracks : List MTrack   -- trackOrder
  started : Bool
  deriving DecidableEq, Repr

/-- `NewWriter` -/
def Writer.new (seekable : Bool) (opts : List Opt) : Except Err Writer :=
  match defaultChannelMapping 2 with
  | .error e => .error e
  | .ok m =>
    match applyOpts { sampleRate := 48000, mapping := m, tags := defaultTags } opts with
    | .error e => .error e
    | .ok c =>
      if !validOpusTags c.tags then .error .invalidOpusTags
      else .ok { out := [], seekable, streamOpen := true, sampleRate := c.sampleRate, mapping := c.mapping
                 tags := c.tags, tracks := [], started := false }

/-- `(*Writer).NewTrack`.  Without `WithSerial` the code draws random serials until it finds an unused one;
    `drawnSerial` stands for that final draw (the harness always passes `WithSerial`), so a `drawnSerial` that is
    in use is outside the domain of the model and is reported like a duplicate. -/
def Writer.newTrack (w : Writer) (ssrc : Nat) (opts : List Opt) (drawnSerial : Nat := 0) : Writer × Option Err :=
  if !w.streamOpen then (w, some .outputNotOpened)
  else if w.started then (w, some .tracksStarted)
  else if w.tracks.any (·.ssrc == ssrc) then (w, some .duplicateSSRC)
  else
    match applyOpts { sampleRate := w.sampleRate, mapping := w.mapping, tags := w.tags } opts with
    | .error e => (w, some e)
    | .ok c =>
      if !validOpusTags c.tags then (w, some .invalidOpusTags)
      else
        let s := c.serial.getD (drawnSerial % two32)
        if w.tracks.any (·.t.serial == s) then (w, some .duplicateSerial)
        else ({ w with tracks := w.tracks ++ [{ ssrc, t := newTrackState c.sampleRate c.mapping s c.tags }] }, none)

/-- one `for _, track := range w.trackOrder { write…Header }` loop of `startLocked` -/
def writeHeadersLoop (f : Bs → Bool → Track → Bs × Track) (rewriter : Bool) : Bs → List MTrack → Bs × List MTrack
  | out, [] => (out, [])
  | out, m :: ms =>
    let r := f out rewriter m.t
    let r2 := writeHeadersLoop f rewriter r.1 ms
    (r2.1, { m with t := r.2 } :: r2.2)

/-- `startLocked` -/
def Writer.startLocked (w : Writer) : Writer :=
  if w.started then w
  else
    let r1 := writeHeadersLoop writeTrackIDHeader w.seekable w.out w.tracks
    let r2 := writeHeadersLoop writeTrackCommentHeader w.seekable r1.1 r1.2
    { w with out := r2.1, tracks := r2.2, started := true }

/-- `(*Track).WriteRTP` on the `i`-th track: `ssrcOk` says whether packet.SSRC equals the track's -/
def Writer.writeRTP (w : Writer) (i : Nat) (pkt : Option Bs) (ssrcOk : Bool) : Writer × Status :=
  if !w.streamOpen then (w, .failed .outputNotOpened)
  else
    match pkt with
    | none => (w, .failed .nilPacket)
    | some payload =>
      if !ssrcOk then (w, .failed .ssrcMismatch)
      else if payload.isEmpty then (w, .skipped)
      else
        let w1 := w.startLocked
        match w1.tracks[i]? with
        | none => (w1, .failed .outputNotOpened)     -- no such track (not reachable through the API)
        | some m =>
          match writeOpusPayload w1.out w1.seekable m.t payload with
          | .error e => (w1, .failed e)
          | .ok (o, t) => ({ w1 with out := o, tracks := w1.tracks.set i { m with t := t } }, .written)

def markAll : Bs → List MTrack → Bs
  | out, [] => out
  | out, m :: ms => markAll (markTrackEndOfStream out m.t) ms

def nilEosAll : Bs → List MTrack → Bs × List MTrack
  | out, [] => (out, [])
  | out, m :: ms =>
    let r := writeNilEndOfStreamPage out m.t
    let r2 := nilEosAll r.1 ms
    (r2.1, { m with t := r.2 } :: r2.2)

/-- `(*Writer).Close` -/
def Writer.close (w : Writer) : Writer :=
  if !w.streamOpen then w
  else
    let w1 := w.startLocked
    if w1.seekable then
      { w1 with out := markAll w1.out w1.tracks, seekable := false, streamOpen := false }
    else
      let r := nilEosAll w1.out w1.tracks
      { w1 with out := r.1, tracks := r.2, seekable := false, streamOpen := false }

/-- one call on a multi-track writer (`write i …` goes to the `i`-th track created) -/
inductive MOp
  | write (i : Nat) (pkt : Option Bs) (ssrcOk : Bool)
  | newTrack (ssrc : Nat) (opts : List Opt)
  | close
  deriving DecidableEq, Repr

/-- a history of calls: the writer afterwards and (track, payload) of the calls that wrote an Ogg packet -/
def Writer.session : Writer → List MOp → Writer × List (Nat × Bs)
  | w, [] => (w, [])
  | w, .close :: ops => Writer.session w.close ops
  | w, .newTrack ssrc opts :: ops => Writer.session (w.newTrack ssrc opts).1 ops
  | w, .write i pkt ok :: ops =>
    let r := w.writeRTP i pkt ok
    let r2 := Writer.session r.1 ops
    (r2.1, match r.2, pkt with
      | .written, some p => (i, p) :: r2.2
      | _, _ => r2.2)

/-! ### oggreader -/

/-- `OggPageHeader` -/
structure PageHeader where
  granulePosition : Nat
  sig : Bs
  version : UInt8
  headerType : UInt8
  serial : Nat
  index : Nat
  segmentsCount : UInt8
  deriving DecidableEq, Repr

inductive PageResult
  | ok (payload : Bs) (hdr : PageHeader) (rest : Bs)
  | eof                    -- io.EOF
  | unexpectedEOF          -- io.ErrUnexpectedEOF
  | checksumMismatch
  | panic                  -- index out of range (never produced: see `parseNextPage_no_panic`)
  deriving DecidableEq, Repr

/-- `io.ReadFull(stream, make([]byte, n))`: same outcome as `Bytes.readFull` (see `readN_eq_readFull`), but
    looks at no more than `n` bytes of the stream -/
def readN (n : Nat) (s : Bs) : ReadFull :=
  let got := s.take n
  if got.length = n then .ok got (s.drop n) else if s.isEmpty then .eof else .short

def rd64le (x0 x1 x2 x3 x4 x5 x6 x7 : Byte) : Nat := rd32le x0 x1 x2 x3 + rd32le x4 x5 x6 x7 * two32

def sumSegs (segs : List UInt8) : Nat := segs.foldl (fun a s => a + s.toNat) 0

/-- the reader's checksum loop: header with bytes 22..25 replaced by 0, then segment table, then payload -/
def readerChecksum (header segs payload : Bs) : UInt32 :=
  crc (header.take 22 ++ [0, 0, 0, 0] ++ header.drop 26 ++ segs ++ payload)

/-- `(*OggReader).ParseNextPage` on the remaining bytes of the stream -/
def parseNextPage (doChecksum : Bool) (s : Bs) : PageResult :=
  match readN 27 s with
  | .eof => .eof
  | .short => .unexpectedEOF
  | .ok header rest =>
    match header with
    | [s0, s1, s2, s3, ver, ht, g0, g1, g2, g3, g4, g5, g6, g7, n0, n1, n2, n3, i0, i1, i2, i3,
       c0, c1, c2, c3, nseg] =>
      match readN nseg.toNat rest with
      | .eof => .eof
      | .short => .unexpectedEOF
      | .ok sizeBuffer rest2 =>
        match readN (sumSegs sizeBuffer) rest2 with
        | .eof => .eof
        | .short => .unexpectedEOF
        | .ok payload rest3 =>
          if doChecksum && rd32le c0 c1 c2 c3 != (readerChecksum header sizeBuffer payload).toNat then
            .checksumMismatch
          else
            .ok payload
              { granulePosition := rd64le g0 g1 g2 g3 g4 g5 g6 g7, sig := [s0, s1, s2, s3], version := ver
                headerType := ht, serial := rd32le n0 n1 n2 n3, index := rd32le i0 i1 i2 i3
                segmentsCount := nseg } rest3
    | _ => .panic

/-- `ParseNextPage` until `io.EOF`: the (payload, header) pairs, or `none` when a call fails otherwise
    (`fuel` bounds the number of calls) -/
def readAllPages (doChecksum : Bool) : Nat → Bs → Option (List (Bs × PageHeader))
  | 0, _ => none
  | fuel + 1, s =>
    match parseNextPage doChecksum s with
    | .ok payload hdr rest => (readAllPages doChecksum fuel rest).map ((payload, hdr) :: ·)
    | .eof => some []
    | _ => none

/-- `OggHeader` -/
structure OggHeader where
  channelMap : UInt8
  channels : UInt8
  outputGain : Nat
  preSkip : Nat
  sampleRate : Nat
  version : UInt8
  streamCount : UInt8 := 0
  coupledCount : UInt8 := 0
  channelMapping : Bs := []
  deriving DecidableEq, Repr

inductive HeadResult
  | ok (h : OggHeader)
  | badIDPageLength
  | unsupportedFamily
  | badIDPageSignature | badIDPageType | badIDPagePayloadSignature     -- `readOpusHeader` only
  | readErr (r : PageResult)                                             -- `readOpusHeader` only
  | panic
  deriving DecidableEq, Repr

/-- `payload[a:b]`; `none` = slice bounds out of range -/
def slice (p : Bs) (a b' : Nat) : Option Bs :=
  if a ≤ b' ∧ b' ≤ p.length then some ((p.drop a).take (b' - a)) else none

/-- `parseBasicHeaderFields` followed by `parseChannelMapping` -/
def parseHeadFields (payload : Bs) : HeadResult :=
  match payload[8]?, payload[9]?, slice payload 10 12, slice payload 12 16, slice payload 16 18, payload[18]? with
  | some ver, some ch, some [p0, p1], some [r0, r1, r2, r3], some [g0, g1], some fam =>
    let h : OggHeader :=
      { channelMap := fam, channels := ch, outputGain := rd16le g0 g1, preSkip := rd16le p0 p1
        sampleRate := rd32le r0 r1 r2 r3, version := ver }
    if fam == 0 then
      if payload.length != 19 then .badIDPageLength else .ok h
    else if fam == 1 || fam == 2 || fam == 255 then
      let expected := 21 + ch.toNat
      if payload.length != expected then .badIDPageLength
      else
        match payload[19]?, payload[20]?, slice payload 21 expected with
        | some sc, some cc, some m => .ok { h with streamCount := sc, coupledCount := cc, channelMapping := m }
        | _, _, _ => .panic
    else .unsupportedFamily
  | _, _, _, _, _, _ => .panic

/-- `ParseOpusHead` -/
def parseOpusHead (payload : Bs) : HeadResult :=
  if payload.length < 19 then .badIDPageLength else parseHeadFields payload

/-- `opusPayloadSignature`: 1 = OpusHead, 2 = OpusTags, 0 = unknown -/
def opusPayloadSignature (payload : Bs) : Nat :=
  if payload.length < 8 then 0
  else if payload.take 8 == opusHeadSig then 1
  else if payload.take 8 == opusTagsSig then 2
  else 0

/-- `(*OggPageHeader).HeaderType` -/
def headerTypeOf (hdr : PageHeader) (payload : Bs) : Nat :=
  let sig := opusPayloadSignature payload
  if sig == 0 || (sig == 1 && hdr.headerType != pageHeaderTypeBeginningOfStream) then 0 else sig

/-- `readOpusHeader` (what `oggreader.NewWith` does with the first page) -/
def readOpusHeader (doChecksum : Bool) (s : Bs) : HeadResult × Bs :=
  match parseNextPage doChecksum s with
  | .ok payload hdr rest =>
    if hdr.sig != oggS then (.badIDPageSignature, rest)
    else if hdr.headerType != pageHeaderTypeBeginningOfStream then (.badIDPageType, rest)
    else if payload.length < 19 then (.badIDPageLength, rest)
    else if opusPayloadSignature payload != 1 then (.badIDPagePayloadSignature, rest)
    else (parseHeadFields payload, rest)
  | r => (.readErr r, s)

inductive TagsResult
  | ok (t : Tags)
  | badSignature           -- every error of ParseOpusTags wraps errBadOpusTagsSignature
  | panic
  deriving DecidableEq, Repr

/-- `strings.SplitN(comment, "=", 2)`: split at the first '=' -/
def splitFirstEq : Bs → Option (Bs × Bs)
  | [] => none
  | x :: rest =>
    if x == 61 then some ([], rest)
    else match splitFirstEq rest with
      | some (k, v) => some (x :: k, v)
      | none => none

def rd32leL : Bs → Option Nat
  | [a, b', c, d] => some (rd32le a b' c d)
  | _ => none

/-- the loop of `parseUserComments` over `parseSingleUserComment`: `n` comments left, at `pos` -/
def parseUserCommentsLoop (payload : Bs) : Nat → Nat → TagsResult × List (Bs × Bs)
  | 0, _ => (.ok { vendor := [], comments := [] }, [])
  | n + 1, pos =>
    if pos + 4 > payload.length then (.badSignature, [])
    else
      match (slice payload pos (pos + 4)).bind rd32leL with
      | none => (.panic, [])
      | some commentLen =>
        let pos := pos + 4
        if pos + commentLen > payload.length then (.badSignature, [])
        else
          match slice payload pos (pos + commentLen) with
          | none => (.panic, [])
          | some comment =>
            match splitFirstEq comment with
            | none => (.badSignature, [])
            | some kv =>
              let r := parseUserCommentsLoop payload n (pos + commentLen)
              (r.1, kv :: r.2)

/-- `ParseOpusTags` -/
def parseOpusTags (payload : Bs) : TagsResult :=
  if payload.length < 16 then .badSignature
  else
    match slice payload 0 8 with
    | none => .panic
    | some sig =>
      if sig != opusTagsSig then .badSignature
      else
        match (slice payload 8 12).bind rd32leL with
        | none => .panic
        | some vendorLen =>
          if vendorLen > payload.length - 16 then .badSignature
          else
            let vendorEnd := 12 + vendorLen
            if vendorEnd + 4 > payload.length then .badSignature
            else
              match slice payload 12 vendorEnd, (slice payload vendorEnd (vendorEnd + 4)).bind rd32leL with
              | some vendor, some count =>
                if count > (payload.length - vendorEnd) / 4 then .badSignature
                else
                  match parseUserCommentsLoop payload count (vendorEnd + 4) with
                  | (.ok _, cs) => .ok { vendor, comments := cs }
                  | (r, _) => r
              | _, _ => .panic

end WebrtcVerif.Ogg
