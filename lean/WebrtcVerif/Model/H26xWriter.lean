import WebrtcVerif.Base.Bytes
/-
  Model of pkg/media/h264writer/h264writer.go and pkg/media/h265writer/h265writer.go — property C35.

  The writers are `WriteRTP` = key-frame gate (`hasKeyFrame` latch + `isKeyFrame`) in front of pion/rtp's
  depacketizer (`codecs.H264Packet.Unmarshal` / `codecs.H265Depacketizer.Unmarshal`, zero value, i.e.
  Annex-B output, no DONL), whose non-empty output is handed to the io.Writer unchanged.  The depacketizers
  are external code (pion/rtp v1.10.5); they are modelled here branch by branch because what the writer
  writes *is* their output, and the correspondence run exercises the real ones.

  One `WriteRTP` call is observed from outside as `Res`: it returned an error, or it wrote bytes, or neither.
  The underlying io.Writer is a buffer that never fails.

  Byte-level conventions: an H.265 NAL/payload header is kept as its two bytes `h0 h1`
  (`F | Type(6) | LayerId(6) | TID(3)`): `Type = (h0 & 0x7E) >> 1`, `F = h0 & 0x80`, and the low nine bits
  (`h0 & 1`, `h1`) are LayerId/TID.  Go's `uint16` header arithmetic is transcribed to these bytes.
-/
namespace WebrtcVerif.H26xWriter
open WebrtcVerif.Bytes

/-- `annexbNALUStartCode` -/
def startCode : Bs := [0, 0, 0, 1]

/-- what one `WriteRTP` call did -/
inductive Res where
  | skip                 -- returned nil, wrote nothing
  | wrote (data : Bs)    -- one `Write(data)`, data non-empty
  | err                  -- returned an error, wrote nothing
  deriving DecidableEq, Repr

def Res.bytes : Res → Bs
  | .wrote d => d
  | _ => []

/-- `if err != nil || len(data) == 0 { return err }; Write(data)` -/
def resOf : Option Bs → Res
  | none => .err
  | some [] => .skip
  | some d => .wrote d

/-- The walk over `size(2) ‖ unit` records shared by the STAP-A / AP key-frame scans
    (`checkSTAPAForKeyFrame`, `checkAggregationPacketForKeyFrame`): true as soon as a non-empty unit's
    first byte satisfies `isKey`; stops at a truncated size field or a unit that overruns the packet.
    `fuel` ≥ number of remaining bytes (each round consumes at least two). -/
def aggHasKey (isKey : Byte → Bool) : Nat → Bs → Bool
  | 0, _ => false
  | fuel + 1, s0 :: s1 :: tl =>
    let size := rd16be s0 s1
    if tl.length < size then false
    else
      (match tl with
       | u0 :: _ => size > 0 && isKey u0
       | [] => false)
      || aggHasKey isKey fuel (tl.drop size)
  | _ + 1, _ => false

/-! ## H.264 -/

structure St264 where
  hasKeyFrame : Bool := false
  /-- `cachedPacket.fuaBuffer` (nil and empty behave alike) -/
  fua : Bs := []
  deriving DecidableEq, Repr

/-- `isKeyFrameNalu` (h264writer): SPS or IDR; argument is the 5-bit type -/
def isKeyNalu264 (t : Byte) : Bool := t == 7 || t == 5

/-- h264writer `isKeyFrame`: needs four bytes (`binary.Read` of a `uint32`), then dispatches on the type of
    the first byte: STAP-A → scan the aggregated units; FU-A → start bit and type in the FU header;
    otherwise the unit's own type. -/
def isKeyFrame264 (p : Bs) : Bool :=
  match p with
  | b0 :: b1 :: _ :: _ :: _ =>
    let t := b0 &&& 0x1F
    if t == 24 then aggHasKey (fun u => isKeyNalu264 (u &&& 0x1F)) p.length (p.drop 1)
    else if t == 28 then (b1 &&& 0x80 != 0) && isKeyNalu264 (b1 &&& 0x1F)
    else isKeyNalu264 t
  | _ => false

/-- STAP-A branch of `H264Packet.parseBody` from offset 1: `none` = `errShortPacket` (a declared size
    overruns the packet; nothing is returned for the whole packet). -/
def stapaUnpack : Nat → Bs → Option Bs
  | 0, _ => some []
  | fuel + 1, s0 :: s1 :: tl =>
    let size := rd16be s0 s1
    if tl.length < size then none
    else (stapaUnpack fuel (tl.drop size)).map (fun r => startCode ++ tl.take size ++ r)
  | _ + 1, _ => some []

/-- `H264Packet.Unmarshal` (`IsAVC = false`): new FU-A buffer and the returned data (`none` = error). -/
def unmarshal264 (fua : Bs) (p : Bs) : Bs × Option Bs :=
  match p with
  | [] => (fua, none)
  | h :: tl =>
    let t := h &&& 0x1F
    if 0 < t && t < 24 then (fua, some (startCode ++ p))
    else if t == 24 then (fua, stapaUnpack tl.length tl)
    else if t == 28 then
      match tl with
      | [] => (fua, none)
      | fh :: body =>
        let buf := fua ++ body
        if fh &&& 0x40 != 0 then
          ([], some (startCode ++ ((h &&& 0x60) ||| (fh &&& 0x1F)) :: buf))
        else (buf, some [])
    else (fua, none)

/-- `H264Writer.WriteRTP` -/
def writeRTP264 (s : St264) (p : Bs) : St264 × Res :=
  if p.isEmpty then (s, .skip)
  else if !s.hasKeyFrame && !isKeyFrame264 p then (s, .skip)
  else
    let r := unmarshal264 s.fua p
    ({ hasKeyFrame := true, fua := r.1 }, resOf r.2)

/-! ## H.265 -/

/-- an element of `H265Depacketizer.partials` -/
structure Frag where
  h0 : Byte
  h1 : Byte
  fu : Byte
  payload : Bs
  deriving DecidableEq, Repr

structure St265 where
  hasKeyFrame : Bool := false
  partials : List Frag := []
  deriving DecidableEq, Repr

/-- `H265NALUHeader.Type()` / `(b & 0x7E) >> 1` -/
def type265 (h0 : Byte) : Byte := (h0 &&& (0x7E : Byte)) >>> (1 : Byte)

/-- `isKeyFrameNalu` (h265writer): VPS, SPS, PPS, IDR_W_RADL, IDR_N_LP -/
def isKeyNalu265 (t : Byte) : Bool := t == 32 || t == 33 || t == 34 || t == 19 || t == 20

/-- h265writer `isKeyFrame`.  The FU branch takes `(data[2] & 0x7E) >> 1` of the FU header
    `S | E | FuType(6)` — i.e. bits 1..6 instead of bits 0..5 — as the code does. -/
def isKeyFrame265 (p : Bs) : Bool :=
  match p with
  | h0 :: _ :: rest =>
    let t := type265 h0
    if isKeyNalu265 t then true
    else if t == 48 then aggHasKey (fun u => isKeyNalu265 (type265 u)) p.length rest
    else if t == 49 then
      match rest with
      | fu :: _ => isKeyNalu265 (type265 fu)
      | [] => false
    else false
  | _ => false

/-- `parseH265SingleNalUnitPacket(buf, false)` succeeds: more than two bytes, F clear, not AP/FU/PACI. -/
def single265ok (buf : Bs) : Bool :=
  match buf with
  | h0 :: _ :: _ :: _ =>
    h0 &&& 0x80 == 0 && !(type265 h0 == 48 || type265 h0 == 49 || type265 h0 == 50)
  | _ => false

/-- `splitH265AggregationPacket` (no DONL) over the AP payload: the aggregated units, `none` = error. -/
def apSplit : Nat → Bs → Option (List Bs)
  | 0, _ => some []
  | _ + 1, [] => some []
  | _ + 1, [_] => none
  | fuel + 1, s0 :: s1 :: tl =>
    let size := rd16be s0 s1
    if tl.length < size then none
    else if !single265ok (tl.take size) then none
    else (apSplit fuel (tl.drop size)).map (fun r => tl.take size :: r)

/-- `handleAggregationUnit`: clears the partials; fewer than two units is an error. -/
def handleAgg265 (payload : Bs) : List Frag × Option Bs :=
  match apSplit (payload.length + 1) payload with
  | none => ([], none)
  | some us => if us.length < 2 then ([], none) else ([], some (us.flatMap (fun u => startCode ++ u)))

/-- `handleFragmentationUnit` (with `rebuildH265FragmentationPackets`) -/
def handleFU265 (partials : List Frag) (f : Frag) : List Frag × Option Bs :=
  if f.fu &&& 0x40 != 0 then
    if partials.isEmpty then (partials, some [])
    else
      let ps := partials ++ [f]
      match ps with
      | first :: _ =>
        if first.fu &&& 0x80 == 0 then (ps, none)         -- errFirstFragmentationUnitMissing
        else
          let h0 : Byte := (first.h0 &&& (0x81 : Byte)) ||| ((first.fu &&& (0x3F : Byte)) <<< (1 : Byte))
          ([], some (startCode ++ h0 :: first.h1 :: ps.flatMap (·.payload)))
      | [] => (ps, none)
  else if f.fu &&& 0x80 != 0 then ([f], some [])
  else if partials.isEmpty then (partials, none)          -- errExpectFragmentationStartUnit
  else (partials ++ [f], some [])

/-- PACI branch of `Unmarshal` (`parseH265PACIPacket(buf, false)` then dispatch on the inner kind).
    `A()` is `(fields & 1) << 15 != 0` in Go (operator precedence), i.e. the Y bit. -/
def paci265 (partials : List Frag) (h0 h1 : Byte) (after : Bs) : List Frag × Option Bs :=
  match after with
  | f0 :: f1 :: rest =>
    let ctype : Byte := (f0 >>> (1 : Byte)) &&& (0x3F : Byte)
    let phsb : Byte := ((f0 &&& (1 : Byte)) <<< (4 : Byte)) ||| (f1 >>> (4 : Byte))
    let phs := phsb.toNat
    if ctype == 50 then (partials, none)
    else if rest.length < phs then (partials, none)
    else
      let inner := rest.drop phs
      let r0 : Byte := (if f1 &&& (1 : Byte) != 0 then (0x80 : Byte) else 0) ||| (ctype <<< (1 : Byte)) ||| (h0 &&& (1 : Byte))
      if ctype == 48 then
        if inner.length < 6 then (partials, none) else handleAgg265 inner
      else if ctype == 49 then
        match inner with
        | fu :: pl => if inner.length < 3 then (partials, none) else handleFU265 partials ⟨r0, h1, fu, pl⟩
        | [] => (partials, none)
      else
        if inner.length < 2 then (partials, none) else ([], some (startCode ++ r0 :: h1 :: inner))
  | _ => (partials, none)

/-- `H265Depacketizer.Unmarshal` (`hasDonl = false`): new partials and the returned data (`none` = error). -/
def unmarshal265 (partials : List Frag) (p : Bs) : List Frag × Option Bs :=
  match p with
  | h0 :: h1 :: rest =>
    let t := type265 h0
    if t == 49 then
      match rest with
      | fu :: pl => handleFU265 partials ⟨h0, h1, fu, pl⟩
      | [] => (partials, none)
    else if t == 48 then
      if p.length < 6 then (partials, none) else handleAgg265 rest
    else if t == 50 then paci265 partials h0 h1 rest
    else if single265ok p then ([], some (startCode ++ p))
    else (partials, none)
  | _ => (partials, none)

/-- `H265Writer.WriteRTP` -/
def writeRTP265 (s : St265) (p : Bs) : St265 × Res :=
  if p.isEmpty then (s, .skip)
  else if !s.hasKeyFrame && !isKeyFrame265 p then (s, .skip)
  else
    let r := unmarshal265 s.partials p
    ({ hasKeyFrame := true, partials := r.1 }, resOf r.2)

/-! ## running a packet sequence -/

/-- all `WriteRTP` calls in order: final state and what each call did -/
def runWith {σ : Type} (step : σ → Bs → σ × Res) : σ → List Bs → σ × List Res
  | s, [] => (s, [])
  | s, p :: ps =>
    let r := step s p
    let r' := runWith step r.1 ps
    (r'.1, r.2 :: r'.2)

/-- content of the output buffer -/
def written (rs : List Res) : Bs := rs.flatMap Res.bytes

def write264 (ps : List Bs) : Bs := written (runWith writeRTP264 {} ps).2
def write265 (ps : List Bs) : Bs := written (runWith writeRTP265 {} ps).2

/-! ## reading the file back (h264reader / h265reader with SEI inclusion on, over a complete byte slice)

  Both readers are the same machine when SEI units are included.  `rbuf` is `nalBuffer` reversed.
  With an in-memory stream `read(4)` fails with io.EOF when fewer than four bytes exist, so the
  "not a bitstream" answers for 1–3 byte files are unreachable. -/

inductive RdEnd | eof | notBitstream
  deriving DecidableEq, Repr

/-- the `NextNAL` loop, byte by byte, over the rest of the stream; returns the units in order -/
def rdLoop : Bs → Bs → Nat → List Bs
  | [], rbuf, _ => if rbuf.isEmpty then [] else [rbuf.reverse]
  | x :: xs, rbuf, zeros =>
    if x == 0 then rdLoop xs (x :: rbuf) (zeros + 1)
    else if x == 1 then
      if zeros ≥ 2 then
        let k := if zeros > 2 then 3 else 2
        if rbuf.length > k then (rbuf.drop k).reverse :: rdLoop xs [] 0
        else rdLoop xs (x :: rbuf) 0
      else rdLoop xs (x :: rbuf) 0
    else rdLoop xs (x :: rbuf) 0

/-- `NewReader` + `NextNAL` until it fails -/
def readBack (s : Bs) : List Bs × RdEnd :=
  match s with
  | 0 :: 0 :: 1 :: x :: rest => (rdLoop rest [x] 0, .eof)
  | 0 :: 0 :: 0 :: 1 :: rest => (rdLoop rest [] 0, .eof)
  | _ :: _ :: _ :: _ :: _ => ([], .notBitstream)
  | _ => ([], .eof)

end WebrtcVerif.H26xWriter
