/-
  Model of operations.go (the PeerConnection's internal operations queue) — property C05.

  The Go code is a set of goroutines that touch the shared state only inside `o.mu` critical sections
  (or through the busy channel / a WaitGroup).  Each critical section is one atomic `Action` here; the
  transition system allows ANY interleaving of enabled actions of ANY number of enqueuers, waiters
  (`Done`), closers (`GracefulClose`) and workers (`start`).  Nothing in the state says "there is one
  worker": workers are a list that `tryEnqueue` / the deferred hand-off append to, so "at most one worker"
  is a theorem, not an assumption.

  The end of `start` is modelled step by step, as the code has it: `Load` of
  updateNegotiationNeededFlagOnEmptyChain (`afterLoop`), `Store(false)` (`clearFlag`), then the
  onNegotiationNeeded callback with its own steps (`cbBegin`, `cbAct`).  What the callback does is a
  parameter of the system (`NegMode`): nothing, enqueue a check, or what
  `PeerConnection.onNegotiationNeeded` does (`rearm`: `IsEmpty()` under the lock; then, in a separate
  step, either `Enqueue(negotiationNeededOp)` or `flag.Store(true)`).  API goroutines that call
  `PeerConnection.onNegotiationNeeded` from outside the worker (AddTrack, RemoveTrack, CreateDataChannel,
  setDescription reaching stable, …) are the `callers`.
-/
namespace WebrtcVerif.Ops

/-- what sits in the queue: a plain operation (by id) or the waiter closure of a `Done()` call (by caller) -/
inductive Item
  | op (id : Nat)
  | waiter (caller : Nat)
  | check (k : Nat)             -- the k-th negotiation-needed check closure created by onNegotiationNeeded
  deriving DecidableEq, Repr

def Item.isCheck : Item → Bool
  | .check _ => true
  | _ => false

/-- what the worker's onNegotiationNeeded callback does -/
inductive NegMode
  | none      -- nothing (a test double)
  | enqueue   -- enqueues a check unconditionally (a test double)
  | rearm     -- PeerConnection.onNegotiationNeeded: queue non-empty → set the flag again, else enqueue the check
  deriving DecidableEq, Repr

/-- program counter of a worker goroutine (`operations.start`) -/
inductive WPc
  | start                       -- spawned, before its first `pop`
  | popped (fn : Option Item)   -- `pop` returned `fn`; not yet called
  | running (it : Item)         -- inside `fn()`
  | loaded                      -- `fn == nil`, `flag.Load()` returned true; `Store(false)` not yet done
  | cleared                     -- `flag.Store(false)` done; callback not yet called
  | cb (empty : Bool)           -- inside the callback (mode `rearm`): `IsEmpty()` returned `empty`
  | cbDone                      -- SWAPPED variant only (`stepSw`): callback returned, `Store(false)` not yet done
  | defer_                      -- loop left, negotiation flag handled; deferred block not yet run
  | fin
  deriving DecidableEq, Repr

/-- an API goroutine inside `PeerConnection.onNegotiationNeeded` -/
inductive NPc
  | idle
  | tested (empty : Bool)       -- `pc.ops.IsEmpty()` returned `empty`; the flag store / Enqueue not yet done
  | returned
  deriving DecidableEq, Repr

/-- ghost events of the negotiation-needed bookkeeping -/
inductive NegEv
  | req                         -- a check was requested (onNegotiationNeeded was called / the flag was set)
  | chk                         -- a check operation started to run
  deriving DecidableEq, Repr

/-- a `GracefulClose` caller -/
inductive CPc
  | idle
  | waiting (gen : Nat)         -- captured a non-nil busyCh (generation `gen`), blocked on `<-busyCh`
  | woke                        -- the channel was closed; about to re-read `o.busyCh` under the lock
  | returnedEarly               -- saw `isClosed` already set
  | returned                    -- set `isClosed` itself and saw `busyCh == nil`
  deriving DecidableEq, Repr

/-- a `Done` caller -/
inductive DPc
  | idle
  | waiting                     -- waiter accepted, blocked on `wg.Wait()`
  | drainWaiting (gen : Nat)    -- queue closed (waiter rejected): blocked on `<-busyCh` in waitUntilIdle
  | drainWoke                   -- that channel was closed; about to re-read `o.busyCh` under the lock
  | returned
  deriving DecidableEq, Repr

structure St where
  queue : List Item := []
  busy : Option Nat := none          -- `o.busyCh`: `some g` = the g-th channel created, `none` = nil
  nextGen : Nat := 0
  closedGens : List Nat := []        -- channels that have been closed
  isClosed : Bool := false
  flag : Bool := false               -- updateNegotiationNeededFlagOnEmptyChain
  negCalls : Nat := 0                -- how often onNegotiationNeeded was called by a worker
  checks : Nat := 0                  -- how many check closures onNegotiationNeeded has created
  callers : List NPc := []           -- API goroutines calling PeerConnection.onNegotiationNeeded
  negLog : List NegEv := []          -- ghost: requests and check runs, in order
  unseen : Bool := false             -- ghost: the flag was stored `true` and no worker has loaded it since
  workers : List WPc := []           -- every worker goroutine ever spawned, in spawn order
  closers : List CPc := []
  doners : List DPc := []
  accepted : List Item := []         -- ghost: items for which tryEnqueue returned true, in order
  executed : List Item := []         -- ghost: items whose body started, in order
  doneSnap : List (List Item) := []  -- ghost: per Done caller, what had been accepted when it called
  deriving Repr, DecidableEq

inductive Action
  | enqueue (it : Item)              -- `Enqueue` / `tryEnqueue` of a non-nil op (whole critical section)
  | doneBegin (d : Nat)              -- `Done`: tryEnqueue of the waiter, under the lock
  | doneWake (d : Nat)               -- `wg.Wait()` returns
  | doneDrainWake (d : Nat)          -- closed queue: `<-busyCh` returns (waitUntilIdle)
  | doneRecheck (d : Nat)            -- closed queue: re-read `o.busyCh` under the lock
  | gcBegin (c : Nat)                -- `GracefulClose`: first critical section
  | gcWake (c : Nat)                 -- `<-busyCh` returns
  | gcRecheck (c : Nat)              -- re-read `o.busyCh` under the lock
  | pop (w : Nat)                    -- worker: `fn = o.pop()` (from `start`, or after `fn()` returned)
  | exec (w : Nat)                   -- worker: enters `fn()`
  | afterLoop (w : Nat)              -- worker: `fn == nil`: `flag.Load()`
  | clearFlag (w : Nat)              -- worker: `flag.Store(false)`
  | cbBegin (w : Nat)                -- worker: calls the callback (mode `rearm`: up to and incl. `IsEmpty()`)
  | cbAct (w : Nat)                  -- worker, in the callback: `flag.Store(true)` or `Enqueue(check)`
  | negTest (n : Nat)                -- API goroutine: `IsEmpty()` in PeerConnection.onNegotiationNeeded
  | negAct (n : Nat)                 -- API goroutine: `flag.Store(true)` or `Enqueue(check)`
  | deferred (w : Nat)               -- worker: the deferred block (close channel; hand off or clear)
  | setFlag                          -- someone sets updateNegotiationNeededFlagOnEmptyChain
  deriving DecidableEq, Repr

def setAt {α} (l : List α) (i : Nat) (x : α) : List α := l.set i x

/-- `tryEnqueue` under the lock -/
def tryEnqueue (s : St) (it : Item) : St × Bool :=
  if s.isClosed then (s, false)
  else
    let s := { s with queue := s.queue ++ [it], accepted := s.accepted ++ [it] }
    match s.busy with
    | some _ => (s, true)
    | none => ({ s with busy := some s.nextGen, nextGen := s.nextGen + 1, workers := s.workers ++ [.start] }, true)

/-- `pop` under the lock -/
def popQueue (s : St) : St × Option Item :=
  match s.queue with
  | [] => (s, none)
  | it :: rest => ({ s with queue := rest }, some it)

/-- `Enqueue(negotiationNeededOp)`: a fresh check closure goes through `tryEnqueue` -/
def enqCheck (s : St) : St := (tryEnqueue { s with checks := s.checks + 1 } (.check s.checks)).1

/-- second half of `PeerConnection.onNegotiationNeeded`, after `IsEmpty()` returned `empty` -/
def negApply (s : St) (empty : Bool) : St :=
  if empty then enqCheck s else { s with flag := true, unseen := true }

/-- one atomic step; `none` = the action is not enabled in this state -/
def step (m : NegMode) (s : St) : Action → Option St
  | .enqueue it =>
      -- the program enqueues each closure once (fresh ids); check closures only come from onNegotiationNeeded
      if it.isCheck = true ∨ it ∈ s.accepted then none
      else some (tryEnqueue s it).1
  | .doneBegin d =>
      match s.doners[d]? with
      | some .idle =>
          if Item.waiter d ∈ s.accepted then none else
          let snap := s.accepted
          let (s', ok) := tryEnqueue s (.waiter d)
          let pc : DPc := if ok then .waiting else
            match s'.busy with
            | none => .returned          -- waitUntilIdle(nil) returns at once
            | some g => .drainWaiting g
          some { s' with doners := setAt s'.doners d pc, doneSnap := setAt s'.doneSnap d snap }
      | _ => none
  | .doneDrainWake d =>
      match s.doners[d]? with
      | some (.drainWaiting g) =>
          if g ∈ s.closedGens then some { s with doners := setAt s.doners d .drainWoke } else none
      | _ => none
  | .doneRecheck d =>
      match s.doners[d]? with
      | some .drainWoke =>
          match s.busy with
          | none => some { s with doners := setAt s.doners d .returned }
          | some g => some { s with doners := setAt s.doners d (.drainWaiting g) }
      | _ => none
  | .doneWake d =>
      match s.doners[d]? with
      | some .waiting =>
          if Item.waiter d ∈ s.executed then some { s with doners := setAt s.doners d .returned } else none
      | _ => none
  | .gcBegin c =>
      match s.closers[c]? with
      | some .idle =>
          if s.isClosed then some { s with closers := setAt s.closers c .returnedEarly }
          else
            let s := { s with isClosed := true }
            match s.busy with
            | none => some { s with closers := setAt s.closers c .returned }
            | some g => some { s with closers := setAt s.closers c (.waiting g) }
      | _ => none
  | .gcWake c =>
      match s.closers[c]? with
      | some (.waiting g) => if g ∈ s.closedGens then some { s with closers := setAt s.closers c .woke } else none
      | _ => none
  | .gcRecheck c =>
      match s.closers[c]? with
      | some .woke =>
          match s.busy with
          | none => some { s with closers := setAt s.closers c .returned }
          | some g => some { s with closers := setAt s.closers c (.waiting g) }
      | _ => none
  | .pop w =>
      match s.workers[w]? with
      | some .start =>
          let (s', fn) := popQueue s
          some { s' with workers := setAt s'.workers w (.popped fn) }
      | some (.running _) =>
          let (s', fn) := popQueue s
          some { s' with workers := setAt s'.workers w (.popped fn) }
      | _ => none
  | .exec w =>
      match s.workers[w]? with
      | some (.popped (some it)) =>
          some { s with workers := setAt s.workers w (.running it), executed := s.executed ++ [it],
                        negLog := if it.isCheck then s.negLog ++ [.chk] else s.negLog }
      | _ => none
  | .afterLoop w =>
      match s.workers[w]? with
      | some (.popped none) =>
          some { s with workers := setAt s.workers w (if s.flag then .loaded else .defer_), unseen := false }
      | _ => none
  | .clearFlag w =>
      match s.workers[w]? with
      | some .loaded => some { s with flag := false, workers := setAt s.workers w .cleared }
      | _ => none
  | .cbBegin w =>
      match s.workers[w]? with
      | some .cleared =>
          let s := { s with negCalls := s.negCalls + 1 }
          match m with
          | .none => some { s with workers := setAt s.workers w .defer_ }
          | .enqueue =>
              let s' := enqCheck s
              some { s' with workers := setAt s'.workers w .defer_ }
          | .rearm =>
              some { s with negLog := s.negLog ++ [.req], workers := setAt s.workers w (.cb s.queue.isEmpty) }
      | _ => none
  | .cbAct w =>
      match s.workers[w]? with
      | some (.cb e) =>
          let s' := negApply s e
          some { s' with workers := setAt s'.workers w .defer_ }
      | _ => none
  | .negTest n =>
      match s.callers[n]? with
      | some .idle =>
          some { s with negLog := s.negLog ++ [.req], callers := setAt s.callers n (.tested s.queue.isEmpty) }
      | _ => none
  | .negAct n =>
      match s.callers[n]? with
      | some (.tested e) =>
          let s' := negApply s e
          some { s' with callers := setAt s'.callers n .returned }
      | _ => none
  | .deferred w =>
      match s.workers[w]? with
      | some .defer_ =>
          match s.busy with
          | none => none        -- close(nil channel) would panic; unreachable (theorem)
          | some g =>
            let s := { s with closedGens := g :: s.closedGens, workers := setAt s.workers w .fin }
            if s.queue.isEmpty then some { s with busy := none }
            else some { s with busy := some s.nextGen, nextGen := s.nextGen + 1, workers := s.workers ++ [.start] }
      | _ => none
  | .setFlag => some { s with flag := true, negLog := s.negLog ++ [.req], unseen := true }

/-- initial state with `nc` GracefulClose callers, `nd` Done callers and `nn` onNegotiationNeeded callers
    that have not started yet -/
def init (nc nd nn : Nat) : St :=
  { closers := List.replicate nc .idle, doners := List.replicate nd .idle, doneSnap := List.replicate nd [],
    callers := List.replicate nn .idle }

def runActions (m : NegMode) (s : St) : List Action → Option St
  | [] => some s
  | a :: as => (step m s a).bind (fun s' => runActions m s' as)

/-- every state some interleaving can reach -/
inductive Reachable (m : NegMode) (nc nd nn : Nat) : St → Prop
  | init : Reachable m nc nd nn (init nc nd nn)
  | step {s s' : St} (a : Action) : Reachable m nc nd nn s → step m s a = some s' → Reachable m nc nd nn s'

/-! ### the SWAPPED end of `start` (seeded change C05-4): callback first, `Store(false)` afterwards -/

/-- like `step .rearm`, except that the worker calls the callback right after `Load()` returned true and
    clears the flag when the callback has returned -/
def stepSw (s : St) : Action → Option St
  | .cbBegin w =>
      match s.workers[w]? with
      | some .loaded =>
          some { s with negCalls := s.negCalls + 1, negLog := s.negLog ++ [.req],
                        workers := setAt s.workers w (.cb s.queue.isEmpty) }
      | _ => none
  | .cbAct w =>
      match s.workers[w]? with
      | some (.cb e) =>
          let s' := negApply s e
          some { s' with workers := setAt s'.workers w .cbDone }
      | _ => none
  | .clearFlag w =>
      match s.workers[w]? with
      | some .cbDone => some { s with flag := false, workers := setAt s.workers w .defer_ }
      | _ => none
  | a => step .rearm s a

def runActionsSw (s : St) : List Action → Option St
  | [] => some s
  | a :: as => (stepSw s a).bind (fun s' => runActionsSw s' as)

/-! ### derived notions used by the theorems -/

/-- items a worker has popped but not yet started -/
def heldOf : WPc → List Item
  | .popped (some it) => [it]
  | _ => []

def held (s : St) : List Item := (s.workers.map heldOf).flatten

def WPc.live : WPc → Bool
  | .fin => false
  | _ => true

def liveWorkers (s : St) : Nat := (s.workers.filter WPc.live).length

/-- no goroutine of the queue is left: nothing can run any more without a new enqueue -/
def quiescent (s : St) : Prop := liveWorkers s = 0

/-- the actions of worker `w` (everything `operations.start` does) -/
def workerActions (w : Nat) : List Action :=
  [.pop w, .exec w, .afterLoop w, .clearFlag w, .cbBegin w, .cbAct w, .deferred w]

/-- the actions of the queue's own goroutines: workers and the second half of onNegotiationNeeded calls -/
def sysAct : Action → Bool
  | .pop _ => true
  | .exec _ => true
  | .afterLoop _ => true
  | .clearFlag _ => true
  | .cbBegin _ => true
  | .cbAct _ => true
  | .deferred _ => true
  | .negAct _ => true
  | _ => false

/-! ### negotiation-needed requests -/

/-- a worker that has cleared the flag and still owes the callback's effect -/
def WPc.midCall : WPc → Bool
  | .cleared => true
  | .cb _ => true
  | _ => false

/-- an API goroutine between `IsEmpty()` and its flag store / Enqueue -/
def NPc.midCall : NPc → Bool
  | .tested _ => true
  | _ => false

/-- a request was raised after the last check started to run -/
def owed (s : St) : Bool := s.negLog.getLast? == some NegEv.req

/-- "a requested negotiation-needed check is not lost": while a request is owed, the queue is closed, or the
    flag is (still) set, or a check has been accepted and has not started yet (it is queued or held by the
    worker), or a worker is between `Store(false)` and the end of its callback, or an API goroutine is in
    the middle of onNegotiationNeeded. -/
def NegInv (s : St) : Prop :=
  owed s = true →
    s.isClosed = true ∨ s.flag = true ∨ (∃ it ∈ s.accepted, it.isCheck = true ∧ it ∉ s.executed)
      ∨ (∃ pc ∈ s.workers, pc.midCall = true) ∨ (∃ pc ∈ s.callers, pc.midCall = true)

instance (s : St) : Decidable (NegInv s) := by unfold NegInv; exact inferInstance

/-- a set flag has been stored after every worker's flag test so far (`unseen`), or the worker that loaded
    it is about to clear it and call the callback -/
def FlagInv (s : St) : Prop := s.flag = true → s.unseen = true ∨ WPc.loaded ∈ s.workers

end WebrtcVerif.Ops
