/-
  Model of operations.go (the PeerConnection's internal operations queue) — property C05.

  The Go code is a set of goroutines that touch the shared state only inside `o.mu` critical sections
  (or through the busy channel / a WaitGroup).  Each critical section is one atomic `Action` here; the
  transition system allows ANY interleaving of enabled actions of ANY number of enqueuers, waiters
  (`Done`), closers (`GracefulClose`) and workers (`start`).  Nothing in the state says "there is one
  worker": workers are a list that `tryEnqueue` / the deferred hand-off append to, so "at most one worker"
  is a theorem, not an assumption.
-/
namespace WebrtcVerif.Ops

/-- what sits in the queue: a plain operation (by id) or the waiter closure of a `Done()` call (by caller) -/
inductive Item
  | op (id : Nat)
  | waiter (caller : Nat)
  deriving DecidableEq, Repr

/-- program counter of a worker goroutine (`operations.start`) -/
inductive WPc
  | start                       -- spawned, before its first `pop`
  | popped (fn : Option Item)   -- `pop` returned `fn`; not yet called
  | running (it : Item)         -- inside `fn()`
  | defer_                      -- loop left, negotiation flag handled; deferred block not yet run
  | fin
  deriving DecidableEq, Repr

/-- a `GracefulClose` caller -/
inductive CPc
  | idle
  | waiting (gen : Nat)         -- captured a non-nil busyCh (generation `gen`), blocked on `<-busyCh`
  | woke                        -- the channel was closed; about to re-read `o.busyCh` under the lock
  | returnedEarly               -- saw `isClosed` already set
  | returned                    -- set `isClosed` itself and saw `busyCh == nil`
  deriving DecidableEq, Repr

/-- a `Done` caller -/
inductive DPc
  | idle
  | waiting                     -- waiter accepted, blocked on `wg.Wait()`
  | drainWaiting (gen : Nat)    -- queue closed (waiter rejected): blocked on `<-busyCh` in waitUntilIdle
  | drainWoke                   -- that channel was closed; about to re-read `o.busyCh` under the lock
  | returned
  deriving DecidableEq, Repr

structure St where
  queue : List Item := []
  busy : Option Nat := none          -- `o.busyCh`: `some g` = the g-th channel created, `none` = nil
  nextGen : Nat := 0
  closedGens : List Nat := []        -- channels that have been closed
  isClosed : Bool := false
  flag : Bool := false               -- updateNegotiationNeededFlagOnEmptyChain
  negCalls : Nat := 0                -- how often onNegotiationNeeded was called by a worker
  workers : List WPc := []           -- every worker goroutine ever spawned, in spawn order
  closers : List CPc := []
  doners : List DPc := []
  accepted : List Item := []         -- ghost: items for which tryEnqueue returned true, in order
  executed : List Item := []         -- ghost: items whose body started, in order
  doneSnap : List (List Item) := []  -- ghost: per Done caller, what had been accepted when it called
  deriving Repr, DecidableEq

inductive Action
  | enqueue (it : Item)              -- `Enqueue` / `tryEnqueue` of a non-nil op (whole critical section)
  | doneBegin (d : Nat)              -- `Done`: tryEnqueue of the waiter, under the lock
  | doneWake (d : Nat)               -- `wg.Wait()` returns
  | doneDrainWake (d : Nat)          -- closed queue: `<-busyCh` returns (waitUntilIdle)
  | doneRecheck (d : Nat)            -- closed queue: re-read `o.busyCh` under the lock
  | gcBegin (c : Nat)                -- `GracefulClose`: first critical section
  | gcWake (c : Nat)                 -- `<-busyCh` returns
  | gcRecheck (c : Nat)              -- re-read `o.busyCh` under the lock
  | pop (w : Nat)                    -- worker: `fn = o.pop()` (from `start`, or after `fn()` returned)
  | exec (w : Nat)                   -- worker: enters `fn()`
  | afterLoop (w : Nat)              -- worker: `fn == nil`: negotiation flag test (+ callback)
  | deferred (w : Nat)               -- worker: the deferred block (close channel; hand off or clear)
  | setFlag                          -- someone sets updateNegotiationNeededFlagOnEmptyChain
  deriving DecidableEq, Repr

def setAt {α} (l : List α) (i : Nat) (x : α) : List α := l.set i x

/-- `tryEnqueue` under the lock -/
def tryEnqueue (s : St) (it : Item) : St × Bool :=
  if s.isClosed then (s, false)
  else
    let s := { s with queue := s.queue ++ [it], accepted := s.accepted ++ [it] }
    match s.busy with
    | some _ => (s, true)
    | none => ({ s with busy := some s.nextGen, nextGen := s.nextGen + 1, workers := s.workers ++ [.start] }, true)

/-- `pop` under the lock -/
def popQueue (s : St) : St × Option Item :=
  match s.queue with
  | [] => (s, none)
  | it :: rest => ({ s with queue := rest }, some it)

/-- one atomic step; `none` = the action is not enabled in this state -/
def step (s : St) : Action → Option St
  | .enqueue it =>
      if it ∈ s.accepted then none      -- the program enqueues each closure once (fresh ids)
      else some (tryEnqueue s it).1
  | .doneBegin d =>
      match s.doners[d]? with
      | some .idle =>
          if Item.waiter d ∈ s.accepted then none else
          let snap := s.accepted
          let (s', ok) := tryEnqueue s (.waiter d)
          let pc : DPc := if ok then .waiting else
            match s'.busy with
            | none => .returned          -- waitUntilIdle(nil) returns at once
            | some g => .drainWaiting g
          some { s' with doners := setAt s'.doners d pc, doneSnap := setAt s'.doneSnap d snap }
      | _ => none
  | .doneDrainWake d =>
      match s.doners[d]? with
      | some (.drainWaiting g) =>
          if g ∈ s.closedGens then some { s with doners := setAt s.doners d .drainWoke } else none
      | _ => none
  | .doneRecheck d =>
      match s.doners[d]? with
      | some .drainWoke =>
          match s.busy with
          | none => some { s with doners := setAt s.doners d .returned }
          | some g => some { s with doners := setAt s.doners d (.drainWaiting g) }
      | _ => none
  | .doneWake d =>
      match s.doners[d]? with
      | some .waiting =>
          if Item.waiter d ∈ s.executed then some { s with doners := setAt s.doners d .returned } else none
      | _ => none
  | .gcBegin c =>
      match s.closers[c]? with
      | some .idle =>
          if s.isClosed then some { s with closers := setAt s.closers c .returnedEarly }
          else
            let s := { s with isClosed := true }
            match s.busy with
            | none => some { s with closers := setAt s.closers c .returned }
            | some g => some { s with closers := setAt s.closers c (.waiting g) }
      | _ => none
  | .gcWake c =>
      match s.closers[c]? with
      | some (.waiting g) => if g ∈ s.closedGens then some { s with closers := setAt s.closers c .woke } else none
      | _ => none
  | .gcRecheck c =>
      match s.closers[c]? with
      | some .woke =>
          match s.busy with
          | none => some { s with closers := setAt s.closers c .returned }
          | some g => some { s with closers := setAt s.closers c (.waiting g) }
      | _ => none
  | .pop w =>
      match s.workers[w]? with
      | some .start =>
          let (s', fn) := popQueue s
          some { s' with workers := setAt s'.workers w (.popped fn) }
      | some (.running _) =>
          let (s', fn) := popQueue s
          some { s' with workers := setAt s'.workers w (.popped fn) }
      | _ => none
  | .exec w =>
      match s.workers[w]? with
      | some (.popped (some it)) =>
          some { s with workers := setAt s.workers w (.running it), executed := s.executed ++ [it] }
      | _ => none
  | .afterLoop w =>
      match s.workers[w]? with
      | some (.popped none) =>
          if s.flag then some { s with flag := false, negCalls := s.negCalls + 1, workers := setAt s.workers w .defer_ }
          else some { s with workers := setAt s.workers w .defer_ }
      | _ => none
  | .deferred w =>
      match s.workers[w]? with
      | some .defer_ =>
          match s.busy with
          | none => none        -- close(nil channel) would panic; unreachable (theorem)
          | some g =>
            let s := { s with closedGens := g :: s.closedGens, workers := setAt s.workers w .fin }
            if s.queue.isEmpty then some { s with busy := none }
            else some { s with busy := some s.nextGen, nextGen := s.nextGen + 1, workers := s.workers ++ [.start] }
      | _ => none
  | .setFlag => some { s with flag := true }

/-- initial state with `nc` GracefulClose callers and `nd` Done callers that have not started yet -/
def init (nc nd : Nat) : St :=
  { closers := List.replicate nc .idle, doners := List.replicate nd .idle, doneSnap := List.replicate nd [] }

def runActions (s : St) : List Action → Option St
  | [] => some s
  | a :: as => (step s a).bind (fun s' => runActions s' as)

/-- every state some interleaving can reach -/
inductive Reachable (nc nd : Nat) : St → Prop
  | init : Reachable nc nd (init nc nd)
  | step {s s' : St} (a : Action) : Reachable nc nd s → step s a = some s' → Reachable nc nd s'

/-! ### derived notions used by the theorems -/

/-- items a worker has popped but not yet started -/
def heldOf : WPc → List Item
  | .popped (some it) => [it]
  | _ => []

def held (s : St) : List Item := (s.workers.map heldOf).flatten

def WPc.live : WPc → Bool
  | .fin => false
  | _ => true

def liveWorkers (s : St) : Nat := (s.workers.filter WPc.live).length

/-- no goroutine of the queue is left: nothing can run any more without a new enqueue -/
def quiescent (s : St) : Prop := liveWorkers s = 0

end WebrtcVerif.Ops
