/-!
# Model of the index-carrying helpers on pion/webrtc's remote-input path (C30)

Inputs are the *parsed* structures (pion/sdp's `SessionDescription`: attributes as key/value lists, media
names, formats); parsing itself (pion/sdp, pion/ice, pion/rtp) is external. Go strings are byte strings:
`Str := List Nat` (byte values). Every Go operation that can panic is explicit:
`idx` (index out of range), `sliceFrom`/`sliceTo` (slice bounds), `deref` (nil pointer) return `.panic`.
Functions mirror sdp.go / peerconnection.go / track_remote.go branch by branch (core Lean only).
-/
namespace WebrtcVerif.RemoteInput

abbrev Str := List Nat

/-- Outcome of a Go computation that may panic. -/
inductive Res (α : Type) where
  | val : α → Res α
  | panic : Res α
  deriving Repr, DecidableEq

namespace Res
def bind {α β : Type} : Res α → (α → Res β) → Res β
  | .val a, f => f a
  | .panic, _ => .panic
instance : Monad Res where
  pure := .val
  bind := Res.bind
def ok {α : Type} : Res α → Bool
  | .val _ => true
  | .panic => false
@[simp] theorem bind_val {α β : Type} (a : α) (f : α → Res β) : (Res.val a >>= f) = f a := rfl
@[simp] theorem bind_panic {α β : Type} (f : α → Res β) : ((Res.panic : Res α) >>= f) = .panic := rfl
@[simp] theorem pure_eq {α : Type} (a : α) : (pure a : Res α) = .val a := rfl
@[simp] theorem ok_val {α : Type} (a : α) : (Res.val a).ok = true := rfl
@[simp] theorem ok_panic {α : Type} : (Res.panic : Res α).ok = false := rfl
theorem ok_iff {α : Type} (r : Res α) : r.ok = true ↔ r ≠ .panic := by cases r <;> simp
theorem ok_bind {α β : Type} (r : Res α) (f : α → Res β) (hr : r.ok = true) (hf : ∀ a, r = .val a → (f a).ok = true) :
    (r >>= f).ok = true := by
  cases r with
  | val a => simpa using hf a rfl
  | panic => simp at hr
end Res

/-! ### Go's partial operations -/

/-- `l[i]` -/
def idx {α : Type} (l : List α) (i : Nat) : Res α :=
  match l[i]? with
  | some a => .val a
  | none => .panic

/-- `s[i:]` -/
def sliceFrom {α : Type} (s : List α) (i : Nat) : Res (List α) :=
  if i ≤ s.length then .val (s.drop i) else .panic

/-- `s[:i]` -/
def sliceTo {α : Type} (s : List α) (i : Nat) : Res (List α) :=
  if i ≤ s.length then .val (s.take i) else .panic

/-- `*p` -/
def deref {α : Type} : Option α → Res α
  | some a => .val a
  | none => .panic

theorem idx_ok {α : Type} (l : List α) (i : Nat) (h : i < l.length) : (idx l i).ok = true := by
  unfold idx; rw [List.getElem?_eq_getElem h]; rfl

theorem idx_zero_cons {α : Type} (a : α) (l : List α) : idx (a :: l) 0 = .val a := rfl

/-! ### string helpers (package strings / strconv) -/

/-- `strings.Split(s, sep)` for a one-byte separator: always at least one element. -/
def splitAux (sep : Nat) : Str → Str → List Str
  | cur, [] => [cur.reverse]
  | cur, c :: cs => if c == sep then cur.reverse :: splitAux sep [] cs else splitAux sep (c :: cur) cs

def split (s : Str) (sep : Nat) : List Str := splitAux sep [] s

theorem splitAux_pos (sep : Nat) (s cur : Str) : 0 < (splitAux sep cur s).length := by
  induction s generalizing cur with
  | nil => simp [splitAux]
  | cons c cs ih =>
    unfold splitAux
    split
    · simp
    · exact ih _

theorem split_pos (s : Str) (sep : Nat) : 0 < (split s sep).length := splitAux_pos sep s []

/-- `strings.Index(s, string(c))` (`none` = -1) -/
def indexByte (c : Nat) : Str → Option Nat
  | [] => none
  | x :: xs => if x == c then some 0 else (indexByte c xs).map (· + 1)

theorem indexByte_lt (c : Nat) (s : Str) (i : Nat) (h : indexByte c s = some i) : i < s.length := by
  induction s generalizing i with
  | nil => simp [indexByte] at h
  | cons x xs ih =>
    unfold indexByte at h
    split at h
    · simp at h; subst h; simp
    · cases hx : indexByte c xs with
      | none => simp [hx] at h
      | some j =>
        simp [hx] at h; subst h
        have := ih j hx
        simp; omega

def hasPrefix : Str → Str → Bool      -- hasPrefix s p
  | _, [] => true
  | [], _ :: _ => false
  | x :: xs, p :: ps => x == p && hasPrefix xs ps

/-- `strings.Contains(s, sub)` -/
def containsSub (sub : Str) : Str → Bool
  | [] => sub.isEmpty
  | x :: xs => hasPrefix (x :: xs) sub || containsSub sub xs

def digitVal (c : Nat) : Option Nat := if 48 ≤ c ∧ c ≤ 57 then some (c - 48) else none

def parseDigits : Str → Nat → Option Nat
  | [], acc => some acc
  | c :: cs, acc =>
    match digitVal c with
    | some d => parseDigits cs (acc * 10 + d)
    | none => none

/-- `strconv.ParseUint(s, 10, bits)`; `none` = any error (syntax or range). -/
def parseUint (s : Str) (bits : Nat) : Option Nat :=
  if s.isEmpty then none else
  match parseDigits s 0 with
  | some v => if v < 2 ^ bits then some v else none
  | none => none

def lowerByte (c : Nat) : Nat := if 65 ≤ c ∧ c ≤ 90 then c + 32 else c
/-- `strings.EqualFold` restricted to what matters for the ASCII words compared here. -/
def equalFold (a b : Str) : Bool := a.map lowerByte == b.map lowerByte

/-! ### constants -/
def kMid : Str := [109, 105, 100]
def kRecvonly : Str := [114, 101, 99, 118, 111, 110, 108, 121]
def kInactive : Str := [105, 110, 97, 99, 116, 105, 118, 101]
def kSendrecv : Str := [115, 101, 110, 100, 114, 101, 99, 118]
def kSendonly : Str := [115, 101, 110, 100, 111, 110, 108, 121]
def kSsrc : Str := [115, 115, 114, 99]
def kSsrcGroup : Str := [115, 115, 114, 99, 45, 103, 114, 111, 117, 112]
def kMsid : Str := [109, 115, 105, 100]
def kMsidColon : Str := [109, 115, 105, 100, 58]
def kFID : Str := [70, 73, 68]
def kFECFR : Str := [70, 69, 67, 45, 70, 82]
def kRid : Str := [114, 105, 100]
def kSimulcast : Str := [115, 105, 109, 117, 108, 99, 97, 115, 116]
def kGroup : Str := [103, 114, 111, 117, 112]
def kBUNDLE : Str := [66, 85, 78, 68, 76, 69]
def kFingerprint : Str := [102, 105, 110, 103, 101, 114, 112, 114, 105, 110, 116]
def kIceUfrag : Str := [105, 99, 101, 45, 117, 102, 114, 97, 103]
def kIcePwd : Str := [105, 99, 101, 45, 112, 119, 100]
def kCandidate : Str := [99, 97, 110, 100, 105, 100, 97, 116, 101]
def kAudio : Str := [97, 117, 100, 105, 111]
def kVideo : Str := [118, 105, 100, 101, 111]
def kData : Str := [100, 97, 116, 97]
def kApplication : Str := [97, 112, 112, 108, 105, 99, 97, 116, 105, 111, 110]
def cSpace : Nat := 32
def cSemi : Nat := 59
def cTilde : Nat := 126
def cSlash : Nat := 47

/-! ### parsed description -/
structure Attr where
  key : Str
  value : Str
  deriving Repr, DecidableEq

structure Media where
  media : Str
  formats : List Str
  attrs : List Attr
  deriving Repr, DecidableEq

structure Session where
  attrs : List Attr
  medias : List Media
  deriving Repr, DecidableEq

/-- `Attribute(key)` of pion/sdp: value of the first attribute with that key. -/
def attrLookup (attrs : List Attr) (key : Str) : Option Str :=
  (attrs.find? (·.key == key)).map (·.value)

def hasAttr (attrs : List Attr) (key : Str) : Bool := (attrLookup attrs key).isSome

/-- `getMidValue` -/
def getMidValue (m : Media) : Str := (attrLookup m.attrs kMid).getD []

/-- `NewRTPCodecType`: 1 audio, 2 video, 0 otherwise. -/
def codecType (media : Str) : Nat :=
  if equalFold media kAudio then 1 else if equalFold media kVideo then 2 else 0

/-- `NewRTPTransceiverDirection`: 1 sendrecv, 2 sendonly, 3 recvonly, 4 inactive, 0 unknown (iota+1 order). -/
def direction (key : Str) : Nat :=
  if key == kSendrecv then 1 else if key == kSendonly then 2 else if key == kRecvonly then 3
  else if key == kInactive then 4 else 0

/-- `getPeerDirection` -/
def getPeerDirection (m : Media) : Nat :=
  match m.attrs.find? (fun a => direction a.key != 0) with
  | some a => direction a.key
  | none => 0

/-! ### getRids -/
structure Rid where
  id : Str
  attrValue : Str
  paused : Bool
  deriving Repr, DecidableEq

/-- the attribute loop of `getRids`: `split[0]` of every `a=rid`, last `a=simulcast` value -/
def collectRids : List Attr → List Rid → Str → Res (List Rid × Str)
  | [], rids, sim => .val (rids, sim)
  | a :: rest, rids, sim =>
    if a.key == kRid then do
      let id ← idx (split a.value cSpace) 0
      collectRids rest (rids ++ [{ id := id, attrValue := a.value, paused := false }]) sim
    else if a.key == kSimulcast then collectRids rest rids a.value
    else collectRids rest rids sim

/-- `for _, rid := range rids { if rid.id == ridID { rid.paused = true; break } }` -/
def pauseFirst (ridID : Str) : List Rid → List Rid
  | [] => []
  | r :: rs => if r.id == ridID then { r with paused := true } :: rs else r :: pauseFirst ridID rs

/-- one `ridState` of the `a=simulcast` list: `len(ridState) > 0 && ridState[:1] == "~"`, `ridState[1:]` -/
def applyRidState (rids : List Rid) (ridState : Str) : Res (List Rid) :=
  if 0 < ridState.length then do
    let first ← sliceTo ridState 1
    if first == [cTilde] then do
      let ridID ← sliceFrom ridState 1
      pure (pauseFirst ridID rids)
    else pure rids
  else pure rids

def applyRidStates : List Str → List Rid → Res (List Rid)
  | [], rids => .val rids
  | st :: rest, rids => do
    let rids' ← applyRidState rids st
    applyRidStates rest rids'

/-- `getRids` -/
def getRids (m : Media) : Res (List Rid) := do
  let (rids, sim) ← collectRids m.attrs [] []
  if sim != [] then do
    let sim' ← (match indexByte cSpace sim with
      | some space => if 0 < space then sliceFrom sim (space + 1) else pure sim
      | none => pure sim)
    applyRidStates (split sim' cSemi) rids
  else pure rids

/-! ### trackDetailsFromSDP -/
structure TrackDetails where
  mid : Str
  kind : Nat
  streamID : Str
  id : Str
  ssrcs : List Nat
  rtx : Option Nat
  fec : Option Nat
  rids : List Str
  deriving Repr, DecidableEq

/-- a Go `map[uint64]uint64` as an association list with unique keys (most recent insertion first) -/
abbrev Flows := List (Nat × Nat)
def flowsInsert (k v : Nat) (m : Flows) : Flows := (k, v) :: m.filter (fun p => p.1 != k)
def flowsHas (k : Nat) (m : Flows) : Bool := m.any (fun p => p.1 == k)
/-- `for r, base := range flows { if base == ssrc { x = &r } }`: Go's iteration order is unspecified when
    several repair flows name the same base; the model takes the first in list order (`repairAmbiguous`
    tells the driver when the real result is not determined). -/
def repairFor (ssrc : Nat) (m : Flows) : Option Nat := (m.find? (fun p => p.2 == ssrc)).map (·.1)
def repairAmbiguous (ssrc : Nat) (m : Flows) : Bool := 1 < (m.filter (fun p => p.2 == ssrc)).length

structure TDState where
  tracks : List TrackDetails
  rtxFlows : Flows
  fecFlows : Flows
  streamID : Str
  trackID : Str
  deriving Repr, DecidableEq

/-- `filterTrackWithSSRC` -/
def filterTrackWithSSRC (tracks : List TrackDetails) (ssrc : Nat) : List TrackDetails :=
  tracks.filter (fun t => !t.ssrcs.contains ssrc)

/-- `for i := range tracks { if tracks[i].ssrcs[0] == base { tracks[i].rtxSsrc = &rep } }` -/
def markRepair (isRtx : Bool) (base rep : Nat) : List TrackDetails → Res (List TrackDetails)
  | [] => .val []
  | t :: ts => do
    let s0 ← idx t.ssrcs 0
    let t' := if s0 == base then (if isRtx then { t with rtx := some rep } else { t with fec := some rep }) else t
    let ts' ← markRepair isRtx base rep ts
    pure (t' :: ts')

/-- body of `case sdp.AttrKeySSRCGroup` -/
def stepSsrcGroup (st : TDState) (value : Str) : Res TDState := do
  let sp := split value cSpace
  let s0 ← idx sp 0
  if s0 == kFID then
    if sp.length == 3 then do
      let a ← idx sp 1
      let b ← idx sp 2
      match parseUint a 32, parseUint b 32 with
      | some base, some rep => do
        let flows := flowsInsert rep base st.rtxFlows
        let tracks ← markRepair true base rep (filterTrackWithSSRC st.tracks rep)
        pure { st with rtxFlows := flows, tracks := tracks }
      | _, _ => pure st          -- `continue` on a parse error
    else pure st
  else if s0 == kFECFR then
    if sp.length == 3 then do
      let a ← idx sp 1
      let b ← idx sp 2
      match parseUint a 32, parseUint b 32 with
      | some base, some rep => do
        let flows := flowsInsert rep base st.fecFlows
        let tracks ← markRepair false base rep (filterTrackWithSSRC st.tracks rep)
        pure { st with fecFlows := flows, tracks := tracks }
      | _, _ => pure st
    else pure st
  else pure st

/-- body of `case sdp.AttrKeyMsid` -/
def stepMsid (st : TDState) (value : Str) : Res TDState := do
  let sp := split value cSpace
  if sp.length == 2 then do
    let a ← idx sp 0
    let b ← idx sp 1
    pure { st with streamID := a, trackID := b }
  else pure st

/-- index of the last track one of whose ssrcs equals `ssrc` (the double loop keeps the last match) -/
def lastTrackWith (ssrc : Nat) : List TrackDetails → Nat → Option Nat → Option Nat
  | [], _, acc => acc
  | t :: ts, i, acc => lastTrackWith ssrc ts (i + 1) (if t.ssrcs.contains ssrc then some i else acc)

/-- body of `case sdp.AttrKeySSRC` -/
def stepSsrc (mid : Str) (kind : Nat) (st : TDState) (value : Str) : Res TDState := do
  let sp := split value cSpace
  let s0 ← idx sp 0
  match parseUint s0 32 with
  | none => pure st
  | some ssrc =>
    if flowsHas ssrc st.rtxFlows then pure st
    else if flowsHas ssrc st.fecFlows then pure st
    else do
      let st1 ← (if sp.length == 3 then do
          let s1 ← idx sp 1
          if hasPrefix s1 kMsidColon then do
            let sid ← sliceFrom s1 kMsidColon.length
            let tid ← idx sp 2
            pure { st with streamID := sid, trackID := tid }
          else pure st
        else pure st)
      let existing := lastTrackWith ssrc st1.tracks 0 none
      let old : TrackDetails := match existing with
        | some i => (st1.tracks[i]?).getD { mid := [], kind := 0, streamID := [], id := [], ssrcs := [], rtx := none, fec := none, rids := [] }
        | none => { mid := [], kind := 0, streamID := [], id := [], ssrcs := [], rtx := none, fec := none, rids := [] }
      let upd : TrackDetails :=
        { old with mid := mid, kind := kind, streamID := st1.streamID, id := st1.trackID, ssrcs := [ssrc],
                   rtx := (match repairFor ssrc st1.rtxFlows with | some r => some r | none => old.rtx),
                   fec := (match repairFor ssrc st1.fecFlows with | some r => some r | none => old.fec) }
      match existing with
      | some i => pure { st1 with tracks := st1.tracks.set i upd }
      | none => pure { st1 with tracks := st1.tracks ++ [upd] }

/-- one attribute of the `switch attr.Key` -/
def tdStep (mid : Str) (kind : Nat) (st : TDState) (a : Attr) : Res TDState :=
  if a.key == kSsrcGroup then stepSsrcGroup st a.value
  else if a.key == kMsid then stepMsid st a.value
  else if a.key == kSsrc then stepSsrc mid kind st a.value
  else .val st

def tdLoop (mid : Str) (kind : Nat) : List Attr → TDState → Res TDState
  | [], st => .val st
  | a :: rest, st => do
    let st' ← tdStep mid kind st a
    tdLoop mid kind rest st'

/-- tracks of one media section (`none` = the section is skipped by one of the `continue`s) -/
def tdMedia (m : Media) : Res (List TrackDetails) :=
  if hasAttr m.attrs kRecvonly then .val []
  else if hasAttr m.attrs kInactive then .val []
  else
    let mid := getMidValue m
    if mid == [] then .val []
    else
      let kind := codecType m.media
      if kind == 0 then .val []
      else do
        let st ← tdLoop mid kind m.attrs { tracks := [], rtxFlows := [], fecFlows := [], streamID := [], trackID := [] }
        let rids ← getRids m
        if rids.length != 0 && st.trackID != [] && st.streamID != [] then
          pure [{ mid := mid, kind := kind, streamID := st.streamID, id := st.trackID, ssrcs := [],
                  rtx := none, fec := none, rids := rids.map (·.id) }]
        else pure st.tracks

def tdMedias : List Media → Res (List TrackDetails)
  | [] => .val []
  | m :: ms => do
    let a ← tdMedia m
    let b ← tdMedias ms
    pure (a ++ b)

/-- `trackDetailsFromSDP` -/
def trackDetailsFromSDP (s : Session) : Res (List TrackDetails) := tdMedias s.medias

/-- `trackDetailsToRTPReceiveParameters`: (rid, ssrc, rtx, fec) per encoding -/
def receiveEncodings (t : TrackDetails) : Res (List (Str × Nat × Nat × Nat)) :=
  let n := max t.rids.length t.ssrcs.length
  (List.range n).foldr (fun i acc => do
    let rid ← (if i < t.rids.length then idx t.rids i else pure [])
    let ssrc ← (if i < t.ssrcs.length then idx t.ssrcs i else pure 0)
    let rtx ← (if t.rtx.isSome then deref t.rtx else pure 0)
    let fec ← (if t.fec.isSome then deref t.fec else pure 0)
    let rest ← acc
    pure ((rid, ssrc, rtx, fec) :: rest)) (.val [])

/-! ### descriptionIsPlanB / descriptionPossiblyPlanB -/
def hasDupMid : List TrackDetails → List Str → Bool
  | [], _ => false
  | t :: ts, seen => if seen.contains t.mid then true else hasDupMid ts (t.mid :: seen)

/-- `descriptionIsPlanB(desc)`: `none` = nil description (or nil parsed form) -/
def descriptionIsPlanB (desc : Option Session) : Res Bool :=
  match desc with
  | none => .val false
  | some s => do
    let tds ← trackDetailsFromSDP s
    pure (hasDupMid tds [])

/-- `descriptionPossiblyPlanB`: `(?i)^(audio|video|data)$` on some mid -/
def descriptionPossiblyPlanB (desc : Option Session) : Bool :=
  match desc with
  | none => false
  | some s => s.medias.any (fun m =>
      let mid := getMidValue m
      equalFold mid kAudio || equalFold mid kVideo || equalFold mid kData)

/-! ### extractBundleID / extractFingerprint / ICE details -/

/-- `extractBundleID` -/
def extractBundleID (s : Session) : Res Str :=
  let g := (attrLookup s.attrs kGroup).getD []
  if !containsSub kBUNDLE g then .val []
  else
    let ids := split g cSpace
    if ids.length < 2 then .val [] else idx ids 1

inductive FpResult where
  | ok (value hash : Str)
  | errNone
  | errInvalid
  deriving Repr, DecidableEq

def firstMediaFingerprint : List Media → Str → Str
  | [], fp => fp
  | m :: ms, fp =>
    match attrLookup m.attrs kFingerprint with
    | some v => firstMediaFingerprint ms (if fp == [] then v else fp)
    | none => firstMediaFingerprint ms fp

def bundleMediaFingerprint (bundleID : Str) : List Media → Str → Str
  | [], fp => fp
  | m :: ms, fp =>
    match attrLookup m.attrs kMid with
    | some mid =>
      if mid == bundleID && fp == [] then
        match attrLookup m.attrs kFingerprint with
        | some v => bundleMediaFingerprint bundleID ms v
        | none => bundleMediaFingerprint bundleID ms fp
      else bundleMediaFingerprint bundleID ms fp
    | none => bundleMediaFingerprint bundleID ms fp

/-- `extractFingerprint` -/
def extractFingerprint (s : Session) : Res FpResult := do
  let fp0 := (attrLookup s.attrs kFingerprint).getD []
  let fp ← (if fp0 == [] then do
      let b ← extractBundleID s
      if b != [] then pure (bundleMediaFingerprint b s.medias [])
      else pure (firstMediaFingerprint s.medias [])
    else pure fp0)
  if fp == [] then pure .errNone
  else
    let parts := split fp cSpace
    if parts.length != 2 then pure .errInvalid
    else do
      let v ← idx parts 1
      let h ← idx parts 0
      pure (.ok v h)

/-- `selectCandidateMediaSection`: (mid, mline index as uint16) -/
def selectLoop (bundleID : Str) : List Media → Nat → Option (Media × Str × Nat)
  | [], _ => none
  | m :: ms, i =>
    let mid := getMidValue m
    if bundleID != [] then
      if mid == bundleID then some (m, mid, i % 65536) else selectLoop bundleID ms (i + 1)
    else some (m, mid, i % 65536)

def selectCandidateMediaSection (s : Session) : Res (Option (Media × Str × Nat)) := do
  let b ← extractBundleID s
  pure (selectLoop b s.medias 0)

/-- classification of one `a=candidate` value by the external parsers
    (`ice.UnmarshalCandidate` + `newICECandidateFromICE`): 0 usable, 1 discarded with a warning
    (unknown typ / network type), 2 error -/
abbrev CandOracle := Str → Nat

inductive IceResult where
  | ok (ufrag pwd : Str) (candidates : Nat)
  | errCandidate
  | errUfrag
  | errPwd
  deriving Repr, DecidableEq

/-- `extractICEDetailsFromMedia`: (ufrag, pwd, #candidates) or the candidate error -/
def iceFromMedia (oracle : CandOracle) (m : Media) : Option (Str × Str × Nat) :=
  let ufrag := (attrLookup m.attrs kIceUfrag).getD []
  let pwd := (attrLookup m.attrs kIcePwd).getD []
  let cands := m.attrs.filter (fun a => a.key == kCandidate)
  let good := (cands.filter (fun a => oracle a.value == 0)).length
  let bad := cands.any (fun a => oracle a.value == 2)
  if good == 0 && bad then none else some (ufrag, pwd, good)

/-- `extractICEDetails` -/
def extractICEDetails (oracle : CandOracle) (s : Session) : Res IceResult := do
  let u0 := (attrLookup s.attrs kIceUfrag).getD []
  let p0 := (attrLookup s.attrs kIcePwd).getD []
  let sel ← selectCandidateMediaSection s
  match sel with
  | some (m, _, _) =>
    match iceFromMedia oracle m with
    | none => pure .errCandidate
    | some (u, p, n) =>
      let (u1, p1) := if u0 == [] && u != [] then (u, p) else (u0, p0)
      if u1 == [] then pure .errUfrag else if p1 == [] then pure .errPwd else pure (.ok u1 p1 n)
  | none =>
    if u0 == [] then pure .errUfrag else if p0 == [] then pure .errPwd else pure (.ok u0 p0 0)

/-! ### codecsFromMediaDescription -/
/-- what pion/sdp's `GetCodecForPayloadType` returns for a payload type (external) -/
structure SdpCodec where
  name : Str
  clockRate : Nat
  encodingParameters : Str
  fmtp : Str
  rtcpFeedback : List Str
  deriving Repr, DecidableEq

abbrev CodecOracle := Nat → Option SdpCodec

structure CodecParams where
  payloadType : Nat
  mime : Str
  clockRate : Nat
  channels : Nat
  fmtp : Str
  feedback : List (Str × Str)
  deriving Repr, DecidableEq

def feedbackOf : List Str → Res (List (Str × Str))
  | [] => .val []
  | raw :: rest => do
    let sp := split raw cSpace
    let t ← idx sp 0
    let p ← (if sp.length == 2 then idx sp 1 else pure [])
    let tl ← feedbackOf rest
    pure ((t, p) :: tl)

/-- `codecsFromMediaDescription`: `none` = error return -/
def codecsLoop (oracle : CodecOracle) (media : Str) : List Str → Res (Option (List CodecParams))
  | [] => .val (some [])
  | f :: rest =>
    match parseUint f 8 with
    | none => .val none
    | some pt =>
      match oracle pt with
      | none => if pt == 0 then codecsLoop oracle media rest else .val none
      | some c => do
        let channels := (parseUint c.encodingParameters 16).getD 0
        let fb ← feedbackOf c.rtcpFeedback
        let tl ← codecsLoop oracle media rest
        pure (tl.map (fun l =>
          { payloadType := pt, mime := media ++ [cSlash] ++ c.name, clockRate := c.clockRate, channels := channels,
            fmtp := c.fmtp, feedback := fb } :: l))

def codecsFromMediaDescription (oracle : CodecOracle) (m : Media) : Res (Option (List CodecParams)) :=
  codecsLoop oracle m.media m.formats

/-! ### startRTPReceivers: the Plan-B tail (peerconnection.go) -/

/-- the `pc.log.Warnf` argument list of the Plan-B loop **before** commit 9d23192: `incomingTrack.ssrcs[0]` -/
def planBWarnArgsOld (t : TrackDetails) : Res Nat := idx t.ssrcs 0

/-- … and as repaired: the whole SSRC and RID lists are formatted, nothing is indexed -/
def planBWarnArgs (t : TrackDetails) : Res (List Nat × List Str) := .val (t.ssrcs, t.rids)

/-- the Plan-B loop over the unhandled tracks; `addFails t` = `AddTransceiverFromKind` returned an error
    (closed connection, no codec of that kind). Returns the tracks for which a receiver is configured. -/
def planBLoop (warn : TrackDetails → Res Unit) (addFails : TrackDetails → Bool) :
    List TrackDetails → Res (List TrackDetails)
  | [] => .val []
  | t :: ts =>
    if addFails t then do
      warn t
      planBLoop warn addFails ts
    else do
      let _ ← receiveEncodings t       -- configureReceiver / startReceiver build the encodings
      let tl ← planBLoop warn addFails ts
      pure (t :: tl)

/-- `startRTPReceivers(remoteDesc, …)`: `handled t` = some transceiver took the track (`runIfNewReceiver`) -/
def startRTPReceivers (warn : TrackDetails → Res Unit) (handled addFails : TrackDetails → Bool)
    (remoteIsPlanB : Bool) (s : Session) : Res (List TrackDetails) := do
  let incoming ← trackDetailsFromSDP s
  if incoming.length == 0 then pure []
  else
    let unhandled := incoming.filter (fun t => !handled t)
    if remoteIsPlanB then planBLoop warn addFails unhandled else pure []

def warnNew (t : TrackDetails) : Res Unit := (planBWarnArgs t) >>= fun _ => pure ()
def warnOld (t : TrackDetails) : Res Unit := (planBWarnArgsOld t) >>= fun _ => pure ()

/-! ### handleUndeclaredSSRC / handleIncomingSSRC / checkAndUpdateTrack / findMediaSectionByPayloadType -/
inductive UndeclaredResult where
  | notHandledRid                     -- (false, nil)
  | errExplicitSSRC                   -- (false, errMediaSectionHasExplictSSRCAttribute)
  | add (kind : Nat) (streamID id : Str)
  deriving Repr, DecidableEq

def undeclaredScan : List Attr → Str → Str → Bool → Bool → Res (Str × Str × Bool × Bool)
  | [], sid, id, r, s => .val (sid, id, r, s)
  | a :: rest, sid, id, r, s =>
    if a.key == kMsid then
      let sp := split a.value cSpace
      if sp.length == 2 then do
        let x ← idx sp 0
        let y ← idx sp 1
        undeclaredScan rest x y r s
      else undeclaredScan rest sid id r s
    else if a.key == kSsrc then undeclaredScan rest sid id r true
    else if a.key == kRid then undeclaredScan rest sid id true s
    else undeclaredScan rest sid id r s

/-- `handleUndeclaredSSRC` up to the `AddTransceiverFromKind` call -/
def handleUndeclaredSSRC (m : Media) : Res UndeclaredResult := do
  let (sid, id, hasRid, hasSsrc) ← undeclaredScan m.attrs [] [] false false
  if hasRid then pure .notHandledRid
  else if hasSsrc then pure .errExplicitSSRC
  else pure (.add (if m.media == kAudio then 1 else 2) sid id)

/-- `findMediaSectionByPayloadType`: index of the first audio/video section listing the payload type -/
def findMediaSectionByPayloadType (pt : Nat) : List Media → Nat → Option Nat
  | [], _ => none
  | m :: ms, i =>
    if (equalFold m.media kVideo || equalFold m.media kAudio) && m.formats.any (fun f => parseUint f 8 == some pt)
    then some i else findMediaSectionByPayloadType pt ms (i + 1)

/-- `MediaEngine.getRTPParametersByPayloadType`: on success `Codecs` is the one-element list -/
def rtpParametersByPayloadType (known : Nat → Bool) (pt : Nat) : Option (List Nat) :=
  if known pt then some [pt] else none

inductive TrackUpdate where
  | errTooShort
  | errUnknownCodec
  | unchanged
  | updated (payloadType codec : Nat)
  deriving Repr, DecidableEq

/-- `TrackRemote.checkAndUpdateTrack(b)` -/
def checkAndUpdateTrack (known : Nat → Bool) (curPT : Nat) (haveCodecs : Bool) (b : List Nat) : Res TrackUpdate :=
  if b.length < 2 then .val .errTooShort
  else do
    let b1 ← idx b 1
    let pt := b1 % 128
    if pt != curPT || !haveCodecs then
      match rtpParametersByPayloadType known pt with
      | none => pure .errUnknownCodec
      | some codecs => do
        let c ← idx codecs 0
        pure (.updated pt c)
    else pure .unchanged

/-- the indexing prefix of `handleIncomingSSRC`: the single-section shortcut `MediaDescriptions[0]`
    (guarded by `len == 1`), the peeked packet `b[1]` (guarded by `i < 4`), `params.Codecs[0]`.
    Result: `none` = an error return, `some pt` = the payload type used for the stream info. -/
def handleIncomingSSRCPrefix (known : Nat → Bool) (s : Session) (singleSectionRule : Bool)
    (undeclaredHandles : Media → Bool) (pkt : List Nat) : Res (Option Nat) := do
  let shortcut ← (if singleSectionRule && s.medias.length == 1 then do
      let m ← idx s.medias 0
      pure (undeclaredHandles m)
    else pure false)
  if shortcut then pure none
  else if pkt.length < 4 then pure none
  else do
    let b1 ← idx pkt 1
    let pt := b1 % 128
    match rtpParametersByPayloadType known pt with
    | none => pure none
    | some codecs => do
      let c ← idx codecs 0
      pure (some c)

/-! ### SetRemoteDescription: `pc.RemoteDescription().parsed` after `setDescription` succeeded

  `SetRemoteDescription` hands a rollback to `setDescription` and returns at once (peerconnection.go, "A rollback
  carries no session description"), before anything is parsed or dereferenced; and since `fix: rollback returns
  to stable` `checkNextSignalingState` ACCEPTS a remote rollback in have-remote-offer / have-remote-pranswer
  (clearing the pending descriptions).  So the path modelled here — the one that goes on to
  `pc.RemoteDescription().parsed.MediaDescriptions` — is only ever taken with the three types below; the
  rollback transitions are C01/C02's subject (`Model/Signaling.lean`), and `Proofs/ModelAgreement2.lean` proves
  that `checkNext` below is `Signaling.checkNext` on these types. -/
inductive Sig where
  | stable | haveLocalOffer | haveRemoteOffer | haveLocalPranswer | haveRemotePranswer | closed
  deriving Repr, DecidableEq

/-- the description types that reach the dereference (a rollback returns earlier, see above) -/
inductive SdpType where
  | offer | pranswer | answer
  deriving Repr, DecidableEq

/-- `checkNextSignalingState(cur, next, op, type)`; `none` = error -/
def checkNext (cur next : Sig) (remote : Bool) (t : SdpType) : Option Sig :=
  match cur with
  | .stable =>
    if !remote then (if t == .offer && next == .haveLocalOffer then some next else none)
    else (if t == .offer && next == .haveRemoteOffer then some next else none)
  | .haveLocalOffer =>
    if remote then
      (match t with
       | .answer => if next == .stable then some next else none
       | .pranswer => if next == .haveRemotePranswer then some next else none
       | _ => none)
    else none
  | .haveRemotePranswer =>
    if remote && t == .answer then (if next == .stable then some next else none) else none
  | .haveRemoteOffer =>
    if !remote then
      (match t with
       | .answer => if next == .stable then some next else none
       | .pranswer => if next == .haveLocalPranswer then some next else none
       | _ => none)
    else none
  | .haveLocalPranswer =>
    if !remote && t == .answer then (if next == .stable then some next else none) else none
  | .closed => none

structure Descs (δ : Type) where
  state : Sig
  pendingRemote : Option δ
  currentRemote : Option δ
  pendingLocal : Option δ
  currentLocal : Option δ

/-- `setDescription(sd, stateChangeOpSetRemote)`; `none` = error (nothing is assigned) -/
def setRemote {δ : Type} (st : Descs δ) (sd : δ) (t : SdpType) : Option (Descs δ) :=
  match t with
  | .offer =>
    (checkNext st.state .haveRemoteOffer true t).map fun n => { st with state := n, pendingRemote := some sd }
  | .answer =>
    (checkNext st.state .stable true t).map fun n =>
      { st with state := n, currentRemote := some sd, currentLocal := st.pendingLocal, pendingRemote := none,
                pendingLocal := none }
  | .pranswer =>
    (checkNext st.state .haveRemotePranswer true t).map fun n => { st with state := n, pendingRemote := some sd }

/-- `pc.RemoteDescription()` -/
def remoteDescription {δ : Type} (st : Descs δ) : Option δ :=
  match st.pendingRemote with
  | some d => some d
  | none => st.currentRemote

/-- `pc.RemoteDescription().parsed.MediaDescriptions` in `SetRemoteDescription` right after `setDescription` -/
def srdRemoteDeref {δ : Type} (st : Descs δ) (sd : δ) (t : SdpType) : Res (Option δ) :=
  match setRemote st sd t with
  | none => .val none                      -- SetRemoteDescription returned the error
  | some st' => (deref (remoteDescription st')) >>= fun d => pure (some d)

/-- `AddICECandidate` / `CreateAnswer` / `handleIncomingSSRC`: the nil test precedes the dereference -/
def guardedRemoteDeref {δ : Type} (st : Descs δ) : Res (Option δ) :=
  match remoteDescription st with
  | none => .val none
  | some d => (deref (some d)) >>= fun x => pure (some x)

/-- `descriptionContainsUfrag` (used by `AddICECandidate`) -/
def descriptionContainsUfrag (s : Session) (ufrag : Str) : Bool :=
  (attrLookup s.attrs kIceUfrag == some ufrag) ||
    s.medias.any (fun m => attrLookup m.attrs kIceUfrag == some ufrag)

/-! ### icecandidate.go: exportExtensions -/

/-- `s[a:b]` -/
def sliceRange {α : Type} (s : List α) (a b : Nat) : Res (List α) :=
  if a ≤ b ∧ b ≤ s.length then .val ((s.take b).drop a) else .panic

/-- `ICECandidate.exportExtensions`: the `(key, value)` pairs handed to `cand.AddExtension`, in order;
    `none` = `AddExtension` returned an error (`addFails`), which ends the loop. State: loop index `i`,
    `start`, the pending `ext.Key` / `ext.Value`. -/
def exportExtLoop (e : Str) (addFails : Str → Str → Bool) :
    Nat → Nat → Nat → Str → Str → List (Str × Str) → Res (Option (List (Str × Str)))
  | 0, _, _, _, _, acc => .val (some acc.reverse)
  | fuel + 1, i, start, key, value, acc =>
    if i < e.length then do
      let c ← idx e i
      let last := i == e.length - 1
      if c == cSpace || last then do
        let field ← (if c == cSpace then sliceRange e start i else sliceFrom e start)
        let start' := if c == cSpace then i + 1 else start
        let hasKey := key != []
        let key' := if hasKey then key else field
        let value' := if hasKey then field else value
        if hasKey || last then
          if addFails key' value' then pure none
          else exportExtLoop e addFails fuel (i + 1) start' [] [] ((key', value') :: acc)
        else exportExtLoop e addFails fuel (i + 1) start' key' value' acc
      else exportExtLoop e addFails fuel (i + 1) start key value acc
    else .val (some acc.reverse)

def exportExtensions (e : Str) (addFails : Str → Str → Bool) : Res (Option (List (Str × Str))) :=
  exportExtLoop e addFails e.length 0 0 [] [] []

/-! ### rtpreceiver.go: the non-simulcast accessors of a started receiver -/

/-- `RTPReceiver.Read` once `received` is closed. A receiver's tracks are given by their RTCP readers
    (`none` = not bound yet: the streams of a rid based track are bound when its first packet arrives).
    Result: `some i` = the reader of track `i` is used, `none` = an error is returned.
    As repaired by commit cd3b386 (length and nil tests before `tracks[0].rtcpInterceptor.Read`). -/
def receiverRead (tracks : List (Option Nat)) : Res (Option Nat) :=
  if 0 < tracks.length then do
    let t ← idx tracks 0
    match t with
    | none => pure none
    | some r => (deref (some r)) >>= fun x => pure (some x)
  else pure none

/-- … and before: `return r.tracks[0].rtcpInterceptor.Read(b, a)` -/
def receiverReadOld (tracks : List (Option Nat)) : Res (Option Nat) := do
  let t ← idx tracks 0
  let r ← deref t
  pure (some r)

/-! ### handleIncomingSSRC up to the first use of the transports (peerconnection.go) -/

inductive IncomingResult where
  | declared                                  -- nil: the SSRC is declared in the remote description
  | added (kind : Nat) (streamID id : Str)    -- nil: handleUndeclaredSSRC added a transceiver for it
  | ssrcErr                                   -- errMediaSectionHasExplictSSRCAttribute
  | errAdd                                    -- AddTransceiverFromKind failed
  | errPeek                                   -- nothing to peek / fewer than 4 bytes
  | errCodec                                  -- unknown payload type
  | errEarly                                  -- errPeerConnEarlyMediaWithoutAnswer
  | errMidRequired
  | errRidRequired
  | beyond                                    -- continues with streamsForSSRC (transports)
  deriving Repr, DecidableEq

/-- `for _, track := range trackDetailsFromSDP(…)`: rtx / fec / ssrcs contain the SSRC -/
def ssrcDeclared (ssrc : Nat) (ts : List TrackDetails) : Bool :=
  ts.any fun t => t.rtx == some ssrc || t.fec == some ssrc || t.ssrcs.contains ssrc

/-- both call sites: `if handled, err := pc.handleUndeclaredSSRC(ssrc, m); handled || err != nil { return err }`;
    `none` = fall through. `addOK kind` = `AddTransceiverFromKind(kind, sendrecv)` succeeds. -/
def undeclaredCall (addOK : Nat → Bool) (m : Media) : Res (Option IncomingResult) := do
  let r ← handleUndeclaredSSRC m
  match r with
  | .notHandledRid => pure none
  | .errExplicitSSRC => pure (some .ssrcErr)
  | .add k sid id => if addOK k then pure (some (.added k sid id)) else pure (some .errAdd)

/-- `findMediaSectionByPayloadType` returning the section itself -/
def findMediaByPayloadType (pt : Nat) (ms : List Media) : Option Media :=
  ms.find? fun m =>
    (equalFold m.media kVideo || equalFold m.media kAudio) && m.formats.any (fun f => parseUint f 8 == some pt)

/-- `handleIncomingSSRC(rtpStream, ssrc)` for a non-nil remote description `s` of type answer / not answer.
    `withoutAnswer` = SettingEngine.handleUndeclaredSSRCWithoutAnswer; `midOK` / `ridOK` = the sdes:mid /
    sdes:rtp-stream-id header extension is negotiated for audio or video; `known` = the MediaEngine knows the
    payload type; `pkt` = what `rtpStream.Peek` yields (`none` = error). -/
def handleIncomingSSRCHead (s : Session) (isAnswer withoutAnswer midOK ridOK : Bool) (known addOK : Nat → Bool)
    (ssrc : Nat) (pkt : Option (List Nat)) : Res IncomingResult := do
  let ts ← trackDetailsFromSDP s
  if ssrcDeclared ssrc ts then pure .declared
  else do
    let shortcut ← (if (!isAnswer || withoutAnswer) && s.medias.length == 1 then do
        let m ← idx s.medias 0
        undeclaredCall addOK m
      else pure none)
    match shortcut with
    | some r => pure r
    | none =>
      match pkt with
      | none => pure .errPeek
      | some b =>
        if b.length < 4 then pure .errPeek
        else do
          let b1 ← idx b 1
          let pt := b1 % 128
          match rtpParametersByPayloadType known pt with
          | none => pure .errCodec
          | some codecs =>
            if !midOK then
              if isAnswer && !withoutAnswer then pure .errEarly
              else
                match findMediaByPayloadType pt s.medias with
                | some m => do
                  let r ← undeclaredCall addOK m
                  match r with
                  | some x => pure x
                  | none => pure .errMidRequired
                | none => pure .errMidRequired
            else if !ridOK then pure .errRidRequired
            else do
              let _ ← idx codecs 0
              pure .beyond

/-! ### handleIncomingSSRC: the mid / rid / rsid probing loop over the transceivers (peerconnection.go) -/

/-- what `handleUnknownRTPPacket` extracts from one packet (pion/rtp parsing is external) -/
structure PktIds where
  mid : Str
  rid : Str
  rsid : Str
  paddingOnly : Bool
  deriving Repr, DecidableEq

/-- a transceiver as the probing loop sees it: `t.Mid()` and `t.Receiver()` — `none` for a transceiver
    without receiver (send-only, created by AddTransceiverFromTrack); a receiver is (closed, RIDs of its tracks) -/
structure ProbeTr where
  mid : Str
  receiver : Option (Bool × List Str)
  deriving Repr, DecidableEq

inductive ProbeResult where
  | rid (i : Nat)      -- nil: receiveForRid bound the stream to a track of transceiver i
  | rtx (i : Nat)      -- nil: receiveForRtx bound it as repair stream of a track of transceiver i
  | notFound           -- errRTPReceiverForRIDTrackStreamNotFound
  | eof                -- the chosen receiver is closed
  | readErr            -- interceptor.Read failed
  | failed             -- errPeerConnSimulcastIncomingSSRCFailed
  deriving Repr, DecidableEq

/-- `for _, t := range pc.GetTransceivers() { receiver := t.Receiver(); if t.Mid() != mid || receiver == nil
    { continue }; … receiver.receiveForRtx / receiver.receiveForRid … }`; `none` = no transceiver matched -/
def probeTransceivers (mid rid rsid : Str) : List ProbeTr → Nat → Res (Option ProbeResult)
  | [], _ => .val none
  | t :: ts, i =>
    if t.mid != mid || t.receiver.isNone then probeTransceivers mid rid rsid ts (i + 1)
    else do
      let r ← deref t.receiver            -- the method call on `receiver`
      if rsid != [] then
        pure (some (if r.1 then .eof else if r.2.contains rsid then .rtx i else .notFound))
      else
        pure (some (if r.1 then .eof else if r.2.contains rid then .rid i else .notFound))

/-- `for readCount := 0; readCount <= simulcastProbeCount; readCount++ { … }` with `simulcastProbeCount = 10`;
    `q` = what further `interceptor.Read` calls yield (empty = the read fails) -/
def probeLoop (trs : List ProbeTr) : Nat → Nat → PktIds → List PktIds → Res ProbeResult
  | 0, _, _, _ => .val .failed
  | fuel + 1, n, st, q =>
    if n > 10 then .val .failed
    else if st.mid == [] || (st.rid == [] && st.rsid == []) then
      match q with
      | [] => .val .readErr
      | p :: q' => probeLoop trs fuel (if st.paddingOnly then n else n + 1) p q'
    else do
      let r ← probeTransceivers st.mid st.rid st.rsid trs 0
      match r with
      | some x => pure x
      | none => probeLoop trs fuel (n + 1) st q

/-- the part of `handleIncomingSSRC` after `streamsForSSRC`: ids of the peeked packet (its padding flag is
    ignored), then the loop; the peeked packet is the first one the stream returns again -/
def probe (trs : List ProbeTr) (first : PktIds) (rest : List PktIds) : Res ProbeResult :=
  probeLoop trs (rest.length + 13) 0 { first with paddingOnly := false } (first :: rest)

/-- the loop as it would be with `receiver == nil` dropped from the guard -/
def probeTransceiversNoNilGuard (mid rid rsid : Str) : List ProbeTr → Nat → Res (Option ProbeResult)
  | [], _ => .val none
  | t :: ts, i =>
    if t.mid != mid then probeTransceiversNoNilGuard mid rid rsid ts (i + 1)
    else do
      let r ← deref t.receiver
      if rsid != [] then
        pure (some (if r.1 then .eof else if r.2.contains rsid then .rtx i else .notFound))
      else
        pure (some (if r.1 then .eof else if r.2.contains rid then .rid i else .notFound))

/-- `RTPReceiver.readRTP(b, reader)` once `received` is closed (what `TrackRemote.Read` / `peek` call): tracks
    are given by their RTP readers (`none` = configured but never bound: a second SSRC of the section of a
    started receiver); `i` = position of `reader` among the tracks (out of range = not a track of this
    receiver). `some k` = reader of track k used, `none` = error. As repaired by commit 9a29e20. -/
def receiverReadRTP (tracks : List (Option Nat)) (i : Nat) : Res (Option Nat) :=
  match tracks[i]? with
  | none => .val none
  | some none => .val none
  | some (some r) => (deref (some r)) >>= fun x => pure (some x)

/-- … and before: `if t := r.streamsForTrack(reader); t != nil { return t.rtpInterceptor.Read(b, a) }` -/
def receiverReadRTPOld (tracks : List (Option Nat)) (i : Nat) : Res (Option Nat) :=
  match tracks[i]? with
  | none => .val none
  | some t => (deref t) >>= fun x => pure (some x)

end WebrtcVerif.RemoteInput
