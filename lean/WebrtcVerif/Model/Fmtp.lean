/-
  Model of internal/fmtp (fmtp.go, h264.go, vp9.go, av1.go) — property C17; reused by the codec
  negotiation models (C15, C16, C10).

  Strings are `List Char` (Go strings restricted to valid UTF-8, one `Char` per rune).

  Case folding.  Go uses three different Unicode operations:
    * `strings.ToLower`   (keys of `parseParameters`, the lookup key of `defaultClockRate/defaultChannels`)
    * `strings.EqualFold` (mime dispatch in `Parse`, mime comparison in `genericFMTP.Match`, parameter
                           values in `paramsEqual`)
    * `strings.TrimSpace` (each `;`-separated segment)
  The model implements them on ASCII **plus the three non-ASCII code points that interact with ASCII**
  (enumerated over all of Unicode with Go's own tables):
    * U+017F 'ſ' LONG S      — EqualFold-equal to s/S, but its own lower case
    * U+212A KELVIN SIGN      — EqualFold-equal to k/K, lower case 'k'
    * U+0130 'İ' I WITH DOT   — lower case 'i', but EqualFold-equal to nothing else
  Every other code point is treated as caseless.  That is exact for all strings whose cased letters are
  ASCII or one of these three; other cased non-ASCII letters (é/É, σ/ς/Σ …) are outside the model — they
  never lower-case or fold to an ASCII letter, so they cannot reach the default tables or the
  h264/vp9/av1 dispatch; the model only differs from Go in how such letters compare among themselves.
  `TrimSpace` uses the complete `unicode.IsSpace` set (25 code points).
-/
namespace WebrtcVerif.Fmtp

abbrev Str := List Char

/-! ### strings.ToLower / strings.EqualFold / strings.TrimSpace -/

/-- U+017F LATIN SMALL LETTER LONG S -/
def longS : Char := '\u017f'
/-- U+212A KELVIN SIGN -/
def kelvin : Char := '\u212a'

/-- U+0130 LATIN CAPITAL LETTER I WITH DOT ABOVE -/
def dotI : Char := '\u0130'

def isUpperAscii (c : Char) : Bool := 65 ≤ c.toNat && c.toNat ≤ 90

/-- `unicode.ToLower` (see the header for the domain on which this is exact). -/
def lowerChar (c : Char) : Char :=
  if isUpperAscii c then Char.ofNat (c.toNat + 32)
  else if c = kelvin then 'k' else if c = dotI then 'i' else c

/-- canonical representative of the simple-fold orbit of `c` (`strings.EqualFold` compares these):
    ſ joins the orbit of s, İ is alone in its orbit, everything else folds like it lower-cases. -/
def foldChar (c : Char) : Char := if c = longS then 's' else if c = dotI then dotI else lowerChar c

def toLower (s : Str) : Str := s.map lowerChar

/-- `strings.EqualFold(s, t)` -/
def equalFold (s t : Str) : Bool := s.map foldChar == t.map foldChar

/-- `unicode.IsSpace` (complete: Latin-1 part and the `White_Space` property) -/
def isSpace (c : Char) : Bool :=
  let n := c.toNat
  (9 ≤ n && n ≤ 13) || n == 0x20 || n == 0x85 || n == 0xA0 || n == 0x1680 || (0x2000 ≤ n && n ≤ 0x200A)
    || n == 0x2028 || n == 0x2029 || n == 0x202F || n == 0x205F || n == 0x3000

/-- `strings.TrimSpace` -/
def trimSpace (s : Str) : Str := ((s.dropWhile isSpace).reverse.dropWhile isSpace).reverse

/-- `strings.Split(s, sep)` for a one-character separator: always at least one element. -/
def splitOn (sep : Char) : Str → List Str
  | [] => [[]]
  | c :: cs =>
    if c = sep then [] :: splitOn sep cs
    else match splitOn sep cs with
      | h :: t => (c :: h) :: t
      | [] => [[c]]

/-! ### parseParameters -/

/-- Go `map[string]string` built by successive assignments: most recent assignment first; `get?` returns
    the first hit, so a later duplicate key wins as in Go. -/
abbrev Params := List (Str × Str)

def Params.get? (m : Params) (k : Str) : Option Str := List.lookup k m

/-- one `;`-separated segment: `strings.SplitN(strings.TrimSpace(p), "=", 2)`, key lower-cased; the value
    is everything after the first `=` (untrimmed), or "" when there is no `=`. -/
def parseSegment (seg : Str) : Str × Str :=
  let t := trimSpace seg
  (toLower (t.takeWhile (· != '=')), (t.dropWhile (· != '=')).drop 1)

/-- `parseParameters(line)`; note that the empty line yields the single entry `"" ↦ ""`. -/
def parseParameters (line : Str) : Params :=
  ((splitOn ';' line).map parseSegment).reverse

/-! ### defaults, ClockRateEqual, ChannelsEqual, paramsEqual -/

def mimeOpus : Str := "audio/opus".toList
def mimePCMU : Str := "audio/pcmu".toList
def mimePCMA : Str := "audio/pcma".toList

/-- `defaultClockRate`: the lookup key is `strings.ToLower(mimeType)` (NOT a fold-insensitive lookup). -/
def defaultClockRate (mime : Str) : Nat :=
  let m := toLower mime
  if m = mimeOpus then 48000 else if m = mimePCMU then 8000 else if m = mimePCMA then 8000 else 90000

def defaultChannels (mime : Str) : Nat :=
  if toLower mime = mimeOpus then 2 else 0

/-- `ClockRateEqual(mimeType, valA, valB)` (uint32 values as `Nat`; only `== 0` and `==` are used). -/
def clockRateEqual (mime : Str) (a b : Nat) : Bool :=
  let a := if a = 0 then defaultClockRate mime else a
  let b := if b = 0 then defaultClockRate mime else b
  a == b

/-- `ChannelsEqual(mimeType, valA, valB)` -/
def channelsEqual (mime : Str) (a b : Nat) : Bool :=
  let a := if a = 0 then defaultChannels mime else a
  let b := if b = 0 then defaultChannels mime else b
  let a := if a = 0 then 1 else a
  let b := if b = 0 then 1 else b
  a == b

/-- one loop of `paramsEqual`: `for k, v := range x { if vy, ok := y[k]; ok && !EqualFold(vy, v) { return false } }`.
    The iteration visits every key of `x` with its final value `x[k]`. -/
def paramsHalf (x y : Params) : Bool :=
  x.all fun e =>
    match y.get? e.1, x.get? e.1 with
    | some vy, some vx => equalFold vy vx
    | _, _ => true

def paramsEqual (a b : Params) : Bool := paramsHalf a b && paramsHalf b a

/-! ### h264.go: profileLevelIDMatches -/

def hexVal? (c : Char) : Option Nat :=
  let n := c.toNat
  if 48 ≤ n ∧ n ≤ 57 then some (n - 48)
  else if 97 ≤ n ∧ n ≤ 102 then some (n - 87)
  else if 65 ≤ n ∧ n ≤ 70 then some (n - 55)
  else none

/-- `hex.DecodeString`: `none` = any error (odd length or a non-hex byte; a non-ASCII rune consists of
    non-hex bytes).  The partial result Go returns together with an error is never used by the caller. -/
def hexDecode : Str → Option (List Nat)
  | [] => some []
  | [_] => none
  | a :: b :: rest =>
    match hexVal? a, hexVal? b, hexDecode rest with
    | some x, some y, some tl => some ((x * 16 + y) :: tl)
    | _, _, _ => none

def profileLevelIDMatches (a b : Str) : Bool :=
  match hexDecode a with
  | some (a0 :: a1 :: _) =>
    match hexDecode b with
    | some (b0 :: b1 :: _) => a0 == b0 && a1 == b1
    | _ => false
  | _ => false

/-! ### Parse and the four Match implementations -/

def mimeH264 : Str := "video/h264".toList
def mimeVP9 : Str := "video/vp9".toList
def mimeAV1 : Str := "video/av1".toList
def keyPacketizationMode : Str := "packetization-mode".toList
def keyProfileLevelID : Str := "profile-level-id".toList
def keyProfileID : Str := "profile-id".toList
def keyProfile : Str := "profile".toList

/-- the dynamic type behind the `FMTP` interface value returned by `Parse` -/
inductive Parsed where
  | h264 (p : Params)
  | vp9 (p : Params)
  | av1 (p : Params)
  | generic (mime : Str) (clockRate channels : Nat) (p : Params)
  deriving Repr, DecidableEq

/-- `Parse(mimeType, clockRate, channels, line)` -/
def parse (mime : Str) (clockRate channels : Nat) (line : Str) : Parsed :=
  let p := parseParameters line
  if equalFold mime mimeH264 then .h264 p
  else if equalFold mime mimeVP9 then .vp9 p
  else if equalFold mime mimeAV1 then .av1 p
  else .generic mime clockRate channels p

def Parsed.params : Parsed → Params
  | .h264 p | .vp9 p | .av1 p | .generic _ _ _ p => p

/-- `FMTP.MimeType()` -/
def Parsed.mimeType : Parsed → Str
  | .h264 _ => mimeH264 | .vp9 _ => mimeVP9 | .av1 _ => mimeAV1 | .generic m _ _ _ => m

/-- `FMTP.Parameter(key)` -/
def Parsed.parameter (f : Parsed) (k : Str) : Option Str := f.params.get? k

/-- `(*h264FMTP).Match` after the type assertion -/
def h264Match (h c : Params) : Bool :=
  match h.get? keyPacketizationMode with
  | none => false
  | some hpmode =>
    match c.get? keyPacketizationMode with
    | none => false
    | some cpmode =>
      if hpmode ≠ cpmode then false
      else match h.get? keyProfileLevelID with
        | none => false
        | some hplid =>
          match c.get? keyProfileLevelID with
          | none => false
          | some cplid => profileLevelIDMatches hplid cplid

/-- `(*vp9FMTP).Match` / `(*av1FMTP).Match` after the type assertion: a missing parameter is "0". -/
def profileMatch (key : Str) (h c : Params) : Bool :=
  (h.get? key).getD ['0'] == (c.get? key).getD ['0']

/-- `(*genericFMTP).Match` after the type assertion; the receiver's mime type `gm` selects the defaults. -/
def genericMatch (gm : Str) (gclock gch : Nat) (gp : Params) (fm : Str) (fclock fch : Nat) (fp : Params) : Bool :=
  equalFold gm fm && clockRateEqual gm gclock fclock && channelsEqual gm gch fch && paramsEqual gp fp

/-- `a.Match(b)`: each implementation first asserts that `b` has its own dynamic type. -/
def Parsed.matches : Parsed → Parsed → Bool
  | .h264 h, .h264 c => h264Match h c
  | .vp9 h, .vp9 c => profileMatch keyProfileID h c
  | .av1 h, .av1 c => profileMatch keyProfile h c
  | .generic gm gc gch gp, .generic fm fc fch fp => genericMatch gm gc gch gp fm fc fch fp
  | _, _ => false

/-- a codec description as the callers of `fmtp.Parse` pass it (RTPCodecCapability without feedback) -/
structure Codec where
  mime : Str
  clockRate : Nat
  channels : Nat
  line : Str
  deriving Repr, DecidableEq

def Codec.parsed (c : Codec) : Parsed := parse c.mime c.clockRate c.channels c.line

/-- `fmtp.Parse(a…).Match(fmtp.Parse(b…))` — the codec compatibility test used throughout pion/webrtc. -/
def matchFmtp (a b : Codec) : Bool := a.parsed.matches b.parsed

/-! ### the codecs `MediaEngine.RegisterDefaultCodecs` registers (mediaengine.go), in registration order -/

def mkCodec (mime : String) (clock ch : Nat) (line : String) : Codec :=
  { mime := mime.toList, clockRate := clock, channels := ch, line := line.toList }

def defaultAudioCodecs : List Codec := [
  mkCodec "audio/opus" 48000 2 "minptime=10;useinbandfec=1",
  mkCodec "audio/G722" 8000 0 "",
  mkCodec "audio/PCMU" 8000 0 "",
  mkCodec "audio/PCMA" 8000 0 ""]

def defaultVideoCodecs : List Codec := [
  mkCodec "video/VP8" 90000 0 "",
  mkCodec "video/rtx" 90000 0 "apt=96",
  mkCodec "video/H264" 90000 0 "level-asymmetry-allowed=1;packetization-mode=1;profile-level-id=42001f",
  mkCodec "video/rtx" 90000 0 "apt=102",
  mkCodec "video/H264" 90000 0 "level-asymmetry-allowed=1;packetization-mode=0;profile-level-id=42001f",
  mkCodec "video/rtx" 90000 0 "apt=104",
  mkCodec "video/H264" 90000 0 "level-asymmetry-allowed=1;packetization-mode=1;profile-level-id=42e01f",
  mkCodec "video/rtx" 90000 0 "apt=106",
  mkCodec "video/H264" 90000 0 "level-asymmetry-allowed=1;packetization-mode=0;profile-level-id=42e01f",
  mkCodec "video/rtx" 90000 0 "apt=108",
  mkCodec "video/H264" 90000 0 "level-asymmetry-allowed=1;packetization-mode=1;profile-level-id=4d001f",
  mkCodec "video/rtx" 90000 0 "apt=127",
  mkCodec "video/H264" 90000 0 "level-asymmetry-allowed=1;packetization-mode=0;profile-level-id=4d001f",
  mkCodec "video/rtx" 90000 0 "apt=39",
  mkCodec "video/H265" 90000 0 "",
  mkCodec "video/rtx" 90000 0 "apt=116",
  mkCodec "video/AV1" 90000 0 "",
  mkCodec "video/rtx" 90000 0 "apt=45",
  mkCodec "video/VP9" 90000 0 "profile-id=0",
  mkCodec "video/rtx" 90000 0 "apt=98",
  mkCodec "video/VP9" 90000 0 "profile-id=2",
  mkCodec "video/rtx" 90000 0 "apt=100",
  mkCodec "video/H264" 90000 0 "level-asymmetry-allowed=1;packetization-mode=1;profile-level-id=64001f",
  mkCodec "video/rtx" 90000 0 "apt=112"]

def defaultCodecs : List Codec := defaultAudioCodecs ++ defaultVideoCodecs

end WebrtcVerif.Fmtp
