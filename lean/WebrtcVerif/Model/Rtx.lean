import WebrtcVerif.Base.Bytes
/-
  Model of the RTX (RFC 4588) unwrapping in rtpreceiver.go / track_remote.go — property C26.

  * `unwrap`   — the loop body of the goroutine started by `maybeStartRepairStreamReader`: what happens
                 to one buffer `b` (a pooled slice, `len = cap = receive MTU`) after
                 `repairInterceptor.Read(b, nil)` returned `n`.
  * `feed`     — the `select` that hands the rewritten packet to `repairStreamChannel` (capacity 50,
                 skipped when full).
  * `trackRead`— `TrackRemote.read` → `readRTX`: the oldest waiting packet is copied into the caller's
                 buffer (`copy`, so it is cut to the buffer's length); with nothing waiting the read goes
                 to the primary stream.

  Go index / slice expressions that can fail are explicit: `none` of the helper = run-time panic.
  The model mirrors the code after the two `fix:` commits (header length in `int`, reads shorter than
  the fixed header ignored).
-/
namespace WebrtcVerif.Rtx
open WebrtcVerif.Bytes

/-- interceptor attributes set for an unwrapped packet (the RTX stream's own header fields) -/
structure Attrs where
  rtxPT : Nat
  rtxSeq : Nat
  rtxSsrc : Nat
  deriving DecidableEq, Repr

inductive Outcome where
  | panic                                   -- index / slice bounds out of range in the reader goroutine
  | dropped                                 -- buffer returned to the pool, nothing queued
  | delivered (pkt : Bs) (a : Attrs)        -- `b[:n-2]` offered to the channel
  deriving DecidableEq, Repr

/-- `headerLength` as the code computes it:
    `12 + 4*int(b[0]&0b1111)`, plus `4*(1+int(Uint16(b[headerLength+2:headerLength+4])))` when `b[0]&0b10000 > 0`.
    The slice expression needs `headerLength+4 ≤ cap(b)`. -/
def headerLength (b : Bs) : Option Nat :=
  match b[0]? with
  | none => none
  | some b0 =>
    let hl0 := 12 + 4 * (b0 &&& 15).toNat
    if (b0 &&& 16) > 0 then
      match b[hl0 + 2]?, b[hl0 + 3]? with
      | some x, some y => some (hl0 + 4 * (1 + rd16be x y))
      | _, _ => none
    else some hl0

/-- `paddingLength`: `int(b[i-1])` when `b[0]&0b100000 > 0`, else 0 -/
def paddingLength (b : Bs) (n : Nat) : Option Nat :=
  match b[0]? with
  | none => none
  | some b0 =>
    if (b0 &&& 32) > 0 then
      match b[n - 1]? with
      | some c => some c.toNat
      | none => none
    else some 0

/-- `b[1]&0x7F`, `Uint16(b[2:4])`, `Uint32(b[8:12])` -/
def attrsOf (b : Bs) : Option Attrs :=
  match b[1]?, b[2]?, b[3]?, b[8]?, b[9]?, b[10]?, b[11]? with
  | some b1, some s0, some s1, some c0, some c1, some c2, some c3 =>
    some { rtxPT := (b1 &&& 0x7F).toNat, rtxSeq := rd16be s0 s1, rtxSsrc := rd32be c0 c1 c2 c3 }
  | _, _, _, _, _, _, _ => none

/-- The in-place surgery, statement by statement, and the result `b[:n-2]`:
      b[1] = (b[1] & 0x80) | uint8(pt)
      b[2] = b[headerLength]
      b[3] = b[headerLength+1]
      PutUint32(b[8:12], ssrc)
      copy(b[headerLength:n-2], b[headerLength+2:n])
    `copy` has memmove semantics, so the destination receives the old bytes `hl+2 .. n`. -/
def rewrite (b : Bs) (n hl : Nat) (pt : Byte) (ssrc : Nat) : Option Bs :=
  match b[1]? with
  | none => none
  | some b1 =>
    let b := b.set 1 ((b1 &&& 0x80) ||| pt)
    match b[hl]? with
    | none => none
    | some o0 =>
      let b := b.set 2 o0
      match b[hl + 1]? with
      | none => none
      | some o1 =>
        let b := b.set 3 o1
        if b.length < 12 then none
        else
          let b := (((b.set 8 (Bytes.b (ssrc / 16777216))).set 9 (Bytes.b (ssrc / 65536))).set 10
            (Bytes.b (ssrc / 256))).set 11 (Bytes.b ssrc)
          if n ≤ b.length ∧ hl + 2 ≤ n then
            some (b.take hl ++ (b.drop (hl + 2)).take (n - (hl + 2)))
          else none

/-- One iteration of the repair reader on buffer `b` after a read of `n` bytes; `pt`, `ssrc` are
    `remoteTrack.PayloadType()` and `remoteTrack.SSRC()`. -/
def unwrap (b : Bs) (n : Nat) (pt : Byte) (ssrc : Nat) : Outcome :=
  if n < 12 then .dropped                     -- shorter than the fixed header: ignored
  else
    match headerLength b, paddingLength b n with
    | some hl, some pad =>
      if n < hl + pad + 2 then .dropped         -- `i-headerLength-paddingLength < 2`: BWE probe, ignored
      else
        match attrsOf b, rewrite b n hl pt ssrc with
        | some a, some pkt => .delivered pkt a
        | _, _ => .panic
    | _, _ => .panic

/-! ### channel and track read -/

/-- what sits in `repairStreamChannel` -/
structure Item where
  pkt : Bs
  attrs : Attrs
  carried : Bool          -- attributes handed over by the repair interceptor are kept
  deriving DecidableEq, Repr

def chanCap : Nat := 50

/-- the non-blocking send: queued when there is room, otherwise skipped -/
def offer (q : List Item) (it : Item) : List Item :=
  if q.length < chanCap then q ++ [it] else q

/-- reader goroutine: one read of the repair interceptor. `none` = the goroutine panicked. -/
def feed (q : List Item) (b : Bs) (n : Nat) (pt : Byte) (ssrc : Nat) (carried : Bool) : Option (List Item) :=
  match unwrap b n pt ssrc with
  | .panic => none
  | .dropped => some q
  | .delivered pkt a => some (offer q { pkt, attrs := a, carried })

/-- `TrackRemote.Read` with a buffer of `readLen` bytes (no peeked packets, receiver open):
    `some` = an unwrapped RTX packet (cut to the buffer), `none` = the read went to the primary stream. -/
def trackRead (q : List Item) (readLen : Nat) : Option Item × List Item :=
  match q with
  | [] => (none, [])
  | it :: rest => (some { it with pkt := it.pkt.take readLen }, rest)

/-- all of `TrackRemote.read` that does not involve peeked packets: a closed receiver answers `io.EOF`
    before anything else, even with unwrapped packets waiting -/
inductive ReadOut where
  | eof
  | primary
  | rtx (it : Item)
  deriving DecidableEq, Repr

def trackReadFull (closed : Bool) (q : List Item) (readLen : Nat) : ReadOut × List Item :=
  if closed then (.eof, q)
  else
    match trackRead q readLen with
    | (none, q') => (.primary, q')
    | (some it, q') => (.rtx it, q')

/-! ### histories: any number of repair reads, then any number of track reads -/

/-- one read of the repair interceptor: buffer contents, returned length, whether attributes came along -/
structure Input where
  buf : Bs
  n : Nat
  carried : Bool
  deriving DecidableEq, Repr

/-- the channel item a repair read produces, if any -/
def itemOf (pt : Byte) (ssrc : Nat) (i : Input) : Option Item :=
  match unwrap i.buf i.n pt ssrc with
  | .delivered pkt a => some { pkt, attrs := a, carried := i.carried }
  | _ => none

def feedAll (pt : Byte) (ssrc : Nat) : List Item → List Input → Option (List Item)
  | q, [] => some q
  | q, i :: rest =>
    match feed q i.buf i.n pt ssrc i.carried with
    | none => none
    | some q' => feedAll pt ssrc q' rest

def readAll : List Item → List Nat → List (Option Item)
  | _, [] => []
  | q, l :: ls => (trackRead q l).1 :: readAll (trackRead q l).2 ls

/-! ### the receiver as a whole: primary-stream events interleaved with repair reads

The repair reader asks the track for `PayloadType()` and `SSRC()` anew for every packet, so what an
unwrapped packet carries is the track's state at the moment it is unwrapped. That state moves:
`TrackRemote.read` → `checkAndUpdateTrack` adopts the payload type of each primary packet it returns
(when the MediaEngine knows a codec for it), and `receiveForRid` binds the track to a new SSRC. -/

structure Recv where
  pt : Byte              -- remoteTrack.PayloadType()
  ssrc : Nat             -- remoteTrack.SSRC()
  q : List Item          -- repairStreamChannel
  prim : List Bs         -- what the primary stream's interceptor will return, oldest first
  closed : Bool
  deriving DecidableEq, Repr

inductive Ev where
  | feed (i : Input)          -- one read of the repair interceptor
  | read (len : Nat)          -- TrackRemote.Read with a buffer of `len` bytes
  | primary (pkt : Bs)        -- a packet arrives on the primary stream
  | rebind (ssrc : Nat)       -- receiveForRid binds the primary stream again, with this SSRC
  | stop                      -- RTPReceiver.Stop
  deriving DecidableEq, Repr

/-- outcome of `checkAndUpdateTrack(b)` on the caller's buffer -/
inductive Check where
  | ok (pt : Byte)            -- the track's payload type afterwards
  | tooShort                  -- `len(b) < 2`
  | unknownCodec              -- `getRTPParametersByPayloadType` failed; track unchanged
  deriving DecidableEq, Repr

/-- `checkAndUpdateTrack`: `b` is the caller's (zeroed) buffer of `len` bytes after `copy(b, pkt)`;
    `known` is the MediaEngine's `getCodecByPayload` succeeding. (`len(t.params.Codecs) == 0` does not
    occur: the track was bound with a codec.) -/
def checkAndUpdateTrack (known : Byte → Bool) (cur : Byte) (pkt : Bs) (len : Nat) : Check :=
  if len < 2 then .tooShort
  else
    let p := ((pkt.take len)[1]?).getD 0 &&& 0x7F
    if p != cur then (if known p then .ok p else .unknownCodec) else .ok cur

/-- what one `TrackRemote.Read` returned -/
inductive Obs where
  | eof
  | none                                  -- nothing waiting anywhere (the primary interceptor's own error)
  | rtx (it : Item) (len : Nat)           -- the item as queued; the caller sees `it.pkt.take len`
  | pri (pkt : Bs) (len : Nat)            -- a primary packet (cut to `len`), no error
  | priTooShort (pkt : Bs) (len : Nat)    -- … with errRTPTooShort
  | priUnknownCodec (pkt : Bs) (len : Nat)-- … with ErrCodecNotFound
  deriving DecidableEq, Repr

/-- ghost record: an item entered the channel while the track had this payload type and SSRC -/
structure Stamp where
  pt : Byte
  ssrc : Nat
  item : Item
  deriving DecidableEq, Repr

/-- the queued packet carries the payload type (marker bit aside) and the SSRC of its stamp -/
def Stamp.carries (st : Stamp) : Prop :=
  (∃ b1 : Byte, st.item.pkt[1]? = some ((b1 &&& 0x80) ||| st.pt)) ∧
  st.item.pkt[8]? = some (Bytes.b (st.ssrc / 16777216)) ∧ st.item.pkt[9]? = some (Bytes.b (st.ssrc / 65536)) ∧
  st.item.pkt[10]? = some (Bytes.b (st.ssrc / 256)) ∧ st.item.pkt[11]? = some (Bytes.b st.ssrc)

/-- One event. `none` = the reader goroutine panicked. After `stop` the reader may or may not still
    queue a packet (both `select` cases are ready); no read can see the difference, the model drops it. -/
def step (known : Byte → Bool) (s : Recv) : Ev → Option (Recv × List Obs × List Stamp)
  | .feed i =>
    match unwrap i.buf i.n s.pt s.ssrc with
    | .panic => none
    | .dropped => some (s, [], [])
    | .delivered pkt a =>
      if s.closed = false ∧ s.q.length < chanCap then
        some ({ s with q := s.q ++ [{ pkt, attrs := a, carried := i.carried }] }, [],
              [{ pt := s.pt, ssrc := s.ssrc, item := { pkt, attrs := a, carried := i.carried } }])
      else some (s, [], [])
  | .read len =>
    if s.closed then some (s, [.eof], [])
    else
      match s.q with
      | it :: rest => some ({ s with q := rest }, [.rtx it len], [])
      | [] =>
        match s.prim with
        | [] => some (s, [.none], [])
        | pkt :: more =>
          match checkAndUpdateTrack known s.pt pkt len with
          | .ok p => some ({ s with prim := more, pt := p }, [.pri pkt len], [])
          | .tooShort => some ({ s with prim := more }, [.priTooShort pkt len], [])
          | .unknownCodec => some ({ s with prim := more }, [.priUnknownCodec pkt len], [])
  | .primary pkt => some ({ s with prim := s.prim ++ [pkt] }, [], [])
  | .rebind ssrc => if s.closed then some (s, [], []) else some ({ s with ssrc := ssrc }, [], [])
  | .stop => some ({ s with closed := true }, [], [])

/-- a whole history: final state, what the reads returned, and the ghost log of queued items -/
def run (known : Byte → Bool) : Recv → List Ev → Option (Recv × List Obs × List Stamp)
  | s, [] => some (s, [], [])
  | s, e :: es =>
    match step known s e with
    | none => none
    | some (s1, o1, l1) =>
      match run known s1 es with
      | none => none
      | some (s2, o2, l2) => some (s2, o1 ++ o2, l1 ++ l2)

/-- the RTX items among the reads, oldest first -/
def rtxItems : List Obs → List Item
  | [] => []
  | .rtx it _ :: rest => it :: rtxItems rest
  | _ :: rest => rtxItems rest

end WebrtcVerif.Rtx
