import WebrtcVerif.Base.Bytes
/-
  RFC 3550 RTP packets over `List UInt8` (shared model: C26, later C28/C29).

     0                   1                   2                   3
     0 1 2 3 4 5 6 7 8 9 0 1 2 3 4 5 6 7 8 9 0 1 2 3 4 5 6 7 8 9 0 1
    |V=2|P|X|  CC   |M|     PT      |       sequence number         |
    |                           timestamp                           |
    |                             SSRC                              |
    |                       CSRC  × CC                              |
    |  extension profile            |  extension length (words)     |   when X
    |                       extension data                          |
    |                       payload … padding, count                |   count (last byte) when P

  `serialize` / `parse` are inverse on well-formed packets (`parse_serialize`, `serialize_parse`).
  The version field is carried, not checked (the code under verification does not look at it).
-/
namespace WebrtcVerif.Rtp
open WebrtcVerif.Bytes

/-- header extension block: 16-bit profile and the data words (one-byte / two-byte / RFC 3550 form is
    decided by the profile value; the block is opaque here) -/
structure Ext where
  profile : Nat
  data : Bs              -- 4·words bytes
  deriving DecidableEq, Repr

structure Packet where
  version : Nat          -- 2 bits
  marker : Bool
  pt : Nat               -- 7 bits
  seq : Nat              -- 16 bits
  ts : Nat               -- 32 bits
  ssrc : Nat             -- 32 bits
  csrcs : List Nat       -- ≤ 15 entries of 32 bits
  ext : Option Ext
  payload : Bs
  pad : Option Bs        -- filler bytes in front of the count byte; count = filler length + 1
  deriving DecidableEq, Repr

def Ext.WF (e : Ext) : Prop := e.profile < 65536 ∧ e.data.length % 4 = 0 ∧ e.data.length / 4 < 65536

structure Packet.WF (p : Packet) : Prop where
  version : p.version < 4
  pt : p.pt < 128
  seq : p.seq < 65536
  ts : p.ts < 4294967296
  ssrc : p.ssrc < 4294967296
  cc : p.csrcs.length ≤ 15
  csrc : ∀ c ∈ p.csrcs, c < 4294967296
  ext : ∀ e, p.ext = some e → e.WF
  pad : ∀ f, p.pad = some f → f.length < 255

instance (e : Ext) : Decidable e.WF := by unfold Ext.WF; infer_instance

def Packet.wfb (p : Packet) : Bool :=
  decide (p.version < 4) && decide (p.pt < 128) && decide (p.seq < 65536) && decide (p.ts < 4294967296)
    && decide (p.ssrc < 4294967296) && decide (p.csrcs.length ≤ 15) && p.csrcs.all (· < 4294967296)
    && (match p.ext with | none => true | some e => decide e.WF)
    && (match p.pad with | none => true | some f => decide (f.length < 255))

theorem Packet.wfb_iff (p : Packet) : p.wfb = true ↔ p.WF := by
  constructor
  · intro h
    simp only [Packet.wfb, Bool.and_eq_true, decide_eq_true_eq, List.all_eq_true] at h
    obtain ⟨⟨⟨⟨⟨⟨⟨⟨h1, h2⟩, h3⟩, h4⟩, h5⟩, h6⟩, h7⟩, h8⟩, h9⟩ := h
    refine ⟨h1, h2, h3, h4, h5, h6, h7, ?_, ?_⟩
    · intro e he; rw [he] at h8; simpa using h8
    · intro f hf; rw [hf] at h9; simpa using h9
  · intro ⟨h1, h2, h3, h4, h5, h6, h7, h8, h9⟩
    simp only [Packet.wfb, Bool.and_eq_true, decide_eq_true_eq, List.all_eq_true]
    refine ⟨⟨⟨⟨⟨⟨⟨⟨h1, h2⟩, h3⟩, h4⟩, h5⟩, h6⟩, h7⟩, ?_⟩, ?_⟩
    · cases he : p.ext with
      | none => rfl
      | some e => simpa using h8 e he
    · cases hf : p.pad with
      | none => rfl
      | some f => simpa using h9 f hf

/-! ### serialize -/

def byte0 (p : Packet) : Byte :=
  b (p.version * 64 + (if p.pad.isSome then 32 else 0) + (if p.ext.isSome then 16 else 0) + p.csrcs.length)

def byte1 (p : Packet) : Byte := b ((if p.marker then 128 else 0) + p.pt)

def csrcBytes : List Nat → Bs
  | [] => []
  | c :: cs => be32 c ++ csrcBytes cs

def extBytes : Option Ext → Bs
  | none => []
  | some e => be16 e.profile ++ be16 (e.data.length / 4) ++ e.data

def padBytes : Option Bs → Bs
  | none => []
  | some f => f ++ [b (f.length + 1)]

/-- header length in bytes: fixed part, CSRC list, extension block -/
def Packet.headerLen (p : Packet) : Nat :=
  12 + 4 * p.csrcs.length + (match p.ext with | none => 0 | some e => 4 + e.data.length)

def serialize (p : Packet) : Bs :=
  byte0 p :: byte1 p :: b (p.seq / 256) :: b p.seq
    :: b (p.ts / 16777216) :: b (p.ts / 65536) :: b (p.ts / 256) :: b p.ts
    :: b (p.ssrc / 16777216) :: b (p.ssrc / 65536) :: b (p.ssrc / 256) :: b p.ssrc
    :: (csrcBytes p.csrcs ++ (extBytes p.ext ++ (p.payload ++ padBytes p.pad)))

@[simp] theorem csrcBytes_length (cs : List Nat) : (csrcBytes cs).length = 4 * cs.length := by
  induction cs with
  | nil => rfl
  | cons c cs ih => simp [csrcBytes, ih]; omega

theorem extBytes_length (e : Option Ext) :
    (extBytes e).length = (match e with | none => 0 | some e => 4 + e.data.length) := by
  cases e with
  | none => rfl
  | some e => simp [extBytes]; omega

theorem padBytes_length (f : Option Bs) :
    (padBytes f).length = (match f with | none => 0 | some f => f.length + 1) := by
  cases f <;> simp [padBytes]

theorem serialize_length (p : Packet) :
    (serialize p).length = p.headerLen + p.payload.length + (padBytes p.pad).length := by
  simp [serialize, Packet.headerLen, extBytes_length]; omega

/-! ### parse -/

def parseCsrcs : Nat → Bs → Option (List Nat × Bs)
  | 0, s => some ([], s)
  | k + 1, x :: y :: z :: w :: rest =>
    match parseCsrcs k rest with
    | some (cs, r) => some (rd32be x y z w :: cs, r)
    | none => none
  | _ + 1, _ => none

def parseExt (hasX : Bool) (s : Bs) : Option (Option Ext × Bs) :=
  if hasX then
    match s with
    | p0 :: p1 :: l0 :: l1 :: r =>
      if 4 * rd16be l0 l1 ≤ r.length then
        some (some { profile := rd16be p0 p1, data := r.take (4 * rd16be l0 l1) }, r.drop (4 * rd16be l0 l1))
      else none
    | _ => none
  else some (none, s)

/-- payload and padding filler of what follows the header: the last byte counts the padding bytes,
    itself included, so it is at least 1 and at most what is there -/
def parsePad (hasP : Bool) (s : Bs) : Option (Bs × Option Bs) :=
  if hasP then
    match s.getLast? with
    | none => none
    | some c =>
      if 1 ≤ c.toNat ∧ c.toNat ≤ s.length then
        some (s.take (s.length - c.toNat), some ((s.drop (s.length - c.toNat)).dropLast))
      else none
  else some (s, none)

def parse (s : Bs) : Option Packet :=
  match s with
  | f0 :: f1 :: s0 :: s1 :: t0 :: t1 :: t2 :: t3 :: c0 :: c1 :: c2 :: c3 :: rest =>
    match parseCsrcs (f0.toNat % 16) rest with
    | none => none
    | some (csrcs, r1) =>
      match parseExt (f0.toNat / 16 % 2 == 1) r1 with
      | none => none
      | some (ext, r2) =>
        match parsePad (f0.toNat / 32 % 2 == 1) r2 with
        | none => none
        | some (payload, pad) =>
          some { version := f0.toNat / 64, marker := f1.toNat / 128 == 1, pt := f1.toNat % 128,
                 seq := rd16be s0 s1, ts := rd32be t0 t1 t2 t3, ssrc := rd32be c0 c1 c2 c3,
                 csrcs, ext, payload, pad }
  | _ => none

/-! ### round trip -/

theorem parseCsrcs_csrcBytes (cs : List Nat) (rest : Bs) (h : ∀ c ∈ cs, c < 4294967296) :
    parseCsrcs cs.length (csrcBytes cs ++ rest) = some (cs, rest) := by
  induction cs with
  | nil => rfl
  | cons c cs ih =>
    have hc : c < 4294967296 := h c (by simp)
    have := ih (fun c' hc' => h c' (by simp [hc']))
    simp only [csrcBytes, be32, List.length_cons, List.cons_append, List.nil_append, parseCsrcs, this]
    rw [rd32be_be32, Nat.mod_eq_of_lt hc]

theorem parseExt_extBytes (e : Option Ext) (rest : Bs) (h : ∀ x, e = some x → x.WF) :
    parseExt e.isSome (extBytes e ++ rest) = some (e, rest) := by
  cases e with
  | none => rfl
  | some e =>
    obtain ⟨h1, h2, h3⟩ := h e rfl
    have hw : 4 * (e.data.length / 4) = e.data.length := by omega
    simp only [Option.isSome_some, parseExt, extBytes, be16, List.cons_append, List.nil_append, if_true]
    rw [rd16be_be16, rd16be_be16, Nat.mod_eq_of_lt h1, Nat.mod_eq_of_lt h3, hw]
    simp

theorem parsePad_padBytes (payload : Bs) (f : Option Bs) (h : ∀ x, f = some x → x.length < 255) :
    parsePad f.isSome (payload ++ padBytes f) = some (payload, f) := by
  cases f with
  | none => simp [parsePad, padBytes]
  | some f =>
    have hf := h f rfl
    have hc : (b (f.length + 1)).toNat = f.length + 1 := by simp; omega
    have hl : (payload ++ (f ++ [b (f.length + 1)])).getLast? = some (b (f.length + 1)) := by simp
    have hlen : (payload ++ (f ++ [b (f.length + 1)])).length = payload.length + f.length + 1 := by
      simp; omega
    simp only [Option.isSome_some, parsePad, padBytes, if_true, hl, hc, hlen]
    have e1 : payload.length + f.length + 1 - (f.length + 1) = payload.length := by omega
    rw [if_pos (by omega), e1]
    simp

theorem parse_serialize (p : Packet) (h : p.WF) : parse (serialize p) = some p := by
  obtain ⟨hv, hpt, hseq, hts, hssrc, hcc, hcs, hext, hpad⟩ := h
  have hb0 : (byte0 p).toNat
      = p.version * 64 + (if p.pad.isSome then 32 else 0) + (if p.ext.isSome then 16 else 0) + p.csrcs.length := by
    simp only [byte0, b_toNat]; split <;> split <;> omega
  have hb1 : (byte1 p).toNat = (if p.marker then 128 else 0) + p.pt := by
    simp only [byte1, b_toNat]; split <;> omega
  have hcc' : (byte0 p).toNat % 16 = p.csrcs.length := by rw [hb0]; split <;> split <;> omega
  have hx : ((byte0 p).toNat / 16 % 2 == 1) = p.ext.isSome := by
    rw [hb0]; cases p.ext <;> cases p.pad <;> simp <;> omega
  have hp : ((byte0 p).toNat / 32 % 2 == 1) = p.pad.isSome := by
    rw [hb0]; cases p.ext <;> cases p.pad <;> simp <;> omega
  have hver : (byte0 p).toNat / 64 = p.version := by rw [hb0]; split <;> split <;> omega
  have hm : ((byte1 p).toNat / 128 == 1) = p.marker := by rw [hb1]; cases p.marker <;> simp <;> omega
  have hpt' : (byte1 p).toNat % 128 = p.pt := by rw [hb1]; split <;> omega
  simp only [serialize, parse, hcc', parseCsrcs_csrcBytes p.csrcs _ hcs, hx, parseExt_extBytes p.ext _ hext, hp,
    parsePad_padBytes p.payload p.pad hpad, hver, hm, hpt', rd16be_be16, rd32be_be32,
    Nat.mod_eq_of_lt hseq, Nat.mod_eq_of_lt hts, Nat.mod_eq_of_lt hssrc]

/-- RFC 4588: the original packet a retransmission packet stands for. The RTX payload is the original
    sequence number `o0 o1` (big endian) followed by the original payload `body`; SSRC and payload type
    are those of the primary stream; every other field is that of the RTX packet `p`. -/
def original (p : Packet) (o0 o1 : Byte) (body : Bs) (pt ssrc : Nat) : Packet :=
  { p with seq := rd16be o0 o1, ssrc := ssrc, pt := pt, payload := body }

/-! ### "too short to carry an OSN" (RFC 4588 retransmission payload = 2-byte OSN + original payload) -/

/-- Read off the raw bytes with unbounded arithmetic: the header the packet claims (fixed part, CSRC
    list, extension block) plus the padding it claims plus the two OSN bytes do not fit into it. -/
def tooShortForOSN (s : Bs) : Bool :=
  if s.length < 12 then true
  else
    match s[0]? with
    | none => true
    | some f0 =>
      let hl0 := 12 + 4 * (f0.toNat % 16)
      let pad := if f0.toNat / 32 % 2 = 1 then (match s.getLast? with | some c => c.toNat | none => 0) else 0
      if f0.toNat / 16 % 2 = 1 then
        match s[hl0 + 2]?, s[hl0 + 3]? with
        | some x, some y => decide (s.length < hl0 + 4 + 4 * rd16be x y + pad + 2)
        | _, _ => true
      else decide (s.length < hl0 + pad + 2)

end WebrtcVerif.Rtp
