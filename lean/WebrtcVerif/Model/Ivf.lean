import WebrtcVerif.Base.Bytes
/-
  Model of pkg/media/ivfwriter/ivfwriter.go and pkg/media/ivfreader/ivfreader.go — property C32
  (and C37's IVF part: the reader is modelled on ARBITRARY bytes, with an explicit `.panic` outcome
  wherever the Go code would index / slice out of range or divide by zero).
  Writer as of the commit `fix: ivfwriter does not index an empty VP8 payload`.

  pion/rtp's depacketizers (codecs.VP8Packet / VP9Packet / AV1Depacketizer) are external: a packet
  reaches the model as a *descriptor* `Desc` — what the depacketizer returned for it.

  Integers are `Nat`; Go's fixed-width arithmetic is made explicit with `% 2^32` / `% 2^64`.
-/
namespace WebrtcVerif.Ivf
open WebrtcVerif.Bytes

def two32 : Nat := 4294967296
def two64 : Nat := 18446744073709551616

/-! ## writer -/

inductive Codec | vp8 | vp9 | av1
  deriving DecidableEq, Repr

/-- the fields of `IVFWriter` that the options set -/
structure Config where
  codec : Codec := .vp8
  width : Nat := 640          -- uint16
  height : Nat := 480         -- uint16
  num : Nat := 1              -- timebaseNumerator   (uint32)
  den : Nat := 30             -- timebaseDenominator (uint32)
  direct : Bool := false      -- WithDirectPTS
  deriving DecidableEq, Repr

/-- `clockRate` is fixed by `NewWith` (no option changes it) -/
def clockRate : Nat := 90000

def fourCC : Codec → Bs
  | .vp8 => [86, 80, 56, 48]   -- "VP80"
  | .vp9 => [86, 80, 57, 48]   -- "VP90"
  | .av1 => [65, 86, 48, 49]   -- "AV01"

/-- "DKIF" -/
def signature : Bs := [68, 75, 73, 70]

/-- `writeHeader`: the 32 bytes -/
def header (c : Config) : Bs :=
  signature ++ le16 0 ++ le16 32 ++ fourCC c.codec ++ le16 c.width ++ le16 c.height
    ++ le32 c.den ++ le32 c.num ++ le32 900 ++ le32 0

/-- What the depacketizer returned for one RTP payload.
    * VP8: `a` = (S == 1), `b` unused, `payload` = VP8Packet.Payload
    * VP9: `a` = P, `b` = B, `payload` = VP9Packet.Payload
    * AV1: `a` = depacketizer.N after the call, `b` unused, `payload` = the returned OBU stream -/
inductive Desc
  | err                                  -- Unmarshal returned an error
  | ok (a b : Bool) (payload : Bs)
  deriving DecidableEq, Repr

/-- one `WriteRTP` call -/
structure Pkt where
  ts : Nat            -- packet.Timestamp (uint32)
  marker : Bool       -- packet.Marker
  empty : Bool        -- len(packet.Payload) == 0
  desc : Desc
  deriving DecidableEq, Repr

/-- ghost record of one `writeFrame` call -/
structure Written where
  frame : Bs          -- the bytes handed to writeFrame
  rtpTs : Nat         -- RTP timestamp of the packet that completed the frame
  pts : Nat           -- the PTS written into the frame header
  deriving DecidableEq, Repr

/-- writer state (`ioWriter` = everything written so far; `log` is a ghost field) -/
structure W where
  out : Bs
  count : Nat := 0            -- uint64 in Go; 2^64 frames are out of reach, kept as Nat
  seenKey : Bool := false
  first : Nat := 0            -- firstFrameTimestamp
  cur : Bs := []              -- currentFrame (nil ⇔ empty: `append(nil, empty...)` stays nil,
                              --   anything else is non-empty; it is reset to nil)
  log : List Written := []
  deriving DecidableEq, Repr

/-- `timestampToPts` (uint64 arithmetic) -/
def timestampToPts (c : Config) (timestamp : Nat) : Nat :=
  (timestamp * c.num % two64) / c.den

/-- the PTS `writeFrame` stores for a `timestamp` argument -/
def ptsOfTimestamp (c : Config) (timestamp : Nat) : Nat :=
  if c.direct then timestamp else timestampToPts c timestamp

/-- frame header + frame as written by `writeFrame` (`uint32(len(frame))`, 64-bit PTS) -/
def frameRecord (frame : Bs) (pts : Nat) : Bs :=
  le32 frame.length ++ le64 pts ++ frame

/-- `writeFrame` (the writes succeed: the sink never fails) -/
def writeFrame (c : Config) (s : W) (frame : Bs) (timestamp rtpTs : Nat) : W :=
  let pts := ptsOfTimestamp c timestamp
  { s with out := s.out ++ frameRecord frame pts, count := s.count + 1,
           log := s.log ++ [{ frame, rtpTs, pts }] }

/-- result of one `WriteRTP` -/
inductive Res
  | ok (s : W)        -- returned nil
  | err (s : W)       -- returned an error
  | panic             -- index out of range (no branch of the code below reaches it: `writeRTP_no_panic`)
  deriving DecidableEq, Repr

/-- `Payload[0] & 0x01 == 0` guarded by `len(Payload) > 0` -/
def vp8KeyFrameBit : Bs → Bool
  | [] => false
  | b0 :: _ => b0.toNat % 2 == 0

/-- `writeVP8` -/
def writeVP8 (c : Config) (s : W) (p : Pkt) (timestamp : Nat) : Res :=
  match p.desc with
  | .err => .err s
  | .ok sbit _ payload =>
    let isKeyFrame := vp8KeyFrameBit payload         -- len(Payload) > 0 && (Payload[0] & 0x01) == 0
    if !s.seenKey && !isKeyFrame then .ok s
    else if s.cur.isEmpty && !sbit then .ok s        -- currentFrame == nil && S != 1
    else
      let s := { s with seenKey := true, cur := s.cur ++ payload }
      if !p.marker then .ok s
      else if s.cur.isEmpty then .ok s
      else .ok { writeFrame c s s.cur timestamp p.ts with cur := [] }

/-- `writeVP9` -/
def writeVP9 (c : Config) (s : W) (p : Pkt) (timestamp : Nat) : Res :=
  match p.desc with
  | .err => .err s
  | .ok pbit bbit payload =>
    if !s.seenKey && pbit then .ok s
    else if s.cur.isEmpty && !bbit then .ok s        -- currentFrame == nil && !B
    else
      let s := { s with seenKey := true, cur := s.cur ++ payload }
      if !p.marker then .ok s
      else if s.cur.isEmpty then .ok s
      else .ok { writeFrame c s s.cur timestamp p.ts with cur := [] }

/-- `obu.Type((payload[0] & 0x78) >> 3) == obu.OBUSequenceHeader` guarded by `len(payload) > 0` -/
def startsWithSequenceHeader : Bs → Bool
  | [] => false
  | b0 :: _ => b0.toNat / 8 % 16 == 1

/-- temporal delimiter `obu.Header{Type: OBUTemporalDelimiter, HasSizeField: true}.Marshal()` + size 0 -/
def av1Delimiter : Bs := [18, 0]

/-- `writeAV1` -/
def writeAV1 (c : Config) (s : W) (p : Pkt) (timestamp : Nat) : Res :=
  match p.desc with
  | .err => .err s
  | .ok nbit _ payload =>
    let isKeyFrame := nbit || startsWithSequenceHeader payload
    if !s.seenKey && !isKeyFrame then .ok s
    else
      let s := { s with seenKey := true, cur := s.cur ++ payload }
      if !p.marker then .ok s
      else .ok { writeFrame c s (av1Delimiter ++ s.cur) timestamp p.ts with cur := [] }

/-- `timestamp` computed by `WriteRTP` (uint32 subtraction, then uint64 arithmetic) -/
def rtpTimestamp (c : Config) (ts first : Nat) : Nat :=
  let diff := (ts + two32 - first % two32) % two32
  if c.direct then diff else 1000 * diff / clockRate

/-- `WriteRTP` on an open writer -/
def writeRTP (c : Config) (s : W) (p : Pkt) : Res :=
  if p.empty then .ok s
  else
    let s := if s.count == 0 then { s with first := p.ts } else s
    let timestamp := rtpTimestamp c p.ts s.first
    match c.codec with
    | .vp8 => writeVP8 c s p timestamp
    | .vp9 => writeVP9 c s p timestamp
    | .av1 => writeAV1 c s p timestamp

/-- outcome of feeding a packet list: final state, number of calls that returned an error, and the
    index of the call that panicked (feeding stops there) -/
structure RunOut where
  st : W
  errs : Nat
  panicAt : Option Nat
  deriving DecidableEq, Repr

def runFrom (c : Config) : W → List Pkt → Nat → Nat → RunOut
  | s, [], _, errs => { st := s, errs, panicAt := none }
  | s, p :: ps, i, errs =>
    match writeRTP c s p with
    | .ok s' => runFrom c s' ps (i + 1) errs
    | .err s' => runFrom c s' ps (i + 1) (errs + 1)
    | .panic => { st := s, errs, panicAt := some i }

/-- `NewWith`: the header is written first; a zero denominator is refused afterwards.
    Returns what was written and whether a writer was returned. -/
def newWith (c : Config) : W × Bool :=
  ({ out := header c }, c.den != 0)

def run (c : Config) (ps : List Pkt) : RunOut := runFrom c (newWith c).1 ps 0 0

/-- `Close`: a seekable sink gets bytes 24..27 overwritten with `uint32(count)` -/
def close (seekable : Bool) (s : W) : Bs :=
  if seekable then s.out.take 24 ++ le32 s.count ++ s.out.drop 28 else s.out

/-! ## reader -/

inductive RErr
  | eof | incompleteFileHeader | signatureMismatch | unknownVersion | invalidTimebase
  | incompleteFrameHeader | incompleteFrameData
  deriving DecidableEq, Repr

inductive Out (α : Type)
  | ok (a : α)
  | err (e : RErr)
  | panic
  deriving Repr, DecidableEq

/-- Go slice expression `buf[lo:hi]` (`none` = run-time panic) -/
def slice (buf : Bs) (lo hi : Nat) : Option Bs :=
  if lo ≤ hi ∧ hi ≤ buf.length then some ((buf.drop lo).take (hi - lo)) else none

/-- `binary.LittleEndian.Uint16/32/64` (`none` = panic: slice too short) -/
def u16 : Bs → Option Nat
  | a :: b' :: _ => some (rd16le a b')
  | _ => none
def u32 : Bs → Option Nat
  | a :: b' :: c :: d :: _ => some (rd32le a b' c d)
  | _ => none
def u64 : Bs → Option Nat
  | a :: b' :: c :: d :: e :: f :: g :: h :: _ => some (rd32le a b' c d + rd32le e f g h * two32)
  | _ => none

structure FileHeader where
  signature : Bs
  version : Nat
  headerSize : Nat
  fourCC : Bs
  width : Nat
  height : Nat
  den : Nat             -- TimebaseDenominator
  num : Nat             -- TimebaseNumerator
  numFrames : Nat
  unused : Nat
  deriving DecidableEq, Repr

structure FrameHeader where
  frameSize : Nat
  timestamp : Nat
  deriving DecidableEq, Repr

/-- the field extraction of `parseFileHeader` on its 32-byte buffer (`none` = panic) -/
def decodeFileHeader (buf : Bs) : Option FileHeader := do
  let signature ← slice buf 0 4
  let version ← (slice buf 4 6).bind u16
  let headerSize ← (slice buf 6 8).bind u16
  let fourCC ← slice buf 8 12
  let width ← (slice buf 12 14).bind u16
  let height ← (slice buf 14 16).bind u16
  let den ← (slice buf 16 20).bind u32
  let num ← (slice buf 20 24).bind u32
  let numFrames ← (slice buf 24 28).bind u32
  let unused ← (slice buf 28 32).bind u32
  pure { signature, version, headerSize, fourCC, width, height, den, num, numFrames, unused }

/-- `parseFileHeader` -/
def parseFileHeader (s : Bs) : Out (FileHeader × Bs) :=
  match readFull 32 s with
  | .short => .err .incompleteFileHeader
  | .eof => .err .eof
  | .ok buf rest =>
    match decodeFileHeader buf with
    | none => .panic
    | some h =>
      if h.signature ≠ signature then .err .signatureMismatch
      else if h.version ≠ 0 then .err .unknownVersion
      else .ok (h, rest)

/-- reader state after `NewWith` -/
structure Reader where
  den : Nat
  num : Nat
  deriving DecidableEq, Repr

/-- `ivfreader.NewWith` on a non-nil stream -/
def newReader (s : Bs) : Out (Reader × FileHeader × Bs) :=
  match parseFileHeader s with
  | .err e => .err e
  | .panic => .panic
  | .ok (h, rest) =>
    if h.den = 0 ∨ h.num = 0 then .err .invalidTimebase
    else .ok ({ den := h.den, num := h.num }, h, rest)

/-- `ptsToTimestamp` (uint64 arithmetic; division by zero panics) -/
def ptsToTimestamp (r : Reader) (pts : Nat) : Option Nat :=
  if r.num = 0 then none else some ((pts * r.den % two64) / r.num)

/-- `ParseNextFrame` -/
def parseNextFrame (r : Reader) (s : Bs) : Out (Bs × FrameHeader × Bs) :=
  match readFull 12 s with
  | .short => .err .incompleteFrameHeader
  | .eof => .err .eof
  | .ok buf rest =>
    match (slice buf 4 12).bind u64, (slice buf 0 4).bind u32 with
    | some pts, some size =>
      match ptsToTimestamp r pts with
      | none => .panic
      | some timestamp =>
        match readFull size rest with
        | .short => .err .incompleteFrameData
        | .eof => .err .eof                   -- `else if err != nil { return nil, nil, err }`: io.EOF
        | .ok payload rest' => .ok (payload, { frameSize := size, timestamp }, rest')
    | _, _ => .panic

theorem readFull_ok_len (n : Nat) (s a r : Bs) (h : readFull n s = .ok a r) :
    a.length = n ∧ r.length + n = s.length := by
  unfold readFull at h
  split at h
  · injection h with h1 h2
    subst h1; subst h2
    simp [List.length_take, List.length_drop]; omega
  · split at h <;> cases h

theorem parseNextFrame_progress (r : Reader) (s : Bs) (x : Bs × FrameHeader) (rest : Bs)
    (h : parseNextFrame r s = .ok (x.1, x.2, rest)) : rest.length < s.length := by
  unfold parseNextFrame at h
  split at h
  · cases h
  · cases h
  · rename_i buf rest0 hr
    have h0 := (readFull_ok_len _ _ _ _ hr).2
    split at h
    · split at h
      · cases h
      · split at h
        · cases h
        · cases h
        · rename_i payload rest' hr2
          have h1 := (readFull_ok_len _ _ _ _ hr2).2
          injection h with h
          injection h with _ h
          injection h with _ h
          subst h
          omega
    · cases h

/-- how a "read until it stops" loop ends -/
inductive End
  | err (e : RErr)
  | panic
  deriving DecidableEq, Repr

/-- call `ParseNextFrame` until it does not return a frame (terminates: every frame consumes ≥ 12 bytes) -/
def readFrames (r : Reader) (s : Bs) : List (Bs × FrameHeader) × End :=
  match h : parseNextFrame r s with
  | .err e => ([], .err e)
  | .panic => ([], .panic)
  | .ok (payload, fh, rest) =>
    have : rest.length < s.length := parseNextFrame_progress r s (payload, fh) rest h
    let (fs, e) := readFrames r rest
    ((payload, fh) :: fs, e)
termination_by s.length

/-- a whole file: `NewWith` then `ParseNextFrame` until it stops -/
def readFile (s : Bs) : Out (FileHeader × List (Bs × FrameHeader) × End) :=
  match newReader s with
  | .err e => .err e
  | .panic => .panic
  | .ok (r, h, rest) =>
    let (fs, e) := readFrames r rest
    .ok (h, fs, e)

end WebrtcVerif.Ivf
