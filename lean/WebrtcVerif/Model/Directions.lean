/-
  Model of the direction handling of pion/webrtc (property C08), as the code is AFTER the commits
  `fix: answer recvonly/inactive to a sendonly re-offer` (the unrepaired switch is kept as `adjustOld`) and
  `fix: narrow the transceiver direction to a legal answer in CreateAnswer` (before it: `noNarrow`).

  Mirrors, branch by branch:
    peerconnection.go  SetRemoteDescription   — the m-section loop for remote offers: findByMid, Stop() on an
                                                inactive section, satisfyTypeAndDirection, the new-transceiver
                                                direction, the four-way adjustment switch, SetMid
                       CreateAnswer / generateMatchedSDP — section → transceiver matching by mid
                       CreateOffer / generateUnmatchedSDP / generateMatchedSDP(includeUnmatched) — mid
                                                allocation (`greaterMid`) and the section list of an offer
                       SetLocalDescription(answer), SetRemoteDescription(answer)
                                              — setRTPTransceiverCurrentDirection
                       AddTrack, RemoveTrack, AddTransceiverFromKind
    rtptransceiver.go  satisfyTypeAndDirection (preference lists), findByMid, setSendingTrack, SetSender,
                       isSendAllowed, Stop, answerDirection,
                       setDirection / setCurrentDirection / setCurrentRemoteDirection
    sdp.go             addTransceiverSDP      — the direction attribute is `transceiver.Direction()`
    signalingstate.go  checkNextSignalingState — only the stable / have-local-offer / have-remote-offer part

  Also mirrored (other agents' fix commits): a remote m-section without a direction attribute counts as
  sendrecv (`effDir`); CreateOffer raises greaterMid from every description and transceiver before numbering;
  SetRemoteDescription rejects a description without ICE credentials before applying it.

  Not modelled (parameters of the tie): codecs (every kind has codecs, so no section is rejected), ICE, DTLS,
  data channels, Plan-B.  Mids are the decimal numbers pion allocates (`Nat`).
-/
namespace WebrtcVerif.Directions

/-- RTPTransceiverDirection without `Unknown`; `Option Dir` is used where the Go value may be Unknown. -/
inductive Dir | sendrecv | sendonly | recvonly | inactive
  deriving DecidableEq, Repr, Inhabited

inductive Kind | audio | video
  deriving DecidableEq, Repr, Inhabited

/-- One RTPTransceiver: the fields the direction logic reads or writes. -/
structure Tr where
  kind : Kind
  /-- `Direction()` -/
  dir : Dir
  /-- `getCurrentDirection()`; `none` = RTPTransceiverDirectionUnknown -/
  cur : Option Dir := none
  /-- `getCurrentRemoteDirection()`; `none` = Unknown -/
  curRemote : Option Dir := none
  /-- `Sender() != nil` (a sender created by AddTrack / AddTransceiverFromKind always carries a track) -/
  sender : Bool
  /-- ghost: `Stop()` has been called -/
  stopped : Bool := false
  /-- `Mid()`; `none` = "" -/
  mid : Option Nat := none
  deriving DecidableEq, Repr, Inhabited

/-- One audio/video m-section of a description: `a=mid`, media kind, direction attribute (`none` = the
    section carries no direction attribute, `getPeerDirection` = Unknown). -/
structure Sec where
  mid : Nat
  kind : Kind
  dir : Option Dir
  deriving DecidableEq, Repr, Inhabited

/-! ### Specification: RFC 3264 §6.1 -/
namespace Spec

/-- the agent sends media with this direction -/
def sends : Dir → Bool
  | .sendrecv | .sendonly => true
  | _ => false

/-- the agent is willing to receive with this direction -/
def recvs : Dir → Bool
  | .sendrecv | .recvonly => true
  | _ => false

/-- RFC 3264 §6.1: `legal offered answered`.  sendonly ⇒ recvonly | inactive; recvonly ⇒ sendonly | inactive;
    inactive ⇒ inactive; sendrecv ⇒ anything. -/
def legal : Dir → Dir → Bool
  | .sendrecv, _ => true
  | .sendonly, a => a == .recvonly || a == .inactive
  | .recvonly, a => a == .sendonly || a == .inactive
  | .inactive, a => a == .inactive

/-- A section without direction attribute means sendrecv (RFC 3264 §5.1 / RFC 4566 §6). -/
def legalOpt : Option Dir → Dir → Bool
  | none, _ => true
  | some o, a => legal o a

end Spec

/-! ### rtptransceiver.go -/

/-- `RTPTransceiver.Stop()`: direction and currentDirection become inactive (sender and receiver are
    stopped, the sender stays attached). -/
def Tr.stop (t : Tr) : Tr := { t with dir := .inactive, cur := some .inactive, stopped := true }

/-- `setSendingTrack(track)` with `track != nil` (after `setSender(sender)`): never fails. -/
def Tr.attachTrack (t : Tr) : Tr :=
  { t with sender := true,
           dir := match t.dir with
             | .recvonly => .sendrecv
             | .inactive => .sendonly
             | d => d }

/-- `setSendingTrack(nil)`: the sender is detached first; the direction switch then fails for
    recvonly / inactive (`errRTPTransceiverSetSendingInvalidState`) — with the sender already gone. -/
def Tr.detachTrack (t : Tr) : Tr × Bool :=
  match t.dir with
  | .sendrecv => ({ t with sender := false, dir := .recvonly }, true)
  | .sendonly => ({ t with sender := false, dir := .inactive }, true)
  | _ => ({ t with sender := false }, false)

/-- `answerDirection(offered, local)`: the local direction narrowed to what RFC 3264 §6.1 allows as an answer
    to `offered` — send only if the offer receives, receive only if the offer sends. -/
def narrow (offered loc : Dir) : Dir :=
  let send := Spec.sends loc && Spec.recvs offered
  let recv := Spec.recvs loc && Spec.sends offered
  if send && recv then .sendrecv
  else if send then .sendonly
  else if recv then .recvonly
  else .inactive

/-- CreateAnswer before the second fix: the direction is emitted as it is -/
def noNarrow (_offered loc : Dir) : Dir := loc

/-- `isSendAllowed(kind)` -/
def Tr.isSendAllowed (t : Tr) (k : Kind) : Bool :=
  t.kind == k && !t.sender
    && !(t.cur == some .sendrecv || t.cur == some .sendonly)
    && !(t.curRemote == some .sendonly || t.curRemote == some .inactive)

/-- the preference lists of `satisfyTypeAndDirection` -/
def preferred : Dir → List Dir
  | .sendrecv => [.recvonly, .sendrecv, .sendonly]
  | .sendonly => [.recvonly]
  | .recvonly => [.sendonly, .sendrecv]
  | .inactive => []

/-- A working copy of `pc.rtpTransceivers` during one pass over the m-sections: the flag says whether the
    transceiver is still in the local slice `localTransceivers` (Go removes matched entries from a copied
    slice of pointers; the order of the remaining ones is the order of `pc.rtpTransceivers`). -/
abbrev Work := List (Tr × Bool)

def Work.ofList (ts : List Tr) : Work := ts.map (·, true)
def Work.toList (w : Work) : List Tr := w.map (·.1)

/-- First still-available transceiver satisfying `p`: returns it, removes it from the local slice and
    updates it in place with `f` (the transceiver is a pointer shared with `pc.rtpTransceivers`). -/
def pluck (p : Tr → Bool) (f : Tr → Tr) : Work → Option (Tr × Work)
  | [] => none
  | (t, av) :: rest =>
    if av && p t then some (t, (f t, false) :: rest)
    else match pluck p f rest with
      | some (x, rest') => some (x, (t, av) :: rest')
      | none => none

def hasMid (m : Nat) (t : Tr) : Bool := t.mid == some m

/-! ### peerconnection.go: SetRemoteDescription(offer) -/

/-- The direction adjustment switch of SetRemoteDescription (`remote` = direction of the offered
    m-section, `loc` = `transceiver.Direction()`), after the fix. -/
def adjust (remote loc : Dir) : Dir :=
  match remote, loc with
  | .recvonly, .sendrecv => .sendonly
  | .recvonly, .recvonly => .inactive
  | .sendrecv, .sendonly => .sendrecv
  | .sendrecv, .inactive => .recvonly
  | .sendonly, .inactive => .recvonly
  | .sendonly, .sendrecv => .recvonly
  | .sendonly, .sendonly => .inactive
  | _, l => l

/-- The switch before the fix: the `sendonly` case only handled a local `inactive`. -/
def adjustOld (remote loc : Dir) : Dir :=
  match remote, loc with
  | .recvonly, .sendrecv => .sendonly
  | .recvonly, .recvonly => .inactive
  | .sendrecv, .sendonly => .sendrecv
  | .sendrecv, .inactive => .recvonly
  | .sendonly, .inactive => .recvonly
  | _, l => l

/-- transceiver found by `findByMid`: `Stop()` when the section is inactive, then
    `setCurrentRemoteDirection`, then the switch; the mid stays. -/
def applyByMid (adj : Dir → Dir → Dir) (d : Dir) (t : Tr) : Tr :=
  let t := if d = .inactive then t.stop else t
  { t with curRemote := some d, dir := adj d t.dir }

/-- transceiver found by `satisfyTypeAndDirection`: `setCurrentRemoteDirection`, the switch, `SetMid`. -/
def applySatisfied (adj : Dir → Dir → Dir) (m : Nat) (d : Dir) (t : Tr) : Tr :=
  { t with curRemote := some d, dir := adj d t.dir, mid := some m }

/-- direction of a transceiver created for a remote section nobody matched -/
def newDir : Dir → Dir
  | .recvonly => .sendonly
  | .inactive => .inactive
  | _ => .recvonly

def newFromRemote (m : Nat) (k : Kind) (d : Dir) : Tr :=
  { kind := k, dir := newDir d, curRemote := some d, sender := false, mid := some m }

/-- `satisfyTypeAndDirection`: for each preferred direction in order, the first available transceiver
    without mid, of the kind, with that direction. -/
def satisfy (adj : Dir → Dir → Dir) (k : Kind) (m : Nat) (d : Dir) : List Dir → Work → Option Work
  | [], _ => none
  | pd :: pds, w =>
    match pluck (fun t => t.mid.isNone && t.kind == k && t.dir == pd) (applySatisfied adj m d) w with
    | some (_, w') => some w'
    | none => satisfy adj k m d pds w

/-- `getPeerDirection` of a remote m-section as SetRemoteDescription and generateMatchedSDP use it (since
    `fix: treat a remote m-section without a direction attribute as sendrecv`): sendrecv is the default. -/
def effDir (d : Option Dir) : Dir := d.getD .sendrecv

/-- one iteration of the m-section loop of SetRemoteDescription (remote offer, Unified Plan) -/
def srdSection (adj : Dir → Dir → Dir) (w : Work) (s : Sec) : Work :=
  let d := effDir s.dir
  match pluck (hasMid s.mid) (applyByMid adj d) w with
  | some (_, w') => w'
  | none =>
    match satisfy adj s.kind s.mid d (preferred d) w with
    | some w' => w'
    | none => w ++ [(newFromRemote s.mid s.kind d, false)]   -- addRTPTransceiver appends

def srdLoop (adj : Dir → Dir → Dir) (w : Work) (secs : List Sec) : Work := secs.foldl (srdSection adj) w

/-! ### setRTPTransceiverCurrentDirection -/

/-- the value stored by `setCurrentDirection` for an answer section with direction `d` -/
def curDirOf (weOffer : Bool) (d : Dir) (hasSender : Bool) : Dir :=
  if weOffer then
    match d with
    | .sendonly => .recvonly
    | .recvonly => .sendonly
    | x => x
  else if d = .sendonly ∧ hasSender = false then .inactive
  else d

/-- `setCurrentDirection` for one answer section (`dir = none`: no direction attribute ⇒ `continue`) -/
def setCur (weOffer : Bool) (dir : Option Dir) (t : Tr) : Tr :=
  match dir with
  | none => t
  | some d => { t with cur := some (curDirOf weOffer d t.sender) }

/-- The loop returns (its error is ignored by both callers) at the first section whose mid matches no
    remaining transceiver; a section without direction attribute consumes its transceiver and continues. -/
def curDirLoop (weOffer : Bool) : Work → List Sec → Work
  | w, [] => w
  | w, s :: rest =>
    match pluck (hasMid s.mid) (setCur weOffer s.dir) w with
    | none => w
    | some (_, w') => curDirLoop weOffer w' rest

/-! ### descriptions generated locally -/

/-- `addTransceiverSDP`: the section's direction attribute is `transceiver.Direction()` -/
def secOf (m : Nat) (t : Tr) : Sec := { mid := m, kind := t.kind, dir := some t.dir }

/-- `generateMatchedSDP`, Unified Plan: when answering (`nar = some f`) the matched transceiver's direction is
    first narrowed with `f offered` (`transceiver.setDirection(answerDirection(direction, Direction()))`);
    when offering (`nar = none`) it is left alone. -/
def narrowTr (nar : Option (Dir → Dir → Dir)) (d : Dir) (t : Tr) : Tr :=
  match nar with
  | none => t
  | some f => { t with dir := f d t.dir }

/-- The m-section loop of `generateMatchedSDP` over the remote description: a section without direction
    attribute counts as sendrecv, a section whose mid matches no remaining transceiver
    is an error (`errPeerConnTranscieverMidNil`: result `none`; transceivers narrowed before the error stay
    narrowed).  Returns the sections and the working list. -/
def matchedLoop (nar : Option (Dir → Dir → Dir)) : Work → List Sec → Option (List Sec) × Work
  | w, [] => (some [], w)
  | w, s :: rest =>
    match pluck (hasMid s.mid) (narrowTr nar (effDir s.dir)) w with
    | none => (none, w)
    | some (t, w') =>
      let r := matchedLoop nar w' rest
      (r.1.map (secOf s.mid (narrowTr nar (effDir s.dir) t) :: ·), r.2)

/-- `includeUnmatched`: the transceivers still in the local slice, in order (all have a mid by then) -/
def unmatchedSecs (w : Work) : List Sec :=
  w.filterMap (fun (t, av) => if av then some (secOf (t.mid.getD 0) t) else none)

/-- the numbering loop of CreateOffer (`greaterMid++; SetMid`); `next` = greaterMid + 1.  Since
    `fix: number new mids above every mid in use` greaterMid has been raised from every description and every
    transceiver before this loop runs. -/
def assignMids : Nat → List Tr → Nat × List Tr
  | next, [] => (next, [])
  | next, t :: rest =>
    match t.mid with
    | some _ =>
      let r := assignMids next rest
      (r.1, t :: r.2)
    | none =>
      let r := assignMids (next + 1) rest
      (r.1, { t with mid := some next } :: r.2)

/-- `updateGreaterMid` over all transceivers -/
def scanTrMids (next : Nat) (ts : List Tr) : Nat :=
  ts.foldl (fun n t => match t.mid with | some m => max n (m + 1) | none => n) next

def scanMids (next : Nat) (secs : List Sec) : Nat := secs.foldl (fun n s => max n (s.mid + 1)) next

/-! ### the PeerConnection -/

inductive Sig | stable | haveLocalOffer | haveRemoteOffer
  deriving DecidableEq, Repr, Inhabited

structure Pc where
  trs : List Tr := []
  /-- `greaterMid + 1` -/
  nextMid : Nat := 0
  sig : Sig := .stable
  /-- sections of `currentRemoteDescription` -/
  curRemote : Option (List Sec) := none
  /-- sections of `pendingRemoteDescription` -/
  pendRemote : Option (List Sec) := none
  /-- sections of `lastAnswer` -/
  lastAnswer : Option (List Sec) := none
  /-- ghost: every answer CreateAnswer produced, with the remote description it answered -/
  log : List (List Sec × List Sec) := []
  deriving Repr, Inhabited

/-- `RemoteDescription()`: pending if present, else current -/
def Pc.remoteDesc (s : Pc) : Option (List Sec) :=
  match s.pendRemote with
  | some p => some p
  | none => s.curRemote

inductive Op
  | addTrack (k : Kind)
  /-- `RemoveTrack(trs[i].Sender())`, for a transceiver that has a sender -/
  | removeTrack (i : Nat)
  | addTransceiver (k : Kind) (d : Dir)
  /-- `trs[i].Stop()` -/
  | stop (i : Nat)
  /-- `SetRemoteDescription(offer)` -/
  | remoteOffer (secs : List Sec)
  | createAnswer
  /-- `SetLocalDescription(lastAnswer)` -/
  | setLocalAnswer
  /-- `CreateOffer` followed by `SetLocalDescription(offer)`, issued in the stable state -/
  | localOffer
  /-- `SetRemoteDescription(answer)` -/
  | remoteAnswer (secs : List Sec)
  /-- `trs[i].SetSender(newSender, track)` called directly (no `isSendAllowed` test) -/
  | setSender (i : Nat)
  deriving Repr

/-- What an operation returns besides the new state. -/
inductive Res
  | ok
  | err
  /-- a description was produced -/
  | desc (secs : List Sec)
  deriving Repr, DecidableEq

/-- AddTrack: the first transceiver that `isSendAllowed`, else a new sendrecv transceiver. -/
def addTrackTo (k : Kind) : List Tr → List Tr
  | [] => [{ kind := k, dir := .sendrecv, sender := true }]
  | t :: rest => if t.isSendAllowed k then t.attachTrack :: rest else t :: addTrackTo k rest

def modifyAt (f : Tr → Tr) : List Tr → Nat → List Tr
  | [], _ => []
  | t :: rest, 0 => f t :: rest
  | t :: rest, i + 1 => t :: modifyAt f rest i

/-- CreateOffer's section list: against the current remote description when there is one. -/
def offerSecs (curRemote : Option (List Sec)) (ts : List Tr) : Option (List Sec) :=
  match curRemote with
  | none => some (ts.map (fun t => secOf (t.mid.getD 0) t))
  | some rs =>
    let r := matchedLoop none (Work.ofList ts) rs
    r.1.map (· ++ unmatchedSecs r.2)

/-- One API call on the PeerConnection; `adj` is the adjustment switch of SetRemoteDescription, `nar` the
    narrowing CreateAnswer applies. -/
def stepWith (adj nar : Dir → Dir → Dir) (s : Pc) : Op → Pc × Res
  | .addTrack k => ({ s with trs := addTrackTo k s.trs }, .ok)
  | .removeTrack i =>
    match s.trs[i]? with
    | none => (s, .err)
    | some t =>
      if t.sender then
        let r := t.detachTrack
        ({ s with trs := modifyAt (fun _ => r.1) s.trs i }, if r.2 then .ok else .err)
      else (s, .err)
  | .addTransceiver k d =>
    match d with
    | .sendrecv | .sendonly => ({ s with trs := s.trs ++ [{ kind := k, dir := d, sender := true }] }, .ok)
    | .recvonly => ({ s with trs := s.trs ++ [{ kind := k, dir := .recvonly, sender := false }] }, .ok)
    | .inactive => (s, .err)
  | .stop i =>
    match s.trs[i]? with
    | none => (s, .err)
    | some _ => ({ s with trs := modifyAt Tr.stop s.trs i }, .ok)
  | .remoteOffer secs =>
    -- a description without any m-section carries no ICE credentials: `extractICEDetails` rejects it
    -- before `setDescription` (since `fix: SetRemoteDescription validates the description before
    -- applying it`), so nothing changes
    if secs.isEmpty then (s, .err)
    else if s.sig = .stable then
      ({ s with sig := .haveRemoteOffer, pendRemote := some secs,
                trs := (srdLoop adj (Work.ofList s.trs) secs).toList }, .ok)
    else (s, .err)
  | .createAnswer =>
    if s.sig = .haveRemoteOffer then
      match s.remoteDesc with
      | none => (s, .err)
      | some off =>
        let r := matchedLoop (some nar) (Work.ofList s.trs) off
        match r.1 with
        | none => ({ s with trs := r.2.toList }, .err)
        | some ans =>
          ({ s with trs := r.2.toList, lastAnswer := some ans, log := s.log ++ [(off, ans)] }, .desc ans)
    else (s, .err)
  | .setLocalAnswer =>
    match s.lastAnswer with
    | none => (s, .err)
    | some ans =>
      if s.sig = .haveRemoteOffer then
        ({ s with sig := .stable, curRemote := s.pendRemote, pendRemote := none,
                  trs := (curDirLoop false (Work.ofList s.trs) ans).toList }, .ok)
      else (s, .err)
  | .localOffer =>
    if s.sig = .stable then
      -- the local descriptions are scanned too; their mids are mids of transceivers (no data channels here)
      let next0 := scanMids (scanMids s.nextMid (s.curRemote.getD [])) (s.pendRemote.getD [])
      let r := assignMids (scanTrMids next0 s.trs) s.trs
      let s1 := { s with nextMid := r.1, trs := r.2 }
      match offerSecs s.curRemote r.2 with
      | none => (s1, .err)
      | some secs => ({ s1 with sig := .haveLocalOffer }, .desc secs)
    else (s, .err)
  | .remoteAnswer secs =>
    -- an answer without any m-section carries no ICE credentials: rejected before `setDescription`
    if secs.isEmpty then (s, .err)
    else if s.sig = .haveLocalOffer then
      ({ s with sig := .stable, curRemote := some secs,
                trs := (curDirLoop true (Work.ofList s.trs) secs).toList }, .ok)
    else (s, .err)
  | .setSender i =>
    match s.trs[i]? with
    | none => (s, .err)
    | some _ => ({ s with trs := modifyAt Tr.attachTrack s.trs i }, .ok)

def runWith (adj nar : Dir → Dir → Dir) (s : Pc) (ops : List Op) : Pc :=
  ops.foldl (fun s o => (stepWith adj nar s o).1) s

/-- the code as it is (after the fixes) -/
def step (s : Pc) (o : Op) : Pc × Res := stepWith adjust narrow s o
def run (s : Pc) (ops : List Op) : Pc := runWith adjust narrow s ops

end WebrtcVerif.Directions
