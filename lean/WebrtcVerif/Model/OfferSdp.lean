/-!
# Model of offer generation for a PeerConnection without remote description (property C12)

Mirrors, branch by branch, for the Unified-Plan configuration and a connection that never received a
remote description:

* `peerconnection.go`: `AddTrack`, `AddTransceiverFromKind`, `AddTransceiverFromTrack`,
  `newTransceiverFromTrack`, `RemoveTrack`, `CreateDataChannel` (the `dataChannelsRequested` counter),
  `CreateOffer` (`updateGreaterMid` over the descriptions held — here only the pending local one — and over
  all transceivers, then numbering of the transceivers without mid; the retry loop around
  `hasLocalDescriptionChanged`, 128 attempts), `generateUnmatchedSDP` (`dataMediaSectionMid`);
* `sdp.go`: `populateSDP`, `addTransceiverSDP` (incl. the "no codecs" branches: error for a transceiver
  with a sender, rejected `m=` line carrying only its `a=mid` otherwise), `addSenderSDP` (ssrc-group FID / FEC-FR, `a=ssrc`
  sources, `a=msid`, `a=rid` / `a=simulcast` for more than one encoding), `getByMid`, `getPeerDirection`;
* `rtpsender.go`: `NewRTPSender`, `addEncoding`, `AddEncoding`, `GetParameters`, `Track`, `ReplaceTrack`
  (before `Send`), `Stop` (before `Send`);
* `rtptransceiver.go`: `setSendingTrack`, `isSendAllowed`, `Stop`.

Abstractions. SSRCs are random in the implementation (`util.RandUint32`): the model draws them from a
counter (`nextSsrc`, starting at 2^32 so that they never meet a caller-chosen uint32 SSRC) — symbolic names;
`0` is the Go zero value "unset"; an SSRC chosen through `RTPTransceiverInit.SendEncodings` is its own value. The identifiers that
`AddTransceiverFromKind` draws with `util.MathRandAlpha(16)` are `Ident.rand k`. Texts (stream ids,
track ids, rids) are natural numbers (the driver maps hex text injectively to `Nat`, `0` = empty string).
`currentDirection` / `currentRemoteDirection` are never `sendrecv`/`sendonly` resp. `sendonly`/`inactive`
without an answer, so `isSendAllowed` reduces to "same kind and no sender". `RTPSender.Send` is never
called (no negotiation completes), so `hasSent()` is false throughout.
-/
namespace WebrtcVerif.OfferSdp

inductive Kind | audio | video | unknown
  deriving DecidableEq, Repr, Inhabited

inductive Dir | sendrecv | sendonly | recvonly | inactive
  deriving DecidableEq, Repr, Inhabited

/-- stream / track identifier: chosen by the caller, or drawn at random by `AddTransceiverFromKind` -/
inductive Ident
  | user (n : Nat)
  | rand (k : Nat)
  deriving DecidableEq, Repr, Inhabited

/-- a `TrackLocal` as far as the offer is concerned -/
structure Track where
  stream : Ident
  id : Ident
  kind : Kind
  /-- `RID()`, 0 = "" -/
  rid : Nat
  deriving DecidableEq, Repr, Inhabited

/-- `trackEncoding` -/
structure Enc where
  track : Option Track
  ssrc : Nat
  /-- `ssrcRTX`, 0 = unset -/
  rtx : Nat
  /-- `ssrcFEC`, 0 = unset -/
  fec : Nat
  deriving DecidableEq, Repr, Inhabited

/-- `RTPSender` -/
structure Sender where
  kind : Kind
  encs : List Enc
  /-- `stopCalled` closed -/
  stopped : Bool
  deriving DecidableEq, Repr, Inhabited

/-- `RTPTransceiver`; `mid = none` is the empty string, otherwise the decimal text of the integer -/
structure Transceiver where
  kind : Kind
  mid : Option Int
  dir : Dir
  sender : Option Sender
  receiver : Bool
  /-- `Stop()` was called (currentDirection = inactive); the code keeps no other trace of it -/
  stopped : Bool
  deriving DecidableEq, Repr, Inhabited

/-- What the MediaEngine has registered: a primary codec per kind, a `video/rtx` codec and a
    `video/flexfec…` codec in the kind's codec list. -/
structure Engine where
  aCodecs : Bool
  vCodecs : Bool
  aRtx : Bool
  vRtx : Bool
  aFec : Bool
  vFec : Bool
  deriving DecidableEq, Repr, Inhabited

/-- `len(mediaEngine.getCodecsByKind(kind)) != 0` (equally `transceiver.getCodecs()`: the harness engines
    attach every RTX codec to a registered primary codec) -/
def Engine.hasCodecs (e : Engine) : Kind → Bool
  | .audio => e.aCodecs
  | .video => e.vCodecs
  | .unknown => false

/-- `mediaEngine.isRTXEnabled(kind, [sendonly])` -/
def Engine.rtx (e : Engine) : Kind → Bool
  | .audio => e.aCodecs && e.aRtx
  | .video => e.vCodecs && e.vRtx
  | .unknown => false

/-- `mediaEngine.isFECEnabled(kind, [sendonly])` -/
def Engine.fec (e : Engine) : Kind → Bool
  | .audio => e.aCodecs && e.aFec
  | .video => e.vCodecs && e.vFec
  | .unknown => false

structure St where
  eng : Engine
  /-- `Configuration.AlwaysNegotiateDataChannels` -/
  always : Bool
  trs : List Transceiver := []
  greaterMid : Int := -1
  /-- `sctpTransport.dataChannelsRequested` -/
  dcRequested : Nat := 0
  /-- next fresh SSRC name -/
  nextSsrc : Nat := 4294967296
  /-- next fresh random identifier -/
  nextRand : Nat := 0
  /-- `pc.lastOffer != ""` -/
  haveOffer : Bool := false
  /-- signaling state is have-local-offer (a `SetLocalDescription(offer)` succeeded) -/
  localOffer : Bool := false
  /-- the `a=mid` values (RTP sections, then the application section) of the last created offer -/
  lastOfferMids : List (Option Int) := []
  /-- the `a=mid` values of `pendingLocalDescription` (empty: none) -/
  pendingLocalMids : List (Option Int) := []
  deriving Repr

def init (eng : Engine) (always : Bool) : St := { eng, always }

/-! ## RTPSender -/

/-- `addEncoding`: a fresh SSRC, plus RTX / FEC SSRCs iff the engine has such a codec for the sender's kind.
    Returns the encoding and the next fresh SSRC. -/
def mkEnc (e : Engine) (k : Kind) (tr : Track) (n : Nat) : Enc × Nat :=
  let ssrc := n
  let n := n + 1
  let rtx := if e.rtx k then n else 0
  let n := if e.rtx k then n + 1 else n
  let fec := if e.fec k then n else 0
  let n := if e.fec k then n + 1 else n
  ({ track := some tr, ssrc, rtx, fec }, n)

/-- `NewRTPSender(track)` -/
def newSender (e : Engine) (tr : Track) (n : Nat) : Sender × Nat :=
  let (enc, n) := mkEnc e tr.kind tr n
  ({ kind := tr.kind, encs := [enc], stopped := false }, n)

/-- `RTPSender.Track()` -/
def Sender.track (sd : Sender) : Option Track :=
  match sd.encs with
  | [] => none
  | e :: _ => e.track

/-- one entry of `GetParameters().Encodings` -/
structure EncParams where
  rid : Nat
  ssrc : Nat
  rtx : Nat
  fec : Nat
  deriving DecidableEq, Repr, Inhabited

/-- `RTPSender.GetParameters().Encodings` -/
def Sender.params (sd : Sender) : List EncParams :=
  sd.encs.map fun e =>
    { rid := match e.track with | some t => t.rid | none => 0, ssrc := e.ssrc, rtx := e.rtx, fec := e.fec }

inductive Err
  | nocodec | dirunsup | ridnil | stopped | nobase | mismatch | ridcollision | kind | envelope
  | invalidstate | sendernocodec | retries | dcboth | sigstate
  deriving DecidableEq, Repr, Inhabited

/-- result of one API call; `skip` = the op line addressed a transceiver / sender that does not exist -/
inductive Res
  | ok | skip | err (e : Err)
  deriving DecidableEq, Repr, Inhabited

/-- `RTPSender.AddEncoding(track)` (track non-nil) -/
def Sender.addEncoding (e : Engine) (sd : Sender) (tr : Track) (n : Nat) : Except Err (Sender × Nat) :=
  if tr.rid = 0 then .error .ridnil
  else if sd.stopped then .error .stopped
  else
    match sd.track with
    | none => .error .nobase
    | some ref =>
      if ref.rid = 0 then .error .nobase
      else if ref.id ≠ tr.id ∨ ref.stream ≠ tr.stream ∨ ref.kind ≠ tr.kind then .error .mismatch
      else if sd.encs.any (fun en => match en.track with | some t => t.rid == tr.rid | none => false) then
        .error .ridcollision
      else
        let (enc, n) := mkEnc e sd.kind tr n
        .ok ({ sd with encs := sd.encs ++ [enc] }, n)

/-- `RTPSender.ReplaceTrack(track)` before `Send` was called -/
def Sender.replaceTrack (sd : Sender) (tr : Option Track) : Except Err Sender :=
  match tr with
  | some t =>
    if sd.kind ≠ t.kind then .error .kind
    else if sd.encs.length > 1 then .error .envelope
    else .ok { sd with encs := sd.encs.map fun e => { e with track := some t } }
  | none => .ok { sd with encs := sd.encs.map fun e => { e with track := none } }

/-! ## PeerConnection operations -/

/-- "Allow RTPTransceiverInit to override SSRC": a single encoding, a single init with a single send
    encoding whose SSRC is not 0 (`ov` = that SSRC, 0 = not given) -/
def overrideSsrc (sd : Sender) (ov : Nat) : Sender :=
  match sd.encs with
  | [en] => if ov ≠ 0 then { sd with encs := [{ en with ssrc := ov }] } else sd
  | _ => sd

/-- `newTransceiverFromTrack(direction, track, init…)` for sendrecv / sendonly; `ov` see `overrideSsrc` -/
def newTransceiverFromTrack (e : Engine) (d : Dir) (tr : Track) (n : Nat) (ov : Nat) :
    Except Err (Transceiver × Nat) :=
  match d with
  | .sendrecv =>
    let (sd, n) := newSender e tr n
    .ok ({ kind := tr.kind, mid := none, dir := .sendrecv, sender := some (overrideSsrc sd ov), receiver := true,
           stopped := false }, n)
  | .sendonly =>
    let (sd, n) := newSender e tr n
    .ok ({ kind := tr.kind, mid := none, dir := .sendonly, sender := some (overrideSsrc sd ov), receiver := false,
           stopped := false }, n)
  | _ => .error .dirunsup

/-- index of the first transceiver `AddTrack` may reuse (`isSendAllowed`) -/
def findReusable (k : Kind) : List Transceiver → Option Nat
  | [] => none
  | t :: ts => if t.kind = k ∧ t.sender = none then some 0 else (findReusable k ts).map (· + 1)

/-- direction switch of `setSendingTrack(track)` for a non-nil track (none of its cases fails) -/
def dirAfterAttach : Dir → Dir
  | .recvonly => .sendrecv
  | .inactive => .sendonly
  | d => d

/-- `AddTrack(track)` -/
def addTrack (s : St) (tr : Track) : St × Res :=
  match findReusable tr.kind s.trs with
  | some i =>
    match s.trs[i]? with
    | some t =>
      let (sd, n) := newSender s.eng tr s.nextSsrc
      let t' := { t with sender := some sd, dir := dirAfterAttach t.dir }
      ({ s with trs := s.trs.set i t', nextSsrc := n }, .ok)
    | none => (s, .skip)  -- unreachable
  | none =>
    match newTransceiverFromTrack s.eng .sendrecv tr s.nextSsrc 0 with
    | .ok (t, n) => ({ s with trs := s.trs ++ [t], nextSsrc := n }, .ok)
    | .error e => (s, .err e)

/-- the SSRC an `RTPTransceiverInit` asks for: only an init can carry `SendEncodings` -/
def initSsrc (d : Option Dir) (ov : Nat) : Nat := if d.isSome then ov else 0

/-- `AddTransceiverFromKind(kind, init…)`; `d = none` is "no RTPTransceiverInit"; `ov` = SSRC of the init's
    single send encoding (0 = none) -/
def addTransceiverFromKind (s : St) (k : Kind) (d : Option Dir) (ov : Nat) : St × Res :=
  match d.getD .sendrecv with
  | .recvonly =>
    ({ s with trs := s.trs ++ [{ kind := k, mid := none, dir := .recvonly, sender := none, receiver := true,
                                  stopped := false }] }, .ok)
  | .inactive => (s, .err .dirunsup)
  | dir =>
    if s.eng.hasCodecs k then
      let tr : Track := { id := .rand s.nextRand, stream := .rand (s.nextRand + 1), kind := k, rid := 0 }
      match newTransceiverFromTrack s.eng dir tr s.nextSsrc (initSsrc d ov) with
      | .ok (t, n) => ({ s with trs := s.trs ++ [t], nextSsrc := n, nextRand := s.nextRand + 2 }, .ok)
      | .error e => ({ s with nextRand := s.nextRand + 2 }, .err e)
    else (s, .err .nocodec)

/-- `AddTransceiverFromTrack(track, init…)` -/
def addTransceiverFromTrack (s : St) (tr : Track) (d : Option Dir) (ov : Nat) : St × Res :=
  match newTransceiverFromTrack s.eng (d.getD .sendrecv) tr s.nextSsrc (initSsrc d ov) with
  | .ok (t, n) => ({ s with trs := s.trs ++ [t], nextSsrc := n }, .ok)
  | .error e => (s, .err e)

/-- `GetTransceivers()[i].Sender().AddEncoding(track)` -/
def addEncoding (s : St) (i : Nat) (tr : Track) : St × Res :=
  match s.trs[i]? with
  | some t =>
    match t.sender with
    | some sd =>
      match sd.addEncoding s.eng tr s.nextSsrc with
      | .ok (sd', n) => ({ s with trs := s.trs.set i { t with sender := some sd' }, nextSsrc := n }, .ok)
      | .error e => (s, .err e)
    | none => (s, .skip)
  | none => (s, .skip)

/-- `RemoveTrack(GetTransceivers()[i].Sender())`: the sender is stopped, its tracks are cleared, it is
    detached from the transceiver, and only then the direction switch may refuse. -/
def removeTrack (s : St) (i : Nat) : St × Res :=
  match s.trs[i]? with
  | some t =>
    match t.sender with
    | some _ =>
      match t.dir with
      | .sendrecv => ({ s with trs := s.trs.set i { t with sender := none, dir := .recvonly } }, .ok)
      | .sendonly => ({ s with trs := s.trs.set i { t with sender := none, dir := .inactive } }, .ok)
      | _ => ({ s with trs := s.trs.set i { t with sender := none } }, .err .invalidstate)
    | none => (s, .skip)
  | none => (s, .skip)

/-- `GetTransceivers()[i].Sender().ReplaceTrack(track)` -/
def replaceTrack (s : St) (i : Nat) (tr : Option Track) : St × Res :=
  match s.trs[i]? with
  | some t =>
    match t.sender with
    | some sd =>
      match sd.replaceTrack tr with
      | .ok sd' => ({ s with trs := s.trs.set i { t with sender := some sd' } }, .ok)
      | .error e => (s, .err e)
    | none => (s, .skip)
  | none => (s, .skip)

/-- `GetTransceivers()[i].Stop()` -/
def stopTransceiver (s : St) (i : Nat) : St × Res :=
  match s.trs[i]? with
  | some t =>
    let sd' := t.sender.map fun sd => { sd with stopped := true }
    ({ s with trs := s.trs.set i { t with sender := sd', dir := .inactive, stopped := true } }, .ok)
  | none => (s, .skip)

/-- `CreateDataChannel`: `both` = MaxPacketLifeTime and MaxRetransmits both given (refused before the
    counter is touched) -/
def createDataChannel (s : St) (both : Bool) : St × Res :=
  if both then (s, .err .dcboth) else ({ s with dcRequested := s.dcRequested + 1 }, .ok)

/-! ## The offer -/

inductive Sem | fid | fecfr
  deriving DecidableEq, Repr, Inhabited

/-- an `a=ssrc:<id> …` source: the id and the msid announced for it -/
structure Source where
  ssrc : Nat
  stream : Ident
  track : Ident
  deriving DecidableEq, Repr, Inhabited

/-- abstract RTP m-section -/
structure Section where
  kind : Kind
  /-- `m=<kind> 0 UDP/TLS/RTP/SAVPF 0` line with no attribute but `a=mid` -/
  rejected : Bool
  mid : Option Int
  dirs : List Dir
  msids : List (Ident × Ident)
  sources : List Source
  groups : List (Sem × Nat × Nat)
  /-- `a=rid:<id> send` -/
  rids : List Nat
  /-- `a=simulcast:send <ids>` -/
  simulcast : Option (List Nat)
  deriving DecidableEq, Repr, Inhabited

/-- abstract offer: RTP sections in order, then the application section (its mid) if any -/
structure Offer where
  media : List Section
  app : Option Int
  deriving DecidableEq, Repr, Inhabited

/-- per encoding, `addSenderSDP` emits the groups … -/
def encGroups (p : EncParams) : List (Sem × Nat × Nat) :=
  (if p.rtx ≠ 0 then [(Sem.fid, p.ssrc, p.rtx)] else []) ++
  (if p.fec ≠ 0 then [(Sem.fecfr, p.ssrc, p.fec)] else [])

/-- … and the media sources -/
def encSources (tr : Track) (p : EncParams) : List Source :=
  [{ ssrc := p.ssrc, stream := tr.stream, track := tr.id }] ++
  (if p.rtx ≠ 0 then [{ ssrc := p.rtx, stream := tr.stream, track := tr.id }] else []) ++
  (if p.fec ≠ 0 then [{ ssrc := p.fec, stream := tr.stream, track := tr.id }] else [])

/-- `addTransceiverSDP` for a media section holding the single transceiver `t` (Unified Plan) -/
def transceiverSection (e : Engine) (t : Transceiver) : Except Err Section :=
  if e.hasCodecs t.kind then
    let base : Section := { kind := t.kind, rejected := false, mid := t.mid, dirs := [t.dir], msids := [],
                            sources := [], groups := [], rids := [], simulcast := none }
    match t.sender with
    | none => .ok base
    | some sd =>
      match sd.track with
      | none => .ok base
      | some tr =>
        let ps := sd.params
        .ok { base with
          msids := ps.map fun _ => (tr.stream, tr.id)
          sources := ps.flatMap (encSources tr)
          groups := ps.flatMap encGroups
          rids := if ps.length > 1 then ps.map (·.rid) else []
          simulcast := if ps.length > 1 then some (ps.map (·.rid)) else none }
  else if t.sender.isSome then .error .sendernocodec
  else .ok { kind := t.kind, rejected := true, mid := t.mid, dirs := [], msids := [], sources := [], groups := [],
             rids := [], simulcast := none }

/-- `populateSDP` over the RTP sections: the first failing section aborts -/
def sectionsOf (e : Engine) : List Transceiver → Except Err (List Section)
  | [] => .ok []
  | t :: ts =>
    match transceiverSection e t with
    | .error err => .error err
    | .ok sec =>
      match sectionsOf e ts with
      | .error err => .error err
      | .ok secs => .ok (sec :: secs)

/-- `dataMediaSectionMid`: the first number from `c` upwards that no section uses as its mid. The Go loop
    is unbounded; it ends after at most `len(sections) + 1` candidates, which is the fuel given by `dataMid`. -/
def dataMidFrom : Nat → Int → List (Option Int) → Int
  | 0, c, _ => c
  | f + 1, c, ids => if ids.contains (some c) then dataMidFrom f (c + 1) ids else c

def dataMid (ids : List (Option Int)) : Int := dataMidFrom (ids.length + 1) ids.length ids

/-- `generateUnmatchedSDP` + `populateSDP` -/
def generate (s : St) : Except Err Offer :=
  match sectionsOf s.eng s.trs with
  | .error e => .error e
  | .ok media =>
    .ok { media, app := if s.always || s.dcRequested != 0 then some (dataMid (s.trs.map (·.mid))) else none }

/-- `updateGreaterMid` (every mid in this scope is numeric) -/
def raiseMid (g : Int) : Option Int → Int
  | some m => if m > g then m else g
  | none => g

def raiseAll : Int → List (Option Int) → Int
  | g, [] => g
  | g, m :: ms => raiseAll (raiseMid g m) ms

/-- the numbering loop of `CreateOffer`: transceivers without mid get `greaterMid+1, …` -/
def numberMids : List Transceiver → Int → List Transceiver × Int
  | [], g => ([], g)
  | t :: ts, g =>
    match t.mid with
    | some _ =>
      let r := numberMids ts g
      (t :: r.1, r.2)
    | none =>
      let r := numberMids ts (g + 1)
      ({ t with mid := some (g + 1) } :: r.1, r.2)

/-- the mids of a description: RTP sections, then the application section -/
def offerMids (o : Offer) : List (Option Int) := o.media.map (·.mid) ++ [o.app]

/-- `getByMid` + `getPeerDirection` on the generated description: the first section (RTP sections, then
    the application section, whose direction attribute is `sendrecv`) carrying that mid -/
def lookupDir (o : Offer) (mid : Option Int) : Option (Option Dir) :=
  match o.media.find? (fun sec => sec.mid == mid) with
  | some sec => some sec.dirs.head?
  | none => if o.app.isSome && o.app == mid then some (some .sendrecv) else none

/-- `hasLocalDescriptionChanged` -/
def changed (trs : List Transceiver) (o : Offer) : Bool :=
  trs.any fun t =>
    match lookupDir o t.mid with
    | none => true
    | some d => d != some t.dir

/-- mid assignment of `CreateOffer`: raise `greaterMid` over the descriptions held (without a remote
    description and before any answer that is the pending local description only) and over all transceivers,
    then number the transceivers that have no mid -/
def assignSt (s : St) : St :=
  let g := raiseAll (raiseAll s.greaterMid s.pendingLocalMids) (s.trs.map (·.mid))
  let r := numberMids s.trs g
  { s with trs := r.1, greaterMid := r.2 }

/-- the `for` loop of `CreateOffer`; the first argument is the number of attempts left after this one (Go
    gives up when `count` reaches 128) -/
def offerLoop : Nat → St → St × Except Err Offer
  | 0, s =>
    let s1 := assignSt s
    match generate s1 with
    | .error e => (s1, .error e)
    | .ok o =>
      if !changed s1.trs o then ({ s1 with haveOffer := true, lastOfferMids := offerMids o }, .ok o)
      else (s1, .error .retries)
  | fuel + 1, s =>
    let s1 := assignSt s
    match generate s1 with
    | .error e => (s1, .error e)
    | .ok o =>
      if !changed s1.trs o then ({ s1 with haveOffer := true, lastOfferMids := offerMids o }, .ok o)
      else offerLoop fuel s1

/-- `CreateOffer(nil)` -/
def createOffer (s : St) : St × Except Err Offer := offerLoop 127 s

/-! ## Histories -/

inductive Op
  | addTrack (tr : Track)
  | addKind (k : Kind) (d : Option Dir) (ssrc : Nat)
  | addFromTrack (tr : Track) (d : Option Dir) (ssrc : Nat)
  | addEncoding (i : Nat) (tr : Track)
  | removeTrack (i : Nat)
  | replaceTrack (i : Nat) (tr : Option Track)
  | stop (i : Nat)
  | dataChannel (both : Bool)
  | offer
  /-- `SetLocalDescription(last offer)`: accepted in `stable` only (`checkNextSignalingState` refuses
      have-local-offer → SetLocal(offer)); the offer becomes the pending local description (whose mids
      `CreateOffer` numbers new transceivers above) and gathering starts -/
  | setLocal
  deriving DecidableEq, Repr, Inhabited

def step (s : St) : Op → St × Res
  | .addTrack tr => addTrack s tr
  | .addKind k d ov => addTransceiverFromKind s k d ov
  | .addFromTrack tr d ov => addTransceiverFromTrack s tr d ov
  | .addEncoding i tr => addEncoding s i tr
  | .removeTrack i => removeTrack s i
  | .replaceTrack i tr => replaceTrack s i tr
  | .stop i => stopTransceiver s i
  | .dataChannel b => createDataChannel s b
  | .offer =>
    match createOffer s with
    | (s', .ok _) => (s', .ok)
    | (s', .error e) => (s', .err e)
  | .setLocal =>
    if !s.haveOffer then (s, .skip)
    else if s.localOffer then (s, .err .sigstate)
    else ({ s with localOffer := true, pendingLocalMids := s.lastOfferMids }, .ok)

/-- run a history, collecting the result of every call -/
def runOps : St → List Op → St × List Res
  | s, [] => (s, [])
  | s, op :: ops =>
    let r := step s op
    let r' := runOps r.1 ops
    (r'.1, r.2 :: r'.2)

end WebrtcVerif.OfferSdp
