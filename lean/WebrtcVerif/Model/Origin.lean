import WebrtcVerif.Model.Signaling
/-
  Model of sdp.go `updateSDPOrigin` (and of its callers' use in peerconnection.go `CreateOffer` /
  `CreateAnswer`) — property C11.

      func updateSDPOrigin(origin *sdp.Origin, descr *sdp.SessionDescription) {
        if atomic.CompareAndSwapUint64(&origin.SessionVersion, 0, descr.Origin.SessionVersion) { // store
          atomic.StoreUint64(&origin.SessionID, descr.Origin.SessionID)
        } else { // load
          for { // awaiting for saving session id
            descr.Origin.SessionID = atomic.LoadUint64(&origin.SessionID)
            if descr.Origin.SessionID != 0 { break }
          }
          descr.Origin.SessionVersion = atomic.AddUint64(&origin.SessionVersion, 1)
        }
      }

  The two shared cells are `origin.SessionVersion` (`ver`) and `origin.SessionID` (`id`), both `uint64`,
  both zero in a new PeerConnection.  Every atomic instruction is ONE action of the transition system;
  any number of calls may be in flight and ANY interleaving of their instructions is allowed.  Nothing
  here assumes `pc.mu` (which happens to serialise the two callers in peerconnection.go): the theorems
  are about the function's own lock-free protocol.

  A "call" is one invocation of `updateSDPOrigin` with a freshly generated description, whose origin
  `(id0, v0)` was drawn by pion/sdp (`NewJSEPSessionDescription`: 63-bit random id, Unix time).
-/
namespace WebrtcVerif.Origin

/-- program counter of one invocation of `updateSDPOrigin` -/
inductive Pc
  | idle                      -- not invoked yet
  | called                    -- invoked; the CompareAndSwap has not executed yet
  | won                       -- CAS succeeded (descr keeps its own id0/v0); `StoreUint64(&origin.SessionID)` pending
  | spin                      -- CAS failed; in the `for` loop, no non-zero id loaded yet
  | loaded (id : UInt64)      -- a load returned `id ≠ 0`, loop left; `AddUint64` pending
  | done (id ver : UInt64)    -- returned; the description now carries `o=- id ver …`
  deriving DecidableEq, Repr

structure Call where
  id0 : UInt64                -- descr.Origin.SessionID on entry
  v0 : UInt64                 -- descr.Origin.SessionVersion on entry
  pc : Pc := .idle
  startAt : Nat := 0          -- ghost: value of the global step clock when the call was invoked
  doneAt : Nat := 0           -- ghost: value of the clock when it returned
  deriving DecidableEq, Repr

structure St where
  ver : UInt64 := 0           -- origin.SessionVersion
  id : UInt64 := 0            -- origin.SessionID
  now : Nat := 0              -- ghost: number of steps taken so far (one global monotonic clock)
  calls : List Call := []
  deriving DecidableEq, Repr

/-- the next atomic instruction of call `c` (index `i`), executed on state `s`; `none` when it has returned -/
def exec (s : St) (i : Nat) (c : Call) : Option St :=
  match c.pc with
  | .idle =>          -- invocation (no shared access)
      some { s with now := s.now + 1, calls := s.calls.set i { c with pc := .called, startAt := s.now } }
  | .called =>        -- atomic.CompareAndSwapUint64(&origin.SessionVersion, 0, descr.Origin.SessionVersion)
      if s.ver = 0 then
        some { s with ver := c.v0, now := s.now + 1, calls := s.calls.set i { c with pc := .won } }
      else
        some { s with now := s.now + 1, calls := s.calls.set i { c with pc := .spin } }
  | .won =>           -- atomic.StoreUint64(&origin.SessionID, descr.Origin.SessionID); return
      some { s with id := c.id0, now := s.now + 1,
                    calls := s.calls.set i { c with pc := .done c.id0 c.v0, doneAt := s.now } }
  | .spin =>          -- descr.Origin.SessionID = atomic.LoadUint64(&origin.SessionID); if != 0 break
      if s.id = 0 then
        some { s with now := s.now + 1 }
      else
        some { s with now := s.now + 1, calls := s.calls.set i { c with pc := .loaded s.id } }
  | .loaded r =>      -- descr.Origin.SessionVersion = atomic.AddUint64(&origin.SessionVersion, 1); return
      some { s with ver := s.ver + 1, now := s.now + 1,
                    calls := s.calls.set i { c with pc := .done r (s.ver + 1), doneAt := s.now } }
  | .done _ _ => none

/-- one step of the system: call `i` executes its next atomic instruction.  The schedule (which call
    moves next) is the only non-determinism; `none` = no such call, or it has returned. -/
def step (s : St) (i : Nat) : Option St :=
  match s.calls[i]? with
  | none => none
  | some c => exec s i c

/-- a new PeerConnection's origin (both cells zero) and the calls that will ever be made on it, each with
    the origin `(id0, v0)` of its freshly generated description -/
def init (ps : List (UInt64 × UInt64)) : St :=
  { calls := ps.map (fun p => { id0 := p.1, v0 := p.2 }) }

def runSched (s : St) : List Nat → Option St
  | [] => some s
  | i :: is => (step s i).bind (fun s' => runSched s' is)

/-- every state some interleaving can reach -/
inductive Reachable (ps : List (UInt64 × UInt64)) : St → Prop
  | init : Reachable ps (init ps)
  | step {s s' : St} (i : Nat) : Reachable ps s → step s i = some s' → Reachable ps s'

/-- The hypotheses of C11 on the generated descriptions: pion/sdp never produces a zero session id or a
    zero session version, and the version counter does not wrap (fewer than `2^64 - v0` calls). -/
def Hyp (ps : List (UInt64 × UInt64)) : Prop :=
  ∀ p ∈ ps, p.1 ≠ 0 ∧ p.2 ≠ 0 ∧ p.2.toNat + ps.length < 2 ^ 64

instance (ps : List (UInt64 × UInt64)) : Decidable (Hyp ps) := by
  unfold Hyp; infer_instance

/-- what a returned call wrote into its description -/
def Call.result (c : Call) : Option (UInt64 × UInt64) :=
  match c.pc with
  | .done id ver => some (id, ver)
  | _ => none

/-! ### sequential use: `updateSDPOrigin` run alone, and the API calls built on it -/

/-- `updateSDPOrigin` executed without interference on cells `(ver, id)` for a description `(id0, v0)`:
    new cells and the description's origin; `none` = the load loop never ends (cell `id` is 0 although
    `ver` is not). -/
def updateSeq (cells : UInt64 × UInt64) (d : UInt64 × UInt64) : Option ((UInt64 × UInt64) × (UInt64 × UInt64)) :=
  if cells.1 = 0 then some ((d.2, d.1), d)
  else if cells.2 = 0 then none
  else some ((cells.1 + 1, cells.2), (cells.2, cells.1 + 1))

/-- One `CreateOffer` / `CreateAnswer` call as far as the origin is concerned.  `CreateAnswer` generates
    one description.  `CreateOffer` loops: generate a description, `updateSDPOrigin`, marshal, and — if
    `hasLocalDescriptionChanged` — generate again (up to 128 times, then `errExcessiveRetries`); only the
    last description is returned.  `fresh` lists the pion/sdp origin `(id0, v0)` of every description
    generated inside the call (empty for a call that fails before generating one, e.g. wrong signaling
    state or closed connection); `returns = false` for a call that fails after the loop ran
    (`errExcessiveRetries`, marshal error). -/
structure Api where
  fresh : List (UInt64 × UInt64)
  returns : Bool := true
  deriving Repr

/-- run the `updateSDPOrigin` calls of one API call; result: cells and the origin of the last description -/
def runFresh (cells : UInt64 × UInt64) :
    List (UInt64 × UInt64) → Option (UInt64 × UInt64) → Option ((UInt64 × UInt64) × Option (UInt64 × UInt64))
  | [], last => some (cells, last)
  | d :: ds, _ =>
    match updateSeq cells d with
    | none => none
    | some (cells', o) => runFresh cells' ds (some o)

/-- a sequential history of API calls on one PeerConnection: the origins `(id, ver)` of the descriptions
    handed to the application, in order (`none` = some call spins forever) -/
def runHistory (cells : UInt64 × UInt64) : List Api → Option (List (UInt64 × UInt64))
  | [] => some []
  | a :: as =>
    match runFresh cells a.fresh none with
    | none => none
    | some (cells', last) =>
      match runHistory cells' as with
      | none => none
      | some outs =>
        match a.returns, last with
        | true, some o => some (o :: outs)
        | _, _ => some outs

/-- all descriptions generated inside a history, in order -/
def allFresh (h : List Api) : List (UInt64 × UInt64) := (h.map (·.fresh)).flatten

/-! ### one PeerConnection: CreateOffer / CreateAnswer between SetLocalDescription / SetRemoteDescription calls,
    including rollback and the (rejected) application of an older description

  The negotiation part (signaling state, pending/current descriptions, lastOffer/lastAnswer, the guards of
  CreateOffer/CreateAnswer, every row of checkNextSignalingState incl. the rollback rows) is
  `Model/Signaling.lean`.  What this section adds is the origin: `updateSDPOrigin` is called by CreateOffer
  (once per iteration of its loop) and by CreateAnswer, after their guards — and by nothing else:
  `setDescription`, for every type including rollback, leaves `pc.sdpOrigin` untouched. -/

structure PcSt where
  neg : Signaling.Neg := {}
  cells : UInt64 × UInt64 := (0, 0)         -- pc.sdpOrigin: (SessionVersion, SessionID)
  created : List (UInt64 × UInt64) := []    -- origins (id, ver) of the descriptions handed out so far, in order
  deriving DecidableEq, Repr

inductive PcAct
  | createOffer (a : Api)                   -- `a`: the descriptions generated inside the call, see `Api`
  | createAnswer (a : Api)
  | setLocal (d : Signaling.Desc)           -- any type (offer / pranswer / answer / rollback), any text: the last
  | setRemote (d : Signaling.Desc)          --   created description, an older one (`Txt.made k 0`), garbage …
  | close
  deriving Repr

/-- the origin part of a CreateOffer / CreateAnswer call whose guards passed; `neg'` is the negotiation
    state if the call returns a description (`pc.lastOffer` / `pc.lastAnswer` updated) -/
def pcGenerate (s : PcSt) (a : Api) (neg' : Signaling.Neg) : Option PcSt :=
  match runFresh s.cells a.fresh none with
  | none => none
  | some (cells', last) =>
    match a.returns, last with
    | true, some o => some { neg := neg', cells := cells', created := s.created ++ [o] }
    | _, _ => some { s with cells := cells' }

/-- one API call; `none` = the call spins forever in `updateSDPOrigin`'s load loop.  The k-th description
    handed out has the text `Txt.made k 0`. -/
def pcStep (s : PcSt) : PcAct → Option PcSt
  | .createOffer a =>
    let r := Signaling.createOffer s.neg s.created.length
    match r.err with
    | some _ => some s                       -- closed: returns before anything is generated
    | none => pcGenerate s a r.st
  | .createAnswer a =>
    let r := Signaling.createAnswer s.neg s.created.length
    match r.err with
    | some _ => some s                       -- no remote description / closed / wrong signaling state
    | none => pcGenerate s a r.st
  | .setLocal d => some { s with neg := (Signaling.setLocal s.neg d).st }
  | .setRemote d => some { s with neg := (Signaling.setRemote s.neg d).st }
  | .close => some { s with neg := (Signaling.close s.neg).st }

def pcRun (s : PcSt) : List PcAct → Option PcSt
  | [] => some s
  | a :: as => (pcStep s a).bind (fun s' => pcRun s' as)

def PcAct.fresh : PcAct → List (UInt64 × UInt64)
  | .createOffer a => a.fresh
  | .createAnswer a => a.fresh
  | _ => []

/-- every description any call of the history may generate -/
def pcFresh (acts : List PcAct) : List (UInt64 × UInt64) := (acts.map PcAct.fresh).flatten

end WebrtcVerif.Origin
